#!/bin/bash
# usage: refacb.sh <diff> [property|all]  — false-alarm measurement for a refactoring that was written against an OLDER
# commit of /repo than today's HEAD (later fix: commits touched the same lines). The variant is analysed on the newest
# of the listed base commits it applies to, with the reference indexes (rename index, E5 inventory) regenerated from
# that base, and only the alarms that the clean base does not raise itself are printed (the base still has the defects
# that later fix: commits repaired). Never touches /repo; nothing of maddy runs.
d=$1; prop=${2:-all}
n=$(basename $d .diff)
export GOFLAGS=-mod=mod GOPROXY=off GOSUMDB=off GOTOOLCHAIN=local
BIN=${BIN:-/verif/bin/maddyverif}
ok=""
for base in ${PIN_BASE:-$(git -C /repo log --format=%h -60)}; do
  wt=/tmp/rb_$n.$$
  flock /tmp/.verif_wt.lock git -C /repo worktree add -q --detach $wt $base || exit 2
  if ! git -C $wt apply --check $d 2>/dev/null; then
    flock /tmp/.verif_wt.lock git -C /repo worktree remove --force $wt; continue
  fi
  ref=/tmp/refbase_$base; mkdir -p $ref/evidence
  # the reference of a base is generated once (under a lock: several variants may want the same base at the same time)
  (
    flock 9
    if [ ! -f $ref/baseline.txt ]; then
      cp /verif/known_findings.json $ref/
      VERIF_ANCHORS_OUT=$ref/anchors_index.json $BIN -repo $wt -verif $ref -property ANCHORS >/dev/null 2>&1
      VERIF_ANCHORS_IN=$ref/anchors_index.json VERIF_KEPT_OUT=$ref/mustpass_index.json $BIN -repo $wt -verif $ref -property KEPT >/dev/null 2>&1
      VERIF_ANCHORS_IN=$ref/anchors_index.json VERIF_KEPT_IN=$ref/mustpass_index.json $BIN -repo $wt -verif $ref -property all 2>&1 | grep -E ': C[0-9]+\.|floor' | sed -E 's/^[^ ]+ (C[0-9]+\.[A-Za-z0-9]+ [^ ]+).*/\1/' | sort -u > $ref/baseline.tmp
      mv $ref/baseline.tmp $ref/baseline.txt
    fi
  ) 9>$ref/.lock
  git -C $wt apply $d || exit 2
  vd=/tmp/rbv_$n.$$; mkdir -p $vd/evidence; cp /verif/known_findings.json $vd/
  out=$(VERIF_ANCHORS_IN=$ref/anchors_index.json VERIF_KEPT_IN=$ref/mustpass_index.json $BIN -repo $wt -verif $vd -property $prop 2>&1)
  flock /tmp/.verif_wt.lock git -C /repo worktree remove --force $wt; rm -rf $vd
  # a variant that applies textually but no longer type-checks on this base (a later fix: commit uses a name the
  # variant renames) is tried on the next older base
  if echo "$out" | grep -q '\.load load:'; then continue; fi
  ok=1
  echo "$out" | grep -E ': C[0-9]+\.|floor' | grep -v "KNOWN-FINDING" | sed "s#$wt/##g" | while IFS= read -r line; do
    k=$(echo "$line" | sed -E 's/^[^ ]+ (C[0-9]+\.[A-Za-z0-9]+ [^ ]+).*/\1/')
    grep -qxF "$k" $ref/baseline.txt || echo "$line" | cut -c1-${3:-400}
  done
  echo "($n analysed on base $base)"
  break
done
[ -z "$ok" ] && { echo "$n: applies to none of the last 60 commits (or does not type-check on any)"; exit 2; }
exit 0
