#!/bin/bash
# usage: refacb.sh <diff> [property|all]  — false-alarm measurement for a refactoring that was written against an OLDER
# commit of /repo than today's HEAD (later fix: commits touched the same lines). The variant is analysed on the newest
# of the listed base commits it applies to, with the reference indexes (rename index, E5 inventory) regenerated from
# that base, and only the alarms that the clean base does not raise itself are printed (the base still has the defects
# that later fix: commits repaired). Never touches /repo; nothing of maddy runs.
d=$1; prop=${2:-all}
n=$(basename $d .diff)
export GOFLAGS=-mod=mod GOPROXY=off GOSUMDB=off GOTOOLCHAIN=local
BIN=/verif/bin/maddyverif
for base in $(git -C /repo log --format=%h -12); do
  wt=/tmp/rb_$n.$$
  flock /tmp/.verif_wt.lock git -C /repo worktree add -q --detach $wt $base || exit 2
  if git -C $wt apply --check $d 2>/dev/null; then break; fi
  flock /tmp/.verif_wt.lock git -C /repo worktree remove --force $wt; wt=""
done
[ -z "$wt" ] && { echo "$n: applies to none of the last 12 commits"; exit 2; }
ref=/tmp/refbase_$base; mkdir -p $ref/evidence
if [ ! -f $ref/baseline.txt ]; then
  cp /verif/known_findings.json $ref/
  VERIF_ANCHORS_OUT=$ref/anchors_index.json $BIN -repo $wt -verif $ref -property ANCHORS >/dev/null 2>&1
  VERIF_ANCHORS_IN=$ref/anchors_index.json VERIF_KEPT_OUT=$ref/mustpass_index.json $BIN -repo $wt -verif $ref -property KEPT >/dev/null 2>&1
  VERIF_ANCHORS_IN=$ref/anchors_index.json VERIF_KEPT_IN=$ref/mustpass_index.json $BIN -repo $wt -verif $ref -property all 2>&1 | grep -E ': C[0-9]+\.|floor' | sed -E 's/^[^ ]+ (C[0-9]+\.[A-Za-z0-9]+ [^ ]+).*/\1/' | sort -u > $ref/baseline.txt
fi
git -C $wt apply $d || exit 2
vd=/tmp/rbv_$n.$$; mkdir -p $vd/evidence; cp /verif/known_findings.json $vd/
VERIF_ANCHORS_IN=$ref/anchors_index.json VERIF_KEPT_IN=$ref/mustpass_index.json $BIN -repo $wt -verif $vd -property $prop 2>&1 | grep -E ': C[0-9]+\.|floor' | grep -v "KNOWN-FINDING" | sed "s#$wt/##g" | while IFS= read -r line; do
  k=$(echo "$line" | sed -E 's/^[^ ]+ (C[0-9]+\.[A-Za-z0-9]+ [^ ]+).*/\1/')
  grep -qxF "$k" $ref/baseline.txt || echo "$line" | cut -c1-${3:-400}
done
echo "($n analysed on base $base)"
flock /tmp/.verif_wt.lock git -C /repo worktree remove --force $wt; rm -rf $vd
