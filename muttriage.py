#!/usr/bin/env python3
"""usage: muttriage.py [func-substring]  — survivors of mutants/all.json grouped by function, logging/tracing deletions hidden"""
import json,sys,collections,re
d=json.load(open('/verif/mutants/all.json'))
sub=sys.argv[1] if len(sys.argv)>1 else ''
noise=re.compile(r'removed: (dl|[a-z.]*[Ll]og|[a-zA-Z.]*Task|region|c\.c\.log|cr\.log|dd\.log|s\.log|q\.Log|endp\.Log|rd\.Log|trace)\b|\.Debug|\.End\(\)|Inc\(\)|Observe\(|removed: defer trace|removed: defer [a-zA-Z]*Task')
by=collections.defaultdict(list)
for m in d:
    if m['verdict']=='survived' and m.get('tests','pass')=='pass' and sub in m['func'] and not noise.search(m['desc']):
        by[m['func']].append(m)
tot=collections.Counter(m['verdict'] for m in d)
print(dict(tot))
for f in sorted(by):
    k=sum(1 for m in d if m['func']==f and m['verdict']=='killed'); n=sum(1 for m in d if m['func']==f and m['verdict']!='invalid')
    print('\n== %s  (killed %d of %d valid)'%(f,k,n))
    for m in by[f]:
        print('  %5d %s:%d %-11s %s'%(m['id'],m['file'].split('/')[-1],m['line'],m['kind'],m['desc'][:130]))
