#!/bin/sh
# usage: refacall.sh  — false-alarm regression: applies every behaviour-preserving refactoring in /verif/refactorings
# to /repo (one at a time, reverted afterwards), runs all quick checks and reports any VIOLATION. Nothing of maddy runs.
cd /verif || exit 2
rc=0
for d in refactorings/*.diff; do
  n=$(basename $d .diff)
  out=$(./seedtest.sh /verif/$d all 2>&1)
  v=$(echo "$out" | grep -c '^VIOLATION')
  echo "$n: $v properties alarmed"
  if [ "$v" -ne 0 ]; then rc=1; echo "$out" | grep -E ': C[0-9]+\.' | grep -v 'parseRejectDirective:lit1\|K4 smtp.statusWrapper\|AddRcpt:recipients:append1' | cut -c1-300; fi
done
exit $rc
