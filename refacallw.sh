#!/bin/bash
# usage: refacallw.sh [jobs]  — false-alarm regression over the whole corpus in /verif/refactorings, in parallel scratch
# worktrees under /tmp (never touches /repo): variants that apply to HEAD are analysed there (refacw.sh), variants written
# against an older commit on the newest base they apply to (refacb.sh, baseline alarms of that base subtracted).
# Prints one line per variant: "<name>: quiet" or the alarms. Nothing of maddy runs.
cd /verif || exit 2
run() {
  d=$1; n=$(basename $d .diff)
  out=".load load:"
  if git -C /repo apply --check /verif/$d 2>/dev/null; then
    out=$(/verif/refacw.sh /verif/$d all 2>&1 | grep -E ': C[0-9]+\.[A-Za-z0-9]+ |floor|patch does not')
  fi
  if echo "$out" | grep -q '\.load load:'; then
    out=$(/verif/refacb.sh /verif/$d all 2>&1 | grep -E ': C[0-9]+\.[A-Za-z0-9]+ |floor|applies to none')
  fi
  if [ -z "$out" ]; then echo "$n: quiet"; else echo "$n: ALARMS"; echo "$out" | cut -c1-260 | sed 's/^/    /'; fi
}
export -f run
ls refactorings/*.diff | xargs -P ${1:-6} -I{} bash -c 'run {}'
