# table read by mkmanifest.py
claim("C17", "boundary evaluation of the ASCII predicate (go/constant), SSA shape and provenance-chain rules over the address/dns key functions",
      "Necessary structural conditions of the normalisation laws, decided on every run over the current source: IsASCII predicate evaluated at U+007F/U+0080; Equal is a==b || F(a)==F(b) with F=ForLookup on both sides (gives reflexive/symmetric/transitive and 'coincides with key equality' by construction); key functions pure (no mutable global, clock, environment in their maddy call cone); every success value passed IDNA-decode → NFC → lower-casing in that order; Split is complementary. The value-level laws (idempotence, variant collapse, round trips) are not decided.",
      "trusts go/types, go/ssa (x/tools v0.29.0) and the documented behaviour of idna.ToUnicode, norm.NFC.String, strings.ToLower", "DESIGN.md §3 C17")

for _id in ["C01","C02","C03","C04","C05","C06","C07","C09","C10","C11","C12","C13","C14","C15","C18","C19","C20"]:
    PENDING[_id] = "static check designed in DESIGN.md §3 but not yet built in this round; not claimed until its check exists and is quiet on the unchanged tree"

claim("C16", "enumeration of all SMTP error literals and field maps with abstract path evaluation (go/cfg + go/constant) of their code classes; path evaluation of the two code helpers; reader/writer type agreement of the error field map; SSA provenance of the reply text; boundary evaluation of the ASCII mask",
      "Decides, for every SMTPError / smtp_code literal and helper in the current tree (a finite, fully enumerated set: the property quantifies over 'all SMTP error literals and helper-computed codes in the source tree'), that basic and enhanced code classes agree on every acyclic path of the enclosing function; that SMTPCode/SMTPEnchCode follow the temporariness predicate; that the converters' default pairs agree with the predicate that drives retry; that every Fields(err)[K].(T) reader has a writer of type T; that err.Error() never reaches the reply text; and that the non-SMTPUTF8 mask starts at U+0080. Not decided: run-time composition of fields from different wrappers.",
      "trusts go/types, go/cfg, go/ssa; A1 (go-smtp derives class.0.0 from EnhancedCodeNotSet)", "DESIGN.md §3 C16")
PENDING.pop("C16", None)

claim("C02", "must-pass-through / ordering queries over go/cfg paths of the queue's storage functions (sync-before-ack, write-new→sync→rename, recovery keyed on the commit record, persist-before-reschedule, report-before-forget), file roles resolved from constant path suffixes",
      "Decides the order of durable effects on every control-flow path (with repeated conditions correlated) of storeNewMessage, updateMetadataOnDisk, readDiskQueue, tryDelivery, queueDelivery.Body/Abort, removeFromDisk: a necessary condition of every clause of the crash property. It does not enumerate crash points or execute recovery.",
      "trusts go/types, go/cfg; A2 (Sync/Rename/Create/Remove/Encode do what they document)", "DESIGN.md §3 C02")
PENDING.pop("C02", None)

claim("C01", "typestate, must-record and partition queries over go/cfg paths of the queue's deliver / tryDelivery / emitDSN with error nil-ness refinement; boundary evaluation (go/constant) of the attempt-bound comparison",
      "Decides on every control-flow path of the queue's delivery loop: the downstream delivery is closed exactly once and never used afterwards; Commit only when not all accepted recipients failed; each failure of Start/AddRcpt/Body/Commit is recorded for every recipient it concerns; the per-attempt classification is a partition with retry only for temporary/unclassified errors and strictly below max_tries (comparison evaluated at tries=0,max=1 and max=2); the report is decided and handed over before the spool forgets; emitDSN suppresses only for the three allowed reasons. The status keys reported by targets below the queue are C09's rules.",
      "trusts go/types, go/cfg; does not model remote servers", "DESIGN.md §3 C01")
PENDING.pop("C01", None)

claim("C10", "type-graph reachability of credential fields through JSON-visible fields; dominance/ordering queries (go/cfg) that every encoder operand is a stripped fresh copy; parameter pass-through and file-role agreement rules",
      "Decides: the only JSON-visible path from the spooled record to a credential is MsgMetadata.Conn, and every JSON encoding in the queue package is dominated by DeepCopy → Conn=nil with no later store of a connection state; the envelope fields named by the property are JSON-visible and round-trippable and reader/writer use one type; header/body/envelope parameters reach the file writer and the downstream target without intervening stores, mutating calls or bounded readers; reader and writer agree on file roles. Byte-exactness of the library serialisers is not decided.",
      "trusts go/types, go/cfg; A2 (encoding/json field visibility rules)", "DESIGN.md §3 C10")
PENDING.pop("C10", None)
claim("C18", "provenance and dominance rules over emitDSN / tryDelivery / toSMTPErr (go/cfg + type-checked AST)",
      "Decides the structural clauses of the failure-report property: reported address = original-recipient-map entry of the failed recipient (fallback only on a miss); the report loop ranges over exactly the failed list; status/diagnostic come from the stored last error; bounce envelope = null return path → the failed message's sender, report metadata without original sender; a null-sender test dominates the bounce Start (loop freedom); the original header reaches the generator; a stored status can never be the unset 0.x.x. MIME well-formedness is not decided.",
      "trusts go/types, go/cfg", "DESIGN.md §3 C18")
PENDING.pop("C18", None)

claim("C12", "channel-discipline, lockset and single-call-site rules over the scheduler (type-checked AST + go/cfg lockset queries)",
      "Decides the structural footprint of the scheduler property: sends on a channel that is closed somewhere share a mutex with the close (or no such close exists); request/acknowledge channels are unbuffered; one dispatch call site, on the timer branch, after removal of that very entry under the lock; one scheduler goroutine; every slot-list access holds the mutex; Add inserts before notifying; the synchronous part of the queue's dispatch callback cannot block; Close stops the wheel before waiting; the panic handler only renames. The interleaving space is not explored.",
      "trusts go/types, go/cfg; a race without one of these structural footprints is invisible to this check", "DESIGN.md §3 C12")
PENDING.pop("C12", None)

claim("C03", "relational typestate analysis over go/cfg (method inlining, deferred closures replayed at exits, error nil-ness and constant-flag refinement) of Session.delivery for all library-callable methods × entry states; fan-out completeness, commit-order and acquire/release pairing queries",
      "Decides on every abstract path (entry states {Nil,Open} for MAIL/RCPT/RSET/QUIT, {Open} for DATA, per assumption A1 pinned to the go-smtp version): the open delivery is never overwritten or dropped while open, never used/closed when not open, Reset/Logout leave nothing open; the stored sender is immutable while open; pipeline Commit/Abort close every started target delivery; Commit only after successful body preparation, loop check and Body; success reply only after successful Commit; a taken permit is released with the same key or owned by the open delivery whose clean-up releases it; late-started target deliveries are recorded. What a target's Abort undoes is not decided.",
      "trusts go/types, go/cfg; A1 about go-smtp's command sequencing (version pinned, check fails if go.mod resolves another version)", "DESIGN.md §3 C03")
PENDING.pop("C03", None)

claim("C11", "acquire/release pairing queries over go/cfg exits with error nil-ness refinement (session, remote target, destination permit, roll-back), guard/use and write-only-list rules on the scope wiring, nil-returning-helper and guard-contradiction rules, sign rule for staleness comparisons",
      "Decides: each scope's limiter is built from its own constructor list; on every control-flow exit after a successful Take* the permit is released with the same key or owned by an object whose Close releases it (endpoint session = C03.R5, remote Start/Close, connectionForDomain, every iteration of the Close loop); roll-back in Group.TakeMsg and MultiLimit releases exactly the stages/prefix acquired; no limiter that may be absent is dereferenced; staleness comparisons have the satisfiable direction. The run-time count of holders is not explored.",
      "trusts go/types, go/cfg; two named infeasible-path exceptions with mechanically checked side-conditions (DESIGN.md §2.3)", "DESIGN.md §3 C11")
PENDING.pop("C11", None)

claim("C09", "value provenance over go/ssa (def-use chains through static callees, closures, struct fields with program-wide store enumeration, reaching definitions for local cells) of every SetStatus key; control-flow rules for status-all loops, skip counters and translating collectors",
      "Decides for every SetStatus call site of the server that the key is value-identical to an argument of the same object's AddRcpt/Rcpt (only elements of a list whose every store appends the unmodified parameter); lists on objects that outlive a transaction are reset at transaction start; accepting methods append once; a status-all loop is final; a skip counter advances on every reporting path of the callback; rewriting layers translate back and never twice. The next hop's own reply count/order is not decided.",
      "trusts go/types, go/ssa, go/cfg; go-smtp's LMTP client reports statuses in acceptance order (read in the pinned version)", "DESIGN.md §3 C09")
PENDING.pop("C09", None)

claim("C05", "who-may-call rules, dominance/bracketing queries over go/cfg (policy loops around the dial, REQUIRETLS comparisons before MAIL, quarantine before sending), store-placement rules for security levels, SSA freshness of weakened TLS configurations, immutability of message-wide metadata",
      "Decides: only attemptMX dials (call chain connect←attemptMX←newConn←connectionForDomain); complete CheckMX loop before and complete CheckConn loop after the dial with errors returning and closing; levels are per-attempt locals stored only after all checks; policies are skipped only under TLSRequireOverride&&allowSecOverride and such deliveries never pool their connections; REQUIRETLS comparisons dominate MAIL and bypass the pool; each TLS weakening lowers the level and is applied to a private clone only; message metadata is not written per destination; quarantined messages reach no sending call. Library behaviour (MTA-STS, X.509, DNSSEC) is trusted.",
      "trusts go/types, go/cfg, go/ssa; policy implementations are judged only through their interface use", "DESIGN.md §3 C05")
PENDING.pop("C05", None)
claim("C13", "edge-dominance queries over go/cfg of verifyDANE and daneDelivery.CheckConn (accept only over a verification success edge; fail-closed worlds obtained by removing condition edges), lexical record-class rules, nil-ness refinement of the caller",
      "Decides: every accepting return needs the success edge of an EE-record verification (record from the usage-3 list against PeerCertificates[0]) or of the X.509 chain verification of PeerCertificates[0]; roots are only CA certificates matching a usage-2 record; options carry the server name and an initially empty root pool; usage/selector/matching-type filtering; no certificate access without a completed handshake; records without TLS and usable-records-without-match return an error; only-unusable is neutral; CheckConn grants the authenticated level only on (true,nil), propagates errors and defers on lookup failure.",
      "trusts go/types, go/cfg; A2 for (dns.TLSA).Verify and (*x509.Certificate).Verify", "DESIGN.md §3 C13")
PENDING.pop("C13", None)

claim("C19", "lockset queries (go/cfg) for the key table and bucket channels, ownership queries for received connections with ok-flag refinement, hand-out dominance with the lifetime comparison evaluated in a fresh/stale model world (go/constant), critical-section rules for unlinking and (re)inserting slots",
      "Decides the discipline that the pool property rests on: all table accesses and bucket sends/closes under the mutex; each received connection handed out xor closed on every path, drains close everything; hand-out only after Usable() and a lifetime test of the right direction; closed buckets unlinked in the same critical section, slots never written back across a released mutex; shutdown marker set by Close and tested by Return under the lock; single user. Interleavings and liveness are not explored.",
      "trusts go/types, go/cfg; model world for time arithmetic (stamps=1000, limits=100)", "DESIGN.md §3 C19")
PENDING.pop("C19", None)

claim("C04", "must-pass / miss-edge queries over go/cfg of the rule-insertion loops and of the two block selectors; sibling stage-sequence comparison; provenance of lookup keys through the normaliser",
      "Decides the structural part of routing precedence: rule keys normalised before duplicate test and insert (first declaration wins on the normalised key); selectors normalise with address.ForLookup and use that value for table/full/domain lookups; stage order table ≺ full ≺ domain ≺ default with later stages only over miss edges, identical in both selectors; hand-over only to the selected block's targets after the reject reply was honoured. Semantic comparison with the documentation over generated configurations is not decided.",
      "trusts go/types, go/cfg; what the normaliser computes is C17", "DESIGN.md §3 C04")
PENDING.pop("C04", None)
claim("C06", "sibling stage-sequence comparison of the two body paths, error-edge reachability queries (go/cfg) for every check stage, once-guard/slot analysis of the parallel merge, publish-after-replay ordering query",
      "Decides: Body and BodyNonAtomic run the same ordered stages; after an error of any check stage no success return and no hand-over to a target is reachable; reject has its own once-guarded slot, is returned first after Wait, quarantine accumulates and is copied to the message; new check states are published only after a successful replay. 'Exactly once per check' over completion orders is not explored.",
      "trusts go/types, go/cfg", "DESIGN.md §3 C06")
PENDING.pop("C06", None)

claim("C07", "exhaustiveness of the action switch against the policy constants of the library type, all-paths queries (go/cfg) on the reject/quarantine cases, abstract path evaluation of the reject code per temporary-error branch, fail-closed world queries on Verifier.Apply, reader/writer agreement on the lookup-error form",
      "Decides ONLY the enforcement plumbing: every published action has a handler, reject refuses on all paths (4yz exactly on the temporary-error branch), quarantine flags on all paths; Apply returns none without a record and rejects under a temporariness test when the lookup failed; FetchRecord hands lookup errors to that test unwrapped (Apply uses a plain type assertion). The DMARC verdict table (alignment, organizational domains, pct, subdomain policy, From shapes) is a value-level function and is NOT decided: a change inside EvaluateAlignment/isAligned/ExtractFromDomain is invisible to this check.",
      "trusts go/types, go/cfg", "DESIGN.md §3 C07")
PENDING.pop("C07", None)

claim("C14", "SSA provenance of table keys and of the user name on every way into a provider (count of mapping applications), map-literal agreement of hash tables, all-returns rule of the provider, edge-dominance queries for the authorization identity, the submission gate (three-valued world evaluation of compound conditions) and the recording of the authenticated user",
      "Decides: one normaliser for every table operation; stored tags have verifiers and equal the selecting key; the provider succeeds only through the selected verifier on the supplied password; the mapping is applied exactly once for PLAIN, LOGIN and the endpoints' direct AUTH PLAIN, both mechanisms report the client's name; unmapped names are refused when a map is configured; differing authorization identity refused before authentication; MAIL cannot start a transaction in the world 'auth required, nobody authenticated'; the gate is armed for submission; the user is recorded only after success. Histories of the table backend are not decided.",
      "trusts go/types, go/cfg, go/ssa", "DESIGN.md §3 C14")
PENDING.pop("C14", None)

claim("C15", "first-decision / world queries over go/cfg (three-valued evaluation of compound conditions), provenance of the lookup arguments through the normalisers, error-edge discipline, contradiction rule on repeatable header fields, equality-only acceptance of the entitlement predicate",
      "Decides: with an empty authenticated user the routine performs nothing and refuses; envelope and header checks pass the session's user, the header check accepts only over an accepting result; user and address are normalised before the entitlement lookup; the header decision reads every From field and, with a From list, refuses or authorizes every address; each fallible step ends in the error action with a reason; the entitlement predicate accepts only by equality with address, domain or '*'. Table contents and net/mail parsing are not decided.",
      "trusts go/types, go/cfg", "DESIGN.md §3 C15")
PENDING.pop("C15", None)

claim("C20", "compiler BCE log (compile only) as the oracle of remaining bounds checks, each discharged by a dominating-guard prover over linear facts from go/cfg branch conditions; panic-site enumeration in the call cone; recursion-cycle bounding (structural / depth-guarded edges, remaining graph acyclic); loop-progress classification; post-condition and line-accounting path queries",
      "Decides the crash-freedom and termination clauses structurally: every index/slice operation of cfgparser and lexer that the compiler could not prove in bounds is discharged by a guard that dominates it; no explicit panic / single-value assertion / nil-map write / variable division in the cone of Read; every recursion cycle contains a structurally descending or depth-guarded call; every non-range loop consumes input (one named exception with a checked side-condition); macro/snippet declarations never reach the result, names are validated, imports are re-expanded after a splice; every consumed line feed is counted. The print/parse round trip, the shipped configuration files and the size of import expansion are not decided.",
      "trusts go/types, go/cfg and the compiler's prove/BCE pass (an operation absent from its log cannot fail)", "DESIGN.md §3 C20")
PENDING.pop("C20", None)

# ---- additions of the second round (DESIGN.md §R.6 / §R.7): appended to the texts above
def _add(id, tech_extra, text_extra):
    tech, text, note, ref = CLAIMED[id]
    CLAIMED[id] = (tech + "; " + tech_extra, text + " Added in round 2: " + text_extra, note, ref + ", §R.6")

_add("C02", "commit-record writer rules", "every writer of the commit record goes through the temp→sync→rename routine; the per-recipient record maps are written where the spool forgets a recipient.")
_add("C03", "mechanised library assumption (go-smtp source is loaded with syntax), per-target failure marking", "assumption A1 is re-derived from the library source on every run (a replaced session must be logged out – compensated in NewSession); on the per-recipient (LMTP) path a target that did not accept the body is marked and Commit aborts it; a failure of one target is reported for exactly its recipients.")
_add("C04", "alias rule for rewritten recipients", "rewritten recipients never alias the rule tables.")
_add("C06", "monotonicity rules", "the registry of recipient blocks is never shrunk during a transaction; quarantine is monotone; verdict guards are classified by model worlds (Reject / Quarantine) instead of syntax.")
_add("C07", "value-world evaluation of the action dispatch (policy == v for every published constant)", "the action per policy value is decided on the flow graph whatever the dispatch form; with DMARC enabled the verdict is obtained on every path.")
_add("C09", "status-all events through helpers/closures, per-target reporting", "fresh translating collector per call, raw key forwarded only on a table miss; the per-connection fan-out covers every accepted recipient.")
_add("C10", "deep-copy and same-object rules", "stored metadata is a deep copy; the synced files are the files that were written.")
_add("C11", "eviction rule", "a table value is not used after a pass that may evict it; roll-back helpers are followed.")
_add("C12", "Close/Add interference and semaphore pairing rules", "Close invalidates nothing a concurrent Add still uses; the attempt goroutine acquires the semaphore before registering its release (also when written as a method).")
_add("C13", "model-world enumeration of record classification (usage × selector × matching type), discovery-cone error rule, value identity of the lookup future", "the usage-2/usage-3 lists receive exactly their usable records and nothing out of range, nothing usable is dropped (decided for any loop/branch form); a resolver error other than not-found ends the discovery with that error; the TLSA future completed by the lookup goroutine is a local of the very PrepareConn call and the only future ever installed.")
_add("C14", "nil-origin classification of every return (SuccessOnlyFrom)", "SASLAuth.AuthPlain returns nil only as the nil result of a configured provider.")
_add("C15", "accept-only-over-positive-answer rule", "authzSender accepts only over the (true, nil) answer of the entitlement lookup; refusals built by helpers are followed.")
_add("C16", "field cells in the path evaluator; mask-dominates-reply rule", "an in-place rewrite of one half of a code pair after a copy was taken is seen; without SMTPUTF8 every reply leaves wrapErr through the mask applied to the final text; helper parameters are judged with the constants their callers pass.")
_add("C17", "whole-program ASCII boundary rule", "every comparison of a character with 127/128 in the server is evaluated at the boundary.")
_add("C18", "reaching-definition worlds for the reported address; alias-record and format-flag rules", "the reported address is decided by reaching definitions in the worlds 'map has an entry' / 'has none' (any loop form, builder helpers followed); the pipeline records (rewritten ↦ original) exactly when the two differ, keyed by the variable handed to the target; the report's format flag is the flag it is submitted with.")
_add("C19", "drain completeness and close⇒drain rules, interprocedural lockset", "a drain loop is never left early; every close of a bucket channel is followed on all paths by a drain of that channel; helpers inherit the locks all their callers hold.")
_add("C20", "nesting-counter discipline, character-classification rule, caller-established index preconditions", "an invocation that gave its nesting level back reads no further node (the bound cannot be bypassed); unicode predicates are applied to decoded characters; an index on a parameter of an unexported helper is proved at every call site.")
# ---- third pass: rules that came out of the mutant triage (DESIGN.md §R.8)
def _add3(id, text_extra):
    tech, text, note, ref = CLAIMED[id]
    CLAIMED[id] = (tech, text + " From the mutant triage: " + text_extra, note, ref + ", §R.8")
_add3("C01", "a re-queued recipient's attempt counter is incremented and a failed recipient's last error stored in that iteration; the message is removed exactly in the world 'retry list empty' and re-scheduled exactly otherwise; the delivery is aborted only when no accepted recipient succeeded; the all-failed flag is initialised with the opposite of its flip value.")
_add3("C02", "no storage function reports success after a failed file operation, copy, encode or sync (R8); loading removes files only on the not-exist edge (R9).")
_add3("C03", "the compensation for the replaced session is reached whenever a previous session exists.")
_add3("C05", "the override flag originates only from `TLS-Required: No`; the override condition is false with only one of its two flags set; a failed TLSA lookup defers (C13's rules imported as R7).")
_add3("C06", "the merged quarantine flag is raised with the constant true; a lazily created check state replays the recipients already checked before it is published.")
_add3("C07", "p= vs sp= is chosen by 'record found at a domain other than the From domain and sp present' (decided per world on reaching definitions / returns); FetchRecord returns the domain whose lookup produced the record.")
_add3("C11", "the sender-domain key is computed identically at the take and the release site (empty for the empty sender, Split(sender) otherwise, release not skipped); a scope's limiter is built exactly when limits are configured; Release* gives back every scope Take* acquired.")
_add3("C13", "without any record the result is neutral with or without TLS; only AD=true RRsets are used and an authenticated non-empty RRset is what the discovery returns; the no-lookup shortcut is taken only for unauthenticated address records; CheckConn always consults the lookup when a resolver is configured and maps not-found to neutral.")
_add3("C15", "nothing but 'no connection' / 'header check disabled' skips the authorization; more than one From field ends in a refusal (evaluated with the counter = 2); the prepare_email translation is what the entitlement lookup judges when one exists.")
_add3("C16", "Code and EnhancedCode are copied from a typed error together.")
_add3("C18", "the bounce is a proper transaction (pipeline configured, generation errors stop it, no use after a failed Start, Commit only after AddRcpt and Body succeeded, each successful stage proceeds to the next, the deferred clean-up aborts iff a stage failed).")
_add3("C19", "a freshly made bucket is stored only on the miss edge of a lookup of the same key.")
_add3("C20", "expandMacros and expandEnvironment descend into the children of every node and return the errors of the descent.")
def _add4(id, text_extra):
    tech, text, note, ref = CLAIMED[id]
    CLAIMED[id] = (tech, text + " Third round: " + text_extra, note, ref + ", §R.9")
_E = "in the functions its rules depend on, the error of every step is read before it is overwritten or the function returns (E1), a failed step is used or refused and not treated as done (E2), a nil error is not handed on as the failure (E3), the value of a failed comma-ok assertion / lookup / receive is not used (E4), and every effect – store to a struct field, call into maddy / the operating system / the synchronisation and mail libraries, channel send – that every successful path performed in the reference tree is still performed on every successful path (E5, reference inventory checker/mustpass_index.json, DESIGN.md §R.12)"
for _id in list(CLAIMED):
    _add4(_id, _E + ".")
def _add5(id, text_extra):
    tech, text, note, ref = CLAIMED[id]
    CLAIMED[id] = (tech, text + " " + text_extra, note, ref)
_add5("C03", "The session's message lock is balanced on every path (L1) and the transaction state is only touched under it, including deferred and local closures and the status callback (L2); LMTPData hands the body to the delivery before Commit.")
_add5("C06", "Check-runner locks are balanced (L1); every caller of the connection-stage checks refuses and does not go on to authenticate when a check refused (R2b).")
_add5("C07", "FetchRecord treats a failed lookup as 'no record here' only when it is a DNS not-found (R5).")
_add5("C10", "The first attempt sees the header, stored body and metadata that Body accepted: Body -> Commit -> slot -> dispatch -> tryDelivery -> deliver pass them on unchanged (R3f).")
_add5("C11", "Limiter locks are balanced (L1), the bucket table is only touched under its mutex (L2); the per-IP key is the peer's address exactly for a TCP peer at the take and release sites of the endpoint and of the remote target (R3b); BucketSet enforces iff configured, refuses a full table, inserts iff missing, releases an existing bucket (R7).")
_add5("C12", "Scheduler locks are balanced (L1); Close closes the channel a blocked Add waits on and performs the stop handshake exactly when the scheduler exists (R9).")
_add5("C14", "AuthPlain verifies part 1 of the looked-up value under the verifier selected by part 0; create / set-password succeed only after the table accepted the hash of the supplied password; create cannot replace existing credentials (R3c).")
_add5("C15", "The 'found' flag of the translation lookup is set on every path; the answer of a lookup that found nothing is no entitlement.")
_add5("C19", "The pool lock is balanced (L1); a receive that reports 'closed' yields no connection (R2b); on the user side the pool's answer is asserted only when non-nil and a connection taken or opened is recorded for Close or closed on every path (R7).")
# ---- fourth round: rules prompted by the third set of independently seeded changes (DESIGN.md §R.11)
def _add6(id, text_extra):
    tech, text, note, ref = CLAIMED[id]
    CLAIMED[id] = (tech, text + " Fourth round: " + text_extra, note, ref + ", §R.11")
_add6("C01", "what smtpconn.C.Close returns never derives from the QUIT command's error (a failed QUIT after the final dot is not a failed delivery) (R6); the maps of the spooled record that tryDelivery writes are non-nil in every record that can be read back, omitempty tags included (C02.R7 evaluated as R7).")
_add6("C02", "a spool file that is synced is written directly or through a buffering writer flushed – not by defer – on every path before that Sync (R1c).")
_add6("C04", "a check / modifier group obtained from a directive is merged into a block element by element, its slice is never kept (named groups are shared) (R5b); the two lookup-key functions return only IDNA-decoded, NFC-normalised, lower-cased values, are pure and give the decoder an ASCII-lowered name (C17.R3/R4/R4c evaluated as R6); the session state Rcpt consults before it starts a deferred delivery is assigned by every accepted MAIL (R7); a recipient block is accepted only with a target or a reject reply (R8); table.regexp reports a matching key as found also without a replacement (R9).")
_add6("C05", "what PrepareDomain / PrepareConn leave in a policy's per-message object for CheckMX / CheckConn is assigned afresh on every call; a skipping path is guarded by configuration only (R9); the DANE verdict that raises a connection to 'authenticated' is C13's whole rule set (R7b); no delivery target copies the message metadata at Start, so the quarantine verdict reaches the remote target through the queue (C06.R5 as R8b).")
_add6("C06", "the stage functions record their stage for replay on every path (checkConnSender: sender and mailFromReceived before any return; checkRcpt: the recipient on every path after the states were obtained) (R4d); no DeliveryTarget.Start copies the message metadata – the quarantine verdict is written to that object later (R5).")
_add6("C07", "in internal/dmarc two computed strings are never compared byte-wise and no computed string is used as a prefix / suffix pattern; isAligned answers true only as EqualFold(from, auth) or EqualFold(org(from), org(auth)) (R7).")
_add6("C09", "the pipeline's original-recipient table is written under the variable handed to the target whenever it differs from the client's spelling, and is created only where there is none – never replaced (C18.R8 evaluated as K7).")
_add6("C10", "queueDelivery.AddRcpt accepts only after appending the unmodified parameter to the pending list (R5); partialError.SetStatus files a failure under the key it was called with (R6).")
_add6("C11", "the constructor handed to a keyed limiter table builds its result from scratch on every call: of captured variables it only ranges over, measures, indexes or calls the configured constructors (R8).")
_add6("C12", "the entry that is dispatched is chosen only by the scan over the whole list and every timer is armed with that entry's remaining time (R2); the scheduler's stopped flag is read and written only by the scheduler's own methods (R4b).")
_add6("C15", "a lazily created check state is asked about the sender before it is registered, and the stage functions record the sender stage for that replay on every path (C06.R4 / R4d evaluated as R8).")
_add6("C18", "the original-recipient table is created only where there is none and never replaced (R8).")
_add6("C14", "the hash functions (signature of the compute / verify registries) never assign, re-slice, index or transform their password parameter (R3d); user-name keys that are parameters of new helpers are judged at the helpers' call sites.")
_add6("C17", "in framework/address and framework/dns no byte of a string is converted to a rune or a string; character copies range over the string (R7); the domain handed to idna.ToUnicode by the key functions has its ASCII letters lowered first (R4c, assumption A3 about the decoder demonstrated in findings/).")
_add6("C19", "every send / receive on a bucket channel is a case of a select with a default branch, a range over a bucket follows its close in the same function (R8); implementations of Conn.Usable close nothing (R9).")
# ---- fifth round (DESIGN.md §R.13)
def _add7(id, text_extra):
    tech, text, note, ref = CLAIMED[id]
    CLAIMED[id] = (tech, text + " Fifth round: " + text_extra, note, ref + ", §R.13")
_S = "E5b (on every successful path on which a call effect of the reference tree occurs, the field store that followed it there still occurs) and E6 (a variable declared and updated inside a loop body in the reference tree is still declared inside that loop), evaluated – like E5 – on the property's functions and their direct callees inside the server"
for _id in list(CLAIMED):
    _add7(_id, _S + ".")
_add5("C02", "The commit record is written after header and body were synced (R1d).")
_add5("C03", "Roll-back inside the limiter group and the remote target's destination permits (C11.R2 evaluated as R5c).")
_add5("C04", "Results of LookupMulti are never written through (R5c); a table's Lookup never makes 'found' depend on an empty value (R9b).")
_add5("C06", "A named check group is merged by copy (C04.R5b as R6); the remote target refuses quarantined mail on both body paths (C05.R8 as R5b); every recipient block a recipient was routed to is registered for the body stage (R1c).")
_add5("C07", "The context of the asynchronous policy fetch outlives the function that starts it (R8); applyResults comes after the body checks of every scope on both body paths (C06.R1 as R9).")
_add5("C09", "The translating collector reads a table owned by its delivery, filled where the rewrite is recorded (K9); the queue's collector files under the key it is called with (C10.R6 as K8).")
_add5("C10", "The default spool directory is per instance (R7); the commit record is written last (C02.R1d as R7b).")
_add5("C11", "An entry leaves the remote delivery's connection table only together with its permit (R2c); roll-back by deferred closures is understood.")
_add5("C12", "Add's wake-up cannot be dropped (R7b); a recovered record is re-scheduled at a time that depends only on that record (R10).")
_add5("C13", "An AD flag read next to a response's answers is that response's (R5c); override connections are never pooled (C05.R3/R4 as R7).")
_add5("C14", "sasllogin hands the responses over verbatim (R3e); NormalizeAuto is a PRECIS profile on both branches (R1b).")
_add5("C15", "Every configurable normaliser is pure, package-level sync/atomic values included (R9).")
_add5("C16", "A constant code stored into an error built from a literal moves the class digit of the same variable with it (R1f).")
_add5("C17", "The escape state of UnquoteMbox is a flag raised only in the backslash case and lowered after every copied character (R8).")
_add5("C18", "Diagnostic-Code text is cleared of CR and LF individually (R11).")
_add5("C19", "Nothing registered with the configuration map is read before cfg.Process(): the pool is built from the processed settings (R10).")
_add5("C20", "Import expansion is bounded in total by a budget shared with imported files, not only in depth (R3b).")
# ---- sixth round (DESIGN.md §R.14)
def _add8(id, text_extra):
    tech, text, note, ref = CLAIMED[id]
    CLAIMED[id] = (tech, text + " Sixth round: " + text_extra, note, ref + ", §R.14")
_S8 = "E7 (a result computed per element of a list on every way round the loop and read after the loop is accumulated, never overwritten: no loop hands on the result for its last element only); E1-E4 are evaluated on every function of the packages the property is anchored in"
for _id in list(CLAIMED):
    _add8(_id, _S8 + ".")
_add5("C01", "The status kept per failed recipient never has enhanced-code class 0: run-time codes are copied only under a test of their class digit (the report writer refuses class 0 and no report would be emitted) (R9).")
_add5("C02", "The retry wheel's callback never waits on the wheel's own goroutine – no channel operation outside a select with default, no Wait / Sleep / TimeWheel.Add, directly or in synchronous callees (R10).")
_add5("C03", "A function from the message reader to a buffer returns a buffer only when every read ended with nil or io.EOF and never reads through io.ReadFull / io.ReadAtLeast (a connection lost in mid-DATA is not the end of the message) (R8).")
_add5("C05", "The extended resolver keeps a response's AD bit only under a loopback test of the server that answered (R10); a policy lookup goroutine completes the future created by its own call, never one re-read from the shared policy object (R11).")
_add5("C06", "The result of every stage call on a check state is handed on whole on every path (R7); the action parser leaves Reject / Quarantine as the first argument says in each of its three worlds, custom reply or not (R8); the pipeline starts every target with its own metadata object (R5c).")
_add5("C07", "No check result is dropped on the way to the merge (C06.R7 as R9b); targets hold the metadata object the quarantine verdict is written to (C06.R5/R5c as R9c); Apply's reject may be returned through a local policy variable.")
_add5("C09", "The translating collector translates in one step: its table is always read with the key SetStatus was called with (K10).")
_add5("C10", "A hand-written MarshalJSON on a record type writes every envelope field the property names; other hand-written (un)marshallers on record types are undecided (R2).")
_add5("C11", "In a select between acquiring and giving up, the acquire case leads only to the constant success, a give-up case never to it (R9).")
_add5("C12", "Every store into the record in tryDelivery is followed by updateMetadataOnDisk on every path to the re-scheduling (R11); a record read back after a restart carries no nil map tryDelivery writes to (C02.R7 as R12).")
_add5("C13", "The AD bit is believed per answering server (C05.R10 as R5d); the lookup goroutine never completes its future in a deferred function (a panic would read as 'no TLSA records') (R6).")
_add5("C14", "compute and verify of every hash tag apply the same functions to the password on its way to the KDF (R3f).")
_add5("C15", "The *_action directives keep their flags through the shared parser (C06.R8 as R10); the sender's source block is selected with the normalised address, domain rule included (C04.R1r as R11).")
_add5("C16", "SMTPCode and SMTPEnchCode classify with the same predicate (R2); in tryDelivery the error that is classified is the one stored as the recipient's status on every path (R3c).")
_add5("C18", "Body / Commit errors are recorded for exactly the accepted recipients (C01.R2 as R12); the reported status is the one of the attempt that gave the recipient up (C16.R3c as R13).")
_add5("C20", "Every node entering the tree, and every macro definition entering the macro table, passed expandMacros since it was read (R5); one pass of the environment clean-up expression leaves nothing the same expression matches, decided for the constant pattern over all strings of up to seven tokens of its alphabet (R7).")
# ---- seventh round (DESIGN.md §R.15)
for _id in list(CLAIMED):
    tech, text, note, ref = CLAIMED[_id]
    CLAIMED[_id] = (tech, text, note, ref + ", §R.15")
_add5("C01", "Optional fields of the failure report never abort the report (R10); the wheel callback never waits (C02.R10 as R11); the spooled record differs from the live one only in the stripped connection state (C10.R1c as R12).")
_add5("C02", "queueDelivery.Commit cannot fail once Body stored the message (R11); a failure report's spool key is freshly generated (R12).")
_add5("C03", "NewSession never waits for the previous session's message lock – TryLock or a goroutine of its own (R9); only Body / BodyNonAtomic write a target's bodyFailed flag (R10).")
_add5("C04", "Every deliver_to target that was constructed is appended to its block (R10).")
_add5("C05", "smtpconn.C.Close leaves no usable client behind, whatever QUIT was answered (R12); policy verdicts wait for their lookup with the caller's own context (R13).")
_add5("C06", "A (check state, recipient) pair does not stay on record when the check refused the recipient (R9); a check state sees the body once however many blocks reference the check (R10); MsgMetadata.DeepCopy carries every field (R11).")
_add5("C07", "Names reach the case-sensitive public suffix list lower-cased (R7b); whether a From field was seen is a flag, not the collected value (R10); merged authentication results only grow (R11); the From field is parsed as transmitted, not after RFC 2047 decoding (R12).")
_add5("C10", "Every store into message metadata inside the queue targets a DeepCopy result (R8); Body keeps a copy of the header, not the caller's value (R3f).")
_add5("C11", "The destination permit is released under the string it was taken under: the domain parameter reaches mxConn.domain unassigned (R10).")
_add5("C12", "Loading a message for a retry removes spool files only on the not-exist edge (C02.R9 as R13); a recipient's attempt counter is deleted on every path on which the recipient leaves the pending list (R14).")
_add5("C13", "A truncated DNS reply is never handed on as the answer (R5e); the resolver returns the whole TLSA RRset (R5f); the unauthenticated TLS retry keeps the configuration with its ServerName (R8).")
_add5("C14", "Every provider that decides by asking further providers reports success only as a provider's nil answer – auth.plain_separate included (R3b); a package-local user-name normaliser applies the PRECIS profile on every path (R1); the update statement gets the insert statement's argument list (R3g).")
_add5("C15", "table.file's reload stamp is a modification time (R12); framework/address has no unproven index or slice operation – a panicking check goroutine would count as passed (C17.R9 as R13).")
_add5("C16", "Errors built in the limits packages keep the wrapped error in their chain (%w) (R4b); the report's Status line is printed from the stored status unmodified (R7); a named boolean or a delegation to SMTPCode with the class digits is understood in the helpers (R2).")
_add5("C17", "The ASCII letters of a domain are lowered only after NFC normalisation (R4c); the compiler's remaining bounds checks in framework/address are discharged by dominating guards (R9).")
_add5("C19", "On the failed-QUIT edge smtpconn.C.Close closes the socket itself (R11); a connection's lastUseAt is stamped when its own transaction ends, not after the join of all connections (R12).")
_add5("C20", "Macro expansion is bounded: after a replacement list is spliced in, the list's length is compared with a bound (R3c); the import budget is shared by reference with imported files (R3b); numLineBreaks counts exactly the lexer's line feed (R6c); environment placeholders are substituted after the last import was expanded, so snippet bodies are covered (R4b).")
# ---- eighth round (DESIGN.md §R.16)
for _id in list(CLAIMED):
    tech, text, note, ref = CLAIMED[_id]
    CLAIMED[_id] = (tech, text + " Discipline rules added in round 7, on every function of the property's packages: E8 (a possibly-nil pointer is not stored into an interface-typed place that the module compares with nil), E9 (a slice aliasing the list being ranged over grows by at most one element per element read), E10 (a package-level map is not stored into a field the package writes through), E11 (the pointer / interface result of a step is not dereferenced on the path on which its error is non-nil); E1 also covers errors constructed into a variable.", note, ref + ", §R.16")
_add5("C01", "A fan-out over connections / targets reports each part's outcome for that part's recipients only (C09.K11 as R13); the next hop's 552 is turned into 452 for the answer to RCPT only (C16.R9 as R14).")
_add5("C02", "The staging file of a record rewrite is opened truncating (R13).")
_add5("C04", "A recipient is recorded for a target only on paths on which that target's AddRcpt was called in the same iteration (R11).")
_add5("C05", "The field the requiretls_override directive stores into is the one tested together with the message's override flag (R14); every weakening of the TLS configuration in connect is followed, on every path to the next connection attempt, by the lowering of the reported level (R6, flow form).")
_add5("C06", "The refusal-is-not-remembered condition holds for every runner that records a (state, recipient) pair, the replay of checkStates included (R9); while the DMARC lookup error is classified with a bare type assertion FetchRecord returns it unwrapped (R12); once the checks have run every successful return lies behind the test that no reject was recorded (R13).")
_add5("C07", "The author domain leaves ExtractFromDomain converted to A-labels and is not converted back on the way to the query (R14); lookup errors reach the type assertion unwrapped (R13).")
_add5("C09", "Inside a BodyNonAtomic loop over connections / targets a status is reported only for recipients of that part (K11); a recipient enters a target's accepted list only after the next hop accepted it (K12); the connection table is read and written under one key variable (K13).")
_add5("C10", "Nothing is stored into the message metadata after the body was handed to the delivery (R9); a MemoryBuffer never aliases sync.Pool storage (R10); an envelope address reaches the pipeline only behind a utf8.ValidString test (R11).")
_add5("C12", "module.GetInstance registers the shutdown hook only after Init returned (R15); a map field that Close sets to nil is stored into only behind a nil test (R16); every goroutine the queue's methods start is counted by a wait group first (R17).")
_add5("C13", "A DANE refusal is enforced by a Close that leaves no usable client (C05.R12 as R9); dns.FQDN only qualifies the name – no conversion to U-labels on the way into a TLSA query (R10).")
_add5("C14", "table.file's reload stamp is a modification time (C15.R12 as R3h); table.regexp adds no capturing group around the user's expression (R5b) and anchors a group around the whole expression under full_match (R5c).")
_add5("C15", "Keys are made with letter-to-letter lower-casing, never with full case folding (C17.R4 as R14); a recorded reject wins over a quarantine (C06.R13 as R15); full_match anchors the whole expression (R16); the header stage accepts only with an accepting verdict – judged in the world in which every verdict is a refusal (R2).")
_add5("C16", "WithTemporary(err, true) never wraps an error that stems from an smtpconn operation (R8); the next hop's reply code is rewritten for RCPT only (R9); the SASL server handed to the SMTP library is the endpoint's own and every error of its Next is an *smtp.SMTPError (R10); authorize_sender's header stage replaces a verdict by the constant refusal only behind a test that it is not temporary (R11).")
_add5("C17", "What Split returns is the argument, a slice of it or nothing (R5); a case-folding step made with cases.Fold() is not lower-casing (R4).")
_add5("C18", "A recipient enters a target's accepted list only after acceptance (C09.K12 as R14); the stored error text is not cut at a byte index (R15); smtpconn.C.Mail converts the reverse-path only when it is not empty (R16).")
_add5("C19", "A one-valued receive from a bucket channel whose value is used is refused (R2c); a map field that Close sets to nil is stored into only behind a nil test (R13); a connection the pool handed out is taken over or closed, never dropped in favour of a new one (R7).")
_add5("C20", "In-string macro expansion is bounded: after a value is substituted into an argument the argument's length is compared with a bound (R3d).")
for _id in list(CLAIMED):
    tech, text, note, ref = CLAIMED[_id]
    CLAIMED[_id] = (tech, text, note + "; rules are form-agnostic (named booleans, if/switch, loop forms, extracted helpers, renamed unexported functions and fields – DESIGN.md §R.7) and measured against a corpus of 61 behaviour-preserving refactorings (60 quiet) (functions the reference tree did not have are read as part of their callers – §R.10) (refactorings/, refacallw.sh)", ref)
# ---- ninth round (DESIGN.md §R.17): C08 claimed for its structural part
claim("C08", "ordering / must-pass and error-refinement queries over go/cfg paths of the DKIM signer's feeding sequence and of smtpconn Data/LMTPData; writer/reader agreement rules (configuration directive → option field, key table normaliser, PEM type ↔ parser, newkey_algo ↔ generator) over the type-checked AST; parameter pass-through rules on every Data call site; edge-removal world query (verification error non-nil) in check.dkim",
      "Structural part only – NOT whether a given message verifies (canonicalisation, hashing and signature arithmetic are go-msgauth's, the serialisers go-message's and go-smtp's; deciding that needs execution over generated messages and is outside static analysis). Decided on every run, each a necessary condition of the statement: (R1) in modify.dkim RewriteBody the signer created by dkim.NewSigner receives the header parameter and then an unbounded copy of body.Open() of the body parameter, header before body, is closed with its error read before Signature() is taken, the signature is added with AddRaw to that same header on every successful path that created a signer, nothing else is added to or removed from the header after its field list or bytes went to the signer, and no failed step is followed by success or by a signature; (R2) HeaderCanonicalization / BodyCanonicalization / Hash are read from the very fields the directives header_canon / body_canon / hash store into, every value those directives admit (defaults included) is one go-msgauth has a canonicalizer for resp. one the hash table maps (sha256 → crypto.SHA256), h= is computed from the header that is signed, i= is '@' + the variable of d=, s= is the configured selector or its A-label form, and the key is looked up for the domain of d= under the same normaliser Init stores the keys under; (R3) fieldsToSign lists a configured field once per instance in the header (loop over FieldsByKey of the element), an over-signed one exactly once more, a plainly signed one never more, filters duplicates with the key expression it records, and returns the list it built; (R4) the generated private key is the one marshalled into the key file, published (its Public() half, base64.StdEncoding) and returned; rsa2048/rsa4096/ed25519 each have the generator of that kind and size and carry the k= tag DKIM defines; the PEM type written is read back with the x509 parser matching the marshaller; (R5) smtpconn Data and LMTPData write the header parameter, then an unbounded copy of the body parameter, close the data writer with its error read, and never report success after a failed step; (R6) every call of Data / LMTPData in the server passes the header parameter of the function it stands in, unmodified, and the body parameter or body.Open() of it; (R7) check.dkim verifies io.MultiReader(serialised header parameter, body.Open()) and in the world 'verification error non-nil' neither the good-signature flag nor the value pass is reachable; (R8 = C10.R3, C10.R3f) the queue stores, reloads and hands on header and body unmodified. Plus the discipline rules E1–E11 and the reference inventory E5/E5b/E6 on every function of internal/modify/dkim, internal/check/dkim and internal/smtpconn.",
      "trusts go/types, go/cfg; go-msgauth, go-message and go-smtp are judged only through their interface use (A2); the order of modifiers in a configuration is not visible", "DESIGN.md §3 C08 (as revised in §R.17), §4")
# ---- ninth round, rules added to the other properties (DESIGN.md §R.17)
for _id in list(CLAIMED):
    if _id == "C08":
        continue
    tech, text, note, ref = CLAIMED[_id]
    CLAIMED[_id] = (tech, text + " Discipline rule added in round 8, on every function of the property's packages: E12 (no loop ranges over a collection that the assignment before it created empty – a copy loop whose operand is the fresh destination).", note, ref + ", §R.17")
_add5("C01", "After a failed QUIT smtpconn.C.Close returns nil: the outcome of closing a connection the peer has reset (over TLS the close_notify alert cannot be sent) is not reported either (R6, second obligation).")
_add5("C02", "The staging file of a record rewrite is named after the message (the record's own path plus a suffix) and is the source of the rename (C12.R19 as R14).")
_add5("C04", "Every part of a reject block's reply is its default or taken from the directive's arguments, nothing rewrites it afterwards (R12); a loop that copies rewrite results into the list a modifier returns copies every element (R13).")
_add5("C07", "No IDNA profile on the way from the From field to the query is transitional (R15); the emptiness test that sends the policy lookup to the organizational domain is made on the records that begin with v=DMARC1, not on the raw TXT answer (R16).")
_add5("C09", "A status-reporting loop reports for every element of the recipient list: the report is never skipped under a condition that looks at the address (K14).")
_add5("C11", "BucketSet removes a bucket only under a test of a per-bucket holder count that taking increments and Release decrements (R10).")
_add5("C12", "No function of the queue waits for the wait group of the attempts while it holds one of the queue's mutexes (R18); the staging file of a record rewrite belongs to its message (R19).")
_add5("C13", "No package-level variable of the DANE code is initialised from the clock: the time certificates are judged at is taken at the connection (R11).")
_add5("C14", "While table.sql_query's SetKey updates only after a refused insert, the CREATE TABLE statement table.sql_table generates makes the key column PRIMARY KEY / UNIQUE (R8).")
_add5("C15", "No two names of authz.NormalizeFuncs denote the same function, and exactly the names that say casefold (and auto) map to a function that folds case (R17).")
_add5("C16", "The coherence of a literal is judged per switch world (the constant case labels a path enters through), so that a recorded finding names one input form (R1); every call of exterrors.SMTPCode passes a constant 4xx and a constant 5xx (R12); the failure report's Status is the stored status of the error it quotes (C18.R2 as R13).")
_add5("C17", "After the last lower-casing step of each key function an NFC step follows – lower-casing is not closed under NFC (R4); no transitional IDNA profile (R10); dns.LowerASCII maps every string pointwise, no path returns the parameter (R11); inside a loop over the characters of a string the byte at the loop index is never written in place of the character (R12).")
_add5("C19", "The queue ends a downstream delivery exactly once (C01.R1 as R14); the numeric bounds of pool.Config are never assigned inside the pool (R15); pool.Return stores or closes the connection on every path, also when the pool was shut down meanwhile (R16).")
# ---- rounds nine and ten (DESIGN.md §R.18, §R.19)
def _add6(_id, more, ref=", §R.18, §R.19"):
    tech, text, note, r = CLAIMED[_id]
    CLAIMED[_id] = (tech, text + " Rounds 9-10: " + more, note, r + ref)
for _id in list(CLAIMED):
    _add6(_id, "discipline rules E13 (no two configuration directives of one Init store into the same destination) and E14 (an element store into a local copy of an array is read again on every path) on every function of the property's packages.", ref="")
_add6("C02", "a failure of Body / Commit is recorded for every accepted recipient (C01.R2 as R15).")
_add6("C03", "once the semaphore's slot was taken the limiter reports success, never an error re-read from the context (C11.R9 as R5d).")
_add6("C05", "dns.IsNotFound answers true only for NXDOMAIN and the resolver's own flag (C13.R12 as R16).")
_add6("C06", "the collection whose keys drive the destination blocks' body checks only grows while the delivery is open (R14); inside one check result the reject slot is reached whenever Reject is set, whether or not Quarantine is set as well (R3d).")
_add6("C07", "the DMARC version filter is the version tag used as a prefix (R16b); the body-check block list only grows (C06.R14 as R17).")
_add6("C09", "a getter of a recorded recipient list hands out the whole list (K15).")
_add6("C10", "the failure report's spool key is freshly generated (C02.R12 as R13); MsgMetadata.DeepCopy gives the copy its own table for every map-typed field, so what a pipeline behind the queue records never reaches the stored record (R14).")
_add6("C11", "a session the SMTP library replaces is logged out by the library or by NewSession (C03.A1 as R3d); the capacity handed to make(chan) in the limiter packages cannot be negative (R12).")
_add6("C12", "every queue instance has a spool directory of its own (C10.R7 as R20).")
_add6("C13", "dns.IsNotFound answers true only for NXDOMAIN and the resolver's own flag (R12).")
_add6("C15", "PLAIN with a foreign authorization identity is refused before any authentication (C14.R6 as R19).")
_add6("C16", "a statement that assigns the basic code of an existing SMTP error value is accompanied on every path by an assignment of its enhanced code, constant classes agreeing (R14).")
_add6("C18", "the queue keeps a recipient under the very string it was given (C10.R5 as R17) and the metadata object it was given (C10.R3e as R18); a store into the table field of a private value copy is not a replacement of the message's table (R8).")
_add6("C19", "within one iteration no path both closes a connection and returns it to the pool (R17); no loop over all deliveries runs inside the committing loop (R18).")
_add6("C20", "a character read with ReadRune is pushed back with UnreadRune, never UnreadByte (R8).")
# ---- round eleven (DESIGN.md §R.20)
for _id in list(CLAIMED):
    _add6(_id, "Round 11: discipline rules E15 (the operand of an in-place filter `x[:0]` that is appended to was allocated by the function itself – never a parameter, a struct field or a package-level list) and E16 (a loop that comes back to a receive from a *time.Timer's channel re-arms the timer on every way round) on every function of the property's packages.", ref=", §R.20")
_add6("C04", "no constant is stored into the reply's basic code after the code the error carries was copied (R15).", ref="")
_add6("C05", "the per-MX policy look-up is started (PrepareConn) in the very function that awaits it (CheckConn) (C13.R13 as R17).", ref="")
_add6("C07", "the SPF identities reported for alignment never derive from dns.FQDN (R18); dmarc.isAligned converts both domains to A-labels before comparing (R19); check.spf and check.dkim are among the property's packages (E1-E16, E5/E6).", ref="")
_add6("C10", "queueDelivery.Body keeps no buffer but the one storeNewMessage returned for the first attempt (R3f); the UTF-8 validity rule follows the verdict of an extracted validation helper (R11).", ref="")
_add6("C12", "the capacity of the delivery semaphore is at least 1 where it is created – the guard may sit in Init (R21); after every Add on the wait group of the attempts a goroutine is started that calls Done on every way out (R22).", ref="")
_add6("C13", "the per-MX policy look-up is started in the very function that awaits it (R13).", ref="")
_add6("C14", "in every hash compute / verify function the password parameter is used whole, never sliced, indexed or copied into a buffer of fixed size (R9); auth_map and auth_map_normalize are registered with the same inherit flag by every endpoint (R10); bcrypt.CompareHashAndPassword is unreachable for a password of more than 72 bytes (R11); internal/table is among the property's packages.", ref="")
_add6("C15", "internal/table is among the property's packages (a look-up result is never a buffer shared between transactions: E15).", ref="")
_add6("C16", "no constant is stored into the reply's basic code after the code the error carries was copied (C04.R15 as R15).", ref="")
_add6("C17", "the functions of framework/address and of framework/dns' normalisation refer to package-level variables only as constants – no pool, buffer or assigned variable (R13).", ref="")
_add6("C19", "mxConn.Usable answers false in each of the worlds 'client nil', 'connection nil', 'errored' (R19); pool.New assigns a negative MaxConnsPerKey before keeping the configuration (R20); R15 admits a clamp that is unreachable for the values 0 and 1.", ref="")
# ---- round twelve (DESIGN.md §R.21)
_add6("C03", "Round 12: no assignment to a field of the session that releaseLimits reads reaches a call of releaseLimits in the same function (R5e); getDelivery starts a target only when the table of open deliveries has no entry for it (R6b).", ref=", §R.21")
_add6("C11", "Round 12: the session's permits are given back before the state their keys are built from is cleared (C03.R5e as R3e); with a limit configured every successful exit of a limiter method that operates on the limiter's channel has passed the channel operation (R13); a Take / TakeContext that asks a wrapped limiter reports its answer – no success after an inner refusal, no failure after an inner grant without a Release of that limiter (R14).", ref=", §R.21")
_add6("C16", "Round 12: every successful path through Session.Mail that does not start the delivery assigns the remembered reply (R16); SMTPError.Temporary is computed from the basic code, never from the enhanced code (R17).", ref=", §R.21")
_add6("C02", "Round 12: every way out of tryDelivery passes the removal of the message from the spool or the scheduling of the next attempt (R16).", ref=", §R.21")
_add6("C01", "Round 12: every way out of tryDelivery passes the removal of the message from the spool or the scheduling of the next attempt (C02.R16 as R15).", ref=", §R.21")
_add6("C18", "Round 12: every successful return of dsn.RecipientInfo.WriteTo has passed the addition of Final-Recipient, Action and Status (R19).", ref=", §R.21")
