#!/bin/bash
# Runs every kept seeded change against the quick check of its property (on /repo, reverting afterwards) and
# records which rule fired in seeded/<id>/meta.json and seeded/RESULTS.md.
cd /verif
OUT=seeded/RESULTS.md
echo "| seed | property | check result | rules that fired |" > $OUT
echo "|---|---|---|---|" >> $OUT
for d in seeded/C*/; do
  id=$(basename $d); prop=${id:0:3}
  P=$d/patch.diff
  cd /repo
  if [ -n "$(git status --porcelain)" ]; then echo "/repo not clean"; exit 2; fi
  if ! git apply --check $OLDPWD/$P 2>/dev/null; then
    if [ -f $OLDPWD/$d/patch.rebased.diff ]; then P=$d/patch.rebased.diff; fi
  fi
  if ! git apply /verif/$P 2>/dev/null; then
     cd /verif; echo "| $id | $prop | patch does not apply on current HEAD | |" >> $OUT; continue
  fi
  cd /verif
  if grep -q "\"$prop\"" <(python3 -c "import json;print(json.dumps([c['property_id'] for c in json.load(open('MANIFEST.json'))['checks']]))"); then
    res=$(./check $prop quick 2>&1)
    rules=""; [ -f evidence/$prop.report.txt ] && rules=$(sed -E "s/^[^ ]+ ($prop\.[A-Za-z0-9]+) .*/\1/" evidence/$prop.report.txt | sort -u | tr '\n' ' ')
    # drop rules that also fire on the unchanged tree as known findings
    known=$(echo "$res" | grep "^KNOWN-FINDING" | sed -E 's/.*key=([A-Za-z0-9]+)\|.*/\1/' | sort -u | tr '\n' ' ')
    if echo "$res" | grep -q "^VIOLATION"; then verdict=CAUGHT; else verdict=missed; fi
  else
    verdict="property not claimed"; rules=""
  fi
  git -C /repo reset -q --hard HEAD
  echo "| $id | $prop | $verdict | $rules |" >> $OUT
  python3 - "$id" "$verdict" "$rules" "$P" <<'PY'
import json,sys
id,verdict,rules,patch=sys.argv[1:5]
p='/verif/seeded/%s/meta.json'%id
m=json.load(open(p)); m['caught_by']=rules.split() if verdict=='CAUGHT' else []; m['check_verdict']=verdict; m['patch_used_for_check']=patch.split('/')[-1]
json.dump(m,open(p,'w'),indent=1)
PY
done
cat $OUT
