#!/usr/bin/env python3
"""Sensitivity measurement (not a check): runs the checker over syntactic mutants of the functions a property's
rules looked at.  usage: mutants.py <ID> [--tests]   (writes /verif/mutants/<ID>.json and .md)

For every mutant:  static verdict = killed (the property's check reports a violation) | survived | invalid (does not
type-check).  With --tests the survivors are additionally run against the tests of the mutated package in a scratch
copy (dynamic; only used to tell 'the suite would have caught it anyway' from 'compiles, passes the tests, and the
check is silent' – the latter are candidates for triage, not automatically defects: many are equivalent or harmless)."""
import json, os, subprocess, sys, shutil, concurrent.futures as cf, tempfile

ID = sys.argv[1]
TESTS = '--tests' in sys.argv
VERIF = '/verif'; REPO = '/repo'
work = tempfile.mkdtemp(prefix='mut_%s_' % ID)
env = dict(os.environ, GOFLAGS='-mod=mod', GOPROXY='off', GOSUMDB='off', GOTOOLCHAIN='local', GOWORK='off')
BIN = os.environ.get('MUT_BIN')
if not BIN:
    subprocess.run([VERIF + '/check', ID, 'quick'], stdout=subprocess.DEVNULL)  # make sure the binary is current
    BIN = VERIF + '/bin/maddyverif'
subprocess.run([BIN, '-repo', REPO, '-verif', VERIF, '-property', ID, '-mutgen', work], stdout=subprocess.DEVNULL, env=env)
muts = json.load(open(work + '/mutants.json'))

def run(m):
    vd = '%s/v%05d' % (work, m['id'])
    os.makedirs(vd + '/evidence', exist_ok=True)
    shutil.copy(VERIF + '/known_findings.json', vd + '/known_findings.json')
    p = subprocess.run([BIN, '-repo', REPO, '-verif', vd, '-property', ID, '-overlay', m['file'] + '=' + m['out']],
                       capture_output=True, text=True, env=env)
    out = p.stdout
    import re
    rules = sorted({l.split(': ', 1)[1].split(' ', 1)[0] for l in out.splitlines() if re.search(r': C\d\d\.', l) and 'KNOWN-FINDING' not in l})
    if any('.load' in r or r.endswith('.internal') for r in rules) or 'load failed' in out:
        verdict = 'invalid'
    elif p.returncode != 0:
        verdict = 'killed'
    else:
        verdict = 'survived'
    shutil.rmtree(vd, ignore_errors=True)
    m = dict(m); m['verdict'] = verdict; m['rules'] = [r for r in rules if '.floor' not in r or len(rules) == 1][:12]
    return m

with cf.ThreadPoolExecutor(max_workers=int(os.environ.get('MUT_JOBS','12'))) as ex:
    res = list(ex.map(run, muts))

if TESTS:
    # survivors against the mutated package's own tests, in scratch worktrees (one per worker, reused)
    surv = [m for m in res if m['verdict'] == 'survived']
    def test(args):
        wi, batch = args
        wt = '%s/wt%d' % (work, wi)
        subprocess.run(['git', '-C', REPO, 'worktree', 'add', '-q', '--detach', wt, 'HEAD'], capture_output=True)
        out = []
        for m in batch:
            rel = os.path.relpath(m['file'], REPO)
            shutil.copy(m['out'], wt + '/' + rel)
            pkg = './' + os.path.dirname(rel) + '/'
            p = subprocess.run(['go', 'test', '-vet=off', '-count=1', '-timeout', '120s', pkg], cwd=wt, capture_output=True, text=True, env=env)
            m = dict(m); m['tests'] = 'pass' if p.returncode == 0 else ('build-fail' if '[build failed]' in p.stdout + p.stderr else 'fail')
            out.append(m)
            subprocess.run(['git', '-C', wt, 'checkout', '-q', '--', rel])
        subprocess.run(['git', '-C', REPO, 'worktree', 'remove', '--force', wt], capture_output=True)
        return out
    W = 6
    batches = [(i, surv[i::W]) for i in range(W)]
    tested = {}
    with cf.ThreadPoolExecutor(max_workers=W) as ex:
        for out in ex.map(test, batches):
            for m in out:
                tested[m['id']] = m['tests']
    for m in res:
        if m['id'] in tested:
            m['tests'] = tested[m['id']]

for m in res:
    m.pop('out', None)
    m['file'] = os.path.relpath(m['file'], REPO)
os.makedirs(VERIF + '/mutants', exist_ok=True)
json.dump(res, open('%s/mutants/%s.json' % (VERIF, ID), 'w'), indent=1)
n = len(res); inv = sum(m['verdict'] == 'invalid' for m in res); k = sum(m['verdict'] == 'killed' for m in res); s = n - inv - k
line = '%s: %d mutants, %d invalid, %d killed, %d survived' % (ID, n, inv, k, s)
if TESTS:
    sp = sum(1 for m in res if m.get('tests') == 'pass')
    line += ' (%d of the survivors also pass the package tests)' % sp
print(line)
with open('%s/mutants/%s.md' % (VERIF, ID), 'w') as f:
    f.write('# %s — syntactic mutants of the functions the rules looked at\n\n%s\n\n' % (ID, line))
    f.write('| # | function | line | operator | change | static verdict | rules | package tests |\n|---|---|---|---|---|---|---|---|\n')
    for m in res:
        f.write('| %d | %s | %s:%d | %s | `%s` | %s | %s | %s |\n' % (m['id'], m['func'], os.path.basename(m['file']), m['line'], m['kind'], m['desc'].replace('|', '\\|')[:110], m['verdict'], ' '.join(m['rules'])[:80], m.get('tests', '')))
shutil.rmtree(work, ignore_errors=True)
