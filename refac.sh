#!/bin/sh
# usage: refac.sh <diff> <IDs>  — false-alarm test: applies a behaviour-preserving refactoring to /repo, runs quick checks, reverts.
/verif/seedtest.sh "$1" "$2" | grep -v "KNOWN-FINDING\|parseRejectDirective:lit1\|C09.K4 smtp.statusWrapper\|K3a msgpipeline.(\*msgpipelineDelivery).AddRcpt:recipients:append1" | cut -c1-${3:-500}
