#!/bin/sh
# usage: refacw.sh <diff> [property|all]  — like refac.sh, but on a scratch worktree under /tmp (never touches /repo):
# applies a behaviour-preserving refactoring there and runs the checker with -repo pointing at it. Several can run in parallel.
d=$1; prop=${2:-all}
n=$(basename $d .diff)
wt=/tmp/rw_$n.$$
flock /tmp/.verif_wt.lock git -C /repo worktree add -q --detach $wt HEAD || exit 2
if ! git -C $wt apply $d 2>/dev/null; then echo "patch does not apply"; flock /tmp/.verif_wt.lock git -C /repo worktree remove --force $wt; exit 2; fi
vd=/tmp/rv_$n.$$; mkdir -p $vd/evidence; cp /verif/known_findings.json $vd/
GOFLAGS=-mod=mod GOPROXY=off GOSUMDB=off GOTOOLCHAIN=local ${BIN:-/verif/bin/maddyverif} -repo $wt -verif $vd -property $prop 2>&1 | grep -v "KNOWN-FINDING\|parseRejectDirective:lit1@case:1:\|C09.K4 smtp.statusWrapper\|K3a msgpipeline.(\*msgpipelineDelivery).AddRcpt:recipients:append1" | sed "s#$wt/##g" | cut -c1-${3:-400}
flock /tmp/.verif_wt.lock git -C /repo worktree remove --force $wt; rm -rf $vd
