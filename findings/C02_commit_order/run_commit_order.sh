#!/bin/sh
# Demonstration runner for seeded change C02F.
# Compiles internal/target/queue/queue.go with its "os" import redirected to
# the recording shim (package zzseedos) via `go build -overlay` and runs
# TestSeedC02F. Nothing in the tree is modified.
set -eu
root=$(cd "$(dirname "$0")/../../../.." && pwd)
cd "$root"
tmp=$(mktemp -d)
trap 'rm -rf "$tmp"' EXIT
src="$root/internal/target/queue/queue.go"
sed 's#^\t"os"$#\tos "github.com/foxcpp/maddy/internal/target/queue/zzseedos"#' "$src" > "$tmp/queue.go"
if cmp -s "$src" "$tmp/queue.go"; then
	echo "could not rewrite the os import of queue.go" >&2
	exit 2
fi
printf '{"Replace": {"%s": "%s"}}\n' "$src" "$tmp/queue.go" > "$tmp/overlay.json"
exec go test -vet=off -count=1 -overlay "$tmp/overlay.json" -run TestCommitRecordAfterData -v ./internal/target/queue/
