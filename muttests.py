#!/usr/bin/env python3
"""Sensitivity measurement, second stage (dynamic, not a check): runs the tests of the mutated package for every mutant
that survived the static checks (mutants/all.json) and records pass/fail there. Scratch worktrees under /tmp only."""
import json, os, subprocess, shutil, tempfile, concurrent.futures as cf
VERIF='/verif'; REPO='/repo'
env = dict(os.environ, GOFLAGS='-mod=mod', GOPROXY='off', GOSUMDB='off', GOTOOLCHAIN='local', GOWORK='off')
res = json.load(open(VERIF+'/mutants/all.json'))
work = tempfile.mkdtemp(prefix='muttest_')
subprocess.run([VERIF+'/bin/maddyverif','-repo',REPO,'-verif',VERIF,'-property','all','-mutgen',work],stdout=subprocess.DEVNULL,env=env)
gen = json.load(open(work+'/mutants.json'))
key = lambda m: (os.path.relpath(m['file'],REPO) if m['file'].startswith('/') else m['file'], m['line'], m['kind'], m['desc'])
out_of = {key(m): m['out'] for m in gen}
surv = [m for m in res if m['verdict']=='survived' and key(m) in out_of and 'tests' not in m]
print(len(surv),'survivors to test')
def test(args):
    wi, batch = args
    wt = '%s/wt%d' % (work, wi)
    subprocess.run(['git','-C',REPO,'worktree','add','-q','--detach',wt,'HEAD'],capture_output=True)
    out=[]
    for m in batch:
        rel = m['file']
        shutil.copy(out_of[key(m)], wt+'/'+rel)
        pkg = './'+os.path.dirname(rel)+'/'
        try:
            p = subprocess.run(['go','test','-vet=off','-count=1','-timeout','90s',pkg],cwd=wt,capture_output=True,text=True,env=env,timeout=200)
            t = 'pass' if p.returncode==0 else ('build-fail' if '[build failed]' in p.stdout+p.stderr else 'fail')
        except subprocess.TimeoutExpired:
            t = 'fail'
        out.append((key(m),t))
        subprocess.run(['git','-C',wt,'checkout','-q','--',rel])
    subprocess.run(['git','-C',REPO,'worktree','remove','--force',wt],capture_output=True)
    return out
W=8
tested={}
with cf.ThreadPoolExecutor(max_workers=W) as ex:
    for out in ex.map(test,[(i,surv[i::W]) for i in range(W)]):
        for k,t in out: tested[k]=t
for m in res:
    if key(m) in tested: m['tests']=tested[key(m)]
json.dump(res,open(VERIF+'/mutants/all.json','w'),indent=1)
import collections
print(collections.Counter(m.get('tests','-') for m in res if m['verdict']=='survived'))
shutil.rmtree(work,ignore_errors=True)
