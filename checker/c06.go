package main

import (
	"go/ast"
	"go/constant"
	"go/token"
	"go/types"
	"strings"
)

func init() { register("C06", checkC06) }

// stage tokens of a body path, in source order
func bodyStages(r *RuleCtx) []string { return bodyStagesD(r, 0) }

// bodyStagesD lists the stage events of a function in source order; a call of another method of the pipeline
// delivery (an extracted prefix like checkAndRewriteBody) contributes that method's stages at the call's position.
func bodyStagesD(r *RuleCtx, depth int) []string {
	info := r.Info
	type ev struct {
		pos token.Pos
		s   string
		sub []string
	}
	var evs []ev
	argName := func(e ast.Expr) string {
		s := exprStr(e)
		switch {
		case strings.HasSuffix(s, "globalChecks"):
			return "global"
		case strings.Contains(s, "sourceBlock"):
			return "source"
		default:
			return "rcpt-block"
		}
	}
	ast.Inspect(r.FI.Decl.Body, func(n ast.Node) bool {
		// closures that only report an error (setStatusAll) are not stages
		if fl, ok := n.(*ast.FuncLit); ok {
			_ = fl
			return false
		}
		call, ok := n.(*ast.CallExpr)
		if !ok {
			return true
		}
		switch {
		case isCall(info, call, "~/"+pipelineRel+".checkRunner.checkBody"):
			evs = append(evs, ev{pos: call.Pos(), s: "checkBody:" + argName(call.Args[1])})
		case isCall(info, call, "~/"+pipelineRel+".checkRunner.applyResults"):
			evs = append(evs, ev{pos: call.Pos(), s: "applyResults"})
		case isCall(info, call, "~/internal/target.GenerateReceived"):
			evs = append(evs, ev{pos: call.Pos(), s: "received"})
		case methodName(call) == "RewriteBody":
			rs := exprStr(callRecv(call))
			switch {
			case strings.Contains(rs, "globalModifiersState"):
				evs = append(evs, ev{pos: call.Pos(), s: "rewriteBody:global"})
			case strings.Contains(rs, "sourceModifiersState"):
				evs = append(evs, ev{pos: call.Pos(), s: "rewriteBody:source"})
			default:
				evs = append(evs, ev{pos: call.Pos(), s: "rewriteBody:rcpt-block"})
			}
		case depth < 2 && func() bool {
			fn := callee(info, call)
			if fn == nil || fn == r.FI.Obj || objName(fn) == "Body" || objName(fn) == "BodyNonAtomic" {
				return false
			}
			sig, _ := fn.Type().(*types.Signature)
			if sig == nil || sig.Recv() == nil || namedOf(sig.Recv().Type()) == nil || objName(namedOf(sig.Recv().Type()).Obj()) != "msgpipelineDelivery" {
				return false
			}
			d := r.C.P.DeclOf(fn)
			if d == nil || d.Decl.Body == nil {
				return false
			}
			sub := bodyStagesD(r.C.CtxOf(d), depth+1)
			if len(sub) == 0 {
				return false
			}
			evs = append(evs, ev{pos: call.Pos(), sub: sub})
			return true
		}():
		case (methodName(call) == "Body" || methodName(call) == "BodyNonAtomic") && callRecv(call) != nil:
			if o := objOf(info, callRecv(call)); o != nil {
				if _, isVar := o.(*types.Var); isVar {
					// fan-out to a target delivery (range variable or its partial-delivery alias)
					evs = append(evs, ev{pos: call.Pos(), s: "target"})
				}
			}
		}
		return true
	})
	for i := 0; i < len(evs); i++ {
		for j := i + 1; j < len(evs); j++ {
			if evs[j].pos < evs[i].pos {
				evs[i], evs[j] = evs[j], evs[i]
			}
		}
	}
	var out []string
	for _, e := range evs {
		ss := e.sub
		if ss == nil {
			ss = []string{e.s}
		}
		for _, x := range ss {
			if len(out) > 0 && out[len(out)-1] == x {
				continue
			}
			out = append(out, x)
		}
	}
	return out
}

func checkC06(c *Check) {
	c.explain = "C06 (check verdicts are always enforced), structural part: the SMTP body path and the per-recipient (LMTP) body path of the pipeline run the same ordered stages (checks for global, sender and recipient blocks; Received; result application; modifiers; target fan-out); " +
		"no error of a check stage is dropped and nothing is handed to a target after it; in the parallel merge the reject verdict has its own once-guarded slot, is returned first after all checks finished, and quarantine accumulates into the merged result which applyResults copies to the message; " +
		"lazily created check states are published only after their replay of earlier stages succeeded; the remote target refuses quarantined mail (C05.R8); the DMARC action switch is C07.R1."
	c.notCover = "'exactly once per check' under all completion orders and de-duplication across blocks at run time (needs schedule exploration)."

	c.Rule("L1", "check-runner locks: every mutex the package's functions take is released on every path to a return, and nothing unlocks a mutex it does not hold (immediate or deferred; function literals separately)", 3)
	lockBalance(c, "L1", []string{pipelineRel}, nil)

	c06StageOrder(c)
	c06ResultsKept(c, "R7")
	c06ActionParsed(c, "R8")
	c06RcptMemory(c)
	c06BodyOnce(c)
	c06DeepCopyComplete(c, "R11")
	c07RawLookupError(c, "R12")
	c06RejectWins(c, "R13")
	c06BodyBlockListNeverShrinks(c, "R14")

	// ---- R2
	c.Rule("R2", "no verdict is dropped: after an error of checkConnSender / checkRcpt / checkBody / applyResults the function neither reports success nor hands anything to a target", 8)
	p := c.P
	pk := p.Pkg(pipelineRel)
	stagePred := calling("~/"+pipelineRel+".checkRunner.checkConnSender", "~/"+pipelineRel+".checkRunner.checkRcpt", "~/"+pipelineRel+".checkRunner.checkBody", "~/"+pipelineRel+".checkRunner.applyResults")
	if pk != nil {
		p.AllFuncs([]*packagesPkg{pk}, func(fi *FuncInfo) {
			sig := fi.Obj.Type().(*types.Signature)
			if sig.Recv() == nil || namedOf(sig.Recv().Type()) == nil || objName(namedOf(sig.Recv().Type()).Obj()) != "msgpipelineDelivery" {
				return
			}
			r := &RuleCtx{C: c, FI: fi, F: p.FlowOfFunc(fi), Info: fi.Info()}
			info := r.Info
			toTarget := func(pt Pt) bool {
				for _, call := range callsAt(pt.Node()) {
					switch methodName(call) {
					case "Body", "BodyNonAtomic", "AddRcpt", "Commit":
						if o := objOf(info, callRecv(call)); o != nil {
							if v, ok := o.(*types.Var); ok && !v.IsField() {
								return true
							}
						}
					}
					if isCall(info, call, "~/"+pipelineRel+".msgpipelineDelivery.getDelivery") {
						return true
					}
				}
				return false
			}
			hasErr := sig.Results().Len() > 0 && isErrorType(sig.Results().At(sig.Results().Len()-1).Type())
			n := 0
			for _, pt := range r.Calls(stagePred) {
				call := r.CallAt(pt, stagePred)
				n++
				key := refName(fi.Obj) + ":" + methodName(call) + itoa(n)
				c.SawFunc(fi.Name())
				eo := errVarAssigned(info, pt.Node(), call)
				if eo == nil {
					c.Hold("R2", key, call.Pos(), false, "the error of "+methodName(call)+" is not looked at")
					continue
				}
				bad := func(q Pt) bool {
					if toTarget(q) {
						return true
					}
					if hasErr && r.IsSuccessReturn(q) {
						return true
					}
					return false
				}
				path, f := r.F.ReachRefined(pt, eo, false, false, bad, nil)
				msg := ""
				if f {
					msg = "after " + methodName(call) + " returned an error (reject) the function can still report success or hand the message to a target: " + r.F.Describe(path)
				}
				if !hasErr && msg == "" {
					// void function: the error must be reported through a status call before returning
					eoCopies := copyClosure(info, fi.Decl.Body, eo)
					reportsIn := func(n ast.Node) bool {
						for _, cc := range callsAt(n) {
							for _, a := range cc.Args {
								if o := objOf(info, a); o != nil && eoCopies[o] {
									return true
								}
							}
						}
						return false
					}
					reported := func(q Pt) bool {
						if reportsIn(q.Node()) {
							return true
						}
						// a loop over the deliveries / recipients whose body reports the error (what the fan-out helper
						// is once it is written out in the caller): no recipients, nobody to report to
						if rs := r.F.RangeOfX(q.Node()); rs != nil {
							return reportsIn(rs.Body)
						}
						return false
					}
					if path, f := r.F.ReachRefined(pt, eo, false, false, r.F.IsExitPt, reported); f {
						msg = "the error of " + methodName(call) + " is not reported to any recipient before returning: " + r.F.Describe(path)
					}
				}
				c.Hold("R2", key, call.Pos(), msg == "", msg)
			}
		})
	}

	// ---- R2b connection stage
	c.Rule("R2b", "connection stage: every caller of MsgPipeline.RunEarlyChecks looks at the verdict and, when a check refused the connection, neither reports success nor goes on to authenticate", 2)
	earlyPred := calling("~/" + pipelineRel + ".MsgPipeline.RunEarlyChecks")
	p.AllFuncs(p.ServerPkgs(), func(fi *FuncInfo) {
		if fi.Decl.Body == nil {
			return
		}
		has := false
		ast.Inspect(fi.Decl.Body, func(n ast.Node) bool {
			if call, ok := n.(*ast.CallExpr); ok && earlyPred(fi.Info(), call) {
				has = true
			}
			return !has
		})
		if !has {
			return
		}
		r := c.CtxOf(fi)
		sites := r.Calls(earlyPred)
		info := r.Info
		sig := fi.Obj.Type().(*types.Signature)
		hasErr := sig.Results().Len() > 0 && isErrorType(sig.Results().At(sig.Results().Len()-1).Type())
		for i, pt := range sites {
			call := r.CallAt(pt, earlyPred)
			key := refName(fi.Obj) + ":RunEarlyChecks" + itoa(i+1)
			c.SawFunc(fi.Name())
			eo := errVarAssigned(info, pt.Node(), call)
			if eo == nil || !hasErr {
				c.Hold("R2b", key, call.Pos(), false, "the verdict of the connection-stage checks is not looked at (or the caller cannot refuse)")
				continue
			}
			bad := func(q Pt) bool {
				if r.IsSuccessReturn(q) {
					return true
				}
				for _, cc := range callsAt(q.Node()) {
					if c14IsAuth(c, info, cc) {
						return true
					}
				}
				return false
			}
			path, f := r.F.ReachRefined(pt, eo, false, false, bad, nil)
			c.Hold("R2b", key, call.Pos(), !f, "after a connection-stage check refused, the caller can still succeed or authenticate: "+r.F.Describe(path))
		}
	})

	// ---- R3 merge semantics
	c.Rule("R3", "runAndMergeResults: reject has its own once-guarded slot and is returned first after all checks finished; quarantine sets the merged flag; applyResults copies it to the message", 4)
	if r := c.need("R3", pipelineRel, "checkRunner", "runAndMergeResults"); r != nil {
		info := r.Info
		// inside the goroutine closure: classify the stores under Reject / Quarantine
		type slot struct {
			field string
			once  string
		}
		var rejectSlots, quarSlots []slot
		onceUsers := map[string]int{}
		bothMsg, nBoth := "", 0
		ast.Inspect(r.FI.Decl.Body, func(n ast.Node) bool {
			call, ok := n.(*ast.CallExpr)
			if !ok || !isCall(info, call, "sync.Once.Do") || len(call.Args) != 1 {
				return true
			}
			onceName := exprStr(callRecv(call))
			onceUsers[onceName]++
			fl, ok := call.Args[0].(*ast.FuncLit)
			if !ok {
				return true
			}
			var stored []string
			ast.Inspect(fl.Body, func(x ast.Node) bool {
				if as, ok := x.(*ast.AssignStmt); ok {
					for _, l := range as.Lhs {
						stored = append(stored, exprStr(l))
					}
				}
				return true
			})
			// which verdict guards this Do call? Decided on the flow graph of the enclosing (goroutine) closure, whatever
			// the form of the branching (if-chain, switch, nested ifs): reachable with only Reject set / only Quarantine set
			guard := ""
			var encl *ast.FuncLit
			ast.Inspect(r.FI.Decl.Body, func(x ast.Node) bool {
				if l, ok := x.(*ast.FuncLit); ok && within(l.Body, call) && l != fl {
					encl = l // innermost enclosing literal that is not the Do argument itself
				}
				return true
			})
			var body *ast.BlockStmt = r.FI.Decl.Body
			if encl != nil {
				body = encl.Body
			}
			gf := c.P.FlowOf(info, body, r.FI.Name()+"$verdicts")
			if cp, ok := gf.PtOf(call.Pos()); ok {
				reach := func(rej, quar bool) bool {
					w := gf.World(func(atom ast.Expr) (bool, bool) {
						if sx, ok := ast.Unparen(atom).(*ast.SelectorExpr); ok && fieldOf(info, sx) != nil {
							switch sx.Sel.Name {
							case "Reject":
								return rej, true
							case "Quarantine":
								return quar, true
							}
						}
						return false, false
					})
					_, f := gf.Reach(Query{From: []Pt{gf.Entry()}, Inclusive: true, Target: func(q Pt) bool { return q == cp }, AvoidEdge: w})
					return f
				}
				onR, onQ, onNone := reach(true, false), reach(false, true), reach(false, false)
				switch {
				case onR && !onQ && !onNone:
					guard = "reject"
					nBoth++
					if !reach(true, true) {
						bothMsg = "a check result that carries both verdicts (Reject and Quarantine: FailAction.Apply ORs the configured action into what the check itself set; a milter can answer reject and ask for quarantine) is recorded as a quarantine only – line " + itoa(p0(c.P, call.Pos())) + " is not reached when Quarantine is set: the message a check rejected is accepted and delivered (flagged)"
					}
				case onQ && !onR && !onNone:
					guard = "quarantine"
				default:
					guard = "other:reachable for reject=" + map[bool]string{true: "y", false: "n"}[onR] + " quarantine=" + map[bool]string{true: "y", false: "n"}[onQ]
				}
			} else {
				guard = "other:not located"
			}
			for _, s := range stored {
				switch guard {
				case "reject":
					rejectSlots = append(rejectSlots, slot{s, onceName})
				case "quarantine":
					quarSlots = append(quarSlots, slot{s, onceName})
				default:
					rejectSlots = append(rejectSlots, slot{s, onceName + "(shared:" + guard + ")"})
					quarSlots = append(quarSlots, slot{s, onceName + "(shared:" + guard + ")"})
				}
			}
			return true
		})
		msg := ""
		if len(rejectSlots) == 0 {
			msg = "no once-guarded store of the reject reason under the Reject verdict"
		}
		for _, rs := range rejectSlots {
			if strings.Contains(rs.once, "shared") || onceUsers[rs.once] > 1 {
				msg = "the reject reason shares its once-guard with another verdict: whichever check finishes first wins and a quarantine finishing first makes the reject disappear"
			}
			for _, qs := range quarSlots {
				if qs.field == rs.field || qs.once == rs.once {
					msg = "reject and quarantine are recorded in the same slot/guard: the outcome depends on which check finishes first"
				}
			}
		}
		c.Hold("R3", "runAndMergeResults:separate-slots", r.FI.Decl.Pos(), msg == "", msg)
		c.Rule("R3d", "runAndMergeResults: the stricter verdict wins inside one result too – the reject slot is reached whenever Reject is set, whether or not Quarantine is set as well", 1)
		if nBoth == 0 {
			bothMsg = "undecided: no store guarded by the Reject verdict alone was found"
		}
		c.Hold("R3d", "runAndMergeResults:reject-with-quarantine", r.FI.Decl.Pos(), bothMsg == "", bothMsg)
		// after Wait: first decision returns the reject slot
		waits := r.Calls(calling("sync.WaitGroup.Wait"))
		msg = ""
		if len(waits) != 1 || len(rejectSlots) == 0 {
			msg = "undecided: expected one Wait and a reject slot"
		} else {
			rejField := rejectSlots[0].field
			isRejTest := func(atom ast.Expr) (bool, bool) {
				if be, ok := ast.Unparen(atom).(*ast.BinaryExpr); ok && (be.Op == token.NEQ || be.Op == token.EQL) && isNilIdent(info, be.Y) && exprStr(be.X) == rejField {
					return be.Op == token.NEQ, true
				}
				return false, false
			}
			// in the world "reject slot is set" (remove edges establishing it is nil) every exit returns non-nil
			world := r.F.AvoidImplying(func(atom ast.Expr) (bool, bool) {
				w, ok := isRejTest(atom)
				return !w, ok
			})
			sawTest := false
			for _, b := range r.F.G.Blocks {
				if cond, _ := r.F.Cond(b); cond != nil {
					for _, af := range atomsOnEdge(cond, 0) {
						if _, ok := isRejTest(af.E); ok {
							sawTest = true
						}
					}
				}
			}
			path, f := r.F.Reach(Query{From: waits, Target: r.IsSuccessReturn, AvoidEdge: world})
			if !sawTest {
				msg = "the reject slot is never tested after the checks finished"
			} else if f {
				msg = "with a reject recorded the merge can still return nil: " + r.F.Describe(path)
			}
			// nothing is decided before Wait
			if _, f := r.F.Reach(Query{From: r.Entry(), Inclusive: true, Target: r.F.IsExitPt, Avoid: isPt(waits)}); f {
				msg = "the merge can return before all checks finished"
			}
		}
		c.Hold("R3", "runAndMergeResults:reject-first", r.FI.Decl.Pos(), msg == "", msg)
		// quarantine sets mergedRes.Quarantine = true in the world "quarantine slot set, no reject"
		msg = ""
		if len(quarSlots) == 0 {
			msg = "no store of the quarantine reason under the Quarantine verdict"
		} else {
			qField := quarSlots[0].field
			setFlag := r.Assigns(func(l, rhs ast.Expr) bool {
				s, ok := ast.Unparen(l).(*ast.SelectorExpr)
				if !ok || s.Sel.Name != "Quarantine" || !strings.Contains(exprStr(s.X), "mergedRes") || rhs == nil {
					return false
				}
				tv, isConst := info.Types[rhs]
				return isConst && tv.Value != nil && tv.Value.String() == "true" // the flag is raised, not cleared
			})
			world := r.F.AvoidImplying(func(atom ast.Expr) (bool, bool) {
				if be, ok := ast.Unparen(atom).(*ast.BinaryExpr); ok && (be.Op == token.NEQ || be.Op == token.EQL) && isNilIdent(info, be.Y) {
					if exprStr(be.X) == qField {
						return be.Op == token.EQL, true // remove "quarantine slot is nil"
					}
					if len(rejectSlots) > 0 && exprStr(be.X) == rejectSlots[0].field {
						return be.Op == token.NEQ, true // remove "reject set"
					}
				}
				return false, false
			})
			path, f := r.F.Reach(Query{From: waits, Target: r.F.IsExitPt, Avoid: isPt(setFlag), AvoidEdge: world})
			if f || len(setFlag) == 0 {
				msg = "with a quarantine verdict recorded (and no reject) the merged result is not flagged: " + r.F.Describe(path)
			}
		}
		c.Hold("R3", "runAndMergeResults:quarantine-accumulates", r.FI.Decl.Pos(), msg == "", msg)
	}
	if r := c.need("R3", pipelineRel, "checkRunner", "applyResults"); r != nil {
		info := r.Info
		setMsg := r.Assigns(func(l, _ ast.Expr) bool { return isField(info, l, "MsgMetadata", "Quarantine") })
		world := r.F.AvoidImplying(func(atom ast.Expr) (bool, bool) {
			if s, ok := ast.Unparen(atom).(*ast.SelectorExpr); ok && s.Sel.Name == "Quarantine" && strings.Contains(exprStr(s.X), "mergedRes") {
				return false, true // remove "merged flag is false"
			}
			return false, false
		})
		path, f := r.F.Reach(Query{From: r.Entry(), Inclusive: true, Target: r.F.IsExitPt, Avoid: isPt(setMsg), AvoidEdge: world})
		c.Hold("R3", "applyResults:flag-copied", r.FI.Decl.Pos(), !f && len(setMsg) > 0, "a quarantine verdict of the checks is not copied to the message metadata (targets would not see the flag): "+r.F.Describe(path))
	}

	// ---- R3c: the quarantine flag of the message is monotone: it is only ever set to the constant true
	c.Rule("R3c", "the message's quarantine flag is only ever set (to the constant true), never recomputed or cleared: a nested pipeline or a later stage cannot undo an earlier quarantine", 2)
	nQ := 0
	for _, spk := range p.ServerPkgs() {
		p.AllFuncs([]*packagesPkg{spk}, func(fi *FuncInfo) {
			info := fi.Info()
			ast.Inspect(fi.Decl.Body, func(n ast.Node) bool {
				as, ok := n.(*ast.AssignStmt)
				if !ok {
					return true
				}
				for i, l := range as.Lhs {
					if !isField(info, l, "MsgMetadata", "Quarantine") || i >= len(as.Rhs) {
						continue
					}
					nQ++
					tv, ok := info.Types[as.Rhs[i]]
					isTrue := ok && tv.Value != nil && tv.Value.String() == "true"
					c.Hold("R3c", fi.Name()+":Quarantine", as.Pos(), isTrue, "the message's quarantine flag is assigned "+exprStr(as.Rhs[i])+": a stage without a quarantine verdict (e.g. the check runner of a nested pipeline) resets a flag set earlier, and the targets behind it see the message as clean")
				}
				return true
			})
		})
	}
	if nQ == 0 {
		c.Fail("R3c", "Quarantine:stores", token.NoPos, "undecided: the quarantine flag is never set")
	}
	// ---- R1b: the set of recipient blocks whose body checks must run only grows
	c.Rule("R1b", "the registry of recipient blocks used by a message (whose keys drive the recipient-scoped body checks) is never shrunk during the transaction", 1)
	if rb := c.In(pipelineRel, "msgpipelineDelivery", "Body"); rb != nil {
		// the map ranged for blk.checks in Body
		var reg *types.Var
		findReg := func(inf *types.Info, body ast.Node) {
			ast.Inspect(body, func(n ast.Node) bool {
				if rs, ok := n.(*ast.RangeStmt); ok {
					found := false
					ast.Inspect(rs.Body, func(x ast.Node) bool {
						if call, ok := x.(*ast.CallExpr); ok && isCall(inf, call, "~/"+pipelineRel+".checkRunner.checkBody") {
							found = true
						}
						return true
					})
					if found && fieldOf(inf, rs.X) != nil {
						reg = fieldOf(inf, rs.X)
					}
				}
				return true
			})
		}
		findReg(rb.Info, rb.FI.Decl.Body)
		if reg == nil {
			// the recipient-scoped body checks may live in a method Body calls
			for _, call := range callsIn(rb.FI.Decl.Body) {
				if fn := callee(rb.Info, call); fn != nil && fn.Pkg() == rb.FI.Obj.Pkg() {
					if d := p.DeclOf(fn); d != nil && d.Decl.Body != nil {
						findReg(d.Info(), d.Decl.Body)
					}
				}
			}
		}
		msg := ""
		if reg == nil {
			msg = "undecided: no registry of recipient blocks found in Body"
		} else if pk != nil {
			p.AllFuncs([]*packagesPkg{pk}, func(fi *FuncInfo) {
				ast.Inspect(fi.Decl.Body, func(x ast.Node) bool {
					if call, ok := x.(*ast.CallExpr); ok {
						if id, ok := call.Fun.(*ast.Ident); ok && (id.Name == "delete" || id.Name == "clear") && len(call.Args) >= 1 && fieldOf(fi.Info(), call.Args[0]) == reg {
							msg = "an entry is removed from " + reg.Name() + " in " + fi.Name() + ": the body checks of that recipient block are skipped although an earlier recipient of the block was accepted (a body-stage reject or quarantine is lost)"
						}
					}
					return true
				})
			})
		}
		c.Hold("R1b", "msgpipelineDelivery:block-registry", rb.FI.Decl.Pos(), msg == "", msg)
	}

	c06Replay(c)
	c06StageMemory(c)
	c06Registry(c)
	c06MetadataIdentity(c)

	// ---- R6: the checks a block runs are the checks its configuration names. A block that keeps the slice of a named
	// check group (`check &shared`) instead of copying its elements shares storage with every other block naming the
	// group: its own further `check { … }` directive is overwritten by – or overwrites – another block's. C04.R5b.
	c.Rule("R6", "configuration: a named check / modifier group is merged into a block element by element – a block never runs another block's check in place of its own (C04.R5b)", 4)
	sub4 := newCheck("C04", c.P, c.Tier)
	c04GroupsCopied(sub4)
	for _, o := range sub4.obs {
		if o.Rule == "R5b" {
			c.Hold("R6", o.Key, o.posRaw, o.OK, o.Msg)
		}
	}
	// ---- R5b: "the remote target refuses it" – on the atomic and on the per-recipient body path. C05.R8.
	c.Rule("R5b", "the remote target refuses a quarantined message on every path to a sending call, in AddRcpt and in BodyNonAtomic – the entry point of the LMTP path and of the queue (C05.R8)", 2)
	sub5 := newCheck("C05", c.P, c.Tier)
	c05Quarantine(sub5)
	for _, o := range sub5.obs {
		if o.Rule == "R8" {
			c.Hold("R5b", o.Key, o.posRaw, o.OK, o.Msg)
		}
	}
	for f := range sub5.funcs {
		c.SawFunc(f)
	}
}

// R4d: what the replay of R4 reads. checkStates replays the connection / sender stage for a lazily created state only
// when mailFromReceived is set, and the recipient stage for the recipients in checkedRcpts. Both are written by the
// stage functions; when a stage function can return without recording its stage (an early return for an empty check
// list), a check that is configured only further down (a destination block) never sees the connection and the sender:
// its verdict for those stages is never produced, hence never enforced.
func c06StageMemory(c *Check) {
	c.Rule("R4d", "the stage functions record their stage for later replay on every path: checkConnSender stores the sender and sets mailFromReceived before any return; checkRcpt appends the recipient to checkedRcpts on every path on which obtaining the check states succeeded", 2)
	if r := c.need("R4d", pipelineRel, "checkRunner", "checkConnSender"); r != nil {
		info := r.Info
		var sender types.Object
		if ps := r.FI.Decl.Type.Params; ps != nil {
			for _, f := range ps.List {
				for _, nm := range f.Names {
					if o := info.Defs[nm]; o != nil && isStringType(o.Type()) {
						sender = o
					}
				}
			}
		}
		flag := r.Assigns(func(l, rhs ast.Expr) bool {
			fv := fieldOf(info, l)
			if fv == nil || objName(fv) != "mailFromReceived" || rhs == nil {
				return false
			}
			tv, ok := info.Types[rhs]
			return ok && tv.Value != nil && tv.Value.Kind() == constant.Bool && constant.BoolVal(tv.Value)
		})
		from := r.Assigns(func(l, rhs ast.Expr) bool {
			fv := fieldOf(info, l)
			return fv != nil && objName(fv) == "mailFrom" && rhs != nil && sender != nil && objOf(info, rhs) == sender
		})
		msg := ""
		if len(flag) == 0 || len(from) == 0 {
			msg = "the sender stage is never recorded (mailFromReceived = true, mailFrom = the sender)"
		} else if ok, w := r.MustPass(r.Entry(), true, r.F.IsExitPt, isPt(flag)); !ok {
			msg = "checkConnSender can return without setting mailFromReceived: a check configured only in a destination block is created later and never sees the connection and the sender – its verdict for those stages is not enforced: " + w
		} else if ok, w := r.MustPass(r.Entry(), true, r.F.IsExitPt, isPt(from)); !ok {
			msg = "checkConnSender can return without recording the sender for replay: " + w
		}
		c.Hold("R4d", "checkConnSender:recorded", r.FI.Decl.Pos(), msg == "", msg)
	}
	if r := c.need("R4d", pipelineRel, "checkRunner", "checkRcpt"); r != nil {
		info := r.Info
		var rcpt types.Object
		if ps := r.FI.Decl.Type.Params; ps != nil {
			for _, f := range ps.List {
				for _, nm := range f.Names {
					if o := info.Defs[nm]; o != nil && isStringType(o.Type()) {
						rcpt = o
					}
				}
			}
		}
		app := r.Assigns(func(l, rhs ast.Expr) bool {
			fv := fieldOf(info, l)
			if fv == nil || objName(fv) != "checkedRcpts" || rhs == nil {
				return false
			}
			call, ok := ast.Unparen(rhs).(*ast.CallExpr)
			if !ok || len(call.Args) != 2 {
				return false
			}
			id, isID := call.Fun.(*ast.Ident)
			return isID && id.Name == "append" && fieldOf(info, call.Args[0]) == fv && rcpt != nil && objOf(info, call.Args[1]) == rcpt
		})
		states := calling("~/" + pipelineRel + ".checkRunner.checkStates")
		msg := ""
		pts := r.Calls(states)
		if len(app) == 0 || len(pts) != 1 {
			msg = "undecided: expected one checkStates call and an append of the recipient to checkedRcpts"
		} else {
			call := r.CallAt(pts[0], states)
			if found, w, decided := r.OnErr(pts[0], call, true, r.F.IsExitPt, isPt(app)); !decided {
				msg = "the error of checkStates is not looked at"
			} else if found {
				msg = "checkRcpt can return without recording the recipient for replay (a check created for a later recipient never sees this one): " + w
			}
		}
		c.Hold("R4d", "checkRcpt:recorded", r.FI.Decl.Pos(), msg == "", msg)
	}
}

// R5: the quarantine flag is set on the message metadata during the body stage (applyResults) – after every target's
// Start. A target sees it only if what it kept from Start is the very object the pipeline writes to: a copy taken at
// Start is a snapshot from before the verdict (the queue would store, and later relay, a quarantined message as clean).
func c06MetadataIdentity(c *Check) {
	c.Rule("R5", "delivery targets keep the message metadata they were given at Start by reference: no implementation of DeliveryTarget.Start copies it (DeepCopy, dereference) – the quarantine verdict is written to that object later, in the body stage", 5)
	p := c.P
	n := 0
	p.AllFuncs(p.ServerPkgs(), func(fi *FuncInfo) {
		sig := fi.Obj.Type().(*types.Signature)
		if refName(fi.Obj) != "Start" || sig.Recv() == nil || sig.Params().Len() != 3 || sig.Results().Len() != 2 {
			return
		}
		mt := sig.Params().At(1).Type()
		pt, isPtr := mt.(*types.Pointer)
		if !isPtr || namedOf(pt.Elem()) == nil || objName(namedOf(pt.Elem()).Obj()) != "MsgMetadata" {
			return
		}
		if rn := namedOf(sig.Results().At(0).Type()); rn == nil || objName(rn.Obj()) != "Delivery" {
			return
		}
		n++
		c.SawFunc(fi.Name())
		info := fi.Info()
		prm := sig.Params().At(1)
		copies := copyClosure(info, fi.Decl.Body, prm)
		msg := ""
		ast.Inspect(fi.Decl.Body, func(x ast.Node) bool {
			switch e := x.(type) {
			case *ast.CallExpr:
				if methodName(e) == "DeepCopy" {
					if o := objOf(info, callRecv(e)); o != nil && copies[o] {
						msg = "line " + itoa(p.Fset.Position(e.Pos()).Line) + ": the target keeps a copy of the metadata taken at Start (" + exprStr(e) + "): the Quarantine flag a body-stage check or DMARC sets afterwards is not in it – the message is stored / relayed as clean"
					}
				}
			case *ast.StarExpr:
				if o := objOf(info, e.X); o != nil && copies[o] {
					if tv, ok := info.Types[e]; ok && !tv.IsType() {
						msg = "line " + itoa(p.Fset.Position(e.Pos()).Line) + ": the metadata is copied by value at Start (" + exprStr(e) + "): later verdicts are not seen"
					}
				}
			}
			return true
		})
		c.Hold("R5", fi.Pkg.Types.Name()+"."+recvTypeName(fi.Decl)+".Start", fi.Decl.Pos(), msg == "", msg)
	})
	if n == 0 {
		c.Fail("R5", "targets", token.NoPos, "undecided: no implementation of DeliveryTarget.Start found")
	}
	// … and the pipeline, which sets the flag, gives every target the object it sets it on: the metadata argument of
	// a target's Start inside the pipeline package is the delivery's own metadata (a field / parameter), never a copy
	c.Rule("R5c", "the pipeline starts every target (nested pipelines included) with the very metadata object it later writes the quarantine verdict to: the argument of Start is the delivery's metadata field or parameter on every path, not a DeepCopy / dereferenced copy", 1)
	m := 0
	for _, fi := range funcsOfPkgs(p, pipelineRel) {
		info := fi.Info()
		var r *RuleCtx
		for _, call := range callsIn(fi.Decl.Body) {
			if methodName(call) != "Start" || len(call.Args) != 3 {
				continue
			}
			at, isPtr := info.TypeOf(call.Args[1]).(*types.Pointer)
			if !isPtr || namedOf(at.Elem()) == nil || objName(namedOf(at.Elem()).Obj()) != "MsgMetadata" {
				continue
			}
			m++
			c.SawFunc(fi.Name())
			if r == nil {
				r = c.CtxOf(fi)
			}
			msg := ""
			var judge func(e ast.Expr, at Pt, depth int)
			judge = func(e ast.Expr, at Pt, depth int) {
				e = ast.Unparen(e)
				if fv := fieldOf(info, e); fv != nil {
					return // the delivery's / pipeline's own field
				}
				if v, ok := objOf(info, e).(*types.Var); ok && !v.IsField() {
					if isParamOrResult(fi, v) {
						if !assignedAnywhere(info, fi.Decl.Body, v) {
							return
						}
					}
					if depth < 3 {
						defs, ok := r.ReachingDefs(v, at, nil)
						if ok && len(defs) > 0 {
							for _, d := range defs {
								dp, found := r.F.PtOfNode(d)
								if !found {
									dp = at
								}
								judge(d, dp, depth+1)
							}
							return
						}
					}
				}
				msg = "line " + itoa(p.Fset.Position(call.Pos()).Line) + ": the target is started with " + exprStr(e) + " instead of the delivery's own metadata object: the Quarantine flag the body stage / DMARC sets afterwards is written to a different object than the one the target (a nested pipeline's targets included) files the message by"
			}
			cp, found := r.F.PtOfNode(call)
			if !found {
				c.Fail("R5c", fi.Name()+":Start", call.Pos(), "undecided: call not located in the control-flow graph")
				continue
			}
			judge(call.Args[1], cp, 0)
			c.Hold("R5c", fi.Name()+":Start", call.Pos(), msg == "", msg)
		}
	}
	if m == 0 {
		c.Fail("R5c", "starts", token.NoPos, "undecided: the pipeline package starts no target")
	}
}

// c06ReplayOnly: the replay rules alone (evaluated by C15 as well)
func c06ReplayOnly(c *Check) {
	c06Replay(c)
	c06StageMemory(c)
	c06Registry(c)
}

// R1c: which recipient blocks get their body checks. Body / BodyNonAtomic run the body stage of the checks of every
// block that is a key of the delivery's registry (rcptModifiersState); getRcptModifiers is what puts a block there,
// for every recipient routed to it. A path on which it hands the block's state to the caller without the block being
// in the registry (a short cut for blocks without modifiers) makes the body stage of that block's checks – the
// header check of authorize_sender in a destination block, say – silently disappear.
func c06Registry(c *Check) {
	c.Rule("R1c", "getRcptModifiers returns successfully only for a block that is in the delivery's registry of recipient blocks (found there, or stored on the way): the body-stage checks of every block a recipient was routed to run", 1)
	r := c.need("R1c", pipelineRel, "msgpipelineDelivery", "getRcptModifiers")
	if r == nil {
		return
	}
	info := r.Info
	isReg := func(e ast.Expr) bool {
		fv := fieldOf(info, e)
		return fv != nil && objName(fv) == "rcptModifiersState"
	}
	stores := r.Assigns(func(l, _ ast.Expr) bool {
		ix, ok := ast.Unparen(l).(*ast.IndexExpr)
		return ok && isReg(ix.X)
	})
	// the comma-ok flag of the lookup in the registry
	var okObj types.Object
	for _, pt := range r.F.Points() {
		if as, ok := pt.Node().(*ast.AssignStmt); ok && len(as.Lhs) == 2 && len(as.Rhs) == 1 {
			if ix, isIx := ast.Unparen(as.Rhs[0]).(*ast.IndexExpr); isIx && isReg(ix.X) {
				okObj = objOf(info, as.Lhs[1])
			}
		}
	}
	msg := ""
	if len(stores) == 0 || okObj == nil {
		msg = "undecided: expected a lookup in and a store into the registry of recipient blocks"
	} else {
		notFound := r.F.World(func(atom ast.Expr) (bool, bool) {
			if objOf(info, atom) == okObj {
				return false, true
			}
			return false, false
		})
		if path, found := r.F.Reach(Query{From: r.Entry(), Inclusive: true, Target: r.IsSuccessReturn, Avoid: isPt(stores), AvoidEdge: notFound}); found {
			msg = "a block that is not in the registry yet can be returned without being stored there: Body / BodyNonAtomic never run the body-stage checks of that block (a reject or quarantine of a check configured in a destination block is lost for the header stage): " + r.F.Describe(path)
		}
	}
	c.Hold("R1c", "getRcptModifiers:registered", r.FI.Decl.Pos(), msg == "", msg)
}

func c06Replay(c *Check) {
	p := c.P
	_ = p
	// ---- R4 replay before publish
	c.Rule("R4", "checkStates publishes a lazily created check state only after its replay of the earlier stages succeeded", 1)
	if r := c.need("R4", pipelineRel, "checkRunner", "checkStates"); r != nil {
		info := r.Info
		publish := r.Assigns(func(l, _ ast.Expr) bool {
			ix, ok := ast.Unparen(l).(*ast.IndexExpr)
			return ok && isField(info, ix.X, "checkRunner", "states")
		})
		replays := r.Calls(calling("~/" + pipelineRel + ".checkRunner.runAndMergeResults"))
		msg := ""
		if len(publish) == 0 {
			msg = "new check states are never published"
		}
		if len(replays) < 2 {
			msg = "undecided: expected replay of connection/sender and of earlier recipients"
		}
		for _, pb := range publish {
			if path, f := r.F.Reach(Query{From: []Pt{pb}, Target: isPt(replays)}); f {
				msg = "a new check state is registered before its replay of earlier stages ran: if the replay rejects, the state stays registered and the next recipient of that block skips the replay (the reject is lost, the check never sees the sender): " + r.F.Describe(path)
			}
		}
		// a failed replay never reaches the publish
		for _, rp := range replays {
			call := r.CallAt(rp, calling("~/"+pipelineRel+".checkRunner.runAndMergeResults"))
			if found, w, decided := r.OnErr(rp, call, false, isPt(publish), nil); decided && found {
				msg = "states are published although their replay failed: " + w
			} else if !decided {
				msg = "the result of a replay is dropped"
			}
		}
		// with recipients already checked in this transaction, a lazily created state replays them before it is published
		var rcptReplay []Pt
		for _, l := range elemLoops(info, r.FI.Decl.Body, func(e ast.Expr) bool { return isField(info, e, "checkRunner", "checkedRcpts") }) {
			for _, rp := range replays {
				if n := rp.Node(); n != nil && within(l.Body, n) && l.Whole {
					rcptReplay = append(rcptReplay, r.F.LoopDone(l)...)
				}
			}
		}
		if msg == "" {
			if len(rcptReplay) == 0 {
				msg = "the recipients already accepted in this transaction are not replayed to a lazily created check state"
			} else {
				w := r.F.World(func(atom ast.Expr) (bool, bool) {
					if sx, ok := lenZeroEdge(info, atom); ok && mentionsField(info, atom, "checkedRcpts") {
						return sx != 0, true // recipients were checked before
					}
					return false, false
				})
				if path, f := r.F.Reach(Query{From: r.Entry(), Inclusive: true, Target: isPt(publish), Avoid: isPt(rcptReplay), AvoidEdge: w}); f {
					msg = "with recipients already checked, a new check state is published without having seen them (a per-recipient verdict of that check is never produced for the earlier recipients): " + r.F.Describe(path)
				}
			}
		}
		c.Hold("R4", "checkStates:replay-before-publish", r.FI.Decl.Pos(), msg == "", msg)
	}
}

// c06StageOrder: R1 (also evaluated by C07: the DMARC verdict is computed from the results of ALL body checks on
// both paths)
func c06StageOrder(c *Check) {
	// ---- R1
	c.Rule("R1", "Body and BodyNonAtomic of the pipeline run the same ordered stage sequence", 1)
	rb := c.need("R1", pipelineRel, "msgpipelineDelivery", "Body")
	rn := c.need("R1", pipelineRel, "msgpipelineDelivery", "BodyNonAtomic")
	if rb != nil && rn != nil {
		sb, sn := bodyStages(rb), bodyStages(rn)
		missing := []string{}
		have := map[string]bool{}
		for _, s := range sn {
			have[s] = true
		}
		for _, s := range sb {
			if !have[s] {
				missing = append(missing, s)
			}
		}
		extra := []string{}
		haveB := map[string]bool{}
		for _, s := range sb {
			haveB[s] = true
		}
		for _, s := range sn {
			if !haveB[s] {
				extra = append(extra, s)
			}
		}
		msg := ""
		if len(missing) > 0 {
			msg = "the per-recipient (LMTP) body path lacks stages the SMTP path has: " + strings.Join(missing, ", ") + " – e.g. without applyResults the quarantine flag and the DMARC action are never applied over LMTP"
		} else if len(extra) > 0 {
			msg = "the SMTP body path lacks stages the LMTP path has: " + strings.Join(extra, ", ")
		} else if strings.Join(sb, ">") != strings.Join(sn, ">") {
			msg = "the two body paths run their stages in different orders: " + strings.Join(sb, ">") + " vs " + strings.Join(sn, ">")
		}
		if len(sb) < 7 {
			msg = "undecided: fewer stages than expected in Body: " + strings.Join(sb, ">")
		}
		c.Hold("R1", "msgpipelineDelivery.Body~BodyNonAtomic", rn.FI.Decl.Pos(), msg == "", msg)
	}

}

// c06ResultsKept: what a check returns from one of its stage methods is a whole – verdict, reason, authentication
// results (spf=…, dkim=… that DMARC evaluates later), header fields. The runner hands it to the merge as it is. A
// result that is looked at and then let go on some path (`if res.Reject { return res }; return next()`) loses the
// authentication results of a clean stage: DMARC then sees "no SPF result" and says none instead of fail.
func c06ResultsKept(c *Check, rule string) {
	c.Rule(rule, "check runner: the result of every stage call on a check state (CheckConnection / CheckSender / CheckRcpt / CheckBody) is handed on whole – returned or passed on – on every path from the call to the end of the function around it; a result is never dropped after only its verdict fields were read", 5)
	p := c.P
	pk := p.Pkg(pipelineRel)
	if pk == nil {
		c.Fail(rule, "package", token.NoPos, "anchor unresolved")
		return
	}
	info := pk.TypesInfo
	isResult := func(t types.Type) bool {
		n := namedOf(t)
		return n != nil && objName(n.Obj()) == "CheckResult" && n.Obj().Pkg() != nil && n.Obj().Pkg().Path() == modPath+"/framework/module"
	}
	stage := func(call *ast.CallExpr) bool {
		switch methodName(call) {
		case "CheckConnection", "CheckSender", "CheckRcpt", "CheckBody":
			tv, ok := info.Types[call]
			return ok && isResult(tv.Type)
		}
		return false
	}
	// v used as a whole in n (not merely as the operand of a field selection)
	wholeUse := func(n ast.Node, v types.Object) bool {
		found := false
		var stack []ast.Node
		ast.Inspect(n, func(x ast.Node) bool {
			if x == nil {
				stack = stack[:len(stack)-1]
				return true
			}
			if id, ok := x.(*ast.Ident); ok && info.Uses[id] == v && len(stack) > 0 {
				switch par := stack[len(stack)-1].(type) {
				case *ast.SelectorExpr:
					if par.X != ast.Expr(id) {
						found = true
					}
				case *ast.AssignStmt:
					for _, l := range par.Lhs {
						if l == ast.Expr(id) {
							stack = append(stack, x)
							return true // being assigned, not used
						}
					}
					found = true
				default:
					found = true
				}
			}
			stack = append(stack, x)
			return true
		})
		return found
	}
	n := 0
	judgeBody := func(fi *FuncInfo, name string, body *ast.BlockStmt) {
		var sites []*ast.CallExpr
		inspectNoLit(body, func(x ast.Node) bool {
			if call, ok := x.(*ast.CallExpr); ok && stage(call) {
				sites = append(sites, call)
			}
			return true
		})
		if len(sites) == 0 {
			return
		}
		c.SawFunc(fi.Name())
		r := &RuleCtx{C: c, FI: fi, F: p.FlowOf(info, body, name), Info: info}
		ord := map[string]int{}
		for _, call := range sites {
			n++
			m := methodName(call)
			ord[m]++
			key := name + ":" + m + itoa(ord[m])
			pt, found := r.F.PtOfNode(call)
			if !found {
				c.Fail(rule, key, call.Pos(), "undecided: call not located in the control-flow graph")
				continue
			}
			switch nd := pt.Node().(type) {
			case *ast.ReturnStmt:
				// `return s.CheckBody(…)`: handed on directly
				direct := false
				for _, res := range nd.Results {
					if ast.Unparen(res) == ast.Expr(call) {
						direct = true
					}
				}
				c.Hold(rule, key, call.Pos(), direct, "the result of "+m+" is consumed inside a return expression instead of being handed on whole")
				continue
			case *ast.ExprStmt:
				c.Hold(rule, key, call.Pos(), false, "the result of "+m+" is discarded")
				continue
			}
			var v types.Object
			switch nd := pt.Node().(type) {
			case *ast.AssignStmt:
				for i, rh := range nd.Rhs {
					if ast.Unparen(rh) == ast.Expr(call) && i < len(nd.Lhs) {
						v = objOf(info, nd.Lhs[i])
					}
				}
			case *ast.ValueSpec:
				for i, rh := range nd.Values {
					if ast.Unparen(rh) == ast.Expr(call) && i < len(nd.Names) {
						v = info.Defs[nd.Names[i]]
					}
				}
			}
			if v == nil {
				// `if res := s.Check…(); …` and similar: the init statement is its own node in the graph
				ast.Inspect(pt.Node(), func(x ast.Node) bool {
					if as, ok := x.(*ast.AssignStmt); ok && v == nil {
						for i, rh := range as.Rhs {
							if ast.Unparen(rh) == ast.Expr(call) && i < len(as.Lhs) {
								v = objOf(info, as.Lhs[i])
							}
						}
					}
					return true
				})
			}
			if v == nil {
				// an argument of another call (`merge(s.CheckBody(…))`): handed on
				c.Hold(rule, key, call.Pos(), true, "")
				continue
			}
			used := func(q Pt) bool { return q != pt && q.Node() != nil && wholeUse(q.Node(), v) }
			lost := func(q Pt) bool {
				if r.F.IsExitPt(q) {
					return true
				}
				return q != pt && q.Node() != nil && assignsObj(info, q.Node(), v)
			}
			path, f := r.F.Reach(Query{From: []Pt{pt}, Target: lost, Avoid: used})
			c.Hold(rule, key, call.Pos(), !f, "the result of "+m+" ("+v.Name()+") is let go on a path on which it was never handed on whole – its authentication results (spf=, dkim=) and header fields are lost to the merge, and DMARC judges the message without them: "+r.F.Describe(path))
		}
	}
	p.AllFuncs([]*packagesPkg{pk}, func(fi *FuncInfo) {
		if fi.Decl.Body == nil || strings.HasSuffix(p.Fset.Position(fi.Decl.Pos()).Filename, "_test.go") {
			return
		}
		judgeBody(fi, fi.Name(), fi.Decl.Body)
		li := 0
		ast.Inspect(fi.Decl.Body, func(x ast.Node) bool {
			if fl, ok := x.(*ast.FuncLit); ok {
				li++
				judgeBody(fi, fi.Name()+"$lit"+itoa(li), fl.Body)
			}
			return true
		})
	})
	if n < 5 {
		c.Fail(rule, "stage-calls", token.NoPos, "undecided: fewer than five stage calls on check states in the pipeline package")
	}
}

// c06ActionParsed: `fail_action reject` / `… quarantine` / `… ignore` (and the *_action directives of the checks that
// use the same parser, e.g. authorize_sender) are turned into the two flags FailAction.Apply enforces. A verdict is
// enforced only if the flag survives parsing: evaluated in the three worlds of the first argument, the value last
// written to Reject / Quarantine on every path to a successful return is what the argument says – also when further
// arguments (a custom reply) follow.
func c06ActionParsed(c *Check, rule string) {
	c.Rule(rule, "ParseActionDirective: in each of the worlds args[0] = reject / quarantine / ignore, on every path to a successful return the last value written to the result's Reject and Quarantine flags is the one the argument says (a custom reply after the action does not clear it)", 6)
	r := c.need(rule, "framework/config/module", "", "ParseActionDirective")
	if r == nil {
		return
	}
	info := r.Info
	sig := r.FI.Obj.Type().(*types.Signature)
	if sig.Params().Len() != 1 {
		c.Fail(rule, "ParseActionDirective:shape", r.FI.Decl.Pos(), "undecided: unexpected signature")
		return
	}
	args := sig.Params().At(0)
	isArg0 := func(e ast.Expr) bool {
		ix, ok := ast.Unparen(e).(*ast.IndexExpr)
		if !ok || objOf(info, ix.X) != types.Object(args) {
			return false
		}
		z, ok := constInt(info.Types[ix.Index])
		return ok && z == 0
	}
	// success returns and the variable they return
	var rets []Pt
	var res types.Object
	for _, b := range r.F.G.Blocks {
		q := Pt{b, len(b.Nodes)}
		_, ret := r.F.Exit(q)
		if ret == nil || len(ret.Results) != 2 || !isNilIdent(info, ret.Results[1]) {
			continue
		}
		rets = append(rets, q)
		if o := objOf(info, ret.Results[0]); o != nil {
			res = o
		}
	}
	if len(rets) == 0 {
		c.Fail(rule, "ParseActionDirective:returns", r.FI.Decl.Pos(), "undecided: no successful return")
		return
	}
	type write struct {
		pt  Pt
		val ast.Expr // nil: the zero value
	}
	writesOf := func(field string) []write {
		var out []write
		litVal := func(cl *ast.CompositeLit) ast.Expr {
			for _, el := range cl.Elts {
				if kv, ok := el.(*ast.KeyValueExpr); ok {
					if id, ok := kv.Key.(*ast.Ident); ok && id.Name == field {
						return kv.Value
					}
				}
			}
			return nil
		}
		for _, pt := range r.F.Points() {
			switch st := pt.Node().(type) {
			case *ast.AssignStmt:
				if len(st.Lhs) != len(st.Rhs) {
					for _, l := range st.Lhs {
						if sel, ok := ast.Unparen(l).(*ast.SelectorExpr); ok && sel.Sel.Name == field && objOf(info, sel.X) == res {
							out = append(out, write{pt, st.Rhs[0]}) // tuple: not a constant → undecided below
						}
					}
					continue
				}
				for i, l := range st.Lhs {
					if sel, ok := ast.Unparen(l).(*ast.SelectorExpr); ok && sel.Sel.Name == field && objOf(info, sel.X) == res && res != nil {
						out = append(out, write{pt, st.Rhs[i]})
					}
					if res != nil && objOf(info, l) == res {
						if cl, ok := ast.Unparen(st.Rhs[i]).(*ast.CompositeLit); ok {
							out = append(out, write{pt, litVal(cl)})
						} else {
							out = append(out, write{pt, st.Rhs[i]})
						}
					}
				}
			case *ast.ValueSpec:
				for i, nm := range st.Names {
					if res != nil && info.Defs[nm] == res {
						if i < len(st.Values) {
							if cl, ok := ast.Unparen(st.Values[i]).(*ast.CompositeLit); ok {
								out = append(out, write{pt, litVal(cl)})
							} else {
								out = append(out, write{pt, st.Values[i]})
							}
						} else {
							out = append(out, write{pt, nil})
						}
					}
				}
			case *ast.ReturnStmt:
				// a literal returned directly
				if len(st.Results) == 2 && isNilIdent(info, st.Results[1]) {
					if cl, ok := ast.Unparen(st.Results[0]).(*ast.CompositeLit); ok {
						out = append(out, write{pt, litVal(cl)})
					}
				}
			}
		}
		return out
	}
	for _, w := range []string{"reject", "quarantine", "ignore"} {
		w := w
		val := func(atom ast.Expr) (bool, bool) {
			be, ok := ast.Unparen(atom).(*ast.BinaryExpr)
			if !ok || (be.Op != token.EQL && be.Op != token.NEQ) {
				return false, false
			}
			var cs string
			var okc bool
			switch {
			case isArg0(be.X):
				cs, okc = constString(info, be.Y)
			case isArg0(be.Y):
				cs, okc = constString(info, be.X)
			}
			if !okc {
				return false, false
			}
			return (cs == w) == (be.Op == token.EQL), true
		}
		// a named boolean (`isReject := args[0] == "reject"`) stands for its definition
		base := val
		val = func(atom ast.Expr) (bool, bool) {
			if v, k := base(atom); k {
				return v, k
			}
			if _, isID := ast.Unparen(atom).(*ast.Ident); isID {
				if def := resolveLocal(info, r.FI.Decl.Body, atom); def != atom && def != nil {
					return evalBoolUnder(def, base)
				}
			}
			return false, false
		}
		binWorld := r.F.World(val)
		world := func(b *cfgBlock, i int) bool {
			if cond, isCase := r.F.Cond(b); cond != nil && isCase {
				if tag := r.F.CaseTag(b); tag != nil && isArg0(tag) {
					if cs, ok := constString(info, cond); ok {
						return (cs == w) != (i == 0)
					}
				}
				return false
			}
			return binWorld(b, i)
		}
		for _, field := range []string{"Reject", "Quarantine"} {
			want := (field == "Reject" && w == "reject") || (field == "Quarantine" && w == "quarantine")
			key := "ParseActionDirective:" + w + ":" + field
			ws := writesOf(field)
			if len(ws) == 0 {
				c.Fail(rule, key, r.FI.Decl.Pos(), "undecided: the flag is never written")
				continue
			}
			isWrite := func(q Pt) bool {
				for _, x := range ws {
					if x.pt == q {
						return true
					}
				}
				return false
			}
			msg := ""
			for _, x := range ws {
				v, known := false, true
				if x.val != nil {
					if tv, ok := info.Types[x.val]; ok && tv.Value != nil && tv.Value.Kind() == constant.Bool {
						v = constant.BoolVal(tv.Value)
					} else {
						v, known = evalBoolUnder(x.val, val)
					}
				}
				if known && v == want {
					continue
				}
				// is this write the last one on some path to a successful return in this world? (it must itself be reachable there)
				if _, reachable := r.F.Reach(Query{From: r.Entry(), Inclusive: true, Target: func(q Pt) bool { return q == x.pt }, AvoidEdge: world}); !reachable {
					continue
				}
				tgt := func(q Pt) bool { return isPt(rets)(q) }
				var path []Pt
				var f bool
				if isPt(rets)(Pt{x.pt.B, len(x.pt.B.Nodes)}) && x.pt.I == len(x.pt.B.Nodes)-1 {
					if _, isRet := x.pt.Node().(*ast.ReturnStmt); isRet {
						f = true
					}
				}
				if !f {
					path, f = r.F.Reach(Query{From: []Pt{x.pt}, Target: tgt, Avoid: func(q Pt) bool { return q != x.pt && isWrite(q) }, AvoidEdge: world})
				}
				if f {
					what := "false"
					if x.val != nil {
						what = exprStr(x.val)
					}
					if !known {
						msg = "undecided: with `" + w + "` the flag " + field + " is last written with " + what + ", which the argument does not decide"
					} else {
						msg = "with the action `" + w + "` the flag " + field + " of the parsed action ends up " + what + " (line " + itoa(c.P.Fset.Position(x.pt.Node().Pos()).Line) + " is the last write on a path to the successful return): the verdict of every check configured this way is not enforced as configured – `reject` with a custom reply becomes `ignore`: " + r.F.Describe(path)
					}
				}
			}
			c.Hold(rule, key, r.FI.Decl.Pos(), msg == "", msg)
		}
	}
}

// R9: the runner remembers which (check state, recipient) pairs were checked so that a check referenced in several
// blocks sees a recipient once. The memory must not outlive a refusal: RCPT TO:<x> refused by a check leaves the
// transaction open, the client may send the very same command again, and a pair still on record makes the runner
// skip the check – the repeated command is accepted and the recipient delivered. Decided on checkRcpt's runner: in
// the world "the result's Reject flag is set" no path from the store of the pair to the end of the runner avoids the
// deletion of that pair (or the store is made only where the flag is clear).
func c06RcptMemory(c *Check) {
	c.Rule("R9", "checkRcpt: a (check state, recipient) pair does not stay on record when the check refused the recipient – evaluated in the world `result.Reject` on every path from the store to the runner's return (a repeated RCPT command is checked again, not waved through)", 1)
	if c.need("R9", pipelineRel, "checkRunner", "checkRcpt") == nil {
		return
	}
	// every runner of the check runner that records the pair and calls CheckRcpt: the recipient stage itself and the
	// replay of earlier recipients to newly created states (checkStates) – the replay also shows the CURRENT recipient
	// to the states that existed before
	for _, fi0 := range funcsOfPkgs(c.P, pipelineRel) {
		if fi0.Decl.Body == nil || fi0.Decl.Recv == nil || recvTypeName(fi0.Decl) != "checkRunner" {
			continue
		}
		has := false
		for _, call := range func() []*ast.CallExpr {
			var o []*ast.CallExpr
			ast.Inspect(fi0.Decl.Body, func(x ast.Node) bool {
				if cl, ok := x.(*ast.CallExpr); ok {
					o = append(o, cl)
				}
				return true
			})
			return o
		}() {
			if methodName(call) == "CheckRcpt" {
				has = true
			}
		}
		if !has {
			continue
		}
		c06RcptMemoryIn(c, &RuleCtx{C: c, FI: fi0, F: c.P.FlowOfFunc(fi0), Info: fi0.Info()})
	}
}

func c06RcptMemoryIn(c *Check, r0 *RuleCtx) {
	info := r0.Info
	isTable := func(e ast.Expr) bool {
		// cr.checkedRcptsPerCheck[s]  (the per-state set)
		ix, ok := ast.Unparen(e).(*ast.IndexExpr)
		if !ok {
			return false
		}
		fv := fieldOf(info, ix.X)
		if fv == nil {
			return false
		}
		m, isMap := fv.Type().Underlying().(*types.Map)
		if !isMap {
			return false
		}
		_, inner := m.Elem().Underlying().(*types.Map)
		return inner
	}
	n := 0
	msg := "undecided: no runner that records the recipient and calls CheckRcpt found in " + refName(r0.FI.Obj)
	ast.Inspect(r0.FI.Decl.Body, func(x ast.Node) bool {
		fl, ok := x.(*ast.FuncLit)
		if !ok {
			return true
		}
		var stage *ast.CallExpr
		for _, call := range callsIn(fl.Body) {
			if methodName(call) == "CheckRcpt" {
				stage = call
			}
		}
		if stage == nil {
			return true
		}
		r := &RuleCtx{C: c, FI: r0.FI, F: c.P.FlowOf(info, fl.Body, r0.FI.Name()+"$runner"), Info: info}
		var stores, deletes []Pt
		for _, pt := range r.F.Points() {
			switch st := pt.Node().(type) {
			case *ast.AssignStmt:
				for _, l := range st.Lhs {
					if ix, ok := ast.Unparen(l).(*ast.IndexExpr); ok && isTable(ix.X) {
						stores = append(stores, pt)
					}
				}
			case *ast.ExprStmt:
				if call, ok := st.X.(*ast.CallExpr); ok {
					if id, isID := call.Fun.(*ast.Ident); isID && id.Name == "delete" && len(call.Args) == 2 && isTable(call.Args[0]) {
						deletes = append(deletes, pt)
					}
				}
			}
		}
		if len(stores) == 0 {
			return true
		}
		n++
		// the variable holding the stage result
		var res types.Object
		if sp, ok := r.F.PtOfNode(stage); ok {
			if as, isAs := sp.Node().(*ast.AssignStmt); isAs && len(as.Lhs) == 1 {
				res = objOf(info, as.Lhs[0])
			}
		}
		world := r.F.World(func(atom ast.Expr) (bool, bool) {
			if sel, ok := ast.Unparen(atom).(*ast.SelectorExpr); ok && sel.Sel.Name == "Reject" && res != nil && objOf(info, sel.X) == res {
				return true, true
			}
			return false, false
		})
		msg = ""
		if res == nil {
			msg = "the recipient is recorded as checked and the result of CheckRcpt is handed on without being looked at: a refusal leaves the pair on record, the same RCPT command sent again is not checked and is accepted"
			return false
		}
		exit := func(q Pt) bool { return r.F.IsExitPt(q) }
		if path, f := r.F.Reach(Query{From: stores, Target: exit, Avoid: isPt(deletes), AvoidEdge: world}); f {
			msg = "the recipient stays recorded as checked although the check refused it: the client repeats the refused RCPT command, the runner skips the check (`already checked`) and the recipient is accepted and delivered: " + r.F.Describe(path)
		}
		return false
	})
	c.SawFunc(r0.FI.Name())
	c.Hold("R9", refName(r0.FI.Obj)+":refusal-not-remembered", r0.FI.Decl.Pos(), msg == "" && n > 0, msg)
}

// R10: "each applicable check sees the body exactly once per message, including the same check referenced in several
// blocks". The body stage is run once per block list (global, source, every destination block in use); a check
// referenced in several lists has ONE state. The runner of checkBody must therefore keep a record per state, consult
// it before CheckBody and enter the state on the miss edge – as the recipient stage does.
func c06BodyOnce(c *Check) {
	c.Rule("R10", "checkBody: the body-stage call on a check state is guarded by a per-state record – looked up before CheckBody, returning without the call on a hit, entered on the miss edge (a check referenced in several blocks sees the body once)", 1)
	r0 := c.need("R10", pipelineRel, "checkRunner", "checkBody")
	if r0 == nil {
		return
	}
	info := r0.Info
	msg := "undecided: no runner calling CheckBody found in checkBody"
	ast.Inspect(r0.FI.Decl.Body, func(x ast.Node) bool {
		fl, ok := x.(*ast.FuncLit)
		if !ok {
			return true
		}
		var stage *ast.CallExpr
		for _, call := range callsIn(fl.Body) {
			if methodName(call) == "CheckBody" {
				stage = call
			}
		}
		if stage == nil {
			return true
		}
		var stateObj types.Object
		if fl.Type.Params != nil && len(fl.Type.Params.List) == 1 && len(fl.Type.Params.List[0].Names) == 1 {
			stateObj = info.Defs[fl.Type.Params.List[0].Names[0]]
		}
		r := &RuleCtx{C: c, FI: r0.FI, F: c.P.FlowOf(info, fl.Body, r0.FI.Name()+"$bodyrunner"), Info: info}
		sp, okS := r.F.PtOfNode(stage)
		keyedByState := func(e ast.Expr) bool {
			ix, ok := ast.Unparen(e).(*ast.IndexExpr)
			return ok && stateObj != nil && objOf(info, ix.Index) == stateObj && fieldOf(info, ix.X) != nil
		}
		var lookups, stores []Pt
		var okObj types.Object
		for _, pt := range r.F.Points() {
			if as, isAs := pt.Node().(*ast.AssignStmt); isAs {
				if len(as.Lhs) == 2 && len(as.Rhs) == 1 && keyedByState(as.Rhs[0]) {
					lookups = append(lookups, pt)
					okObj = objOf(info, as.Lhs[1])
				}
				for _, l := range as.Lhs {
					if keyedByState(l) {
						stores = append(stores, pt)
					}
				}
			}
		}
		switch {
		case !okS:
			msg = "undecided: the stage call is not located in the control-flow graph"
		case len(lookups) == 0 || len(stores) == 0 || okObj == nil:
			msg = "the runner calls CheckBody for every state of the list it is given, without a per-state record: a check referenced in the global, the source and a destination block sees the body once per block (three times) – its header fields and authentication results are merged repeatedly, and a check that reads a one-shot channel in CheckBody (SPF) blocks for ever on the second call"
		default:
			msg = ""
			hit := r.F.World(func(atom ast.Expr) (bool, bool) {
				if objOf(info, ast.Unparen(atom)) == okObj {
					return true, true
				}
				return false, false
			})
			if path, f := r.F.Reach(Query{From: r.Entry(), Inclusive: true, Target: func(q Pt) bool { return q == sp }, AvoidEdge: hit}); f {
				msg = "CheckBody is reached although the state is already on record (shown the body before): " + r.F.Describe(path)
			} else if okMP, w := r.MustPass(r.Entry(), true, func(q Pt) bool { return q == sp }, isPt(stores)); !okMP {
				msg = "CheckBody can be called without the state having been entered in the record: the next block list shows it the body again: " + w
			} else if okMP2, w2 := r.MustPass(r.Entry(), true, func(q Pt) bool { return q == sp }, isPt(lookups)); !okMP2 {
				msg = "CheckBody can be called without the record having been consulted: " + w2
			}
		}
		return false
	})
	c.Hold("R10", "checkBody:once-per-state", r0.FI.Decl.Pos(), msg == "", msg)
}
