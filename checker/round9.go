package main

// Rules added after the ninth set of independently seeded changes (DESIGN.md §R.18).

import (
	"go/ast"
	"go/token"
	"go/types"
	"strings"
)

// ---- C13.R12 (= C05.R16): "not found" means the name does not exist.
// dns.IsNotFound separates denial of existence from a failed look-up: discoverTLSA and daneDelivery.CheckConn treat the
// first as "no TLSA records, DANE does not apply" and the second as a temporary failure. Only NXDOMAIN (and the
// resolver library's own IsNotFound flag) may answer true: with REFUSED or NOTIMP counted as "not found" (C13R) a
// name server that merely declines the TLSA query switches DANE off for an MX that publishes records.
func c13NotFoundIsNXDomainOnly(c *Check, rule string) {
	c.Rule(rule, "dns.IsNotFound answers true only for NXDOMAIN (response code 3) and for the resolver's own not-found flag: no other response code turns a failed TLSA look-up into 'no records'", 1)
	r := c.need(rule, "framework/dns", "", "IsNotFound")
	if r == nil {
		return
	}
	info := r.Info
	constOf := func(e ast.Expr) (int64, bool) {
		if tv, ok := info.Types[e]; ok && tv.Value != nil {
			return constInt(tv)
		}
		return 0, false
	}
	msg := ""
	n := 0
	bad := func(e ast.Expr) {
		if v, ok := constOf(e); ok && v != 3 {
			msg = "line " + itoa(p0(c.P, e.Pos())) + ": response code " + exprStr(e) + " counts as 'not found': a server that refuses or does not implement the query is taken for proof that no TLSA record exists – DANE is skipped and the message goes out unauthenticated (or in the clear) to an MX that publishes records"
		}
	}
	ast.Inspect(r.FI.Decl.Body, func(x ast.Node) bool {
		switch s := x.(type) {
		case *ast.CaseClause:
			// a case whose body can return true
			retTrue := false
			for _, st := range s.Body {
				ast.Inspect(st, func(y ast.Node) bool {
					if ret, ok := y.(*ast.ReturnStmt); ok && len(ret.Results) == 1 {
						if id, ok := ast.Unparen(ret.Results[0]).(*ast.Ident); ok && id.Name == "true" {
							retTrue = true
						}
					}
					return true
				})
			}
			// fallthrough into a returning case is not followed; labels of a returning case are judged
			if retTrue {
				for _, e := range s.List {
					if _, isC := constOf(e); isC {
						n++
						bad(e)
					}
				}
			}
		case *ast.BinaryExpr:
			if s.Op == token.EQL {
				for _, pair := range [][2]ast.Expr{{s.X, s.Y}, {s.Y, s.X}} {
					if se, ok := ast.Unparen(pair[0]).(*ast.SelectorExpr); ok && se.Sel.Name == "Code" {
						if _, isC := constOf(pair[1]); isC {
							n++
							bad(pair[1])
						}
					}
				}
			}
		}
		return true
	})
	c.Hold(rule, "IsNotFound:codes", r.FI.Decl.Pos(), n > 0 && msg == "", msg)
}

// ---- C06.R14 (= C07.R17): the list of blocks whose body checks run never shrinks during a transaction.
// msgpipelineDelivery.Body / BodyNonAtomic run the body stage of the destination-block checks by ranging over a map
// of the delivery that is filled at RCPT time (its keys are the blocks recipients were routed to). An entry that is
// removed before the body arrives (C07R: after a modifier refused a later recipient of the block) takes the block's
// checks – SPF, DKIM – out of the body stage although earlier recipients of that block were accepted: DMARC sees no
// results, the verdict is none, and a message that fails a reject policy is delivered.
func c06BodyBlockListNeverShrinks(c *Check, rule string) {
	c.Rule(rule, "msgpipeline: the collection Body / BodyNonAtomic range over to run the destination blocks' body checks is only added to while the delivery is open – nothing deletes from it or replaces it outside the function that ends the delivery", 1)
	p := c.P
	pk := p.Pkg("internal/msgpipeline")
	if pk == nil {
		c.Fail(rule, "package", token.NoPos, "anchor unresolved")
		return
	}
	info := pk.TypesInfo
	// the field: ranged over in Body with a checkBody call in the loop
	var field *types.Var
	for _, name := range []string{"Body", "BodyNonAtomic"} {
		fi := p.Func("internal/msgpipeline", "msgpipelineDelivery", name)
		if fi == nil {
			continue
		}
		c.SawFunc(fi.Name())
		ast.Inspect(fi.Decl.Body, func(x ast.Node) bool {
			rs, ok := x.(*ast.RangeStmt)
			if !ok {
				return true
			}
			f := fieldOf(info, ast.Unparen(rs.X))
			if f == nil {
				return true
			}
			if _, isMap := f.Type().Underlying().(*types.Map); !isMap {
				return true
			}
			for _, call := range callsIn(rs.Body) {
				if strings.Contains(strings.ToLower(methodName(call)), "checkbody") {
					field = f
				}
			}
			return true
		})
	}
	if field == nil {
		c.Fail(rule, "Body:block-list", token.NoPos, "anchor unresolved: no map of the delivery is ranged over to run body checks")
		return
	}
	msg := ""
	p.AllFuncs([]*packagesPkg{pk}, func(fi *FuncInfo) {
		if fi.Decl.Body == nil || strings.HasSuffix(p.Fset.Position(fi.Decl.Pos()).Filename, "_test.go") {
			return
		}
		ending := refName(fi.Obj) == "close" || refName(fi.Obj) == "Abort" || refName(fi.Obj) == "Commit"
		ast.Inspect(fi.Decl.Body, func(x ast.Node) bool {
			switch s := x.(type) {
			case *ast.CallExpr:
				if id, ok := ast.Unparen(s.Fun).(*ast.Ident); ok && id.Name == "delete" && len(s.Args) == 2 && fieldOf(info, ast.Unparen(s.Args[0])) == field && !ending {
					msg = "line " + itoa(p0(p, s.Pos())) + " (" + fi.Name() + "): an entry is deleted from " + field.Name() + " while the delivery is open: the block leaves the list of blocks whose checks see the body although recipients routed to it were accepted – its SPF / DKIM checks never run, DMARC has nothing to align and answers none"
				}
			case *ast.AssignStmt:
				for _, l := range s.Lhs {
					if fieldOf(info, ast.Unparen(l)) == field && !ending {
						if _, isIdx := ast.Unparen(l).(*ast.IndexExpr); !isIdx {
							msg = "line " + itoa(p0(p, s.Pos())) + " (" + fi.Name() + "): " + field.Name() + " is replaced while the delivery is open"
						}
					}
				}
			}
			return true
		})
	})
	c.Hold(rule, "msgpipelineDelivery."+field.Name()+":grows-only", token.NoPos, msg == "", msg)
}

// ---- C07.R16b: the version filter is the prefix test, nothing stricter.
// Which TXT strings are DMARC records is decided by go-msgauth's parser; the filter in front of it only discards what
// does not begin with the version tag. RFC 7489 allows white space around the separator (`v=DMARC1 ; p=reject`): a
// filter constant longer than "v=DMARC1" (C07Q: "v=DMARC1;") discards such a record – no policy, verdict none.
func c07VersionFilterIsPrefix(c *Check, rule string) {
	p := c.P
	pk := p.Pkg("internal/dmarc")
	if pk == nil {
		return
	}
	info := pk.TypesInfo
	n := 0
	msg := ""
	p.AllFuncs([]*packagesPkg{pk}, func(fi *FuncInfo) {
		if fi.Decl.Body == nil || strings.HasSuffix(p.Fset.Position(fi.Decl.Pos()).Filename, "_test.go") {
			return
		}
		ast.Inspect(fi.Decl.Body, func(x ast.Node) bool {
			var cst ast.Expr
			switch s := x.(type) {
			case *ast.CallExpr:
				if isCall(info, s, "strings.HasPrefix") && len(s.Args) == 2 {
					cst = s.Args[1]
				}
			case *ast.BinaryExpr:
				if s.Op == token.EQL || s.Op == token.NEQ {
					if _, ok := constString(info, s.Y); ok {
						cst = s.Y
					} else if _, ok := constString(info, s.X); ok {
						cst = s.X
					}
				}
			}
			if cst == nil {
				return true
			}
			sv, ok := constString(info, cst)
			if !ok || !strings.HasPrefix(strings.ToUpper(sv), "V=DMARC1") {
				return true
			}
			n++
			if len(sv) != len("v=DMARC1") {
				msg = "line " + itoa(p0(p, cst.Pos())) + ": TXT strings are kept only when they match " + exprStr(cst) + ", which is longer than the version tag: a valid record with white space before its first separator (`v=DMARC1 ; p=reject`, RFC 7489 §6.4) is discarded – no policy is found and a message that fails DMARC is accepted"
			}
			return true
		})
	})
	c.Hold(rule, "dmarc:version-filter", token.NoPos, n > 0 && msg == "", msg)
}

// ---- C19.R17: a connection is closed or returned, never both.
// remoteDelivery.Close decides for every connection of the delivery: close it (not usable, or a security override
// was in effect) or hand it to the pool. With the two decisions made by separate conditions (C19Q: `if !usable ||
// override { Close }; if usable { Return }`) a usable connection of an overridden delivery is closed AND returned:
// the pool hands out a closed connection.
func c19ClosedNotReturned(c *Check, rule string) {
	c.Rule(rule, "target.remote: within one iteration over the delivery's connections no path both closes a connection and returns it to the pool (a closed connection is never handed out)", 1)
	p := c.P
	pk := p.Pkg("internal/target/remote")
	if pk == nil {
		c.Fail(rule, "package", token.NoPos, "anchor unresolved")
		return
	}
	info := pk.TypesInfo
	n := 0
	p.AllFuncs([]*packagesPkg{pk}, func(fi *FuncInfo) {
		if fi.Decl.Body == nil || strings.HasSuffix(p.Fset.Position(fi.Decl.Pos()).Filename, "_test.go") {
			return
		}
		funcBodies(p, fi, func(name string, body *ast.BlockStmt, fl *Flow) {
			for _, pt := range fl.Points() {
				if pt.Node() == nil || !directlyIn(body, pt.Node()) {
					continue
				}
				if _, isDefer := pt.Node().(*ast.DeferStmt); isDefer {
					continue
				}
				for _, call := range callsAt(pt.Node()) {
					if !isCall(info, call, "~/internal/smtpconn/pool.P.Return") || len(call.Args) != 2 {
						continue
					}
					o := objOf(info, call.Args[1])
					if o == nil {
						continue
					}
					n++
					c.SawFunc(fi.Name())
					isClose := func(q Pt) bool {
						if q.Node() == nil {
							return false
						}
						if _, isDefer := q.Node().(*ast.DeferStmt); isDefer {
							return false
						}
						for _, cc := range callsAt(q.Node()) {
							m := methodName(cc)
							if (m == "Close" || m == "DirectClose") && recvObj(info, cc) == o {
								return true
							}
						}
						return false
					}
					rebinds := func(q Pt) bool {
						if q.Node() != nil && assignsObj(info, q.Node(), o) {
							return true
						}
						// the next iteration of a loop whose variable o is
						if rs, ok := q.B.Stmt.(*ast.RangeStmt); ok && q.I == 0 && q.B.Kind == kindRangeLoop {
							if (rs.Value != nil && objOf(info, rs.Value) == o) || (rs.Key != nil && objOf(info, rs.Key) == o) {
								return true
							}
						}
						return false
					}
					var closes []Pt
					for _, q := range fl.Points() {
						if isClose(q) {
							closes = append(closes, q)
						}
					}
					path, found := fl.Reach(Query{From: closes, Target: func(q Pt) bool { return q == pt }, Avoid: rebinds})
					c.Hold(rule, name+":return"+itoa(n), call.Pos(), !found || len(closes) == 0, "the connection handed to the pool at line "+itoa(p0(p, call.Pos()))+" can have been closed before on the same path ("+fl.Describe(path)+"): the pool keeps a closed connection and hands it to the next delivery for that domain")
				}
			}
		})
	})
	if n == 0 {
		c.Fail(rule, "sites", token.NoPos, "anchor unresolved: no pool.Return in target.remote")
	}
}

// ---- C19.R18: a delivery that was committed is not aborted afterwards.
// msgpipelineDelivery.Commit walks the target deliveries once: commit, and after a failure abort the REMAINING ones.
// A loop over all deliveries inside that walk (C19R: "abort everything" after a Commit error) visits the ones already
// committed again: target.remote's Abort closes / returns its connections a second time – one connection sits in the
// pool twice and two later deliveries share one SMTP session.
func c19CommittedNotAborted(c *Check, rule string) {
	c.Rule(rule, "msgpipelineDelivery.Commit: no loop over all target deliveries runs inside the loop that commits them (deliveries committed earlier in the walk are never visited again, so none is aborted after its commit)", 1)
	r := c.need(rule, "internal/msgpipeline", "msgpipelineDelivery", "Commit")
	if r == nil {
		return
	}
	info := r.Info
	isDeliveries := func(e ast.Expr) *types.Var {
		f := fieldOf(info, ast.Unparen(e))
		if f == nil {
			return nil
		}
		switch f.Type().Underlying().(type) {
		case *types.Map, *types.Slice:
			return f
		}
		return nil
	}
	// does a node (following local closures) call Abort?
	var aborts func(n ast.Node, depth int) bool
	aborts = func(n ast.Node, depth int) bool {
		found := false
		ast.Inspect(n, func(y ast.Node) bool {
			call, ok := y.(*ast.CallExpr)
			if !ok || found {
				return !found
			}
			if methodName(call) == "Abort" {
				found = true
				return false
			}
			if o := objOf(info, call.Fun); o != nil && depth < 2 && localIn(r.FI.Decl.Body, o) {
				if d, nd := localDef(info, r.FI.Decl.Body, o); nd == 1 && d != nil {
					if lit, isLit := ast.Unparen(d).(*ast.FuncLit); isLit && aborts(lit.Body, depth+1) {
						found = true
					}
				}
			}
			return !found
		})
		return found
	}
	msg := ""
	nOuter := 0
	inspectNoLit(r.FI.Decl.Body, func(x ast.Node) bool {
		outer, ok := x.(*ast.RangeStmt)
		if !ok {
			return true
		}
		f := isDeliveries(outer.X)
		if f == nil {
			return true
		}
		commits := false
		for _, call := range callsIn(outer.Body) {
			if methodName(call) == "Commit" {
				commits = true
			}
		}
		if !commits {
			return true
		}
		nOuter++
		ast.Inspect(outer.Body, func(y ast.Node) bool {
			var lx ast.Expr
			var body *ast.BlockStmt
			switch in := y.(type) {
			case *ast.RangeStmt:
				lx, body = in.X, in.Body
			case *ast.ForStmt:
				// indexed loop over the same field
				if in.Cond != nil {
					ast.Inspect(in.Cond, func(z ast.Node) bool {
						if e, ok := z.(ast.Expr); ok && isDeliveries(e) == f {
							lx = e
						}
						return true
					})
				}
				body = in.Body
			}
			if lx != nil && body != nil && isDeliveries(lx) == f && aborts(body, 0) {
				msg = "line " + itoa(p0(c.P, y.Pos())) + ": inside the walk that commits the target deliveries a second loop over all of them aborts: a delivery committed earlier in the walk is aborted after its commit (target.remote ends its connections twice – the pool holds one connection twice)"
			}
			return true
		})
		return true
	})
	c.Hold(rule, "Commit:single-walk", r.FI.Decl.Pos(), nOuter > 0 && msg == "", msg)
}

// ---- E13: every configuration directive has a destination of its own.
// An Init that registers `unauth_action`, `no_match_action` and `err_action` stores each into its own field. A
// directive that is given another directive's destination (C15Q: a helper `failAction(name, store)` called with
// `&c.noMatchAction` twice) leaves the intended field at its zero value – for a FailAction that is "ignore": every
// layout the check refuses through err_action is accepted. Decided per function: no two directive registrations
// (calls into framework/config with a constant name and an address-of destination, directly or through a local
// closure that forwards both) name the same destination.
func directiveDestinationsSeen(c *Check, fis []*FuncInfo) {
	c.Rule("E13", "no two configuration directives of one Init store into the same destination (a directive registered with another one's field leaves its own at the zero value)", 0)
	defer func() { c.HoldConst("E13", "inits-examined", token.NoPos, true, "") }()
	seen := map[*types.Func]bool{}
	for _, fi := range fis {
		if fi == nil || seen[fi.Obj] || fi.Decl.Body == nil {
			continue
		}
		seen[fi.Obj] = true
		info := fi.Info()
		// local closures that forward (name, dest) to a config call
		forwarders := map[types.Object]bool{}
		ast.Inspect(fi.Decl.Body, func(x ast.Node) bool {
			as, ok := x.(*ast.AssignStmt)
			if !ok || len(as.Lhs) != 1 || len(as.Rhs) != 1 {
				return true
			}
			lit, isLit := ast.Unparen(as.Rhs[0]).(*ast.FuncLit)
			if !isLit {
				return true
			}
			for _, call := range callsIn(lit.Body) {
				if fn := callee(info, call); fn != nil && fn.Pkg() != nil && strings.HasPrefix(fn.Pkg().Path(), modPath+"/framework/config") {
					if o := objOf(info, as.Lhs[0]); o != nil {
						forwarders[o] = true
					}
				}
			}
			return true
		})
		dests := map[string]string{}
		var order []string
		var visit func(n ast.Node)
		visit = func(n ast.Node) {
			ast.Inspect(n, func(x ast.Node) bool {
				if lit, ok := x.(*ast.FuncLit); ok {
					// the body of a forwarding closure registers nothing by itself (its parameters are not destinations)
					_ = lit
					return false
				}
				call, ok := x.(*ast.CallExpr)
				if !ok || len(call.Args) < 2 {
					return true
				}
				isCfg := false
				if fn := callee(info, call); fn != nil && fn.Pkg() != nil && strings.HasPrefix(fn.Pkg().Path(), modPath+"/framework/config") {
					isCfg = true
				}
				if o := objOf(info, call.Fun); o != nil && forwarders[o] {
					isCfg = true
				}
				if !isCfg {
					return true
				}
				name, okN := constString(info, call.Args[0])
				if !okN {
					return true
				}
				last := ast.Unparen(call.Args[len(call.Args)-1])
				for {
					if cc, isC := last.(*ast.CallExpr); isC && len(cc.Args) == 1 {
						if tv, has := info.Types[cc.Fun]; has && tv.IsType() {
							last = ast.Unparen(cc.Args[0])
							continue
						}
					}
					break
				}
				u, isU := last.(*ast.UnaryExpr)
				if !isU || u.Op != token.AND {
					return true
				}
				d := exprStr(u.X)
				if prev, dup := dests[d]; dup && prev != name {
					order = append(order, name)
					c.Hold("E13", fi.Pkg.Types.Name()+"."+refName(fi.Obj)+":"+name, call.Pos(), false, "line "+itoa(p0(c.P, call.Pos()))+": directive "+name+" stores into "+d+", the destination of directive "+prev+": the field meant for "+name+" keeps its zero value whatever the configuration says, and "+prev+" is overwritten by whichever of the two comes last")
					return true
				}
				if _, dup := dests[d]; !dup {
					dests[d] = name
				}
				return true
			})
		}
		visit(fi.Decl.Body)
		_ = order
	}
}

// ---- E14: a store into a local copy of an array is not a store into the original.
// Go arrays are values: `code := err.EnhancedCode` copies the three digits, `code[0] = 4` changes the copy. When
// nothing reads the copy afterwards the update is lost – the original keeps its class digit (C16Q: the 552 → 452
// rewrite for RCPT left `452 5.x.x`). Decided per function: after an element store into a local of array type no
// path reaches the end of the function without a read of that local.
func arrayCopyStoreSeen(c *Check, fis []*FuncInfo) {
	c.Rule("E14", "an element store into a local variable of array type is followed by a read of that variable on every path (arrays are copied by assignment: a store into a copy that is never read again is a lost update of the original)", 0)
	defer func() { c.HoldConst("E14", "functions-examined", token.NoPos, true, "") }()
	seen := map[*types.Func]bool{}
	for _, fi := range fis {
		if fi == nil || seen[fi.Obj] || fi.Decl.Body == nil {
			continue
		}
		seen[fi.Obj] = true
		info := fi.Info()
		// pre-filter: an element store into a local array
		cand := false
		ast.Inspect(fi.Decl.Body, func(x ast.Node) bool {
			if as, ok := x.(*ast.AssignStmt); ok {
				for _, l := range as.Lhs {
					if ix, isI := ast.Unparen(l).(*ast.IndexExpr); isI {
						if o := objOf(info, ix.X); o != nil {
							if _, isArr := o.Type().Underlying().(*types.Array); isArr {
								cand = true
							}
						}
					}
				}
			}
			return true
		})
		if !cand {
			continue
		}
		funcBodies(c.P, fi, func(name string, body *ast.BlockStmt, fl *Flow) {
			n := 0
			for _, pt := range fl.Points() {
				as, ok := pt.Node().(*ast.AssignStmt)
				if !ok || !directlyIn(body, as) {
					continue
				}
				for _, l := range as.Lhs {
					ix, isI := ast.Unparen(l).(*ast.IndexExpr)
					if !isI {
						continue
					}
					o := objOf(info, ix.X)
					v, isVar := o.(*types.Var)
					if !isVar || v.IsField() || !localIn(body, o) {
						continue
					}
					if _, isArr := v.Type().Underlying().(*types.Array); !isArr {
						continue
					}
					// named results and variables captured by closures are read elsewhere
					sig, _ := fi.Obj.Type().(*types.Signature)
					isResult := false
					if sig != nil {
						for i := 0; i < sig.Results().Len(); i++ {
							if sig.Results().At(i) == v {
								isResult = true
							}
						}
					}
					captured := false
					ast.Inspect(body, func(y ast.Node) bool {
						if lit, ok := y.(*ast.FuncLit); ok && mentions(info, lit.Body, o) {
							captured = true
						}
						return true
					})
					if isResult || captured {
						continue
					}
					n++
					reads := func(q Pt) bool {
						nd := q.Node()
						if nd == nil || q == pt {
							return false
						}
						// a use other than as the array of an element store
						found := false
						skip := map[*ast.Ident]bool{}
						ast.Inspect(nd, func(y ast.Node) bool {
							if a2, ok := y.(*ast.AssignStmt); ok {
								for _, l2 := range a2.Lhs {
									if ix2, isI2 := ast.Unparen(l2).(*ast.IndexExpr); isI2 {
										if id, isId := ast.Unparen(ix2.X).(*ast.Ident); isId {
											skip[id] = true
										}
									}
								}
							}
							if id, ok := y.(*ast.Ident); ok && !skip[id] && info.Uses[id] == o {
								found = true
							}
							return true
						})
						return found
					}
					path, lost := fl.Reach(Query{From: []Pt{pt}, Target: fl.IsExitPt, Avoid: reads})
					c.Hold("E14", name+":"+o.Name()+":store"+itoa(n), as.Pos(), !lost, "line "+itoa(p0(c.P, as.Pos()))+": "+exprStr(l)+" stores into the local array "+o.Name()+", which is a copy (arrays are values) and is not read afterwards ("+fl.Describe(path)+"): the value it was copied from is unchanged – the update is lost")
				}
			}
		})
	}
}
