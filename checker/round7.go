package main

import (
	"go/ast"
	"go/token"
	"go/types"
	"sort"
	"strings"

	"golang.org/x/tools/go/ssa"
)

// Round 7 rules (DESIGN.md §R.16).

// c13FQDNKeepsEncoding: the name a TLSA / MX / TXT query is made for is the name as configured or as returned by DNS –
// A-labels stay A-labels. dns.FQDN only qualifies the name. A conversion to U-labels on that way (idna.ToUnicode,
// dns.ForLookup) makes the query ask for a name that does not exist in DNS: NXDOMAIN reads as "no TLSA records" and
// DANE is skipped for every internationalized MX host.
func c13FQDNKeepsEncoding(c *Check, rule string) {
	c.Rule(rule, "dns.FQDN only qualifies the name: its result derives from the argument through encoding-preserving steps (the DNS library's Fqdn, ASCII case, trimming) – never through a conversion to U-labels (an NXDOMAIN for the U-label spelling would read as 'no TLSA records')", 1)
	p := c.P
	fi := p.Func("framework/dns", "", "FQDN")
	if fi == nil {
		c.Fail(rule, "dns.FQDN", token.NoPos, "anchor unresolved")
		return
	}
	c.SawFunc(fi.Name())
	f := p.SSAFunc(fi.Obj)
	if f == nil || len(f.Params) != 1 {
		c.Fail(rule, "dns.FQDN", fi.Decl.Pos(), "undecided: no SSA")
		return
	}
	allowed := func(callee string) bool {
		switch {
		case strings.HasSuffix(callee, "miekg/dns.Fqdn"), strings.HasSuffix(callee, "miekg/dns.CanonicalName"):
			return true
		case callee == "strings.ToLower", callee == "strings.TrimSuffix", callee == "strings.TrimSpace":
			return true
		case strings.HasSuffix(callee, "/framework/dns.LowerASCII"):
			return true
		case strings.HasSuffix(callee, "idna.ToASCII"), strings.HasSuffix(callee, "idna.Profile.ToASCII"):
			return true
		}
		return false
	}
	msg := ""
	n := 0
	for _, r := range returnsOf(f) {
		if len(r.Results) != 1 {
			continue
		}
		for _, ch := range stringChains(r.Results[0], 12) {
			n++
			if ch.Origin != ssa.Value(f.Params[0]) {
				if cst, ok := ch.Origin.(*ssa.Const); ok && cst.Value != nil && cst.Value.ExactString() == `""` {
					continue
				}
				msg = "the result does not derive from the argument through unary string steps (" + ch.Origin.String() + ")"
				continue
			}
			for _, st := range ch.Steps {
				if !allowed(st.Callee) {
					msg = "the name passes through " + st.Callee[strings.LastIndex(st.Callee, "/")+1:] + " on its way into the query: an A-label host (mx.xn--e1afmkfd.example) is looked up under its U-label spelling, the answer is NXDOMAIN, which discovery reads as 'no TLSA records' – DANE is skipped although authenticated records exist"
				}
			}
		}
	}
	c.Hold(rule, "dns.FQDN:encoding-kept", fi.Decl.Pos(), msg == "" && n > 0, msg)
}

// ---- E9: in-place reuse of a slice that is still being read.
// `dst := src[:0]` followed by a loop over src that appends to dst is the filter idiom; it is correct only while at
// most one element is appended per element read. An append of a list (`append(dst, many...)`) or several appends on
// one way round the loop overwrite elements of src that have not been read yet: they are lost and the new ones are
// read again.
func sliceReuseSeen(c *Check, fis []*FuncInfo) {
	c.Rule("E9", "a slice that aliases the storage of the list being ranged over (`dst := src[:0]`) grows by at most one element per element read: no spread append and no second append on one way round the loop (elements not yet read would be overwritten – recipients lost, others duplicated)", 0)
	seen := map[*types.Func]bool{}
	defer func() { c.HoldConst("E9", "aliases-examined", token.NoPos, true, "") }()
	for _, fi := range fis {
		if fi == nil || seen[fi.Obj] || fi.Decl.Body == nil {
			continue
		}
		seen[fi.Obj] = true
		info := fi.Info()
		// alias definitions: d := s[:0] / var d = s[:0] / d = s[:0]
		type alias struct{ d, s types.Object }
		var aliases []alias
		note := func(l ast.Expr, rhs ast.Expr) {
			se, ok := ast.Unparen(rhs).(*ast.SliceExpr)
			if !ok || se.High == nil || se.Low != nil && !isZeroLit(info, se.Low) {
				return
			}
			if !isZeroLit(info, se.High) {
				return
			}
			d, s := objOf(info, l), objOf(info, se.X)
			if d != nil && s != nil {
				aliases = append(aliases, alias{d, s})
			}
		}
		ast.Inspect(fi.Decl.Body, func(x ast.Node) bool {
			switch n := x.(type) {
			case *ast.AssignStmt:
				if len(n.Lhs) == len(n.Rhs) {
					for i := range n.Lhs {
						note(n.Lhs[i], n.Rhs[i])
					}
				}
			case *ast.ValueSpec:
				if len(n.Names) == len(n.Values) {
					for i := range n.Names {
						note(n.Names[i], n.Values[i])
					}
				}
			}
			return true
		})
		if len(aliases) == 0 {
			continue
		}
		obs := map[string]token.Pos{}
		ast.Inspect(fi.Decl.Body, func(x ast.Node) bool {
			rs, ok := x.(*ast.RangeStmt)
			if !ok {
				return true
			}
			src := objOf(info, rs.X)
			if src == nil {
				return true
			}
			for _, a := range aliases {
				if a.s != src {
					continue
				}
				c.sites++
				// appends to a.d in the loop body
				nApp, spread := 0, false
				var first token.Pos
				ast.Inspect(rs.Body, func(y ast.Node) bool {
					as, ok := y.(*ast.AssignStmt)
					if !ok || len(as.Lhs) != 1 || len(as.Rhs) != 1 || objOf(info, as.Lhs[0]) != a.d {
						return true
					}
					call, ok := ast.Unparen(as.Rhs[0]).(*ast.CallExpr)
					if !ok {
						return true
					}
					if id, isID := call.Fun.(*ast.Ident); !isID || id.Name != "append" || len(call.Args) < 1 || objOf(info, call.Args[0]) != a.d {
						return true
					}
					nApp++
					if first == token.NoPos {
						first = as.Pos()
					}
					if call.Ellipsis.IsValid() || len(call.Args) > 2 {
						spread = true
					}
					return true
				})
				if spread {
					obs[fi.Pkg.Types.Name()+"."+refName(fi.Obj)+":"+a.d.Name()+":spread"] = first
				} else if nApp > 1 {
					// several appends: harmless when they are on exclusive branches; decided on the flow graph
					fl := c.P.FlowOfFunc(fi)
					isApp := func(q Pt) bool {
						as, ok := q.Node().(*ast.AssignStmt)
						return ok && len(as.Lhs) == 1 && objOf(info, as.Lhs[0]) == a.d && within(rs.Body, as)
					}
					head := func(q Pt) bool { return q.I == 0 && q.B.Kind == kindRangeLoop && q.B.Stmt == ast.Stmt(rs) }
					for _, pt := range fl.Points() {
						if !isApp(pt) {
							continue
						}
						if _, f := fl.Reach(Query{From: []Pt{pt}, Target: isApp, Avoid: head}); f {
							obs[fi.Pkg.Types.Name()+"."+refName(fi.Obj)+":"+a.d.Name()+":twice"] = first
						}
					}
				}
			}
			return true
		})
		var keys []string
		for k := range obs {
			keys = append(keys, k)
		}
		sort.Strings(keys)
		for _, k := range keys {
			c.Hold("E9", k, obs[k], false, "the slice shares its storage with the list the loop is reading (it was made from it with [:0]) and can grow by more than one element per element read: elements that have not been read yet are overwritten – they are lost and the new ones are read in their place")
		}
	}
}

func isZeroLit(info *types.Info, e ast.Expr) bool {
	tv, ok := info.Types[e]
	return ok && tv.Value != nil && tv.Value.ExactString() == "0"
}

// ---- E10: a package-level map is one object. Stored into a field of every instance (`actions: defaultActions`) and
// written through that field (`c.actions[code] = action` while reading the configuration), it makes one instance's
// configuration change all the others.
func sharedTableSeen(c *Check, fis []*FuncInfo) {
	c.Rule("E10", "a package-level map is not stored into a field that the package writes through (index assignment, delete): one instance's configuration would change the table of every other instance", 0)
	defer func() { c.HoldConst("E10", "tables-examined", token.NoPos, true, "") }()
	pkgs := map[*packagesPkg]bool{}
	for _, fi := range fis {
		if fi != nil {
			pkgs[fi.Pkg] = true
		}
	}
	var plist []*packagesPkg
	for pk := range pkgs {
		plist = append(plist, pk)
	}
	sort.Slice(plist, func(i, j int) bool { return plist[i].PkgPath < plist[j].PkgPath })
	for _, pk := range plist {
		info := pk.TypesInfo
		// fields written through
		written := map[types.Object]token.Pos{}
		stored := map[types.Object][]ast.Node{} // field -> where a package-level map is stored into it
		storedVar := map[types.Object]types.Object{}
		isPkgMap := func(e ast.Expr) types.Object {
			v, ok := objOf(info, e).(*types.Var)
			if !ok || v.IsField() || v.Pkg() == nil || v.Parent() != v.Pkg().Scope() {
				return nil
			}
			if _, isMap := v.Type().Underlying().(*types.Map); !isMap {
				return nil
			}
			return v
		}
		for _, file := range pk.Syntax {
			if strings.HasSuffix(c.P.Fset.Position(file.Pos()).Filename, "_test.go") {
				continue
			}
			ast.Inspect(file, func(x ast.Node) bool {
				switch n := x.(type) {
				case *ast.AssignStmt:
					for i, l := range n.Lhs {
						if ix, ok := ast.Unparen(l).(*ast.IndexExpr); ok {
							if fv := fieldOf(info, ix.X); fv != nil {
								if _, isMap := fv.Type().Underlying().(*types.Map); isMap {
									written[fv] = n.Pos()
								}
							}
						}
						if len(n.Lhs) == len(n.Rhs) {
							if fv := fieldOf(info, l); fv != nil {
								if v := isPkgMap(n.Rhs[i]); v != nil {
									stored[fv] = append(stored[fv], n)
									storedVar[fv] = v
								}
							}
						}
					}
				case *ast.CallExpr:
					if id, ok := n.Fun.(*ast.Ident); ok && id.Name == "delete" && len(n.Args) == 2 {
						if fv := fieldOf(info, n.Args[0]); fv != nil {
							written[fv] = n.Pos()
						}
					}
				case *ast.KeyValueExpr:
					if id, ok := n.Key.(*ast.Ident); ok {
						if fv, isVar := info.Uses[id].(*types.Var); isVar && fv.IsField() {
							if v := isPkgMap(n.Value); v != nil {
								stored[fv] = append(stored[fv], n)
								storedVar[fv] = v
							}
						}
					}
				}
				return true
			})
		}
		var fields []types.Object
		for fv := range stored {
			fields = append(fields, fv)
		}
		sort.Slice(fields, func(i, j int) bool { return fields[i].Pos() < fields[j].Pos() })
		for _, fv := range fields {
			c.sites++
			if wp, isW := written[fv]; isW {
				c.Hold("E10", pk.Types.Name()+"."+fv.Name()+":shared", stored[fv][0].Pos(), false, "the package-level map "+storedVar[fv].Name()+" is stored into the field "+fv.Name()+", and "+c.P.Pos(wp)+" writes through that field: a `code 1 ignore` in one configured instance changes the verdict table of every other instance (their reject / quarantine is no longer applied)")
			}
		}
	}
}

// c07RawLookupError: Apply decides between "fail closed, reject temporarily" and "no policy" by asserting the
// concrete type of the error FetchRecord returned. As long as a consumer in the package classifies with a bare type
// assertion, the producers must hand the resolver's error on as it is: a wrapped error (fmt.Errorf("…%w"), WithFields)
// is no *net.DNSError any more, the temporary failure reads as a permanent one and p=reject is not applied while the
// DNS is down.
func c07RawLookupError(c *Check, rule string) {
	c.Rule(rule, "internal/dmarc: while the policy-lookup error is classified with a bare type assertion (recordErr.(*net.DNSError)), FetchRecord returns the resolver's error itself on every failure path – not a wrapped copy, which the assertion would not recognise (a temporary DNS failure would stop failing closed)", 1)
	p := c.P
	pk := p.Pkg("internal/dmarc")
	if pk == nil {
		c.Fail(rule, "internal/dmarc", token.NoPos, "anchor unresolved")
		return
	}
	info := pk.TypesInfo
	var bare []token.Pos
	for _, file := range pk.Syntax {
		if strings.HasSuffix(p.Fset.Position(file.Pos()).Filename, "_test.go") {
			continue
		}
		ast.Inspect(file, func(x ast.Node) bool {
			switch n := x.(type) {
			case *ast.TypeAssertExpr:
				if n.Type == nil {
					return true
				}
				if t := info.TypeOf(n.X); t != nil && isErrorType(t) {
					if at := info.TypeOf(n.Type); at != nil && !types.IsInterface(at) {
						bare = append(bare, n.Pos())
					}
				}
			case *ast.TypeSwitchStmt:
				var xe ast.Expr
				switch a := n.Assign.(type) {
				case *ast.AssignStmt:
					if ta, ok := a.Rhs[0].(*ast.TypeAssertExpr); ok {
						xe = ta.X
					}
				case *ast.ExprStmt:
					if ta, ok := a.X.(*ast.TypeAssertExpr); ok {
						xe = ta.X
					}
				}
				if xe != nil {
					if t := info.TypeOf(xe); t != nil && isErrorType(t) {
						bare = append(bare, n.Pos())
					}
				}
			}
			return true
		})
	}
	if len(bare) == 0 {
		c.HoldConst(rule, "dmarc:no-bare-assertion", token.NoPos, true, "")
		return
	}
	r := c.need(rule, "internal/dmarc", "", "FetchRecord")
	if r == nil {
		return
	}
	n := 0
	for _, pt := range r.F.Points() {
		ret, ok := pt.Node().(*ast.ReturnStmt)
		if !ok || len(ret.Results) == 0 {
			continue
		}
		last := ast.Unparen(ret.Results[len(ret.Results)-1])
		if isNilIdent(r.Info, last) {
			continue
		}
		n++
		call, isCall := last.(*ast.CallExpr)
		if !isCall {
			c.HoldConst(rule, "FetchRecord:return"+itoa(n), ret.Pos(), true, "")
			continue
		}
		wraps := false
		for _, a := range call.Args {
			if t := r.Info.TypeOf(a); t != nil && isErrorType(t) {
				wraps = true
			}
		}
		c.Hold(rule, "FetchRecord:return"+itoa(n), ret.Pos(), !wraps, "the lookup error is returned wrapped ("+exprStr(call.Fun)+") while "+p.Pos(bare[0])+" classifies it with a bare type assertion: the wrapped *net.DNSError is not recognised, a temporary DNS failure of this lookup reads as 'permanent, no policy' and the message is accepted instead of being refused temporarily")
	}
	if n == 0 {
		c.Fail(rule, "FetchRecord:returns", r.FI.Decl.Pos(), "undecided: no failure return")
	}
}

// c14RegexpNoNewGroup: the replacement of table.regexp refers to the user's capture groups by number. Whatever Init
// adds around the expression (anchors for full_match) must not contain a capturing group: one more `(` in front
// shifts every $N – `$1` becomes the whole match, and auth_map hands the password check a different account name.
func c14RegexpNoNewGroup(c *Check, rule string) {
	c.Rule(rule, "table.regexp: the text Init puts around the user's expression contains no capturing group (every constant concatenated with the expression is free of '(' other than '(?'): the replacement's $N keep referring to the user's groups", 1)
	r := c.need(rule, "internal/table", "Regexp", "Init")
	if r == nil {
		return
	}
	info := r.Info
	// the variable handed to regexp.Compile
	var reVar types.Object
	ast.Inspect(r.FI.Decl.Body, func(x ast.Node) bool {
		if call, ok := x.(*ast.CallExpr); ok && isCall(info, call, "regexp.Compile", "regexp.MustCompile", "regexp.CompilePOSIX") && len(call.Args) == 1 {
			if o := objOf(info, call.Args[0]); o != nil {
				reVar = o
			}
		}
		return true
	})
	if reVar == nil {
		c.Fail(rule, "Regexp.Init:compiled", r.FI.Decl.Pos(), "undecided: the expression handed to regexp.Compile is not a local variable")
		return
	}
	n := 0
	msg := ""
	var badPos token.Pos = r.FI.Decl.Pos()
	ast.Inspect(r.FI.Decl.Body, func(x ast.Node) bool {
		as, ok := x.(*ast.AssignStmt)
		if !ok || len(as.Lhs) != 1 || len(as.Rhs) != 1 || objOf(info, as.Lhs[0]) != reVar {
			return true
		}
		var parts []ast.Expr
		var flat func(e ast.Expr)
		flat = func(e ast.Expr) {
			e = ast.Unparen(e)
			if be, ok := e.(*ast.BinaryExpr); ok && be.Op == token.ADD {
				flat(be.X)
				flat(be.Y)
				return
			}
			parts = append(parts, e)
		}
		flat(as.Rhs[0])
		if len(parts) < 2 {
			return true
		}
		for _, pe := range parts {
			if objOf(info, pe) == reVar {
				continue
			}
			n++
			s, isConst := constString(info, pe)
			if !isConst {
				if call, isCall := pe.(*ast.CallExpr); isCall && isCall_(info, call, "regexp.QuoteMeta") {
					continue
				}
				msg = "undecided: a non-constant text (" + exprStr(pe) + ") is concatenated with the expression"
				badPos = as.Pos()
				continue
			}
			for i := 0; i < len(s); i++ {
				if s[i] == '\\' {
					i++
					continue
				}
				if s[i] == '(' && !(i+1 < len(s) && s[i+1] == '?') {
					msg = "Init puts a capturing group around the user's expression (" + exprStr(pe) + "): every group of the user moves up by one, `$1` in the replacement is now the whole match – with auth_map the password is checked against a different account name"
					badPos = as.Pos()
				}
			}
		}
		return true
	})
	c.Hold(rule, "Regexp.Init:no-new-group", badPos, msg == "", msg)
	_ = n
}

// c05OverrideDirective: "override off" is a configuration cell of the property. The switch the administrator sets with
// `requiretls_override` must be the flag that gates the message's TLS-Required: No – the field the directive stores
// into is the field tested together with msgMeta.TLSRequireOverride.
func c05OverrideDirective(c *Check, rule string) {
	c.Rule(rule, "target.remote: the field the requiretls_override directive stores into is the one tested together with the message's TLSRequireOverride flag where the security policies are switched off (`requiretls_override no` really disables the override)", 1)
	r := c.need(rule, remoteRel, "Target", "Init")
	if r == nil {
		return
	}
	var dirField *types.Var
	ast.Inspect(r.FI.Decl.Body, func(x ast.Node) bool {
		call, ok := x.(*ast.CallExpr)
		if !ok || len(call.Args) < 2 {
			return true
		}
		if s, isConst := constString(r.Info, call.Args[0]); !isConst || s != "requiretls_override" {
			return true
		}
		if u, ok := ast.Unparen(call.Args[len(call.Args)-1]).(*ast.UnaryExpr); ok && u.Op == token.AND {
			dirField = fieldOf(r.Info, u.X)
		}
		return true
	})
	if dirField == nil {
		c.Fail(rule, "Target.Init:requiretls_override", r.FI.Decl.Pos(), "undecided: the directive requiretls_override does not store into a field of the target")
		return
	}
	// the place where the override is decided
	n := 0
	for _, fi := range funcsOfPkgs(c.P, remoteRel) {
		if fi.Decl.Body == nil {
			continue
		}
		info := fi.Info()
		ast.Inspect(fi.Decl.Body, func(x ast.Node) bool {
			be, ok := x.(*ast.BinaryExpr)
			if !ok || (be.Op != token.LAND && be.Op != token.LOR) {
				return true
			}
			mentionsFlag, mentionsDir := false, false
			ast.Inspect(be, func(y ast.Node) bool {
				if e, ok := y.(ast.Expr); ok {
					if fv := fieldOf(info, e); fv != nil {
						if fv.Name() == "TLSRequireOverride" {
							mentionsFlag = true
						}
						if fv == dirField {
							mentionsDir = true
						}
					}
				}
				return true
			})
			if !mentionsFlag {
				return true
			}
			n++
			c.SawFunc(fi.Name())
			c.Hold(rule, refName(fi.Obj)+":override-gate"+itoa(n), be.Pos(), mentionsDir, "the message's TLS-Required: No is honoured under a flag that is not the one `requiretls_override` sets ("+dirField.Name()+"): with `requiretls_override no` a message carrying the header is still delivered with MTA-STS, DANE and the local policy switched off")
			return false
		})
	}
	if n == 0 {
		c.Fail(rule, "override-gate", r.FI.Decl.Pos(), "undecided: no condition combines the message's TLSRequireOverride flag with a target setting")
	}
}

// c12HookAfterInit: shutdown hooks run in reverse order of registration. A module's Init obtains its dependencies
// (`target &remote` inside a queue) through nested GetInstance calls, so with the hook registered after Init has
// succeeded a dependency registers before its user and is closed after it: Queue.Close, which waits for the attempts in
// flight, runs before the Close of the target those attempts deliver through. Registering in front of Init reverses that.
func c12HookAfterInit(c *Check, rule string) {
	c.Rule(rule, "module.GetInstance registers a module's shutdown hook only after its Init has returned (on every path from entry to hooks.AddHook the Init call has been made): dependencies, initialised inside Init, register first and are closed last – the queue stops its attempts before the target they use is closed", 1)
	r := c.need(rule, "framework/module", "", "GetInstance")
	if r == nil {
		return
	}
	hooksAt := r.Calls(func(info *types.Info, call *ast.CallExpr) bool {
		return isCall(info, call, "~/framework/hooks.AddHook")
	})
	inits := r.Calls(func(info *types.Info, call *ast.CallExpr) bool { return methodName(call) == "Init" })
	if len(hooksAt) == 0 || len(inits) == 0 {
		c.Fail(rule, "GetInstance:sites", r.FI.Decl.Pos(), "undecided: expected a call of the module's Init and a call of hooks.AddHook")
		return
	}
	path, f := r.F.Reach(Query{From: r.Entry(), Inclusive: true, Target: isPt(hooksAt), Avoid: isPt(inits)})
	c.Hold(rule, "GetInstance:hook-after-init", r.FI.Decl.Pos(), !f, "the shutdown hook can be registered before the module's Init has run: a module then registers in front of the dependencies its Init creates and is closed after them – at shutdown the remote target (and its connection pool) is closed while the queue's attempts are still using it: "+r.F.Describe(path))
}

// c19NilMapGuard: a map field that some method sets to nil (Close) is written by the other methods only behind a test
// that it is not nil: a Return that arrives after Close – an attempt that was in flight at shutdown – must not panic
// (the queue's panic handler would quarantine a message its server has accepted).
func c19NilMapGuard(c *Check, rule string, rel string) {
	c.Rule(rule, "a map field that a method of the type sets to nil (the pool's key table in Close) is stored into only behind a test that it is not nil: an operation that arrives after Close returns instead of panicking with 'assignment to entry in nil map'", 1)
	p := c.P
	pk := p.Pkg(rel)
	if pk == nil {
		c.Fail(rule, rel, token.NoPos, "anchor unresolved: package")
		return
	}
	info := pk.TypesInfo
	nilled := map[*types.Var]token.Pos{}
	fis := funcsOfPkgs(p, rel)
	for _, fi := range fis {
		if fi.Decl.Body == nil {
			continue
		}
		ast.Inspect(fi.Decl.Body, func(x ast.Node) bool {
			if as, ok := x.(*ast.AssignStmt); ok && len(as.Lhs) == len(as.Rhs) {
				for i, l := range as.Lhs {
					if fv := fieldOf(info, l); fv != nil && isNilIdent(info, as.Rhs[i]) {
						if _, isMap := fv.Type().Underlying().(*types.Map); isMap {
							nilled[fv] = as.Pos()
						}
					}
				}
			}
			return true
		})
	}
	n := 0
	for _, fi := range fis {
		if fi.Decl.Body == nil {
			continue
		}
		var fl *Flow
		ord := 0
		ast.Inspect(fi.Decl.Body, func(x ast.Node) bool {
			as, ok := x.(*ast.AssignStmt)
			if !ok {
				return true
			}
			for _, l := range as.Lhs {
				ix, ok := ast.Unparen(l).(*ast.IndexExpr)
				if !ok {
					continue
				}
				fv := fieldOf(info, ix.X)
				if fv == nil {
					continue
				}
				if _, isN := nilled[fv]; !isN {
					continue
				}
				if fl == nil {
					fl = p.FlowOfFunc(fi)
					c.SawFunc(fi.Name())
				}
				pt, ok := fl.PtOfNode(as)
				if !ok {
					continue // inside a function literal: judged with its own flow below
				}
				n++
				ord++
				unguarded := fl.AvoidImplying(func(atom ast.Expr) (bool, bool) {
					be, ok := ast.Unparen(atom).(*ast.BinaryExpr)
					if !ok || (be.Op != token.EQL && be.Op != token.NEQ) {
						return false, false
					}
					var other ast.Expr
					if isNilIdent(info, be.Y) {
						other = be.X
					} else if isNilIdent(info, be.X) {
						other = be.Y
					}
					if other == nil || fieldOf(info, other) != fv {
						return false, false
					}
					// the edge on which the field is known to be non-nil is taken away
					return be.Op == token.NEQ, true
				})
				path, f := fl.Reach(Query{From: []Pt{fl.Entry()}, Inclusive: true, Target: isPt([]Pt{pt}), AvoidEdge: unguarded, NoCorr: true})
				c.Hold(rule, fi.Pkg.Types.Name()+"."+refName(fi.Obj)+":"+fv.Name()+":store"+itoa(ord), as.Pos(), !f, "the store into "+fv.Name()+" is reachable without a test that the map is not nil, and "+p.Pos(nilled[fv])+" sets it to nil: an operation that arrives after that (a connection returned by an attempt that was in flight at shutdown) panics with 'assignment to entry in nil map' – inside the queue's attempt goroutine, whose panic handler quarantines the message although its server accepted it: "+fl.Describe(path))
			}
			return true
		})
	}
	if n == 0 {
		c.HoldConst(rule, rel+":no-nilled-map-stores", token.NoPos, true, "")
	}
}

// c12GoroutinesCounted: Queue.Close returns when the wheel has stopped and the wait group is empty. Everything the
// queue still does to a message – an attempt, the failure report of an attempt – must therefore run on a goroutine
// that the wait group counts: a `go` statement in the queue's own methods is preceded, on every path, by an Add on a
// wait group.
func c12GoroutinesCounted(c *Check, rule string) {
	c.Rule(rule, "every goroutine the queue's methods start is counted by a wait group before it is started (Queue.Close waits for it): no work on a message – an attempt, handing over its failure report – is still running, unaccounted, when Close has returned", 1)
	p := c.P
	n := 0
	for _, fi := range funcsOfPkgs(p, queueRel) {
		if fi.Decl.Body == nil || fi.Decl.Recv == nil {
			continue
		}
		if rt := recvTypeName(fi.Decl); rt != "Queue" && rt != "queueDelivery" {
			continue
		}
		info := fi.Info()
		bodies := []*ast.BlockStmt{fi.Decl.Body}
		ast.Inspect(fi.Decl.Body, func(x ast.Node) bool {
			if fl, ok := x.(*ast.FuncLit); ok {
				bodies = append(bodies, fl.Body)
			}
			return true
		})
		for _, body := range bodies {
			var gos []*ast.GoStmt
			inspectNoLitTop(body, func(x ast.Node) bool {
				if g, ok := x.(*ast.GoStmt); ok {
					gos = append(gos, g)
				}
				return true
			})
			if len(gos) == 0 {
				continue
			}
			fl := p.FlowOf(info, body, fi.Name())
			adds := fl.Find(func(nd ast.Node) bool {
				for _, call := range callsAt(nd) {
					if isCall(info, call, "sync.WaitGroup.Add") {
						return true
					}
				}
				return false
			})
			for _, g := range gos {
				pt, ok := fl.PtOfNode(g)
				if !ok {
					continue
				}
				n++
				c.SawFunc(fi.Name())
				path, f := fl.Reach(Query{From: []Pt{fl.Entry()}, Inclusive: true, Target: isPt([]Pt{pt}), Avoid: isPt(adds)})
				c.Hold(rule, refName(fi.Obj)+":go"+itoa(n), g.Pos(), !f, "a goroutine is started without having been added to a wait group: Queue.Close does not wait for it – at shutdown it returns while this work (e.g. handing the failure report to the bounce pipeline, after the failed message has been removed from the spool) is still under way, and a restart finds nothing to pick up: "+fl.Describe(path))
			}
		}
	}
	if n == 0 {
		c.Fail(rule, "queue:go-statements", token.NoPos, "undecided: the queue starts no goroutine (the attempt goroutine of dispatch was expected)")
	}
}

// inspectNoLitTop: like ast.Inspect but does not descend into function literals nested in n (n itself may be a
// literal's body).
func inspectNoLitTop(n ast.Node, f func(ast.Node) bool) {
	ast.Inspect(n, func(x ast.Node) bool {
		if fl, ok := x.(*ast.FuncLit); ok && ast.Node(fl.Body) != n {
			return false
		}
		return f(x)
	})
}

// c06RejectWins: after all checks of a group have run, a refusal recorded by any of them is what the group returns –
// whatever else was recorded. A quarantine verdict of another check must not take the place of a reject (the message
// would be accepted, flagged, and delivered although a check refused it).
func c06RejectWins(c *Check, rule string) {
	c.Rule(rule, "checkRunner.runAndMergeResults: once the checks have finished, every successful return (nil) lies behind the test that no check recorded a reject: another check's quarantine never takes the place of a refusal", 1)
	r := c.need(rule, pipelineRel, "checkRunner", "runAndMergeResults")
	if r == nil {
		return
	}
	info := r.Info
	waits := r.Calls(func(info *types.Info, call *ast.CallExpr) bool { return isCall(info, call, "sync.WaitGroup.Wait") })
	if len(waits) == 0 {
		c.Fail(rule, "runAndMergeResults:wait", r.FI.Decl.Pos(), "undecided: the function does not wait for its checks (sync.WaitGroup.Wait)")
		return
	}
	// the field that holds the recorded refusal: the one a return statement after the wait hands back
	var rejField *types.Var
	for _, pt := range r.F.Points() {
		ret, ok := pt.Node().(*ast.ReturnStmt)
		if !ok || len(ret.Results) != 1 {
			continue
		}
		if fv := fieldOf(info, ret.Results[0]); fv != nil && isErrorType(fv.Type()) {
			if f, _ := r.Reachable(waits, false, isPt([]Pt{pt}), nil); f {
				rejField = fv
			}
		}
	}
	if rejField == nil {
		c.Fail(rule, "runAndMergeResults:reject-field", r.FI.Decl.Pos(), "undecided: no return hands back a recorded refusal after the wait")
		return
	}
	known := r.F.AvoidImplying(func(atom ast.Expr) (bool, bool) {
		be, ok := ast.Unparen(atom).(*ast.BinaryExpr)
		if !ok || (be.Op != token.EQL && be.Op != token.NEQ) {
			return false, false
		}
		var other ast.Expr
		if isNilIdent(info, be.Y) {
			other = be.X
		} else if isNilIdent(info, be.X) {
			other = be.Y
		}
		if other == nil || fieldOf(info, other) != rejField {
			return false, false
		}
		// take away the edge on which the field is known to be nil
		return be.Op == token.EQL, true
	})
	succ := func(pt Pt) bool { return r.IsSuccessReturn(pt) }
	path, f := r.F.Reach(Query{From: waits, Target: succ, AvoidEdge: known, NoCorr: true})
	c.Hold(rule, "runAndMergeResults:reject-wins", r.FI.Decl.Pos(), !f, "after the checks have finished the function can return success without having tested that no reject was recorded ("+rejField.Name()+"): when one check quarantines and another refuses, the refusal is dropped – the message is accepted and delivered: "+r.F.Describe(path))
}

// c09AcceptedListAfterAccept: a target that talks to one server keeps the list of recipients the server accepted and
// later maps the server's per-recipient answers onto it by position (LMTP) or reports one outcome for all of them.
// A recipient enters the list only after the server said yes: no failure exit of AddRcpt is reachable from the append.
func c09AcceptedListAfterAccept(c *Check, rule string) {
	c.Rule(rule, "targets: a recipient is appended to the delivery's list of accepted recipients only once the next hop has accepted it – no failing return of AddRcpt is reachable from the append (a refused recipient left in the list shifts every later per-recipient LMTP answer onto the wrong address)", 2)
	p := c.P
	n := 0
	for _, rel := range []string{"internal/target/smtp", remoteRel} {
		for _, fi := range funcsOfPkgs(p, rel) {
			if fi.Decl.Body == nil || fi.Decl.Recv == nil || refName(fi.Obj) != "AddRcpt" {
				continue
			}
			r := &RuleCtx{C: c, FI: fi, F: p.FlowOfFunc(fi), Info: fi.Info()}
			info := r.Info
			for _, pt := range r.F.Points() {
				as, ok := pt.Node().(*ast.AssignStmt)
				if !ok || len(as.Lhs) != 1 || len(as.Rhs) != 1 {
					continue
				}
				fv := fieldOf(info, as.Lhs[0])
				if fv == nil {
					continue
				}
				call, ok := ast.Unparen(as.Rhs[0]).(*ast.CallExpr)
				if !ok {
					continue
				}
				if id, isID := call.Fun.(*ast.Ident); !isID || id.Name != "append" || len(call.Args) < 2 || fieldOf(info, call.Args[0]) != fv {
					continue
				}
				if sl, isSl := fv.Type().Underlying().(*types.Slice); !isSl || !isStringType(sl.Elem()) {
					continue
				}
				n++
				c.SawFunc(fi.Name())
				fail := func(q Pt) bool { return r.F.IsExitPt(q) && !r.IsSuccessReturn(q) }
				path, f := r.F.Reach(Query{From: []Pt{pt}, Target: fail})
				c.Hold(rule, fi.Pkg.Types.Name()+"."+recvTypeName(fi.Decl)+".AddRcpt:"+fv.Name(), as.Pos(), !f, "the recipient is put on the list of accepted recipients ("+fv.Name()+") and AddRcpt can still fail afterwards: a recipient the server refused stays in the list – with an LMTP next hop every later per-recipient answer is attributed to the address before it (a failure is reported for the wrong recipient, the real one is taken as delivered and never reported): "+r.F.Describe(path))
			}
		}
	}
	if n == 0 {
		c.Fail(rule, "targets:accepted-lists", token.NoPos, "undecided: no AddRcpt of the SMTP/LMTP or remote target appends to a list of accepted recipients")
	}
}

// c18NoByteCut: the text of the last error goes into the report's text/plain part (charset=utf-8) and into
// Diagnostic-Code. It may be multi-line and non-ASCII. Cutting it at a byte index can split a multi-byte character:
// the report of an SMTPUTF8 message is then not valid UTF-8. A cut is acceptable only where the function takes care of
// character boundaries (unicode/utf8, strings.ToValidUTF8, a loop over the runes).
func c18NoByteCut(c *Check, rule string) {
	c.Rule(rule, "queue and report writer: the stored error text (the Message of an SMTP error) is never cut at a byte index – a slice expression on it appears only in a function that handles character boundaries (unicode/utf8, strings.ToValidUTF8): a multi-byte character split in two would make the report's UTF-8 parts ill-formed", 0)
	p := c.P
	n := 0
	for _, fi := range funcsOfPkgs(p, queueRel, "internal/dsn") {
		if fi.Decl.Body == nil {
			continue
		}
		info := fi.Info()
		careful := false
		ast.Inspect(fi.Decl.Body, func(x ast.Node) bool {
			if call, ok := x.(*ast.CallExpr); ok {
				if fn := callee(info, call); fn != nil && fn.Pkg() != nil && (fn.Pkg().Path() == "unicode/utf8" || (fn.Pkg().Path() == "strings" && fn.Name() == "ToValidUTF8")) {
					careful = true
				}
			}
			return true
		})
		isMsg := func(e ast.Expr) bool {
			if fv := fieldOf(info, e); fv != nil && fv.Name() == "Message" {
				return true
			}
			// a local that was assigned from such a field
			if o := objOf(info, e); o != nil {
				for _, d := range defsOfExpr(info, fi.Decl.Body, e)[1:] {
					if de, ok := d.(ast.Expr); ok {
						if fv := fieldOf(info, de); fv != nil && fv.Name() == "Message" {
							return true
						}
					}
				}
			}
			return false
		}
		ast.Inspect(fi.Decl.Body, func(x ast.Node) bool {
			se, ok := x.(*ast.SliceExpr)
			if !ok || (se.High == nil && se.Low == nil) {
				return true
			}
			if t := info.TypeOf(se.X); t == nil || !isStringType(t) {
				return true
			}
			if !isMsg(se.X) {
				return true
			}
			n++
			c.SawFunc(fi.Name())
			c.Hold(rule, fi.Pkg.Types.Name()+"."+refName(fi.Obj)+":cut"+itoa(n), se.Pos(), careful, "the error text is cut at a byte index ("+exprStr(se)+") in a function that does not look at character boundaries: a long non-ASCII reply (a 1700-byte Cyrillic 550) is cut inside a multi-byte character, the dangling byte reaches the text/plain; charset=utf-8 part and Diagnostic-Code – the report for an SMTPUTF8 message is not valid UTF-8")
			return true
		})
	}
	if n == 0 {
		c.HoldConst(rule, "no-cut-of-error-text", token.NoPos, true, "")
	}
}

// c16ForcedClassHasNoStatus: exterrors.WithTemporary(err, true) overrides what Temporary() says and leaves the status
// fields underneath as they are. Applied to an error that carries the next hop's own reply (anything an smtpconn
// operation returned) it produces "temporary" with `554 5.x.x` inside: the queue retries until max_tries and the report
// then shows a permanent status. The class is forced only on errors that have no SMTP status of their own.
func c16ForcedClassHasNoStatus(c *Check, rule string) {
	c.Rule(rule, "exterrors.WithTemporary(err, true) is never applied to an error that stems from an smtpconn operation (it carries the next hop's reply code: forcing the class would give a temporary error with a 5yz status inside)", 1)
	p := c.P
	n := 0
	ordF := map[string]int{}
	rels := append([]string{}, propertyPackages["C16"]...)
	rels = append(rels, "internal/target/smtp", "internal/check/dkim", "internal/check/spf", "internal/auth/dovecot_sasl")
	seenRel := map[string]bool{}
	for _, rel := range rels {
		if seenRel[rel] {
			continue
		}
		seenRel[rel] = true
		for _, fi := range funcsOfPkgs(p, rel) {
			if fi.Decl.Body == nil {
				continue
			}
			info := fi.Info()
			ast.Inspect(fi.Decl.Body, func(x ast.Node) bool {
				call, ok := x.(*ast.CallExpr)
				if !ok || !isCall(info, call, "~/framework/exterrors.WithTemporary") || len(call.Args) != 2 {
					return true
				}
				if tv, ok := info.Types[call.Args[1]]; !ok || tv.Value == nil || tv.Value.String() != "true" {
					return true
				}
				n++
				ordF[fi.Name()]++
				c.SawFunc(fi.Name())
				// where can the wrapped error come from?
				seen := map[ast.Node]bool{}
				hit := ""
				var walk func(e ast.Expr, depth int)
				walk = func(e ast.Expr, depth int) {
					e = ast.Unparen(e)
					if seen[e] || depth > 8 || hit != "" {
						return
					}
					seen[e] = true
					switch v := e.(type) {
					case *ast.CallExpr:
						if fn := callee(info, v); fn != nil && fn.Pkg() != nil {
							pp := fn.Pkg().Path()
							if pp == modPath+"/internal/smtpconn" || strings.HasSuffix(pp, "emersion/go-smtp") {
								hit = fn.Name()
								return
							}
						}
						for _, a := range v.Args {
							if t := info.TypeOf(a); t != nil && isErrorType(t) {
								walk(a, depth+1)
							}
						}
					case *ast.Ident:
						o := objOf(info, v)
						if o == nil {
							return
						}
						ast.Inspect(fi.Decl.Body, func(y ast.Node) bool {
							as, ok := y.(*ast.AssignStmt)
							if !ok {
								return true
							}
							for i, l := range as.Lhs {
								if objOf(info, l) != o {
									continue
								}
								if len(as.Lhs) == len(as.Rhs) {
									walk(as.Rhs[i], depth+1)
								} else if len(as.Rhs) == 1 {
									walk(as.Rhs[0], depth+1)
								}
							}
							return true
						})
					}
				}
				walk(call.Args[0], 0)
				c.Hold(rule, fi.Pkg.Types.Name()+"."+refName(fi.Obj)+":forced"+itoa(ordF[fi.Name()]), call.Pos(), hit == "", "the class of an error that stems from the next hop's own reply (smtpconn "+hit+") is forced to temporary: a server that refuses with 554 is reported as `554 5.x.x` and still retried until max_tries – basic code, enhanced code and the retry decision no longer agree")
				return true
			})
		}
	}
	if n == 0 {
		c.HoldConst(rule, "no-forced-class", token.NoPos, true, "")
	}
}

// c10NoMetaStoreAfterBody: a target takes what it needs from the message metadata when it is handed the body (the
// queue writes its spool record inside Body). A store into the metadata after the Body call is seen by whoever shares
// the pointer in memory and by nobody who reads the record back: the first attempt and the attempt after a restart
// get different metadata.
func c10NoMetaStoreAfterBody(c *Check, rule string) {
	c.Rule(rule, "endpoint: nothing is stored into the message metadata once the body has been handed to the delivery (the queue writes its record inside Body): the spooled record and the first attempt see the same envelope options (TLS-Required override, …)", 1)
	p := c.P
	n := 0
	for _, fi := range funcsOfPkgs(p, smtpEndpRel) {
		if fi.Decl.Body == nil || fi.Decl.Recv == nil || recvTypeName(fi.Decl) != "Session" {
			continue
		}
		r := &RuleCtx{C: c, FI: fi, F: p.FlowOfFunc(fi), Info: fi.Info()}
		bodies := r.Calls(func(info *types.Info, call *ast.CallExpr) bool {
			m := methodName(call)
			if m != "Body" && m != "BodyNonAtomic" {
				return false
			}
			fn := callee(info, call)
			return fn != nil && fn.Pkg() != nil && strings.HasSuffix(fn.Pkg().Path(), "/framework/module")
		})
		if len(bodies) == 0 {
			continue
		}
		n++
		c.SawFunc(fi.Name())
		store := func(q Pt) bool {
			as, ok := q.Node().(*ast.AssignStmt)
			if !ok {
				return false
			}
			for _, l := range as.Lhs {
				if fv := fieldOf(r.Info, l); fv != nil {
					if sel, ok := ast.Unparen(l).(*ast.SelectorExpr); ok {
						if t := r.Info.TypeOf(sel.X); t != nil && typeIs(t, "~/framework/module", "MsgMetadata") {
							return true
						}
					}
				}
			}
			return false
		}
		path, f := r.F.Reach(Query{From: bodies, Target: store})
		c.Hold(rule, "Session."+refName(fi.Obj)+":no-store-after-body", fi.Decl.Pos(), !f, "a field of the message metadata is stored after the body was handed to the delivery: the queue has written its record by then – the in-memory first attempt sees the new value, an attempt after a restart (which reads the record) does not: "+r.F.Describe(path))
	}
	if n == 0 {
		c.Fail(rule, "Session:body-calls", token.NoPos, "undecided: no Session method hands a body to a delivery")
	}
}

// c10NoPooledBuffer: the bytes of an accepted message live in the buffer the endpoint hands to the pipeline until the
// queue has copied them into its spool. Storage that goes back to a sync.Pool when the reading function returns is
// reused by the next session while the first message is still being checked: the slice placed into a MemoryBuffer
// never aliases pooled storage.
func c10NoPooledBuffer(c *Check, rule string) {
	c.Rule(rule, "endpoint buffering: the slice placed into a buffer.MemoryBuffer never aliases storage obtained from a sync.Pool (it would be overwritten by the next session's message while this one is still on its way to the spool)", 0)
	p := c.P
	n := 0
	for _, fi := range funcsOfPkgs(p, smtpEndpRel, "framework/buffer") {
		if fi.Decl.Body == nil {
			continue
		}
		info := fi.Info()
		tainted := map[types.Object]bool{}
		isPoolGet := func(e ast.Expr) bool {
			found := false
			ast.Inspect(e, func(y ast.Node) bool {
				if call, ok := y.(*ast.CallExpr); ok && isCall(info, call, "sync.Pool.Get") {
					found = true
				}
				return true
			})
			return found
		}
		var derives func(e ast.Expr) bool
		derives = func(e ast.Expr) bool {
			e = ast.Unparen(e)
			switch v := e.(type) {
			case *ast.Ident:
				return tainted[objOf(info, v)]
			case *ast.StarExpr:
				return derives(v.X)
			case *ast.SliceExpr:
				return derives(v.X)
			case *ast.TypeAssertExpr:
				return derives(v.X) || isPoolGet(v.X)
			case *ast.CallExpr:
				if isCall(info, v, "sync.Pool.Get") {
					return true
				}
				if tv, ok := info.Types[v.Fun]; ok && tv.IsType() && len(v.Args) == 1 {
					return derives(v.Args[0])
				}
			}
			return false
		}
		for changed := true; changed; {
			changed = false
			ast.Inspect(fi.Decl.Body, func(x ast.Node) bool {
				if as, ok := x.(*ast.AssignStmt); ok && len(as.Lhs) == len(as.Rhs) {
					for i, l := range as.Lhs {
						if o := objOf(info, l); o != nil && !tainted[o] && derives(as.Rhs[i]) {
							tainted[o] = true
							changed = true
						}
					}
				}
				return true
			})
		}
		if len(tainted) == 0 {
			continue
		}
		ast.Inspect(fi.Decl.Body, func(x ast.Node) bool {
			cl, ok := x.(*ast.CompositeLit)
			if !ok || !typeIs(info.TypeOf(cl), "~/framework/buffer", "MemoryBuffer") {
				return true
			}
			for _, el := range cl.Elts {
				v := el
				if kv, ok := el.(*ast.KeyValueExpr); ok {
					v = kv.Value
				}
				n++
				c.SawFunc(fi.Name())
				c.Hold(rule, fi.Pkg.Types.Name()+"."+refName(fi.Obj)+":memory-buffer"+itoa(n), cl.Pos(), !derives(v), "the MemoryBuffer is built over storage taken from a sync.Pool ("+exprStr(v)+"): the storage goes back to the pool when the function returns and the next session's DATA overwrites it while this message is still in its body checks – the queue then stores and delivers the other message's bytes under this envelope")
			}
			return true
		})
	}
	if n == 0 {
		c.HoldConst(rule, "no-pooled-storage", token.NoPos, true, "")
	}
}

// c04RecordedMeansHandedOver: the pipeline records, per target, the recipients it handed to that target
// (delivery.recipients – what Body/Commit results are later reported for). A recipient is recorded only after the
// target's AddRcpt has been called for it: a memo that skips the call ("this address was added already") turns an
// earlier refusal into a silent acceptance – the recipient gets 250 and no target ever sees it.
func c04RecordedMeansHandedOver(c *Check, rule string) {
	c.Rule(rule, "pipeline AddRcpt: a recipient is recorded for a target (delivery.recipients) only on paths on which that target's AddRcpt has been called in the same iteration – no condition lets the record be made without the hand-over", 1)
	r := c.need(rule, pipelineRel, "msgpipelineDelivery", "AddRcpt")
	if r == nil {
		return
	}
	info := r.Info
	n := 0
	for _, pt := range r.F.Points() {
		as, ok := pt.Node().(*ast.AssignStmt)
		if !ok || len(as.Lhs) != 1 || len(as.Rhs) != 1 {
			continue
		}
		fv := fieldOf(info, as.Lhs[0])
		if fv == nil || fv.Name() != "recipients" {
			continue
		}
		call, ok := ast.Unparen(as.Rhs[0]).(*ast.CallExpr)
		if !ok {
			continue
		}
		if id, isID := call.Fun.(*ast.Ident); !isID || id.Name != "append" {
			continue
		}
		n++
		// the enclosing loop over the targets: its head is where an iteration starts
		var loop *ast.RangeStmt
		ast.Inspect(r.FI.Decl.Body, func(x ast.Node) bool {
			if rs, ok := x.(*ast.RangeStmt); ok && within(rs.Body, as) {
				loop = rs // innermost wins (Inspect goes outside-in)
			}
			return true
		})
		if loop == nil {
			c.Fail(rule, "AddRcpt:record"+itoa(n), as.Pos(), "undecided: the record is not made inside a loop over targets")
			continue
		}
		handed := r.Calls(func(info *types.Info, call *ast.CallExpr) bool {
			if methodName(call) != "AddRcpt" {
				return false
			}
			fn := callee(info, call)
			return fn != nil && fn.Pkg() != nil && strings.HasSuffix(fn.Pkg().Path(), "/framework/module")
		})
		head := r.F.Find(func(nd ast.Node) bool { return false })
		for _, q := range r.F.Points() {
			if q.I == 0 && q.B.Kind == kindRangeBody && q.B.Stmt == ast.Stmt(loop) {
				head = append(head, q)
			}
		}
		if len(head) == 0 {
			// empty first node: take the first point inside the body
			for _, q := range r.F.Points() {
				if q.Node() != nil && within(loop.Body, q.Node()) {
					head = append(head, q)
					break
				}
			}
		}
		path, f := r.F.Reach(Query{From: head, Inclusive: true, Target: isPt([]Pt{pt}), Avoid: isPt(handed)})
		c.Hold(rule, "AddRcpt:record"+itoa(n), as.Pos(), !f, "the recipient can be recorded for the target without the target's AddRcpt having been called in this iteration: when the call is skipped (an 'already added' memo that also remembers refused addresses) the client gets 250 for a recipient no target has accepted: "+r.F.Describe(path))
	}
	if n == 0 {
		c.Fail(rule, "AddRcpt:records", r.FI.Decl.Pos(), "undecided: no append to delivery.recipients found")
	}
}

// c07FromDomainALabels: everything DMARC does with the author domain wants A-labels – the `_dmarc.` query, the public
// suffix list, the comparison with the d= of a signature and the SPF domain. A From domain written with U-labels
// (`ceo@münchen.de`) that is used as written finds no policy and aligns with nothing: the verdict is "none" and a
// published p=reject is avoided by choice of spelling. The domain leaves ExtractFromDomain converted with
// idna …ToASCII, and FetchRecord does not convert the names it queries back (ToUnicode / ForLookup).
func c07FromDomainALabels(c *Check, rule string) {
	c.Rule(rule, "internal/dmarc: the author domain leaves ExtractFromDomain converted to A-labels (an idna ToASCII step on every successful return), and the names FetchRecord queries are not converted back to U-labels: a From domain written with U-labels finds the policy published for it", 2)
	p := c.P
	if fi := p.Func("internal/dmarc", "", "ExtractFromDomain"); fi == nil {
		c.Fail(rule, "dmarc.ExtractFromDomain", token.NoPos, "anchor unresolved")
	} else {
		c.SawFunc(fi.Name())
		f := p.SSAFunc(fi.Obj)
		n, msg := 0, ""
		if f != nil {
			for _, r := range returnsOf(f) {
				if len(r.Results) != 2 || !isNilConst(r.Results[1]) {
					continue
				}
				for _, ch := range stringChains(r.Results[0], 12) {
					n++
					has := false
					for _, st := range ch.Steps {
						if strings.Contains(st.Callee, "idna.") && strings.Contains(st.Callee, "ToASCII") {
							has = true
						}
					}
					if !has {
						msg = "the author domain is returned as written " + describeChain(ch.Steps) + ": for `From: ceo@münchen.de` the policy is looked up at _dmarc.münchen.de. (no resolver answers that), nothing aligns with the A-label identifiers of DKIM and SPF – dmarc=none although _dmarc.xn--mnchen-3ya.de publishes p=reject"
					}
				}
			}
		}
		c.Hold(rule, "ExtractFromDomain:a-labels", fi.Decl.Pos(), msg == "" && n > 0, msg)
	}
	if fi := p.Func("internal/dmarc", "", "FetchRecord"); fi == nil {
		c.Fail(rule, "dmarc.FetchRecord", token.NoPos, "anchor unresolved")
	} else {
		c.SawFunc(fi.Name())
		f := p.SSAFunc(fi.Obj)
		n, msg := 0, ""
		var cone []*ssa.Function
		if f != nil {
			cone = p.ssaCone(f)
		}
		for _, f := range cone {
			for _, b := range f.Blocks {
				for _, ins := range b.Instrs {
					call, ok := ins.(*ssa.Call)
					if !ok || !call.Call.IsInvoke() || call.Call.Method.Name() != "LookupTXT" || len(call.Call.Args) < 2 {
						continue
					}
					n++
					for _, part := range concatParts(call.Call.Args[1]) {
						for _, ch := range stringChains(part, 12) {
							for _, st := range ch.Steps {
								if strings.Contains(st.Callee, "ToUnicode") || strings.HasSuffix(st.Callee, "/framework/dns.ForLookup") || strings.HasSuffix(st.Callee, "/framework/address.ForLookup") {
									msg = "the queried name passes through " + st.Callee[strings.LastIndex(st.Callee, "/")+1:] + ", which produces U-labels: the policy of an internationalized author domain (xn--mnchen-3ya.de) is looked up under a name that does not exist in DNS – dmarc=none, p=reject not applied"
								}
							}
						}
					}
				}
			}
		}
		if n == 0 && msg == "" {
			msg = "undecided: no LookupTXT query found in FetchRecord (or in the helpers it was split into)"
		}
		c.Hold(rule, "FetchRecord:names-stay-a-labels", fi.Decl.Pos(), msg == "" && n > 0, msg)
	}
	// … nor on the way from ExtractFromDomain to FetchRecord
	if fi := p.Func("internal/dmarc", "Verifier", "FetchRecord"); fi == nil {
		c.Fail(rule, "dmarc.Verifier.FetchRecord", token.NoPos, "anchor unresolved")
	} else {
		c.SawFunc(fi.Name())
		msg, n := "", 0
		var fns []*ssa.Function
		if f := p.SSAFunc(fi.Obj); f != nil {
			fns = p.ssaCone(f)
		}
		for _, f := range fns {
			for _, b := range f.Blocks {
				for _, ins := range b.Instrs {
					call, ok := ins.(*ssa.Call)
					if !ok || call.Call.IsInvoke() || len(call.Call.Args) < 3 || !strings.HasSuffix(ssaCalleeName(&call.Call), "/internal/dmarc.FetchRecord") {
						continue
					}
					n++
					for _, ch := range stringChains(call.Call.Args[2], 12) {
						for _, st := range ch.Steps {
							if strings.Contains(st.Callee, "ToUnicode") || strings.HasSuffix(st.Callee, "/framework/dns.ForLookup") || strings.HasSuffix(st.Callee, "/framework/address.ForLookup") {
								msg = "the author domain passes through " + st.Callee[strings.LastIndex(st.Callee, "/")+1:] + " before the policy lookup: an A-label domain (xn--mnchen-3ya.de) is looked up under its U-label spelling, which does not exist in DNS – dmarc=none, the published p=reject is not applied"
							}
						}
					}
				}
			}
		}
		if n == 0 && msg == "" {
			msg = "undecided: no call of FetchRecord found in Verifier.FetchRecord (or in the helpers it was split into)"
		}
		c.Hold(rule, "Verifier.FetchRecord:domain-stays-a-label", fi.Decl.Pos(), msg == "" && n > 0, msg)
	}
}

// c09OneKeyForConnTable: connectionForDomain looks a domain up in the delivery's connection table and, when there is
// none, stores the new connection there. Both must use the same key: a store under another spelling (a normalised
// copy) is never found again – every further recipient of the domain opens a new connection and overwrites the entry;
// Body and Close see only the last one, the recipients on the others get no result (and their connections leak).
func c09OneKeyForConnTable(c *Check, rule string) {
	c.Rule(rule, "remote target: the delivery's connection table is read and written under one key – every index of it in connectionForDomain is the same variable, and that variable is not assigned in between", 1)
	r := c.need(rule, remoteRel, "remoteDelivery", "connectionForDomain")
	if r == nil {
		return
	}
	info := r.Info
	keys := map[types.Object]token.Pos{}
	n := 0
	bad := ""
	ast.Inspect(r.FI.Decl.Body, func(x ast.Node) bool {
		ix, ok := x.(*ast.IndexExpr)
		if !ok || !isField(info, ix.X, "remoteDelivery", "connections") {
			return true
		}
		n++
		o := objOf(info, ix.Index)
		if o == nil {
			bad = "the table is indexed by an expression that is not a variable (" + exprStr(ix.Index) + ")"
			return true
		}
		keys[o] = ix.Pos()
		return true
	})
	if n == 0 {
		c.Fail(rule, "connectionForDomain:table", r.FI.Decl.Pos(), "undecided: the connection table is not indexed here")
		return
	}
	if len(keys) > 1 {
		bad = "the table is read and written under different variables"
	}
	for o := range keys {
		ast.Inspect(r.FI.Decl.Body, func(x ast.Node) bool {
			if as, ok := x.(*ast.AssignStmt); ok {
				for _, l := range as.Lhs {
					if objOf(info, l) == o && as.Tok == token.ASSIGN {
						bad = "the key variable " + o.Name() + " is assigned between the look-up and the store (line " + itoa(p0(c.P, as.Pos())) + ")"
					}
				}
			}
			return true
		})
	}
	c.Hold(rule, "connectionForDomain:one-key", r.FI.Decl.Pos(), bad == "", bad+": a connection stored under another spelling of the domain is not found by the next recipient of that domain – it opens a connection of its own and overwrites the entry; the recipients on the earlier connections get no result and no message")
}

func p0(p *Prog, pos token.Pos) int { return p.Fset.Position(pos).Line }

// c02StagingTruncated: the record is rewritten through a staging file that is then renamed over the old record. The
// staging file may be a leftover of an interrupted rewrite: it is opened truncating (os.Create, or OpenFile with
// O_TRUNC / O_EXCL) – otherwise a shorter record written over a longer leftover keeps the leftover's tail, and the
// renamed record no longer parses: the message is skipped at every start-up from then on.
func c02StagingTruncated(c *Check, rule string) {
	c.Rule(rule, "updateMetadataOnDisk opens its staging file truncating (os.Create, or os.OpenFile with O_TRUNC or O_EXCL): a leftover of an interrupted rewrite cannot leave its tail behind the new record", 1)
	r := c.need(rule, queueRel, "Queue", "updateMetadataOnDisk")
	if r == nil {
		return
	}
	info := r.Info
	n, msg := 0, ""
	ast.Inspect(r.FI.Decl.Body, func(x ast.Node) bool {
		call, ok := x.(*ast.CallExpr)
		if !ok {
			return true
		}
		switch {
		case isCall(info, call, "os.Create"):
			n++
		case isCall(info, call, "os.OpenFile") && len(call.Args) == 3:
			n++
			flags := exprStr(call.Args[1])
			writes := strings.Contains(flags, "O_WRONLY") || strings.Contains(flags, "O_RDWR")
			if writes && !strings.Contains(flags, "O_TRUNC") && !strings.Contains(flags, "O_EXCL") {
				msg = "the staging file is opened for writing without O_TRUNC (" + flags + "): after an interrupted rewrite left a longer staging file behind, the next, shorter record is written over its beginning and renamed into place with the old tail still attached – the record does not parse any more, the retry fails and every later start-up skips the message"
			}
		}
		return true
	})
	c.Hold(rule, "updateMetadataOnDisk:staging-open", r.FI.Decl.Pos(), msg == "" && n > 0, msg)
}

// c18NullSenderNotConverted: a failure report is sent with the null reverse-path and – for a report about an
// internationalized message – with the SMTPUTF8 flag. A next hop without SMTPUTF8 makes smtpconn convert the
// addresses to ASCII; the empty reverse-path has nothing to convert (address.ToASCII("") fails with "missing at-sign",
// which Mail turns into a permanent 550 5.6.7): the conversion of the sender is reached only for a non-empty sender.
func c18NullSenderNotConverted(c *Check, rule string) {
	c.Rule(rule, "smtpconn.C.Mail converts the reverse-path to ASCII only when it is not empty: the null sender of a failure report about an SMTPUTF8 message is handed on as it is (the report is not lost to `550 5.6.7 cannot convert sender address` at a next hop without SMTPUTF8)", 1)
	r := c.need(rule, "internal/smtpconn", "C", "Mail")
	if r == nil {
		return
	}
	info := r.Info
	sig := r.FI.Obj.Type().(*types.Signature)
	var from types.Object
	for i := 0; i < sig.Params().Len(); i++ {
		if isStringType(sig.Params().At(i).Type()) {
			from = sig.Params().At(i)
		}
	}
	if from == nil {
		c.Fail(rule, "C.Mail:sender", r.FI.Decl.Pos(), "undecided: no string parameter")
		return
	}
	convs := r.Calls(func(info *types.Info, call *ast.CallExpr) bool {
		return isCall(info, call, "~/framework/address.ToASCII") && len(call.Args) == 1 && objOf(info, call.Args[0]) == from
	})
	if len(convs) == 0 {
		c.HoldConst(rule, "C.Mail:no-conversion", r.FI.Decl.Pos(), true, "")
		return
	}
	nonEmpty := r.F.AvoidImplying(func(atom ast.Expr) (bool, bool) {
		be, ok := ast.Unparen(atom).(*ast.BinaryExpr)
		if !ok || (be.Op != token.EQL && be.Op != token.NEQ) {
			return false, false
		}
		var other ast.Expr
		if s, isC := constString(info, be.Y); isC && s == "" {
			other = be.X
		} else if s, isC := constString(info, be.X); isC && s == "" {
			other = be.Y
		}
		if other == nil || objOf(info, other) != from {
			return false, false
		}
		// take away the edge on which the sender is known to be non-empty
		return be.Op == token.NEQ, true
	})
	path, f := r.F.Reach(Query{From: r.Entry(), Inclusive: true, Target: isPt(convs), AvoidEdge: nonEmpty, NoCorr: true})
	c.Hold(rule, "C.Mail:null-sender", r.FI.Decl.Pos(), !f, "the conversion of the sender address is reached for the empty reverse-path: address.ToASCII(\"\") fails (missing at-sign) and Mail answers 550 5.6.7 itself – the failure report about an SMTPUTF8 message, relayed to a server without SMTPUTF8, is refused permanently and lost: "+r.F.Describe(path))
}

// c14FullMatchAnchorsWhole: `full_match` promises that the whole key has to match. Anchors bind tighter than
// alternation: "^" + `a|b` + "$" is `^a|b$` – everything that starts with a or ends with b. With auth_map, sender
// tables or destination_in built on table.regexp, `alice@corp|bob@corp` then also matches alice@corp.evil.org. The
// text added in front of the expression opens a (non-capturing) group right after the anchor and the text added
// behind closes it in front of the end anchor.
func c14FullMatchAnchorsWhole(c *Check, rule string) {
	c.Rule(rule, "table.regexp full_match: the anchors are put around a group that contains the user's whole expression (`^(?:` … `)$`), so that an alternation cannot escape them", 1)
	r := c.need(rule, "internal/table", "Regexp", "Init")
	if r == nil {
		return
	}
	info := r.Info
	var reVar types.Object
	ast.Inspect(r.FI.Decl.Body, func(x ast.Node) bool {
		if call, ok := x.(*ast.CallExpr); ok && isCall(info, call, "regexp.Compile", "regexp.MustCompile") && len(call.Args) == 1 {
			if o := objOf(info, call.Args[0]); o != nil {
				reVar = o
			}
		}
		return true
	})
	if reVar == nil {
		c.Fail(rule, "Regexp.Init:compiled", r.FI.Decl.Pos(), "undecided: the expression handed to regexp.Compile is not a local variable")
		return
	}
	var prefixes, suffixes []string
	ast.Inspect(r.FI.Decl.Body, func(x ast.Node) bool {
		as, ok := x.(*ast.AssignStmt)
		if !ok || len(as.Lhs) != 1 || len(as.Rhs) != 1 || objOf(info, as.Lhs[0]) != reVar {
			return true
		}
		var parts []ast.Expr
		var flat func(e ast.Expr)
		flat = func(e ast.Expr) {
			e = ast.Unparen(e)
			if be, ok := e.(*ast.BinaryExpr); ok && be.Op == token.ADD {
				flat(be.X)
				flat(be.Y)
				return
			}
			parts = append(parts, e)
		}
		flat(as.Rhs[0])
		at := -1
		for i, pe := range parts {
			if objOf(info, pe) == reVar {
				at = i
			}
		}
		if at < 0 {
			return true
		}
		for i, pe := range parts {
			if s, isC := constString(info, pe); isC {
				if i < at {
					prefixes = append(prefixes, s)
				} else if i > at {
					suffixes = append(suffixes, s)
				}
			}
		}
		return true
	})
	anchored := false
	okFront, okBack := true, true
	for _, s := range prefixes {
		if i := strings.Index(s, "^"); i >= 0 {
			anchored = true
			if !strings.HasPrefix(s[i+1:], "(?:") {
				okFront = false
			}
		}
	}
	for _, s := range suffixes {
		if i := strings.LastIndex(s, "$"); i >= 0 {
			anchored = true
			if i == 0 || s[i-1] != ')' {
				okBack = false
			}
		}
	}
	if !anchored {
		c.HoldConst(rule, "Regexp.Init:no-anchors-added", r.FI.Decl.Pos(), true, "")
		return
	}
	c.Hold(rule, "Regexp.Init:anchors-around-group", r.FI.Decl.Pos(), okFront && okBack, "full_match puts `^` and `$` directly around the user's expression: with an alternation (`alice@corp\\.example|bob@corp\\.example`) the result is `^alice@corp\\.example|bob@corp\\.example$`, which matches alice@corp.example.evil.org and x-bob@corp.example – a key that only begins or ends like a listed one is accepted by auth_map, sender tables and destination_in rules built on table.regexp")
}

// c16ReplyClassRewrittenForRcptOnly: RFC 5321 §4.5.3.1.10 lets a client treat 552 as 452 when it answers RCPT ("too
// many recipients"). As an answer to MAIL, DATA or the final dot, 552 is "message too big / storage exceeded": a
// permanent failure. Turning every 552 into 452 makes the queue retry such a message until max_tries and report it
// late with a 4.x.x status – a permanent failure is re-attempted.
func c16ReplyClassRewrittenForRcptOnly(c *Check, rule string) {
	c.Rule(rule, "smtpconn: the reply code of the next hop is rewritten (552 → 452) only for the answer to RCPT – every store into the Code of the server's reply sits in C.Rcpt: a 552 after MAIL or DATA stays permanent and is not retried", 0)
	p := c.P
	n := 0
	for _, fi := range funcsOfPkgs(p, "internal/smtpconn") {
		if fi.Decl.Body == nil {
			continue
		}
		info := fi.Info()
		ast.Inspect(fi.Decl.Body, func(x ast.Node) bool {
			as, ok := x.(*ast.AssignStmt)
			if !ok {
				return true
			}
			for _, l := range as.Lhs {
				fv := fieldOf(info, l)
				if fv == nil || fv.Name() != "Code" {
					continue
				}
				sel := ast.Unparen(l).(*ast.SelectorExpr)
				t := info.TypeOf(sel.X)
				if t == nil || !(typeIs(t, "github.com/emersion/go-smtp", "SMTPError")) {
					continue
				}
				n++
				c.SawFunc(fi.Name())
				c.Hold(rule, "smtpconn."+refName(fi.Obj)+":code-rewrite"+itoa(n), as.Pos(), refName(fi.Obj) == "Rcpt", "the server's reply code is rewritten in "+refName(fi.Obj)+", which handles the answers to every command: a 552 given after DATA (message too big) becomes 452 – the queue retries the message until max_tries although the failure is permanent, and the report then shows a 4.x.x status")
			}
			return true
		})
	}
	if n == 0 {
		c.HoldConst(rule, "smtpconn:no-code-rewrite", token.NoPos, true, "")
	}
}

// c16AuthRepliesAreSMTPErrors: the SMTP library answers an error of the SASL exchange that is not an *smtp.SMTPError
// with `454 4.7.0 <err.Error()>` – a temporary class and the raw text. The provider-independent SASL server of
// internal/auth returns the sentinel "auth: invalid credentials" for a wrong password: handed to the library as it is,
// a permanent failure is answered with 4yz (and any other error would be sent verbatim). Session.Auth therefore does
// not return the result of CreateSASL itself but a server of the endpoint's own whose Next turns every error into an
// *smtp.SMTPError.
func c16AuthRepliesAreSMTPErrors(c *Check, rule string) {
	c.Rule(rule, "SMTP endpoint AUTH: the SASL server handed to the library is the endpoint's own wrapper, and every error its Next returns is an *smtp.SMTPError built there (the library would answer anything else with `454 4.7.0` and the raw error text: a wrong password would be a temporary failure)", 1)
	r := c.need(rule, smtpEndpRel, "Session", "Auth")
	if r == nil {
		return
	}
	info := r.Info
	n := 0
	for _, pt := range r.F.Points() {
		ret, ok := pt.Node().(*ast.ReturnStmt)
		if !ok || len(ret.Results) != 2 {
			continue
		}
		if isNilIdent(info, ret.Results[0]) {
			continue
		}
		n++
		key := "Session.Auth:server" + itoa(n)
		t := info.TypeOf(ret.Results[0])
		nt := namedOf(t)
		if nt == nil || nt.Obj().Pkg() == nil || nt.Obj().Pkg() != r.FI.Pkg.Types {
			c.Hold(rule, key, ret.Pos(), false, "Auth hands the library the SASL server of internal/auth as it is: its errors are plain values (`auth: invalid credentials`), which the library answers with `454 4.7.0 auth: invalid credentials` – a wrong password is reported as a temporary failure, indistinguishable from an unavailable backend, and the text sent is whatever err.Error() says")
			continue
		}
		// the wrapper's Next
		var next *FuncInfo
		for _, fi := range funcsOfPkgs(c.P, smtpEndpRel) {
			if fi.Decl.Recv != nil && recvTypeName(fi.Decl) == nt.Obj().Name() && fi.Obj.Name() == "Next" {
				next = fi
			}
		}
		if next == nil || next.Decl.Body == nil {
			c.Hold(rule, key, ret.Pos(), false, "the server type returned by Auth ("+nt.Obj().Name()+") has no Next of its own: errors of the embedded SASL server reach the library unconverted")
			continue
		}
		c.SawFunc(next.Name())
		ni := next.Info()
		msg := ""
		isSMTPErr := func(e ast.Expr) bool {
			t := ni.TypeOf(e)
			return t != nil && typeIs(t, "github.com/emersion/go-smtp", "SMTPError")
		}
		var okExpr func(e ast.Expr, depth int) bool
		okExpr = func(e ast.Expr, depth int) bool {
			e = ast.Unparen(e)
			if isNilIdent(ni, e) {
				return true
			}
			if isSMTPErr(e) {
				return true
			}
			if call, ok := e.(*ast.CallExpr); ok && depth < 3 {
				if d := c.P.DeclOf(callee(ni, call)); d != nil && d.Decl.Body != nil && d.Pkg == next.Pkg {
					all, k := true, 0
					inspectNoLit(d.Decl.Body, func(x ast.Node) bool {
						if rs, ok := x.(*ast.ReturnStmt); ok && len(rs.Results) > 0 {
							k++
							last := ast.Unparen(rs.Results[len(rs.Results)-1])
							t := d.Info().TypeOf(last)
							if !(isNilIdent(d.Info(), last) || (t != nil && typeIs(t, "github.com/emersion/go-smtp", "SMTPError"))) {
								all = false
							}
						}
						return true
					})
					return all && k > 0
				}
			}
			if id, ok := e.(*ast.Ident); ok {
				// a local: every value assigned to it
				o := objOf(ni, id)
				all, k := true, 0
				ast.Inspect(next.Decl.Body, func(x ast.Node) bool {
					if as, ok := x.(*ast.AssignStmt); ok && len(as.Lhs) == len(as.Rhs) {
						for i, l := range as.Lhs {
							if objOf(ni, l) == o {
								k++
								if !okExpr(as.Rhs[i], depth+1) {
									all = false
								}
							}
						}
					} else if ok && len(as.Rhs) == 1 {
						for _, l := range as.Lhs {
							if objOf(ni, l) == o {
								k++
								all = false
							}
						}
					}
					return true
				})
				return all && k > 0
			}
			return false
		}
		inspectNoLit(next.Decl.Body, func(x ast.Node) bool {
			if rs, ok := x.(*ast.ReturnStmt); ok && len(rs.Results) > 0 {
				last := rs.Results[len(rs.Results)-1]
				if !okExpr(last, 0) {
					msg = "Next can return an error that is not an *smtp.SMTPError (" + exprStr(last) + "): the library answers it with `454 4.7.0` and the raw text"
				}
			}
			return true
		})
		c.Hold(rule, key, ret.Pos(), msg == "", msg)
	}
	if n == 0 {
		c.Fail(rule, "Session.Auth:returns", r.FI.Decl.Pos(), "undecided: Auth returns no server")
	}
}

// c16AuthzTemporaryKept: authorize_sender's header stage asks the same decision function as the MAIL FROM stage and,
// when the From address is not authorised, tries the Sender address before it refuses with the constant
// `553 5.7.0 Unauthorized use of sender address`. The decision function also reports a failed table lookup
// (`454 4.7.0 Internal error during policy check`). That verdict must not be replaced by the constant: a temporary
// failure would be answered with 5yz, and the wrong action directive applied.
func c16AuthzTemporaryKept(c *Check, rule string) {
	c.Rule(rule, "check.authorize_sender, header stage: a verdict of the decision function is replaced by the constant 'unauthorized' reply only behind a test that it is not a temporary one (a failed table lookup stays `454 4.7.0`, it does not become `553 5.7.0`)", 1)
	r := c.need(rule, "internal/check/authorize_sender", "state", "CheckBody")
	if r == nil {
		return
	}
	info := r.Info
	n := 0
	for _, pt := range r.F.Points() {
		as, ok := pt.Node().(*ast.AssignStmt)
		if !ok || len(as.Lhs) != 1 || len(as.Rhs) != 1 {
			continue
		}
		call, ok := ast.Unparen(as.Rhs[0]).(*ast.CallExpr)
		if !ok || methodName(call) != "authzSender" {
			continue
		}
		res := objOf(info, as.Lhs[0])
		if res == nil {
			continue
		}
		n++
		// returns that do not hand the verdict on
		other := func(q Pt) bool {
			ret, ok := q.Node().(*ast.ReturnStmt)
			if !ok || len(ret.Results) != 1 {
				return false
			}
			return !mentions(info, ret.Results[0], res)
		}
		redef := func(q Pt) bool { return q != pt && q.Node() != nil && assignsObj(info, q.Node(), res) }
		notTemp := r.F.AvoidImplying(func(atom ast.Expr) (bool, bool) {
			call, ok := ast.Unparen(atom).(*ast.CallExpr)
			if !ok || !isCall(info, call, "~/framework/exterrors.IsTemporary", "~/framework/exterrors.IsTemporaryOrUnspec") || len(call.Args) != 1 {
				return false, false
			}
			if !mentions(info, call.Args[0], res) {
				return false, false
			}
			// take away the edge on which the verdict is known not to be temporary
			return false, true
		})
		path, f := r.F.Reach(Query{From: []Pt{pt}, Target: other, Avoid: redef, AvoidEdge: notTemp, NoCorr: true})
		c.Hold(rule, "CheckBody:verdict"+itoa(n), as.Pos(), !f, "the verdict of the decision function can be dropped in favour of the constant `553 5.7.0 Unauthorized use of sender address` without a test that it is not temporary: when the user_to_email / prepare_email table cannot be read (454 4.7.0 at MAIL FROM) the header stage answers 553 – a temporary failure with a permanent class, under the no_match action instead of the err action: "+r.F.Describe(path))
	}
	if n == 0 {
		c.Fail(rule, "CheckBody:decision", r.FI.Decl.Pos(), "undecided: the header stage does not call the decision function authzSender")
	}
}

// c10EnvelopeIsValidUTF8: the queue keeps the envelope in a JSON record; encoding/json replaces every byte sequence
// that is not valid UTF-8 by U+FFFD. An address with such bytes (accepted under SMTPUTF8: the syntax checks look at
// the domain only) is handed to the first attempt as received and to every retry, and to every attempt after a
// restart, as a different string. The endpoint therefore refuses addresses that are not valid UTF-8: the hand-over to
// the pipeline lies behind a utf8.ValidString test of the address.
func c10EnvelopeIsValidUTF8(c *Check, rule string) {
	c.Rule(rule, "SMTP endpoint: an envelope address reaches the pipeline (Start, AddRcpt) only behind a test that it is valid UTF-8 – the spool's JSON record would store a different string (U+FFFD) than the one the first attempt used", 2)
	type site struct {
		recv, fn string
		target   func(info *types.Info, call *ast.CallExpr) bool
	}
	sites := []site{
		{"Session", "rcpt", func(info *types.Info, call *ast.CallExpr) bool {
			fn := callee(info, call)
			return methodName(call) == "AddRcpt" && fn != nil && fn.Pkg() != nil && strings.HasSuffix(fn.Pkg().Path(), "/framework/module")
		}},
		{"Session", "startDelivery", func(info *types.Info, call *ast.CallExpr) bool {
			return methodName(call) == "Start" && isCall(info, call, "~/internal/msgpipeline.MsgPipeline.Start")
		}},
	}
	for _, st := range sites {
		r := c.need(rule, smtpEndpRel, st.recv, st.fn)
		if r == nil {
			continue
		}
		info := r.Info
		sig := r.FI.Obj.Type().(*types.Signature)
		var addr types.Object
		for i := 0; i < sig.Params().Len(); i++ {
			if isStringType(sig.Params().At(i).Type()) {
				addr = sig.Params().At(i)
				break
			}
		}
		targets := r.Calls(st.target)
		if addr == nil || len(targets) == 0 {
			c.Fail(rule, st.recv+"."+st.fn+":hand-over", r.FI.Decl.Pos(), "undecided: the hand-over of the address to the pipeline was not found")
			continue
		}
		valid := r.F.AvoidImplying(func(atom ast.Expr) (bool, bool) {
			call, ok := ast.Unparen(atom).(*ast.CallExpr)
			if !ok || !isCall(info, call, "unicode/utf8.ValidString", "unicode/utf8.Valid") || len(call.Args) != 1 {
				return false, false
			}
			if !mentions(info, call.Args[0], addr) {
				return false, false
			}
			return true, true
		})
		path, f := r.F.Reach(Query{From: r.Entry(), Inclusive: true, Target: isPt(targets), AvoidEdge: valid})
		c.Hold(rule, st.recv+"."+st.fn+":valid-utf8", r.FI.Decl.Pos(), !f, "the address reaches the pipeline without a test that it is valid UTF-8: `RCPT TO:<\\xffuser@example.com>` under SMTPUTF8 is accepted, the first attempt is made for the 17-byte address as received, the spool record (JSON) holds U+FFFD in place of the byte – every retry and every attempt after a restart goes to a different address: "+r.F.Describe(path))
	}
}
