package main

import (
	"go/ast"
	"go/token"
	"go/types"
	"sort"
	"strings"

	"golang.org/x/tools/go/ssa"
)

// Round 7 rules (DESIGN.md §R.16).

// c13FQDNKeepsEncoding: the name a TLSA / MX / TXT query is made for is the name as configured or as returned by DNS –
// A-labels stay A-labels. dns.FQDN only qualifies the name. A conversion to U-labels on that way (idna.ToUnicode,
// dns.ForLookup) makes the query ask for a name that does not exist in DNS: NXDOMAIN reads as "no TLSA records" and
// DANE is skipped for every internationalized MX host.
func c13FQDNKeepsEncoding(c *Check, rule string) {
	c.Rule(rule, "dns.FQDN only qualifies the name: its result derives from the argument through encoding-preserving steps (the DNS library's Fqdn, ASCII case, trimming) – never through a conversion to U-labels (an NXDOMAIN for the U-label spelling would read as 'no TLSA records')", 1)
	p := c.P
	fi := p.Func("framework/dns", "", "FQDN")
	if fi == nil {
		c.Fail(rule, "dns.FQDN", token.NoPos, "anchor unresolved")
		return
	}
	c.SawFunc(fi.Name())
	f := p.SSAFunc(fi.Obj)
	if f == nil || len(f.Params) != 1 {
		c.Fail(rule, "dns.FQDN", fi.Decl.Pos(), "undecided: no SSA")
		return
	}
	allowed := func(callee string) bool {
		switch {
		case strings.HasSuffix(callee, "miekg/dns.Fqdn"), strings.HasSuffix(callee, "miekg/dns.CanonicalName"):
			return true
		case callee == "strings.ToLower", callee == "strings.TrimSuffix", callee == "strings.TrimSpace":
			return true
		case strings.HasSuffix(callee, "/framework/dns.LowerASCII"):
			return true
		case strings.HasSuffix(callee, "idna.ToASCII"), strings.HasSuffix(callee, "idna.Profile.ToASCII"):
			return true
		}
		return false
	}
	msg := ""
	n := 0
	for _, r := range returnsOf(f) {
		if len(r.Results) != 1 {
			continue
		}
		for _, ch := range stringChains(r.Results[0], 12) {
			n++
			if ch.Origin != ssa.Value(f.Params[0]) {
				if cst, ok := ch.Origin.(*ssa.Const); ok && cst.Value != nil && cst.Value.ExactString() == `""` {
					continue
				}
				msg = "the result does not derive from the argument through unary string steps (" + ch.Origin.String() + ")"
				continue
			}
			for _, st := range ch.Steps {
				if !allowed(st.Callee) {
					msg = "the name passes through " + st.Callee[strings.LastIndex(st.Callee, "/")+1:] + " on its way into the query: an A-label host (mx.xn--e1afmkfd.example) is looked up under its U-label spelling, the answer is NXDOMAIN, which discovery reads as 'no TLSA records' – DANE is skipped although authenticated records exist"
				}
			}
		}
	}
	c.Hold(rule, "dns.FQDN:encoding-kept", fi.Decl.Pos(), msg == "" && n > 0, msg)
}

// ---- E9: in-place reuse of a slice that is still being read.
// `dst := src[:0]` followed by a loop over src that appends to dst is the filter idiom; it is correct only while at
// most one element is appended per element read. An append of a list (`append(dst, many...)`) or several appends on
// one way round the loop overwrite elements of src that have not been read yet: they are lost and the new ones are
// read again.
func sliceReuseSeen(c *Check, fis []*FuncInfo) {
	c.Rule("E9", "a slice that aliases the storage of the list being ranged over (`dst := src[:0]`) grows by at most one element per element read: no spread append and no second append on one way round the loop (elements not yet read would be overwritten – recipients lost, others duplicated)", 0)
	seen := map[*types.Func]bool{}
	defer func() { c.HoldConst("E9", "aliases-examined", token.NoPos, true, "") }()
	for _, fi := range fis {
		if fi == nil || seen[fi.Obj] || fi.Decl.Body == nil {
			continue
		}
		seen[fi.Obj] = true
		info := fi.Info()
		// alias definitions: d := s[:0] / var d = s[:0] / d = s[:0]
		type alias struct{ d, s types.Object }
		var aliases []alias
		note := func(l ast.Expr, rhs ast.Expr) {
			se, ok := ast.Unparen(rhs).(*ast.SliceExpr)
			if !ok || se.High == nil || se.Low != nil && !isZeroLit(info, se.Low) {
				return
			}
			if !isZeroLit(info, se.High) {
				return
			}
			d, s := objOf(info, l), objOf(info, se.X)
			if d != nil && s != nil {
				aliases = append(aliases, alias{d, s})
			}
		}
		ast.Inspect(fi.Decl.Body, func(x ast.Node) bool {
			switch n := x.(type) {
			case *ast.AssignStmt:
				if len(n.Lhs) == len(n.Rhs) {
					for i := range n.Lhs {
						note(n.Lhs[i], n.Rhs[i])
					}
				}
			case *ast.ValueSpec:
				if len(n.Names) == len(n.Values) {
					for i := range n.Names {
						note(n.Names[i], n.Values[i])
					}
				}
			}
			return true
		})
		if len(aliases) == 0 {
			continue
		}
		obs := map[string]token.Pos{}
		ast.Inspect(fi.Decl.Body, func(x ast.Node) bool {
			rs, ok := x.(*ast.RangeStmt)
			if !ok {
				return true
			}
			src := objOf(info, rs.X)
			if src == nil {
				return true
			}
			for _, a := range aliases {
				if a.s != src {
					continue
				}
				c.sites++
				// appends to a.d in the loop body
				nApp, spread := 0, false
				var first token.Pos
				ast.Inspect(rs.Body, func(y ast.Node) bool {
					as, ok := y.(*ast.AssignStmt)
					if !ok || len(as.Lhs) != 1 || len(as.Rhs) != 1 || objOf(info, as.Lhs[0]) != a.d {
						return true
					}
					call, ok := ast.Unparen(as.Rhs[0]).(*ast.CallExpr)
					if !ok {
						return true
					}
					if id, isID := call.Fun.(*ast.Ident); !isID || id.Name != "append" || len(call.Args) < 1 || objOf(info, call.Args[0]) != a.d {
						return true
					}
					nApp++
					if first == token.NoPos {
						first = as.Pos()
					}
					if call.Ellipsis.IsValid() || len(call.Args) > 2 {
						spread = true
					}
					return true
				})
				if spread {
					obs[fi.Pkg.Types.Name()+"."+refName(fi.Obj)+":"+a.d.Name()+":spread"] = first
				} else if nApp > 1 {
					// several appends: harmless when they are on exclusive branches; decided on the flow graph
					fl := c.P.FlowOfFunc(fi)
					isApp := func(q Pt) bool {
						as, ok := q.Node().(*ast.AssignStmt)
						return ok && len(as.Lhs) == 1 && objOf(info, as.Lhs[0]) == a.d && within(rs.Body, as)
					}
					head := func(q Pt) bool { return q.I == 0 && q.B.Kind == kindRangeLoop && q.B.Stmt == ast.Stmt(rs) }
					for _, pt := range fl.Points() {
						if !isApp(pt) {
							continue
						}
						if _, f := fl.Reach(Query{From: []Pt{pt}, Target: isApp, Avoid: head}); f {
							obs[fi.Pkg.Types.Name()+"."+refName(fi.Obj)+":"+a.d.Name()+":twice"] = first
						}
					}
				}
			}
			return true
		})
		var keys []string
		for k := range obs {
			keys = append(keys, k)
		}
		sort.Strings(keys)
		for _, k := range keys {
			c.Hold("E9", k, obs[k], false, "the slice shares its storage with the list the loop is reading (it was made from it with [:0]) and can grow by more than one element per element read: elements that have not been read yet are overwritten – they are lost and the new ones are read in their place")
		}
	}
}

func isZeroLit(info *types.Info, e ast.Expr) bool {
	tv, ok := info.Types[e]
	return ok && tv.Value != nil && tv.Value.ExactString() == "0"
}

// ---- E10: a package-level map is one object. Stored into a field of every instance (`actions: defaultActions`) and
// written through that field (`c.actions[code] = action` while reading the configuration), it makes one instance's
// configuration change all the others.
func sharedTableSeen(c *Check, fis []*FuncInfo) {
	c.Rule("E10", "a package-level map is not stored into a field that the package writes through (index assignment, delete): one instance's configuration would change the table of every other instance", 0)
	defer func() { c.HoldConst("E10", "tables-examined", token.NoPos, true, "") }()
	pkgs := map[*packagesPkg]bool{}
	for _, fi := range fis {
		if fi != nil {
			pkgs[fi.Pkg] = true
		}
	}
	var plist []*packagesPkg
	for pk := range pkgs {
		plist = append(plist, pk)
	}
	sort.Slice(plist, func(i, j int) bool { return plist[i].PkgPath < plist[j].PkgPath })
	for _, pk := range plist {
		info := pk.TypesInfo
		// fields written through
		written := map[types.Object]token.Pos{}
		stored := map[types.Object][]ast.Node{} // field -> where a package-level map is stored into it
		storedVar := map[types.Object]types.Object{}
		isPkgMap := func(e ast.Expr) types.Object {
			v, ok := objOf(info, e).(*types.Var)
			if !ok || v.IsField() || v.Pkg() == nil || v.Parent() != v.Pkg().Scope() {
				return nil
			}
			if _, isMap := v.Type().Underlying().(*types.Map); !isMap {
				return nil
			}
			return v
		}
		for _, file := range pk.Syntax {
			if strings.HasSuffix(c.P.Fset.Position(file.Pos()).Filename, "_test.go") {
				continue
			}
			ast.Inspect(file, func(x ast.Node) bool {
				switch n := x.(type) {
				case *ast.AssignStmt:
					for i, l := range n.Lhs {
						if ix, ok := ast.Unparen(l).(*ast.IndexExpr); ok {
							if fv := fieldOf(info, ix.X); fv != nil {
								if _, isMap := fv.Type().Underlying().(*types.Map); isMap {
									written[fv] = n.Pos()
								}
							}
						}
						if len(n.Lhs) == len(n.Rhs) {
							if fv := fieldOf(info, l); fv != nil {
								if v := isPkgMap(n.Rhs[i]); v != nil {
									stored[fv] = append(stored[fv], n)
									storedVar[fv] = v
								}
							}
						}
					}
				case *ast.CallExpr:
					if id, ok := n.Fun.(*ast.Ident); ok && id.Name == "delete" && len(n.Args) == 2 {
						if fv := fieldOf(info, n.Args[0]); fv != nil {
							written[fv] = n.Pos()
						}
					}
				case *ast.KeyValueExpr:
					if id, ok := n.Key.(*ast.Ident); ok {
						if fv, isVar := info.Uses[id].(*types.Var); isVar && fv.IsField() {
							if v := isPkgMap(n.Value); v != nil {
								stored[fv] = append(stored[fv], n)
								storedVar[fv] = v
							}
						}
					}
				}
				return true
			})
		}
		var fields []types.Object
		for fv := range stored {
			fields = append(fields, fv)
		}
		sort.Slice(fields, func(i, j int) bool { return fields[i].Pos() < fields[j].Pos() })
		for _, fv := range fields {
			c.sites++
			if wp, isW := written[fv]; isW {
				c.Hold("E10", pk.Types.Name()+"."+fv.Name()+":shared", stored[fv][0].Pos(), false, "the package-level map "+storedVar[fv].Name()+" is stored into the field "+fv.Name()+", and "+c.P.Pos(wp)+" writes through that field: a `code 1 ignore` in one configured instance changes the verdict table of every other instance (their reject / quarantine is no longer applied)")
			}
		}
	}
}

// c07RawLookupError: Apply decides between "fail closed, reject temporarily" and "no policy" by asserting the
// concrete type of the error FetchRecord returned. As long as a consumer in the package classifies with a bare type
// assertion, the producers must hand the resolver's error on as it is: a wrapped error (fmt.Errorf("…%w"), WithFields)
// is no *net.DNSError any more, the temporary failure reads as a permanent one and p=reject is not applied while the
// DNS is down.
func c07RawLookupError(c *Check, rule string) {
	c.Rule(rule, "internal/dmarc: while the policy-lookup error is classified with a bare type assertion (recordErr.(*net.DNSError)), FetchRecord returns the resolver's error itself on every failure path – not a wrapped copy, which the assertion would not recognise (a temporary DNS failure would stop failing closed)", 1)
	p := c.P
	pk := p.Pkg("internal/dmarc")
	if pk == nil {
		c.Fail(rule, "internal/dmarc", token.NoPos, "anchor unresolved")
		return
	}
	info := pk.TypesInfo
	var bare []token.Pos
	for _, file := range pk.Syntax {
		if strings.HasSuffix(p.Fset.Position(file.Pos()).Filename, "_test.go") {
			continue
		}
		ast.Inspect(file, func(x ast.Node) bool {
			switch n := x.(type) {
			case *ast.TypeAssertExpr:
				if n.Type == nil {
					return true
				}
				if t := info.TypeOf(n.X); t != nil && isErrorType(t) {
					if at := info.TypeOf(n.Type); at != nil && !types.IsInterface(at) {
						bare = append(bare, n.Pos())
					}
				}
			case *ast.TypeSwitchStmt:
				var xe ast.Expr
				switch a := n.Assign.(type) {
				case *ast.AssignStmt:
					if ta, ok := a.Rhs[0].(*ast.TypeAssertExpr); ok {
						xe = ta.X
					}
				case *ast.ExprStmt:
					if ta, ok := a.X.(*ast.TypeAssertExpr); ok {
						xe = ta.X
					}
				}
				if xe != nil {
					if t := info.TypeOf(xe); t != nil && isErrorType(t) {
						bare = append(bare, n.Pos())
					}
				}
			}
			return true
		})
	}
	if len(bare) == 0 {
		c.HoldConst(rule, "dmarc:no-bare-assertion", token.NoPos, true, "")
		return
	}
	r := c.need(rule, "internal/dmarc", "", "FetchRecord")
	if r == nil {
		return
	}
	n := 0
	for _, pt := range r.F.Points() {
		ret, ok := pt.Node().(*ast.ReturnStmt)
		if !ok || len(ret.Results) == 0 {
			continue
		}
		last := ast.Unparen(ret.Results[len(ret.Results)-1])
		if isNilIdent(r.Info, last) {
			continue
		}
		n++
		call, isCall := last.(*ast.CallExpr)
		if !isCall {
			c.HoldConst(rule, "FetchRecord:return"+itoa(n), ret.Pos(), true, "")
			continue
		}
		wraps := false
		for _, a := range call.Args {
			if t := r.Info.TypeOf(a); t != nil && isErrorType(t) {
				wraps = true
			}
		}
		c.Hold(rule, "FetchRecord:return"+itoa(n), ret.Pos(), !wraps, "the lookup error is returned wrapped ("+exprStr(call.Fun)+") while "+p.Pos(bare[0])+" classifies it with a bare type assertion: the wrapped *net.DNSError is not recognised, a temporary DNS failure of this lookup reads as 'permanent, no policy' and the message is accepted instead of being refused temporarily")
	}
	if n == 0 {
		c.Fail(rule, "FetchRecord:returns", r.FI.Decl.Pos(), "undecided: no failure return")
	}
}

// c14RegexpNoNewGroup: the replacement of table.regexp refers to the user's capture groups by number. Whatever Init
// adds around the expression (anchors for full_match) must not contain a capturing group: one more `(` in front
// shifts every $N – `$1` becomes the whole match, and auth_map hands the password check a different account name.
func c14RegexpNoNewGroup(c *Check, rule string) {
	c.Rule(rule, "table.regexp: the text Init puts around the user's expression contains no capturing group (every constant concatenated with the expression is free of '(' other than '(?'): the replacement's $N keep referring to the user's groups", 1)
	r := c.need(rule, "internal/table", "Regexp", "Init")
	if r == nil {
		return
	}
	info := r.Info
	// the variable handed to regexp.Compile
	var reVar types.Object
	ast.Inspect(r.FI.Decl.Body, func(x ast.Node) bool {
		if call, ok := x.(*ast.CallExpr); ok && isCall(info, call, "regexp.Compile", "regexp.MustCompile", "regexp.CompilePOSIX") && len(call.Args) == 1 {
			if o := objOf(info, call.Args[0]); o != nil {
				reVar = o
			}
		}
		return true
	})
	if reVar == nil {
		c.Fail(rule, "Regexp.Init:compiled", r.FI.Decl.Pos(), "undecided: the expression handed to regexp.Compile is not a local variable")
		return
	}
	n := 0
	msg := ""
	var badPos token.Pos = r.FI.Decl.Pos()
	ast.Inspect(r.FI.Decl.Body, func(x ast.Node) bool {
		as, ok := x.(*ast.AssignStmt)
		if !ok || len(as.Lhs) != 1 || len(as.Rhs) != 1 || objOf(info, as.Lhs[0]) != reVar {
			return true
		}
		var parts []ast.Expr
		var flat func(e ast.Expr)
		flat = func(e ast.Expr) {
			e = ast.Unparen(e)
			if be, ok := e.(*ast.BinaryExpr); ok && be.Op == token.ADD {
				flat(be.X)
				flat(be.Y)
				return
			}
			parts = append(parts, e)
		}
		flat(as.Rhs[0])
		if len(parts) < 2 {
			return true
		}
		for _, pe := range parts {
			if objOf(info, pe) == reVar {
				continue
			}
			n++
			s, isConst := constString(info, pe)
			if !isConst {
				if call, isCall := pe.(*ast.CallExpr); isCall && isCall_(info, call, "regexp.QuoteMeta") {
					continue
				}
				msg = "undecided: a non-constant text (" + exprStr(pe) + ") is concatenated with the expression"
				badPos = as.Pos()
				continue
			}
			for i := 0; i < len(s); i++ {
				if s[i] == '\\' {
					i++
					continue
				}
				if s[i] == '(' && !(i+1 < len(s) && s[i+1] == '?') {
					msg = "Init puts a capturing group around the user's expression (" + exprStr(pe) + "): every group of the user moves up by one, `$1` in the replacement is now the whole match – with auth_map the password is checked against a different account name"
					badPos = as.Pos()
				}
			}
		}
		return true
	})
	c.Hold(rule, "Regexp.Init:no-new-group", badPos, msg == "", msg)
	_ = n
}
