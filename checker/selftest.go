package main

import (
	"fmt"
	"os"
	"os/exec"
	"path/filepath"
	"regexp"
	"sort"
	"strings"
)

// selfTest replays the independently seeded changes of a property in memory (packages.Config.Overlay) and reports
// whether the property's rules flag each variant. Evidence only: it never influences the exit status, and /repo is
// never modified (files are patched in a scratch directory that is removed again).
func selfTest(repo, verif, id string, baseline map[string]bool) map[string]interface{} {
	res := map[string]interface{}{}
	dirs, _ := filepath.Glob(filepath.Join(verif, "seeded", id+"*"))
	sort.Strings(dirs)
	var killed, survived, skipped []string
	details := map[string]interface{}{}
	for _, d := range dirs {
		name := filepath.Base(d)
		var overlay map[string][]byte
		used := ""
		for _, pf := range []string{"patch.diff", "patch.rebased.diff"} {
			if ov, err := patchOverlay(repo, filepath.Join(d, pf)); err == nil {
				overlay, used = ov, pf
				break
			}
		}
		if overlay == nil {
			skipped = append(skipped, name+": patch does not apply to the current tree")
			continue
		}
		p, problems := loadProg(repo, "", overlay)
		if p == nil || len(problems) > 0 {
			skipped = append(skipped, name+": variant does not type-check")
			continue
		}
		c := newCheck(id, p, "quick")
		func() {
			defer func() { recover() }()
			registry[id](c)
		}()
		var fresh []string
		for k := range c.violatedKeys() {
			if !baseline[k] {
				fresh = append(fresh, k)
			}
		}
		sort.Strings(fresh)
		details[name] = map[string]interface{}{"patch": used, "new_violations": fresh}
		if len(fresh) > 0 {
			killed = append(killed, name)
		} else {
			survived = append(survived, name)
		}
	}
	res["what"] = "independently seeded changes (seeded/<id>/) replayed through packages.Config.Overlay; killed = the property's rules report a violation that the unchanged tree does not have"
	res["mutants"] = len(killed) + len(survived)
	res["killed"] = killed
	res["survived"] = survived
	res["skipped"] = skipped
	res["details"] = details
	fmt.Printf("self-test %s: %d seeded variants, %d reported, %d not reported %v, %d skipped\n", id, len(killed)+len(survived), len(killed), len(survived), survived, len(skipped))
	return res
}

var plusRe = regexp.MustCompile(`(?m)^\+\+\+ b/(.+)$`)

// patchOverlay applies a unified diff to copies of the touched files and returns path → patched content.
func patchOverlay(repo, patch string) (map[string][]byte, error) {
	data, err := os.ReadFile(patch)
	if err != nil {
		return nil, err
	}
	files := plusRe.FindAllStringSubmatch(string(data), -1)
	if len(files) == 0 {
		return nil, fmt.Errorf("no files in patch")
	}
	tmp, err := os.MkdirTemp("", "maddyverif-selftest-")
	if err != nil {
		return nil, err
	}
	defer os.RemoveAll(tmp)
	for _, m := range files {
		rel := strings.TrimSpace(m[1])
		src, err := os.ReadFile(filepath.Join(repo, rel))
		if err != nil {
			return nil, err
		}
		dst := filepath.Join(tmp, rel)
		os.MkdirAll(filepath.Dir(dst), 0o755)
		if err := os.WriteFile(dst, src, 0o644); err != nil {
			return nil, err
		}
	}
	cmd := exec.Command("git", "apply", "--whitespace=nowarn", patch)
	cmd.Dir = tmp
	cmd.Env = append(os.Environ(), "GIT_CEILING_DIRECTORIES="+filepath.Dir(tmp), "GIT_DIR=/nonexistent")
	if out, err := cmd.CombinedOutput(); err != nil {
		return nil, fmt.Errorf("git apply: %v: %s", err, out)
	}
	ov := map[string][]byte{}
	for _, m := range files {
		rel := strings.TrimSpace(m[1])
		b, err := os.ReadFile(filepath.Join(tmp, rel))
		if err != nil {
			return nil, err
		}
		ov[filepath.Join(repo, rel)] = b
	}
	return ov, nil
}
