package main

import (
	"go/ast"
	"go/constant"
	"go/token"
	"go/types"
	"sort"
	"strings"
)

// C08 – DKIM signatures made by maddy verify at the next hop after spooling and SMTP.
//
// Whether a signature verifies is decided by the go-msgauth library and a crypto primitive over the bytes; that part is
// not decided here (DESIGN.md §4 / §R.17). What IS visible in the shape of maddy's code, and is a necessary condition
// of the statement each: the signer is fed the header that is kept and the whole body, in that order, and its result is
// attached to that header only when every step succeeded (R1); the options of the signature are wired to the
// configuration directive of the same name and to the key of the domain that is named in d= (R2); the list of signed
// fields names every instance of a configured field and one more for an over-signed one (R3); the key that signs is the
// key whose public half was published (R4); nothing between the signer and the wire rewrites header or body – the queue
// (C10.R3, R3f), the SMTP client (R5), the targets that hand the message to it (R6); maddy's own verifier reads the
// header and the body it was given and reports `pass` only for a verification without error (R7).

func init() { register("C08", checkC08) }

const (
	dkimModRel   = "internal/modify/dkim"
	dkimCheckRel = "internal/check/dkim"
	msgauthDKIM  = "github.com/emersion/go-msgauth/dkim"
	tpPkgPath    = "github.com/emersion/go-message/textproto"
)

var c08Copy = calling("io.Copy", "io.CopyBuffer", "io.CopyN")
var c08WriteHeader = calling(tpPkgPath + ".WriteHeader")

func checkC08(c *Check) {
	c.explain = "C08 (DKIM signatures survive spool and SMTP), structural part only: the signer (modify.dkim RewriteBody) is handed the header parameter and then the whole body, is closed with its error read, and its signature is added to that same header on every successful path that created a signer; no step's failure is followed by a signature; " +
		"the signature options come from the configuration directive of the same meaning (header_canon → HeaderCanonicalization, body_canon → BodyCanonicalization, hash → Hash through a table that knows every allowed name), d= and i= name one domain, the key is looked up under the normal form it was stored under; " +
		"fieldsToSign lists a configured field once per instance (and once more when over-signed) and returns that list; a generated key is the key that is written, published and returned, and the file is read back with the parser that matches the PEM type written; " +
		"the queue (C10.R3/R3f), smtpconn.Data/LMTPData and the targets hand header and body on unmodified and complete, header first; check.dkim verifies exactly the header and body it was given and only a verification without error counts as pass."
	c.notCover = "the bytes: canonicalisation, hashing and signature arithmetic of go-msgauth, the serialiser textproto.WriteHeader and its inverse, dot-stuffing of go-smtp – i.e. whether a given message verifies; that needs execution over generated messages and is outside static analysis (DESIGN.md §4). Modifiers configured after modify.dkim (configuration)."
	c08SignSequence(c)
	c08Options(c)
	c08Fields(c)
	c08Keys(c)
	c.Rule("R5", "smtpconn Data / LMTPData: the data writer receives the header parameter, then an unbounded copy of the body parameter, and is closed with its error read before the function reports success", 6)
	for _, name := range []string{"Data", "LMTPData"} {
		if r := c.need("R5", "internal/smtpconn", "C", name); r != nil {
			c08Stream(c, "R5", r, false)
		}
	}
	c08HandOn(c)
	c08Verifier(c)
	c.Rule("R8", "the queue stores and reloads the signed header and body unmodified and hands the first attempt what was accepted (C10.R3, C10.R3f)", 8)
	importRules(c, "C10", checkC10, map[string]bool{"R3": true, "R3f": true}, "R8")
}

// c08HdrBody: the header (textproto.Header or *Header) and body (buffer.Buffer or io.Reader) parameters of a function.
func c08HdrBody(fi *FuncInfo) (hdr, body types.Object) {
	sig := fi.Obj.Type().(*types.Signature)
	for i := 0; i < sig.Params().Len(); i++ {
		v := sig.Params().At(i)
		t := v.Type()
		if p, ok := t.(*types.Pointer); ok {
			t = p.Elem()
		}
		switch {
		case typeIs(t, tpPkgPath, "Header"):
			hdr = v
		case typeIs(t, modPath+"/framework/buffer", "Buffer"), typeIs(t, "io", "Reader"), typeIs(t, "io", "ReadCloser"):
			body = v
		}
	}
	return
}

// c08IsHdr: e is the header parameter or its dereference.
func c08IsHdr(info *types.Info, e ast.Expr, hdr types.Object) bool {
	e = ast.Unparen(e)
	if s, ok := e.(*ast.StarExpr); ok {
		e = ast.Unparen(s.X)
	}
	if u, ok := e.(*ast.UnaryExpr); ok && u.Op == token.AND {
		e = ast.Unparen(u.X)
	}
	return hdr != nil && objOf(info, e) == hdr
}

// c08Stream decides the feeding sequence of a message sink W (data writer of the SMTP client, DKIM signer) in r:
// W = first argument of the WriteHeader call. signer=true additionally returns the facts R1 needs.
func c08Stream(c *Check, rule string, r *RuleCtx, signer bool) (w types.Object, whPts, cpPts, closePts []Pt) {
	info := r.Info
	fn := r.FI.Name()
	pos := r.FI.Decl.Pos()
	hdr, body := c08HdrBody(r.FI)
	if hdr == nil || body == nil {
		c.Fail(rule, fn+":params", pos, "undecided: the function has no header and body parameter")
		return
	}
	whPts = r.Calls(c08WriteHeader)
	if len(whPts) == 0 {
		c.Fail(rule, fn+":header-written", pos, "the header is not written to the sink (no textproto.WriteHeader): the message leaves without its header, nothing signed is present")
		return
	}
	okArgs := true
	for _, pt := range whPts {
		call := r.CallAt(pt, c08WriteHeader)
		if len(call.Args) != 2 || !c08IsHdr(info, call.Args[1], hdr) {
			okArgs = false
			continue
		}
		o := objOf(info, call.Args[0])
		if o == nil || (w != nil && o != w) {
			okArgs = false
			continue
		}
		w = o
	}
	c.Hold(rule, fn+":header-written", pos, okArgs && w != nil, "what is written as the header is not the header parameter (or goes to more than one sink)")
	if !okArgs || w == nil {
		return
	}
	// the header is not modified before it is written (by-value parameters included: Header shares its field list)
	{
		bad, wit := false, ""
		for _, m := range r.F.Find(func(n ast.Node) bool { return n != nil && mutates(info, n, hdr) }) {
			if f, w2 := r.Reachable([]Pt{m}, false, isPt(whPts), nil); f {
				bad, wit = true, w2
			}
		}
		c.Hold(rule, fn+":header-unmodified", pos, !bad, "the header is modified before it is written to the sink: "+wit)
	}
	// body: an unbounded copy of the body parameter (or of body.Open() of it) into the same sink
	isCp := func(info *types.Info, call *ast.CallExpr) bool {
		return c08Copy(info, call) && len(call.Args) >= 2 && objOf(info, call.Args[0]) == w
	}
	cpPts = r.Calls(isCp)
	okB := len(cpPts) > 0
	why := "the body is never copied into the sink"
	for _, pt := range cpPts {
		call := r.CallAt(pt, isCp)
		if isCall(info, call, "io.CopyN") {
			okB, why = false, "the body is copied with a length bound (io.CopyN): a longer body is cut, the body hash no longer matches"
			continue
		}
		src := objOf(info, call.Args[1])
		if src == nil {
			okB, why = false, "the source of the copy is "+exprStr(call.Args[1])+", not the body parameter"
			continue
		}
		if src == body {
			continue
		}
		defs, ok := r.ReachingDefsDeep(src, pt, nil, 0)
		if !ok && len(defs) == 0 {
			// tuple definition `r, err := body.Open()`
			if d, n := localDef(info, r.FI.Decl.Body, src); n == 1 && d != nil {
				defs, ok = []ast.Expr{d}, true
			}
		}
		if len(defs) == 0 {
			okB, why = false, "the source of the copy has no visible definition"
		}
		for _, d := range defs {
			dc, isC := ast.Unparen(d).(*ast.CallExpr)
			if !isC || methodName(dc) != "Open" || recvObj(info, dc) != body {
				okB, why = false, "the source of the copy is "+exprStr(d)+", not body.Open() of the body parameter (a wrapped, bounded or different reader changes what is hashed / sent)"
			}
		}
	}
	c.Hold(rule, fn+":body-copied", pos, okB, why)
	if !okB {
		return w, whPts, nil, nil
	}
	// the sink is closed (this is what finishes the signature / sends the final dot) and its error is read
	isClose := func(info *types.Info, call *ast.CallExpr) bool {
		return methodName(call) == "Close" && recvObj(info, call) == w && len(call.Args) == 0
	}
	closePts = r.Calls(isClose)
	// order on every successful path that starts at the creation of the sink
	var from []Pt
	for _, pt := range r.F.Points() {
		if n := pt.Node(); n != nil && assignsObj(info, n, w) {
			from = append(from, pt)
		}
	}
	if len(from) == 0 {
		c.Fail(rule, fn+":sink", pos, "undecided: the sink "+w.Name()+" is not created in this function")
		return
	}
	succ := r.IsSuccessReturn
	steps := []struct {
		name string
		pts  []Pt
		msg  string
	}{
		{"header", whPts, "a successful return is reached without the header having been written"},
		{"body", cpPts, "a successful return is reached without the body having been copied"},
		{"close", closePts, "a successful return is reached without the sink having been closed (the signature is not finished / the final dot not sent)"},
	}
	for _, st := range steps {
		ok, wit := r.MustPass(from, false, succ, isPt(st.pts))
		c.Hold(rule, fn+":success-after-"+st.name, pos, ok && len(st.pts) > 0, st.msg+": "+wit)
	}
	// header strictly before body, body before close
	{
		ok1, w1 := r.MustPass(from, false, isPt(cpPts), isPt(whPts))
		f2, w2 := r.Reachable(cpPts, false, isPt(whPts), nil)
		c.Hold(rule, fn+":header-before-body", pos, ok1 && !f2, "the body reaches the sink before the header (or the header is written again after it): "+w1+w2)
		ok3 := true
		w3 := ""
		if len(closePts) > 0 {
			// a Close on a failure path is fine; the Close that precedes a success must come after the copy
			for _, cp := range closePts {
				if f, _ := r.Reachable([]Pt{cp}, false, succ, nil); !f {
					continue
				}
				if f, wit := r.Reachable(from, false, func(q Pt) bool { return q == cp }, isPt(cpPts)); f {
					ok3, w3 = false, wit
				}
			}
		}
		c.Hold(rule, fn+":body-before-close", pos, ok3, "the sink is closed before the body was copied on a path that goes on to success: "+w3)
	}
	// no step's failure is followed by success
	for _, st := range []struct {
		name string
		pts  []Pt
		pred CallPred
	}{{"header", whPts, c08WriteHeader}, {"body", cpPts, isCp}, {"close", closePts, isClose}} {
		for i, pt := range st.pts {
			call := r.CallAt(pt, st.pred)
			if st.name == "close" {
				if f, _ := r.Reachable([]Pt{pt}, false, succ, nil); !f {
					continue // clean-up on a failure path
				}
			}
			found, wit, ok := r.OnErr(pt, call, false, succ, nil)
			key := fn + ":" + st.name + "-failure-refused"
			if i > 0 {
				key += itoa(i + 1)
			}
			if !ok {
				c.Hold(rule, key, r.Pos(pt), false, "the error of "+exprStr(call)+" is not kept in a variable: a failed step cannot be told from a successful one")
				continue
			}
			c.Hold(rule, key, r.Pos(pt), !found, "after "+exprStr(call)+" failed the function still reports success: "+wit)
		}
	}
	_ = signer
	return
}

// ---------------------------------------------------------------------------------------------------------------------
// R1: the signing sequence of modify.dkim

func c08SignSequence(c *Check) {
	c.Rule("R1", "modify.dkim RewriteBody: the signer receives the header parameter and then the whole body, is closed with its error read, and its signature is added to that same header on every successful path that created a signer; after a failed step nothing is added", 12)
	r := c.need("R1", dkimModRel, "state", "RewriteBody")
	if r == nil {
		return
	}
	info := r.Info
	fn := r.FI.Name()
	pos := r.FI.Decl.Pos()
	hdr, _ := c08HdrBody(r.FI)
	w, whPts, cpPts, closePts := c08Stream(c, "R1", r, true)
	if w == nil || len(cpPts) == 0 {
		return
	}
	// the sink is the signer NewSigner returned
	isNew := calling(msgauthDKIM + ".NewSigner")
	newPts := r.Calls(isNew)
	okNew := len(newPts) > 0
	for _, pt := range newPts {
		if !assignsObj(info, pt.Node(), w) {
			okNew = false
		}
	}
	c.Hold("R1", fn+":sink-is-signer", pos, okNew, "the header and body are not written to the signer created by dkim.NewSigner")
	// the signature that is attached is this signer's, attached to the header parameter, after Close
	isSig := func(info *types.Info, call *ast.CallExpr) bool {
		return methodName(call) == "Signature" && recvObj(info, call) == w
	}
	sigPts := r.Calls(isSig)
	isAdd := func(info *types.Info, call *ast.CallExpr) bool {
		m := methodName(call)
		return (m == "AddRaw" || m == "Add") && recvObj(info, call) == hdr
	}
	addPts := r.Calls(isAdd)
	c.Hold("R1", fn+":signature-taken", pos, len(sigPts) > 0, "the signer's Signature() is never read")
	okAdd := len(addPts) > 0
	whyAdd := "the signature is never added to the header parameter"
	for _, pt := range addPts {
		call := r.CallAt(pt, isAdd)
		has := false
		for _, a := range call.Args {
			ast.Inspect(a, func(n ast.Node) bool {
				if cc, ok := n.(*ast.CallExpr); ok && isSig(info, cc) {
					has = true
				}
				if id, ok := n.(*ast.Ident); ok {
					if o := objOf(info, id); o != nil && localIn(r.FI.Decl.Body, o) {
						defs, _ := r.ReachingDefsDeep(o, pt, nil, 0)
						if d, n := localDef(info, r.FI.Decl.Body, o); n >= 1 && d != nil {
							defs = append(defs, d)
						}
						for _, d := range defs {
							for _, cc := range callsIn(d) {
								if isSig(info, cc) {
									has = true
								}
							}
						}
					}
				}
				return true
			})
		}
		if !has {
			okAdd, whyAdd = false, "a field that is not the signer's Signature() is added to the header after signing (line "+itoa(r.Line(pt))+"): it is not covered by the signature it follows, and if it is a signed field the count in h= is off by one"
		}
		if methodName(call) == "Add" {
			okAdd, whyAdd = false, "the signature is added with Add(key, value): Signature() is a complete raw field ('DKIM-Signature: …' CRLF), it has to be added with AddRaw"
		}
	}
	c.Hold("R1", fn+":signature-added", pos, okAdd, whyAdd)
	if len(sigPts) == 0 || !okAdd {
		return
	}
	var from []Pt
	for _, pt := range r.F.Points() {
		if n := pt.Node(); n != nil && assignsObj(info, n, w) {
			from = append(from, pt)
		}
	}
	ok, wit := r.MustPass(from, false, r.IsSuccessReturn, isPt(addPts))
	c.Hold("R1", fn+":success-after-add", pos, ok, "a signer was created and the function reports success without adding the signature (the message leaves unsigned although a key exists): "+wit)
	ok, wit = r.MustPass(from, false, isPt(sigPts), isPt(closePts))
	c.Hold("R1", fn+":close-before-signature", pos, ok, "Signature() is read before the signer was closed (go-msgauth panics / the value is empty): "+wit)
	ok, wit = r.MustPass(from, false, isPt(addPts), isPt(cpPts))
	c.Hold("R1", fn+":body-before-add", pos, ok, "a signature is added on a path on which the body was not hashed: "+wit)
	// no modification of the header between the moment the field list / the header was handed to the signer and the
	// signature (a field added in between is either unsigned or makes h= wrong), and none after it
	{
		isFields := func(info *types.Info, call *ast.CallExpr) bool {
			fn := callee(info, call)
			if fn == nil || fn.Pkg() == nil || fn.Pkg().Path() != modPath+"/"+dkimModRel {
				return false
			}
			for _, a := range call.Args {
				if c08IsHdr(info, a, hdr) {
					return true
				}
			}
			return false
		}
		start := append(append([]Pt{}, whPts...), r.Calls(isFields)...)
		bad, wb := false, ""
		for _, m := range r.F.Find(func(n ast.Node) bool { return n != nil && mutates(info, n, hdr) }) {
			if isPt(addPts)(m) {
				continue
			}
			if f, w2 := r.Reachable(start, false, func(q Pt) bool { return q == m }, nil); f {
				bad, wb = true, w2
			}
		}
		c.Hold("R1", fn+":header-stable-while-signing", pos, !bad, "the header is modified after its field list / its bytes went to the signer: "+wb)
	}
	// after a failed Close no signature
	for _, pt := range closePts {
		if f, _ := r.Reachable([]Pt{pt}, false, isPt(addPts), nil); !f {
			continue
		}
		call := r.CallAt(pt, func(info *types.Info, call *ast.CallExpr) bool { return methodName(call) == "Close" && recvObj(info, call) == w })
		found, wit, ok := r.OnErr(pt, call, false, isPt(addPts), nil)
		c.Hold("R1", fn+":no-signature-after-failed-close", r.Pos(pt), ok && !found, "the signature is added although Close (which computes it) failed: "+wit)
	}
}

// ---------------------------------------------------------------------------------------------------------------------
// R2: options

// c08Directive: the field of the module a configuration directive stores into (`cfg.Enum("header_canon", …, (*string)(&m.headerCanon))`),
// the allowed values and the default (Enum only).
type c08Dir struct {
	field   *types.Var
	local   types.Object // the local variable it stores into, if not a field
	allowed []ast.Expr
	def     ast.Expr
	call    *ast.CallExpr
}

func c08Directives(r *RuleCtx) map[string]*c08Dir {
	out := map[string]*c08Dir{}
	for _, call := range callsIn(r.FI.Decl.Body) {
		fn := callee(r.Info, call)
		if fn == nil || fn.Pkg() == nil || fn.Pkg().Path() != modPath+"/framework/config" || len(call.Args) < 4 {
			continue
		}
		name, ok := constString(r.Info, call.Args[0])
		if !ok {
			continue
		}
		d := &c08Dir{call: call}
		last := ast.Unparen(call.Args[len(call.Args)-1])
		for {
			if cc, ok := last.(*ast.CallExpr); ok && len(cc.Args) == 1 {
				last = ast.Unparen(cc.Args[0]) // conversion (*string)(&m.f)
				continue
			}
			break
		}
		if u, ok := last.(*ast.UnaryExpr); ok && u.Op == token.AND {
			if f := fieldOf(r.Info, u.X); f != nil {
				d.field = f
			} else {
				d.local = objOf(r.Info, u.X)
			}
		}
		if fn.Name() == "Enum" && len(call.Args) == 6 {
			lst := ast.Unparen(call.Args[3])
			if o := objOf(r.Info, lst); o != nil {
				if dd, n := localDef(r.Info, r.FI.Decl.Body, o); n == 1 && dd != nil {
					lst = ast.Unparen(dd)
				} else if v, isVar := o.(*types.Var); isVar {
					if init := r.C.P.globalInit(v); init != nil {
						lst = ast.Unparen(init)
					}
				}
			}
			if cl, ok := lst.(*ast.CompositeLit); ok {
				d.allowed = cl.Elts
			}
			d.def = call.Args[4]
		}
		out[name] = d
	}
	return out
}

func c08ConstStr(info *types.Info, e ast.Expr) (string, bool) {
	if tv, ok := info.Types[e]; ok && tv.Value != nil && tv.Value.Kind() == constant.String {
		return constant.StringVal(tv.Value), true
	}
	return "", false
}

func c08Options(c *Check) {
	c.Rule("R2", "modify.dkim: every option of the signature comes from the configuration directive of the same meaning (header_canon / body_canon / hash through a table that knows every allowed name), d= and i= name the same domain, the signed field list is computed from the header that is signed, and the key is looked up under the normal form Init stored it under", 10)
	r := c.need("R2", dkimModRel, "state", "RewriteBody")
	ini := c.need("R2", dkimModRel, "Modifier", "Init")
	if r == nil || ini == nil {
		return
	}
	info := r.Info
	pos := r.FI.Decl.Pos()
	hdr, _ := c08HdrBody(r.FI)
	dirs := c08Directives(ini)
	// the options: composite literal of dkim.SignOptions plus later `opts.F = v`
	vals := map[string][]ast.Expr{}
	var optObj types.Object
	ast.Inspect(r.FI.Decl.Body, func(n ast.Node) bool {
		switch x := n.(type) {
		case *ast.CompositeLit:
			if typeIs(info.TypeOf(x), msgauthDKIM, "SignOptions") {
				for _, e := range x.Elts {
					if kv, ok := e.(*ast.KeyValueExpr); ok {
						if id, ok := kv.Key.(*ast.Ident); ok {
							vals[id.Name] = append(vals[id.Name], kv.Value)
						}
					}
				}
			}
		case *ast.AssignStmt:
			for i, l := range x.Lhs {
				if se, ok := ast.Unparen(l).(*ast.SelectorExpr); ok && len(x.Rhs) == len(x.Lhs) {
					if t := info.TypeOf(se.X); t != nil && typeIs(derefAll(t), msgauthDKIM, "SignOptions") {
						vals[se.Sel.Name] = append(vals[se.Sel.Name], x.Rhs[i])
						optObj = objOf(info, se.X)
					}
				}
			}
		}
		return true
	})
	_ = optObj
	if len(vals) == 0 {
		c.Fail("R2", "RewriteBody:options", pos, "undecided: no dkim.SignOptions value is built in RewriteBody")
		return
	}
	// option ← directive
	for _, w := range []struct{ opt, dir string }{{"HeaderCanonicalization", "header_canon"}, {"BodyCanonicalization", "body_canon"}} {
		d := dirs[w.dir]
		key := "RewriteBody:" + w.opt
		if d == nil || d.field == nil {
			c.Hold("R2", key, ini.FI.Decl.Pos(), false, "Init has no directive "+w.dir+" that stores into a field of the modifier")
			continue
		}
		vs := vals[w.opt]
		ok := len(vs) > 0
		for _, v := range vs {
			if fieldOf(info, ast.Unparen(v)) != d.field {
				ok = false
			}
		}
		c.Hold("R2", key, pos, ok, "the option "+w.opt+" is not taken from the field the directive "+w.dir+" stores into ("+d.field.Name()+"): the signature is made with a canonicalization other than the configured one – 'simple' asked for and 'relaxed' applied, or header and body algorithm exchanged")
		// allowed values and default are canonicalizations the library knows
		okV := len(d.allowed) > 0
		lib := c08LibCanons(c.P)
		var bad []string
		for _, e := range append(append([]ast.Expr{}, d.allowed...), d.def) {
			s, isC := c08ConstStr(ini.Info, e)
			if !isC || !lib[s] {
				okV = false
				bad = append(bad, exprStr(e))
			}
		}
		c.HoldConst("R2", "Init:"+w.dir+":values", ini.FI.Decl.Pos(), okV && len(lib) > 0, "directive "+w.dir+" admits (or defaults to) a value the signing library has no canonicalizer for: "+strings.Join(bad, ", "))
	}
	// hash: Init: m.hash = table[name] with name from directive "hash"; every allowed name is a key of the table with a non-zero value
	{
		d := dirs["hash"]
		okH := d != nil && d.local != nil
		why := "Init has no directive hash storing into a local name"
		var hashField *types.Var
		if okH {
			okH, why = false, "the name chosen with directive hash is not looked up in a table and stored into a field"
			ast.Inspect(ini.FI.Decl.Body, func(n ast.Node) bool {
				as, ok := n.(*ast.AssignStmt)
				if !ok || len(as.Lhs) != 1 || len(as.Rhs) != 1 {
					return true
				}
				ix, ok := ast.Unparen(as.Rhs[0]).(*ast.IndexExpr)
				if !ok || objOf(ini.Info, ix.Index) != d.local {
					return true
				}
				f := fieldOf(ini.Info, as.Lhs[0])
				tbl := objOf(ini.Info, ix.X)
				if f == nil || tbl == nil {
					return true
				}
				hashField = f
				keys := c08TableKeys(c.P, tbl)
				okH, why = true, ""
				for _, e := range append(append([]ast.Expr{}, d.allowed...), d.def) {
					s, isC := c08ConstStr(ini.Info, e)
					if !isC || keys[s] == "" {
						okH, why = false, "directive hash admits "+exprStr(e)+", which the table "+tbl.Name()+" does not map to a hash function (Init panics / signs with hash 0)"
					} else if s == "sha256" && keys[s] != "crypto.SHA256" {
						okH, why = false, "the table maps sha256 to "+keys[s]
					}
				}
				return true
			})
		}
		c.HoldConst("R2", "Init:hash:table", ini.FI.Decl.Pos(), okH, why)
		vs := vals["Hash"]
		ok := len(vs) > 0 && hashField != nil
		for _, v := range vs {
			if fieldOf(info, ast.Unparen(v)) != hashField {
				ok = false
			}
		}
		c.Hold("R2", "RewriteBody:Hash", pos, ok, "the option Hash is not taken from the field Init stores the configured hash function into")
	}
	// HeaderKeys: a call of a function of this package with the header parameter
	{
		vs := vals["HeaderKeys"]
		ok := len(vs) > 0
		for _, v := range vs {
			v = r.resolveLocalAt(v, r.F.Entry())
			call, isC := ast.Unparen(v).(*ast.CallExpr)
			if !isC {
				// a local computed earlier
				if o := objOf(info, v); o != nil {
					if d, n := localDef(info, r.FI.Decl.Body, o); n == 1 && d != nil {
						call, isC = ast.Unparen(d).(*ast.CallExpr)
					}
				}
			}
			has := false
			if isC {
				for _, a := range call.Args {
					if c08IsHdr(info, a, hdr) {
						has = true
					}
				}
			}
			if !has {
				ok = false
			}
		}
		c.Hold("R2", "RewriteBody:HeaderKeys", pos, ok, "the list of signed fields (h=) is not computed from the header parameter that is signed")
	}
	// Domain / Identifier name the same variable
	{
		ds, is := vals["Domain"], vals["Identifier"]
		ok := len(ds) == 1 && len(is) <= 1
		var dom types.Object
		if ok {
			dom = objOf(info, ds[0])
			ok = dom != nil
		}
		if ok && len(is) == 1 {
			okI := false
			if be, isB := ast.Unparen(is[0]).(*ast.BinaryExpr); isB && be.Op == token.ADD {
				if s, isC := c08ConstStr(info, be.X); isC && s == "@" && objOf(info, be.Y) == dom {
					okI = true
				}
			}
			ok = okI
		}
		c.Hold("R2", "RewriteBody:Domain-Identifier", pos, ok, "d= and i= are not built from the same domain variable (i= must be '@' + the domain of d=, RFC 6376 §3.5: a verifier rejects an identity outside d=)")
		// the key: a lookup in a map field under a variable defined by the same normaliser Init stores under
		ks := vals["Signer"]
		okK := len(ks) == 1 && dom != nil
		whyK := "the option Signer is not a single value"
		if okK {
			okK, whyK = c08KeyLookup(c, r, ini, ks[0], dom)
		}
		c.Hold("R2", "RewriteBody:Signer", pos, okK, whyK)
	}
	// Selector: the configured one (or its A-label form)
	{
		d := dirs["selector"]
		vs := vals["Selector"]
		ok := d != nil && d.field != nil && len(vs) == 1
		if ok {
			o := objOf(info, vs[0])
			ok = false
			if f := fieldOf(info, ast.Unparen(vs[0])); f != nil {
				ok = f == d.field
			} else if o != nil {
				// every definition of the local derives from the field: the field itself or a conversion of the local
				// (or of a copy of it that a helper read in place left behind)
				ok = true
				n := 0
				same := copyClosure(info, r.FI.Decl.Body, o)
				same[o] = true
				ast.Inspect(r.FI.Decl.Body, func(x ast.Node) bool {
					as, isA := x.(*ast.AssignStmt)
					if !isA {
						return true
					}
					for i, l := range as.Lhs {
						if !same[objOf(info, l)] {
							continue
						}
						n++
						var rhs ast.Expr
						if len(as.Rhs) == len(as.Lhs) {
							rhs = as.Rhs[i]
						} else if len(as.Rhs) == 1 {
							rhs = as.Rhs[0]
						}
						if rhs == nil {
							ok = false
							continue
						}
						if fieldOf(info, ast.Unparen(rhs)) == d.field {
							continue
						}
						if cc, isC := ast.Unparen(rhs).(*ast.CallExpr); isC && isCall(info, cc, "golang.org/x/net/idna.ToASCII", "golang.org/x/net/idna.Profile.ToASCII") && len(cc.Args) == 1 && same[objOf(info, cc.Args[0])] {
							continue
						}
						if ro := objOf(info, rhs); ro != nil && same[ro] {
							continue
						}
						if sv, isC := c08ConstStr(info, rhs); isC && sv == "" {
							continue // the failure tuple of a helper read in place (`domain, selector, ok = "", "", false`): go-msgauth refuses an empty selector
						}
						ok = false
					}
					return true
				})
				ok = ok && n > 0
			}
		}
		c.Hold("R2", "RewriteBody:Selector", pos, ok, "s= is not the configured selector (or its A-label form): the verifier looks the key up under a name nothing was published under")
	}
}

// c08LibCanons: the canonicalizations go-msgauth has an implementation for (keys of its table).
func c08LibCanons(p *Prog) map[string]bool {
	out := map[string]bool{}
	pk := p.ByPath[msgauthDKIM]
	if pk == nil {
		return out
	}
	for _, f := range pk.Syntax {
		ast.Inspect(f, func(n ast.Node) bool {
			cl, ok := n.(*ast.CompositeLit)
			if !ok {
				return true
			}
			mt, ok := pk.TypesInfo.TypeOf(cl).Underlying().(*types.Map)
			if !ok || !typeIs(mt.Key(), msgauthDKIM, "Canonicalization") {
				return true
			}
			for _, e := range cl.Elts {
				if kv, ok := e.(*ast.KeyValueExpr); ok {
					if s, ok := c08ConstStr(pk.TypesInfo, kv.Key); ok {
						out[s] = true
					}
				}
			}
			return true
		})
	}
	return out
}

// c08TableKeys: constant string keys of a package-level map literal, with the text of their values.
func c08TableKeys(p *Prog, tbl types.Object) map[string]string {
	out := map[string]string{}
	for _, pk := range p.Pkgs {
		if pk.Types != tbl.Pkg() {
			continue
		}
		for _, f := range pk.Syntax {
			ast.Inspect(f, func(n ast.Node) bool {
				vs, ok := n.(*ast.ValueSpec)
				if !ok {
					return true
				}
				for i, nm := range vs.Names {
					if pk.TypesInfo.Defs[nm] != tbl || i >= len(vs.Values) {
						continue
					}
					if cl, ok := ast.Unparen(vs.Values[i]).(*ast.CompositeLit); ok {
						for _, e := range cl.Elts {
							if kv, ok := e.(*ast.KeyValueExpr); ok {
								if s, ok := c08ConstStr(pk.TypesInfo, kv.Key); ok {
									out[s] = exprStr(kv.Value)
								}
							}
						}
					}
				}
				return true
			})
		}
	}
	return out
}

// c08KeyLookup: Signer = <map field>[k] (possibly through a local), k defined by a normaliser call N(x) where x is the
// variable d= is built from (before its A-label conversion) – and Init stores into the same map field under N(…).
func c08KeyLookup(c *Check, r, ini *RuleCtx, v ast.Expr, dom types.Object) (bool, string) {
	info := r.Info
	v = ast.Unparen(v)
	if o := objOf(info, v); o != nil {
		if d, n := localDef(info, r.FI.Decl.Body, o); n == 1 && d != nil {
			v = ast.Unparen(d)
		}
	}
	ix, ok := v.(*ast.IndexExpr)
	if !ok {
		return false, "the signing key is not looked up in the table of keys"
	}
	mf := fieldOf(info, ix.X)
	ko := objOf(info, ix.Index)
	if mf == nil || ko == nil {
		return false, "the signing key is not looked up in a field of the modifier under a local key"
	}
	kd, n := localDef(info, r.FI.Decl.Body, ko)
	kc, isC := ast.Unparen(kd).(*ast.CallExpr)
	if n != 1 || !isC || len(kc.Args) != 1 {
		return false, "the key of the lookup is not the result of one normaliser call"
	}
	norm := callee(info, kc)
	if norm == nil {
		return false, "the normaliser of the lookup key is not resolved"
	}
	if objOf(info, kc.Args[0]) != dom {
		return false, "the key is looked up for " + exprStr(kc.Args[0]) + " while d= names " + dom.Name() + ": the message is signed with another domain's key"
	}
	// Init: every store into the map field is keyed by a local defined by the same normaliser
	stores, okS := 0, true
	ast.Inspect(ini.FI.Decl.Body, func(x ast.Node) bool {
		as, isA := x.(*ast.AssignStmt)
		if !isA {
			return true
		}
		for _, l := range as.Lhs {
			lx, isI := ast.Unparen(l).(*ast.IndexExpr)
			if !isI || fieldOf(ini.Info, lx.X) != mf {
				continue
			}
			stores++
			o := objOf(ini.Info, lx.Index)
			if o == nil {
				okS = false
				continue
			}
			d, n := localDef(ini.Info, ini.FI.Decl.Body, o)
			dc, isC := ast.Unparen(d).(*ast.CallExpr)
			if n != 1 || !isC || callee(ini.Info, dc) != norm {
				okS = false
			}
		}
		return true
	})
	if stores == 0 || !okS {
		return false, "Init does not store the keys under the normal form (" + norm.Name() + ") RewriteBody looks them up under: a domain written in another case or in U-labels is never signed"
	}
	return true, ""
}

// ---------------------------------------------------------------------------------------------------------------------
// R3: fieldsToSign

func c08Fields(c *Check) {
	c.Rule("R3", "modify.dkim fieldsToSign: a configured field is listed once per instance in the header parameter; an over-signed field once more; the list that is returned is the list that was built; a field configured twice is listed for its first mention only (go-msgauth refuses duplicates otherwise)", 6)
	ini := c.In(dkimModRel, "Modifier", "Init")
	// the function: the one RewriteBody computes HeaderKeys with
	rb := c.In(dkimModRel, "state", "RewriteBody")
	if ini == nil || rb == nil {
		c.Fail("R3", "fieldsToSign", token.NoPos, "anchor unresolved: Init / RewriteBody")
		return
	}
	hdr, _ := c08HdrBody(rb.FI)
	var fi *FuncInfo
	for _, call := range callsIn(rb.FI.Decl.Body) {
		fn := callee(rb.Info, call)
		if fn == nil || fn.Pkg() == nil || fn.Pkg().Path() != modPath+"/"+dkimModRel {
			continue
		}
		sig := fn.Type().(*types.Signature)
		if sig.Results().Len() != 1 {
			continue
		}
		if sl, ok := sig.Results().At(0).Type().Underlying().(*types.Slice); !ok || !isStringType(sl.Elem()) {
			continue
		}
		for _, a := range call.Args {
			if c08IsHdr(rb.Info, a, hdr) {
				fi = c.P.DeclOf(fn)
			}
		}
	}
	if fi == nil || fi.Decl.Body == nil {
		// the list is built in RewriteBody itself
		fi = rb.FI
	}
	r := c.CtxOf(fi)
	c.SawFunc(fi.Name())
	info := r.Info
	pos := fi.Decl.Pos()
	fhdr, _ := c08HdrBody(fi)
	if fhdr == nil {
		c.Fail("R3", fi.Name()+":params", pos, "undecided: no header parameter")
		return
	}
	dirs := c08Directives(ini)
	over, plain := dirs["oversign_fields"], dirs["sign_fields"]
	if over == nil || plain == nil || over.field == nil || plain.field == nil {
		c.Fail("R3", "Init:directives", ini.FI.Decl.Pos(), "anchor unresolved: directives oversign_fields / sign_fields storing into fields")
		return
	}
	loops := elemLoops(info, fi.Decl.Body, func(e ast.Expr) bool {
		f := fieldOf(info, ast.Unparen(e))
		return f == over.field || f == plain.field
	})
	seenLoop := map[*types.Var]bool{}
	var resObj types.Object
	// the list that is returned, and everything that is a copy of it or that it is a copy of (helpers read in place
	// leave `list := res … res = list` behind)
	returned := map[types.Object]bool{}
	inspectNoLit(fi.Decl.Body, func(x ast.Node) bool {
		if ret, ok := x.(*ast.ReturnStmt); ok && fi != rb.FI && len(ret.Results) == 1 {
			if o := objOf(info, ret.Results[0]); o != nil {
				returned[o] = true
			}
		}
		return true
	})
	isAcc := func(o types.Object) bool {
		if o == nil {
			return false
		}
		if len(returned) == 0 {
			return true
		}
		for q := range copyClosure(info, fi.Decl.Body, o) {
			if returned[q] {
				return true
			}
		}
		for ro := range returned {
			if copyClosure(info, fi.Decl.Body, ro)[o] {
				return true
			}
		}
		return false
	}
	hdrSet := copyClosure(info, fi.Decl.Body, fhdr)
	for _, l := range loops {
		f := fieldOf(info, ast.Unparen(l.List))
		seenLoop[f] = true
		kind := "sign_fields"
		if f == over.field {
			kind = "oversign_fields"
		}
		// appends of the element to an accumulator: inside an inner loop over the header's instances of the element, and directly
		elemSet := copyClosure(info, fi.Decl.Body, l.ElemObj())
		isElemX := func(e ast.Expr) bool {
			if l.IsElem(e) {
				return true
			}
			o := objOf(info, e)
			return o != nil && l.ElemObj() != nil && elemSet[o]
		}
		inner, direct, conditional := 0, 0, 0
		condDepth := 0
		var innerOK = true
		var walk func(n ast.Node, inInner bool)
		walk = func(n ast.Node, inInner bool) {
			ast.Inspect(n, func(x ast.Node) bool {
				if x == nil || x == n {
					return true
				}
				switch s := x.(type) {
				case *ast.FuncLit:
					return false
				case *ast.IfStmt:
					// an append that depends on something else than the duplicate filter (a flag parameter of a merged
					// helper) cannot be counted: the duplicate filter itself is of the form `if seen { continue }` and
					// has no append inside
					if s.Init != nil {
						walk(s.Init, inInner)
					}
					condDepth++
					walk(s.Body, inInner)
					if s.Else != nil {
						walk(s.Else, inInner)
					}
					condDepth--
					return false
				case *ast.ForStmt, *ast.RangeStmt:
					// an inner loop: counts when it iterates over the header parameter's fields with the element as key
					ok := false
					ast.Inspect(s, func(y ast.Node) bool {
						if cc, isC := y.(*ast.CallExpr); isC && hdrSet[recvObj(info, cc)] && (methodName(cc) == "FieldsByKey" || methodName(cc) == "Values") {
							if len(cc.Args) == 1 && isElemX(cc.Args[0]) {
								ok = true
							}
						}
						return true
					})
					var body *ast.BlockStmt
					if fs, isF := s.(*ast.ForStmt); isF {
						body = fs.Body
					} else {
						body = s.(*ast.RangeStmt).Body
					}
					if !ok {
						innerOK = false
					}
					walk(body, true)
					return false
				case *ast.AssignStmt:
					for i, lh := range s.Lhs {
						if i >= len(s.Rhs) {
							break
						}
						if o, args := appendTarget(info, lh, s.Rhs[i]); o != nil {
							for _, a := range args {
								if isElemX(a) {
									if resObj == nil {
										resObj = o
									}
									if !isAcc(o) {
										innerOK = false
									}
									if inInner {
										inner++
									} else if condDepth > 0 {
										conditional++
									} else {
										direct++
									}
								}
							}
						}
					}
				}
				return true
			})
		}
		walk(l.Body, false)
		c.Hold("R3", fi.Name()+":"+kind+":per-instance", pos, inner == 1 && innerOK, "a field of "+kind+" is not listed exactly once per instance found in the header parameter (loop over h.FieldsByKey(key) appending key): an instance that is not listed is not signed and can be altered, one listed too often counts as over-signed")
		if conditional > 0 {
			// the extra entry is decided by a run-time condition (one loop serving both lists): not judged
			c.Hold("R3", fi.Name()+":"+kind+":once-more-conditional", pos, true, "")
		} else if f == over.field {
			c.Hold("R3", fi.Name()+":"+kind+":once-more", pos, direct == 1, "an over-signed field is not listed exactly once more than it occurs (found "+itoa(direct)+" additional entries): without the extra entry a field of that name added at the next hop leaves the signature valid")
		} else {
			c.Hold("R3", fi.Name()+":"+kind+":no-extra", pos, direct == 0, "a field of sign_fields gets "+itoa(direct)+" additional entries: it is over-signed although the configuration asks for plain signing (a list manager that adds Resent-* / List-* fields breaks every signature)")
		}
		// the duplicate filter: test and store use the same key expression
		var tests, stores []string
		ast.Inspect(l.Body, func(x ast.Node) bool {
			switch s := x.(type) {
			case *ast.AssignStmt:
				for i, lh := range s.Lhs {
					ix, isI := ast.Unparen(lh).(*ast.IndexExpr)
					if isI {
						if _, isM := info.TypeOf(ix.X).Underlying().(*types.Map); isM {
							stores = append(stores, exprStr(ix.Index))
						}
					}
					if len(s.Lhs) == 2 && len(s.Rhs) == 1 && i == 0 {
						if rx, isI := ast.Unparen(s.Rhs[0]).(*ast.IndexExpr); isI {
							if _, isM := info.TypeOf(rx.X).Underlying().(*types.Map); isM {
								tests = append(tests, exprStr(rx.Index))
							}
						}
					}
				}
			}
			return true
		})
		okSeen := len(tests) == len(stores)
		for i := range tests {
			if i < len(stores) && tests[i] != stores[i] {
				okSeen = false
			}
		}
		// polarity of the filter: a field that was NOT seen before is listed (inverting the test lists nothing at all:
		// h= is empty, the signature covers no field and every verifier rejects it)
		{
			isSeenFlag := func(e ast.Expr) bool {
				o := objOf(info, e)
				if o == nil {
					return false
				}
				isFlag := false
				ast.Inspect(l.Body, func(y ast.Node) bool {
					if as, ok := y.(*ast.AssignStmt); ok && len(as.Lhs) == 2 && len(as.Rhs) == 1 && objOf(info, as.Lhs[1]) == o {
						if rx, isI := ast.Unparen(as.Rhs[0]).(*ast.IndexExpr); isI {
							if _, isM := info.TypeOf(rx.X).Underlying().(*types.Map); isM {
								isFlag = true
							}
						}
					}
					return true
				})
				return isFlag
			}
			notSeenWorld := r.AvoidEdges(func(cond ast.Expr, isCase bool) (int, bool) {
				if isCase {
					return 0, false
				}
				cond = ast.Unparen(cond)
				if isSeenFlag(cond) {
					return 0, true // `if ok {…}`: the true edge is impossible when the field was not seen
				}
				if u, isU := cond.(*ast.UnaryExpr); isU && u.Op == token.NOT && isSeenFlag(u.X) {
					return 1, true
				}
				return 0, false
			})
			isListing := func(q Pt) bool {
				as, ok := q.Node().(*ast.AssignStmt)
				if !ok || !within(l.Body, q.Node()) {
					return false
				}
				for i, lh := range as.Lhs {
					if i < len(as.Rhs) {
						if o, args := appendTarget(info, lh, as.Rhs[i]); o != nil {
							for _, a := range args {
								if isElemX(a) {
									return true
								}
							}
						}
					}
				}
				return false
			}
			_, reach := r.F.Reach(Query{From: r.F.LoopBodyStart(l), Inclusive: true, Target: isListing, Avoid: r.F.IterEnd(l), AvoidEdge: notSeenWorld})
			hasListing := false
			for _, q := range r.F.Points() {
				if q.Node() != nil && isListing(q) {
					hasListing = true
				}
			}
			if hasListing {
				c.Hold("R3", fi.Name()+":"+kind+":listed-when-new", pos, reach, "a field of "+kind+" that was not met before is not listed (the duplicate test is inverted): h= names no field of the message – the signature protects nothing and verifiers reject it")
			}
		}
		c.Hold("R3", fi.Name()+":"+kind+":duplicate-filter", pos, okSeen, "the duplicate filter tests "+strings.Join(tests, ",")+" but records "+strings.Join(stores, ",")+": a field configured twice in different case is listed twice and go-msgauth refuses to sign")
	}
	c.Hold("R3", fi.Name()+":both-lists", pos, seenLoop[over.field] && seenLoop[plain.field], "the list of signed fields is not built from both oversign_fields and sign_fields")
	// returns the accumulator
	okRet, nRet := resObj != nil, 0
	inspectNoLit(fi.Decl.Body, func(x ast.Node) bool {
		if ret, ok := x.(*ast.ReturnStmt); ok && fi != rb.FI {
			nRet++
			if len(ret.Results) != 1 || !isAcc(objOf(info, ret.Results[0])) {
				okRet = false
			}
		}
		return true
	})
	if fi != rb.FI {
		c.Hold("R3", fi.Name()+":returns-list", pos, okRet && nRet > 0, "what is returned is not the list that was built")
	}
}

// ---------------------------------------------------------------------------------------------------------------------
// R4: keys

func c08Keys(c *Check) {
	c.Rule("R4", "modify.dkim keys: the generated private key is the one that is marshalled into the key file, whose public half is written to the .dns record and that is returned to sign with; the PEM type written is one the loader reads with the matching parser; every algorithm the newkey_algo directive admits has a generator, and the k= tag is the one DKIM defines for it", 8)
	g := c.need("R4", dkimModRel, "Modifier", "generateAndWrite")
	ld := c.need("R4", dkimModRel, "Modifier", "loadOrGenerateKey")
	wr := c.need("R4", dkimModRel, "", "writeDNSRecord")
	ini := c.In(dkimModRel, "Modifier", "Init")
	if g == nil || ld == nil || wr == nil || ini == nil {
		return
	}
	info := g.Info
	pos := g.FI.Decl.Pos()
	// the key variable: assigned from the generators
	gens := map[string]string{} // case label -> generator text
	var keyObj types.Object
	okKeyVar := true
	var sw *ast.SwitchStmt
	ast.Inspect(g.FI.Decl.Body, func(n ast.Node) bool {
		s, ok := n.(*ast.SwitchStmt)
		if !ok || s.Tag == nil {
			return true
		}
		if o := objOf(info, s.Tag); o == nil || !isParamOrResult(g.FI, asVar(o)) {
			return true
		}
		sw = s
		return false
	})
	if sw == nil {
		c.Fail("R4", "generateAndWrite:switch", pos, "undecided: no switch over the algorithm parameter")
		return
	}
	nameByLabel := map[string]string{}
	dkimNameObj := types.Object(nil)
	for _, cs := range sw.Body.List {
		cc := cs.(*ast.CaseClause)
		for _, lab := range cc.List {
			label, ok := c08ConstStr(info, lab)
			if !ok {
				continue
			}
			for _, st := range cc.Body {
				as, isA := st.(*ast.AssignStmt)
				if !isA {
					continue
				}
				if len(as.Rhs) == 1 {
					if call, isC := ast.Unparen(as.Rhs[0]).(*ast.CallExpr); isC {
						fn := callee(info, call)
						if fn != nil && fn.Name() == "GenerateKey" {
							txt := qname(fn)
							if isCall(info, call, "crypto/rsa.GenerateKey") && len(call.Args) == 2 {
								if tv, ok := info.Types[call.Args[1]]; ok && tv.Value != nil {
									txt += ":" + tv.Value.ExactString()
								}
							}
							gens[label] = txt
							// which lhs takes the private key: the one of Signer-ish type
							for _, l := range as.Lhs {
								o := objOf(info, l)
								if o == nil || isErrorType(o.Type()) {
									continue
								}
								if id, isId := l.(*ast.Ident); isId && id.Name == "_" {
									continue
								}
								if keyObj == nil {
									keyObj = o
								}
								if o != keyObj {
									okKeyVar = false
								}
							}
							// ed25519.GenerateKey returns (public, private, error): the private key is the second result
							if isCall(info, call, "crypto/ed25519.GenerateKey") {
								if len(as.Lhs) != 3 || objOf(info, as.Lhs[1]) != keyObj || keyObj == nil {
									okKeyVar = false
								}
							}
							continue
						}
					}
					if s, ok := c08ConstStr(info, as.Rhs[0]); ok && len(as.Lhs) == 1 {
						nameByLabel[label] = s
						dkimNameObj = objOf(info, as.Lhs[0])
					}
				}
			}
		}
	}
	c.Hold("R4", "generateAndWrite:key-variable", pos, keyObj != nil && okKeyVar, "the generators do not all store the private key into one variable (for ed25519 the second result is the private key)")
	if keyObj == nil {
		return
	}
	// every admitted algorithm has a generator of the right kind and size
	if d := c08Directives(ini)["newkey_algo"]; d == nil || len(d.allowed) == 0 {
		c.Fail("R4", "Init:newkey_algo", ini.FI.Decl.Pos(), "anchor unresolved: directive newkey_algo")
	} else {
		for _, e := range append(append([]ast.Expr{}, d.allowed...), d.def) {
			s, _ := c08ConstStr(ini.Info, e)
			gen := gens[s]
			want := ""
			switch {
			case strings.HasPrefix(s, "rsa"):
				want = "crypto/rsa.GenerateKey:" + strings.TrimPrefix(s, "rsa")
			case s == "ed25519":
				want = "crypto/ed25519.GenerateKey"
			}
			okGen := gen != "" && (want == "" || gen == want)
			if !okGen && strings.HasPrefix(s, "rsa") && gen == "crypto/rsa.GenerateKey" {
				okGen = true // the size is a variable (cases merged): kind judged, size not
			}
			c.HoldConst("R4", "generateAndWrite:algo:"+s, pos, okGen, "algorithm "+s+" admitted by newkey_algo is generated by "+gen+" (want "+want+")")
			// k= tag: default = the label itself unless overridden
			tag := s
			if n, ok := nameByLabel[s]; ok {
				tag = n
			}
			wantTag := s
			if strings.HasPrefix(s, "rsa") {
				wantTag = "rsa"
			}
			c.HoldConst("R4", "generateAndWrite:k-tag:"+s, pos, tag == wantTag, "the published record of a "+s+" key carries k="+tag+" (RFC 6376 / RFC 8463 define k="+wantTag+"): verifiers ignore the key")
		}
	}
	// the key that is marshalled / published / returned
	var marshalled, published, returned []ast.Expr
	var dnsNameArg []ast.Expr
	ast.Inspect(g.FI.Decl.Body, func(n ast.Node) bool {
		switch x := n.(type) {
		case *ast.CallExpr:
			if isCall(info, x, "crypto/x509.MarshalPKCS8PrivateKey", "crypto/x509.MarshalPKCS1PrivateKey", "crypto/x509.MarshalECPrivateKey") && len(x.Args) == 1 {
				marshalled = append(marshalled, x.Args[0])
			}
			if fn := callee(info, x); fn != nil && fn == wr.FI.Obj {
				for i, a := range x.Args {
					if t := info.TypeOf(a); t != nil && typeIs(t, "crypto", "Signer") || objOf(info, a) == keyObj {
						published = append(published, a)
					} else if i == 1 {
						dnsNameArg = append(dnsNameArg, a)
					}
				}
			}
		case *ast.ReturnStmt:
			if len(x.Results) == 2 && !isNilIdent(info, x.Results[0]) {
				returned = append(returned, x.Results[0])
			}
		case *ast.FuncLit:
			return false
		}
		return true
	})
	same := func(es []ast.Expr) bool {
		if len(es) == 0 {
			return false
		}
		for _, e := range es {
			if objOf(info, e) != keyObj {
				return false
			}
		}
		return true
	}
	c.Hold("R4", "generateAndWrite:marshalled", pos, same(marshalled), "the key written to the key file is not the generated key")
	c.Hold("R4", "generateAndWrite:published", pos, same(published), "the key whose public half is written to the .dns file is not the generated key")
	c.Hold("R4", "generateAndWrite:returned", pos, same(returned), "the key returned for signing is not the generated key (the first start signs with a key nobody published)")
	okName := len(dnsNameArg) > 0
	for _, a := range dnsNameArg {
		if objOf(info, a) != dkimNameObj || dkimNameObj == nil {
			okName = false
		}
	}
	c.Hold("R4", "generateAndWrite:k-tag-passed", pos, okName, "the algorithm name handed to the record writer is not the DKIM name computed in the switch")
	// PEM type written ↔ parser on load
	{
		pemType := ""
		var blobOK = true
		ast.Inspect(g.FI.Decl.Body, func(n ast.Node) bool {
			cl, ok := n.(*ast.CompositeLit)
			if !ok || !typeIs(info.TypeOf(cl), "encoding/pem", "Block") {
				return true
			}
			for _, e := range cl.Elts {
				kv, ok := e.(*ast.KeyValueExpr)
				if !ok {
					continue
				}
				switch kv.Key.(*ast.Ident).Name {
				case "Type":
					pemType, _ = c08ConstStr(info, kv.Value)
				case "Bytes":
					// the marshalled blob
					o := objOf(info, kv.Value)
					d, n := localDef(info, g.FI.Decl.Body, o)
					if o == nil || n < 1 || d == nil {
						blobOK = false
					} else if dc, isC := ast.Unparen(d).(*ast.CallExpr); !isC || !strings.HasPrefix(qname(callee(info, dc)), "crypto/x509.Marshal") {
						blobOK = false
					}
				}
			}
			return true
		})
		marshalFn := ""
		for _, call := range callsIn(g.FI.Decl.Body) {
			if q := qname(callee(info, call)); strings.HasPrefix(q, "crypto/x509.Marshal") && strings.HasSuffix(q, "PrivateKey") {
				marshalFn = strings.TrimPrefix(q, "crypto/x509.Marshal")
			}
		}
		parseFn := ""
		ast.Inspect(ld.FI.Decl.Body, func(n ast.Node) bool {
			cc, ok := n.(*ast.CaseClause)
			if !ok {
				return true
			}
			for _, lab := range cc.List {
				if s, ok := c08ConstStr(ld.Info, lab); ok && s == pemType && pemType != "" {
					for _, st := range cc.Body {
						for _, call := range callsIn(st) {
							if q := qname(callee(ld.Info, call)); strings.HasPrefix(q, "crypto/x509.Parse") {
								parseFn = strings.TrimPrefix(q, "crypto/x509.Parse")
							}
						}
					}
				}
			}
			return true
		})
		if parseFn == "" && pemType != "" {
			// if-chain form: `if block.Type == "PRIVATE KEY" { key, err = x509.ParsePKCS8PrivateKey(…) }`
			ast.Inspect(ld.FI.Decl.Body, func(n ast.Node) bool {
				ifs, ok := n.(*ast.IfStmt)
				if !ok {
					return true
				}
				hit := false
				ast.Inspect(ifs.Cond, func(y ast.Node) bool {
					if e, ok := y.(ast.Expr); ok {
						if sv, ok := c08ConstStr(ld.Info, e); ok && sv == pemType {
							hit = true
						}
					}
					return true
				})
				if hit {
					for _, call := range callsIn(ifs.Body) {
						if q := qname(callee(ld.Info, call)); strings.HasPrefix(q, "crypto/x509.Parse") {
							parseFn = strings.TrimPrefix(q, "crypto/x509.Parse")
						}
					}
				}
				return true
			})
		}
		c.HoldConst("R4", "key-file:pem-type", pos, pemType != "" && blobOK && marshalFn != "" && parseFn == marshalFn, "the key file is written as PEM type '"+pemType+"' with x509.Marshal"+marshalFn+" but that type is read back with x509.Parse"+parseFn+": the key generated at the first start cannot be loaded at the second")
	}
	// the record: p= is the base64 of the public half of the parameter
	{
		winfo := wr.Info
		var keyP types.Object
		for _, o := range paramObjs(wr.FI) {
			if typeIs(o.Type(), "crypto", "Signer") {
				keyP = o
			}
		}
		pubFrom := false
		ast.Inspect(wr.FI.Decl.Body, func(n ast.Node) bool {
			if call, ok := n.(*ast.CallExpr); ok && methodName(call) == "Public" && recvObj(winfo, call) == keyP && keyP != nil {
				pubFrom = true
			}
			return true
		})
		c.Hold("R4", "writeDNSRecord:public-half", wr.FI.Decl.Pos(), pubFrom, "the published key is not the public half of the key parameter")
		enc := ""
		for _, call := range callsIn(wr.FI.Decl.Body) {
			if methodName(call) == "EncodeToString" {
				enc = exprStr(callRecv(call))
			}
		}
		c.HoldConst("R4", "writeDNSRecord:base64", wr.FI.Decl.Pos(), enc == "base64.StdEncoding", "p= is encoded with "+enc+" (RFC 6376 §3.6.1: base64 with padding, standard alphabet)")
		// the loader returns the key parsed from the file at the path parameter
		linfo := ld.Info
		var pathP types.Object
		sig := ld.FI.Obj.Type().(*types.Signature)
		if sig.Params().Len() > 0 {
			pathP = sig.Params().At(0)
		}
		opened := false
		for _, call := range callsIn(ld.FI.Decl.Body) {
			if isCall(linfo, call, "os.Open", "os.ReadFile") && len(call.Args) == 1 && objOf(linfo, call.Args[0]) == pathP {
				opened = true
			}
		}
		c.Hold("R4", "loadOrGenerateKey:path", ld.FI.Decl.Pos(), opened, "the key is not read from the file named by the path parameter")
	}
}

func asVar(o types.Object) *types.Var {
	v, _ := o.(*types.Var)
	return v
}

// ---------------------------------------------------------------------------------------------------------------------
// R6: the targets hand header and body on

func c08HandOn(c *Check) {
	c.Rule("R6", "every call of smtpconn Data / LMTPData in the server passes the header parameter of the function it stands in and the body parameter (or body.Open() of it) – no target rewrites or re-serialises the signed message on its way out", 3)
	isData := calling("~/internal/smtpconn.C.Data", "~/internal/smtpconn.C.LMTPData")
	n := 0
	c.P.AllFuncs(c.P.ServerPkgs(), func(fi *FuncInfo) {
		if fi.Decl.Body == nil || strings.HasSuffix(c.P.Fset.Position(fi.Decl.Pos()).Filename, "_test.go") {
			return
		}
		if fi.Pkg.PkgPath == modPath+"/internal/smtpconn" {
			return // Data → smtpToLMTPData → LMTPData: parameters handed through, covered by R5 on the leaves
		}
		info := fi.Info()
		hdr, body := c08HdrBody(fi)
		var calls []*ast.CallExpr
		ast.Inspect(fi.Decl.Body, func(x ast.Node) bool {
			if call, ok := x.(*ast.CallExpr); ok && isData(info, call) {
				calls = append(calls, call)
			}
			return true
		})
		if len(calls) == 0 {
			return
		}
		c.SawFunc(fi.Name())
		for i, call := range calls {
			n++
			key := fi.Name() + ":data" + itoa(i+1)
			// header and body may also travel as fields of a parameter (`job bodyJob` grouping the arguments)
			var rootedAtParam func(e ast.Expr, pkg, typ string) bool
			rootedAtParam = func(e ast.Expr, pkg, typ string) bool {
				e = ast.Unparen(e)
				if e == nil {
					return false
				}
				if t := info.TypeOf(e); t == nil || !typeIs(derefAll(t), pkg, typ) {
					return false
				}
				// a field of a local argument group built in this function (`job := bodyJob{header: header, body: b}`,
				// what a helper read in place leaves behind): the value the field was given
				if se, isS := e.(*ast.SelectorExpr); isS {
					if o := objOf(info, se.X); o != nil && localIn(fi.Decl.Body, o) {
						if d, nd := localDef(info, fi.Decl.Body, o); nd == 1 && d != nil {
							dd := ast.Unparen(d)
							if u, isU := dd.(*ast.UnaryExpr); isU {
								dd = ast.Unparen(u.X)
							}
							if cl, isCl := dd.(*ast.CompositeLit); isCl {
								for _, el := range cl.Elts {
									if kv, isKV := el.(*ast.KeyValueExpr); isKV {
										if id, isId := kv.Key.(*ast.Ident); isId && id.Name == se.Sel.Name {
											return rootedAtParam(kv.Value, pkg, typ)
										}
									}
								}
							} else if oo := objOf(info, dd); oo != nil {
								// a copy of a parameter struct
								if v, isVar := oo.(*types.Var); isVar && isParamOrResult(fi, v) {
									return true
								}
							}
						}
					}
				}
				for {
					se, isS := e.(*ast.SelectorExpr)
					if !isS {
						break
					}
					e = ast.Unparen(se.X)
				}
				o := objOf(info, e)
				v, isVar := o.(*types.Var)
				return isVar && isParamOrResult(fi, v)
			}
			if len(call.Args) < 3 || ((hdr == nil || body == nil) && !rootedAtParam(call.Args[1], tpPkgPath, "Header")) {
				c.Hold("R6", key, call.Pos(), false, "the message is sent from a function that has no header / body parameter: what is sent is not what the caller signed")
				continue
			}
			okH := c08IsHdr(info, call.Args[1], hdr) || rootedAtParam(call.Args[1], tpPkgPath, "Header")
			okB := false
			why := ""
			if o := objOf(info, call.Args[2]); o != nil {
				if o == body && body != nil {
					okB = true
				} else if d, nd := localDef(info, fi.Decl.Body, o); nd == 1 && d != nil {
					if dc, isC := ast.Unparen(d).(*ast.CallExpr); isC && methodName(dc) == "Open" && ((body != nil && recvObj(info, dc) == body) || rootedAtParam(callRecv(dc), modPath+"/framework/buffer", "Buffer")) {
						okB = true
					} else {
						why = exprStr(d)
					}
				}
			} else {
				why = exprStr(call.Args[2])
			}
			c.Hold("R6", key+":header", call.Pos(), okH, "the header sent is "+exprStr(call.Args[1])+", not the header parameter")
			c.Hold("R6", key+":body", call.Pos(), okB, "the body sent is "+why+", not the body parameter / body.Open()")
			// the header parameter is not modified in this function before the call
			mut := false
			ast.Inspect(fi.Decl.Body, func(x ast.Node) bool {
				if hdr == nil {
					return false
				}
				if st, ok := x.(ast.Stmt); ok && x.Pos() < call.Pos() {
					if _, isBlock := st.(*ast.BlockStmt); !isBlock {
						switch st.(type) {
						case *ast.AssignStmt, *ast.ExprStmt:
							if mutates(info, st, hdr) {
								mut = true
							}
						}
					}
				}
				return true
			})
			c.Hold("R6", key+":header-unmodified", call.Pos(), !mut, "the header parameter is modified in "+fi.Name()+" before it is sent")
		}
	})
	if n == 0 {
		c.Fail("R6", "sites", token.NoPos, "anchor unresolved: no call of smtpconn Data / LMTPData found")
	}
}

// ---------------------------------------------------------------------------------------------------------------------
// R7: maddy's own verifier

func c08Verifier(c *Check) {
	c.Rule("R7", "check.dkim CheckBody verifies the header parameter followed by the whole body parameter, and a signature counts as pass (and as a good signature) only when its verification reported no error", 3)
	r := c.need("R7", dkimCheckRel, "dkimCheckState", "CheckBody")
	if r == nil {
		return
	}
	info := r.Info
	fn := r.FI.Name()
	pos := r.FI.Decl.Pos()
	hdr, body := c08HdrBody(r.FI)
	isVerify := calling(msgauthDKIM+".VerifyWithOptions", msgauthDKIM+".Verify")
	vPts := r.Calls(isVerify)
	if len(vPts) != 1 || hdr == nil || body == nil {
		c.Fail("R7", fn+":verify", pos, "undecided: expected exactly one call of dkim.Verify / VerifyWithOptions and header / body parameters")
		return
	}
	call := r.CallAt(vPts[0], isVerify)
	// the reader: io.MultiReader(&buf, bodyReader) with buf filled by WriteHeader(&buf, header) and bodyReader = body.Open()
	src := ast.Unparen(call.Args[0])
	if o := objOf(info, src); o != nil {
		if d, n := localDef(info, r.FI.Decl.Body, o); n == 1 && d != nil {
			src = ast.Unparen(d)
		}
	}
	okR := false
	why := "the verifier does not read io.MultiReader(header, body)"
	if mr, ok := src.(*ast.CallExpr); ok && isCall(info, mr, "io.MultiReader") && len(mr.Args) == 2 {
		bufObj := objOf(info, func() ast.Expr {
			e := ast.Unparen(mr.Args[0])
			if u, ok := e.(*ast.UnaryExpr); ok {
				return u.X
			}
			return e
		}())
		okBuf := false
		for _, pt := range r.Calls(c08WriteHeader) {
			wc := r.CallAt(pt, c08WriteHeader)
			a0 := ast.Unparen(wc.Args[0])
			if u, ok := a0.(*ast.UnaryExpr); ok {
				a0 = u.X
			}
			if objOf(info, a0) == bufObj && bufObj != nil && c08IsHdr(info, wc.Args[1], hdr) {
				if ok, _ := r.MustPass(r.Entry(), true, isPt(vPts), func(q Pt) bool { return q == pt }); ok {
					okBuf = true
				}
			}
		}
		okBody := false
		if o := objOf(info, mr.Args[1]); o != nil {
			if d, n := localDef(info, r.FI.Decl.Body, o); n == 1 && d != nil {
				if dc, isC := ast.Unparen(d).(*ast.CallExpr); isC && methodName(dc) == "Open" && recvObj(info, dc) == body {
					okBody = true
				}
			}
		}
		okR = okBuf && okBody
		if !okBuf {
			why = "the first part of what is verified is not the serialisation of the header parameter"
		} else if !okBody {
			why = "the second part of what is verified is not body.Open() of the body parameter"
		}
	}
	c.Hold("R7", fn+":verifies-what-it-was-given", pos, okR, why)
	// pass only without error: in the loop over the verifications, the world `verif.Err != nil`
	loops := elemLoops(info, r.FI.Decl.Body, func(e ast.Expr) bool {
		sl, ok := info.TypeOf(e).Underlying().(*types.Slice)
		if !ok {
			return false
		}
		return typeIs(derefAll(sl.Elem()), msgauthDKIM, "Verification")
	})
	if len(loops) != 1 {
		c.Fail("R7", fn+":loop", pos, "undecided: expected one loop over the verifications")
		return
	}
	l := loops[0]
	var isErrOfElem func(e ast.Expr) bool
	isErrOfElem = func(e ast.Expr) bool {
		e = ast.Unparen(e)
		if se, ok := e.(*ast.SelectorExpr); ok {
			return se.Sel.Name == "Err" && l.IsElem(se.X)
		}
		// `if sigErr := verif.Err; sigErr != nil`
		if o := objOf(info, e); o != nil && localIn(r.FI.Decl.Body, o) {
			if d, n := localDef(info, r.FI.Decl.Body, o); n == 1 && d != nil && d != e {
				return isErrOfElem(d)
			}
		}
		return false
	}
	// edges that contradict "Err != nil"
	errWorld := r.AvoidEdges(func(cond ast.Expr, isCase bool) (int, bool) {
		be, ok := ast.Unparen(cond).(*ast.BinaryExpr)
		if !ok || isCase {
			return 0, false
		}
		var other ast.Expr
		if isErrOfElem(be.X) {
			other = be.Y
		} else if isErrOfElem(be.Y) {
			other = be.X
		}
		if other == nil || !isNilIdent(info, other) {
			return 0, false
		}
		switch be.Op {
		case token.NEQ:
			return 1, true // the else edge is impossible
		case token.EQL:
			return 0, true
		}
		return 0, false
	})
	// (a) a store of `true` into a boolean that is read after the loop (the good-signature flag) is unreachable in that world
	var flagPts []Pt
	for _, pt := range r.F.Points() {
		n := pt.Node()
		if n == nil || !within(l.Body, n) {
			continue
		}
		if as, ok := n.(*ast.AssignStmt); ok && len(as.Lhs) == 1 && len(as.Rhs) == 1 {
			if id, ok := ast.Unparen(as.Rhs[0]).(*ast.Ident); ok && id.Name == "true" {
				if o := objOf(info, as.Lhs[0]); o != nil && !within(l.Body, declNode(r, o)) {
					flagPts = append(flagPts, pt)
				}
			}
		}
		// a counter of good signatures instead of a flag
		if inc, ok := n.(*ast.IncDecStmt); ok && inc.Tok == token.INC {
			if o := objOf(info, inc.X); o != nil && localIn(r.FI.Decl.Body, o) && !within(l.Body, declNode(r, o)) && o != l.Idx {
				flagPts = append(flagPts, pt)
			}
		}
	}
	start := r.F.LoopBodyStart(l)
	okFlag := len(flagPts) > 0
	wit := "no good-signature flag is set in the loop"
	for _, fp := range flagPts {
		if _, f := r.F.Reach(Query{From: start, Inclusive: true, Target: func(q Pt) bool { return q == fp }, Avoid: r.F.IterEnd(l), AvoidEdge: errWorld}); f {
			okFlag, wit = false, "line "+itoa(r.Line(fp))+" is reached for a verification whose Err is non-nil"
		}
	}
	c.Hold("R7", fn+":good-only-without-error", pos, okFlag, "a signature that failed verification is counted as a good signature: "+wit)
	// … and only for the value pass: where the code compares the recorded value with ResultPass, the flag is set on the
	// equal side only (a signature whose required fields are not signed is not a good signature)
	{
		isPassCmp := func(cond ast.Expr) (eq bool, ok bool) {
			be, isB := ast.Unparen(cond).(*ast.BinaryExpr)
			if !isB || (be.Op != token.EQL && be.Op != token.NEQ) {
				return false, false
			}
			if strings.HasSuffix(exprStr(be.X), "ResultPass") || strings.HasSuffix(exprStr(be.Y), "ResultPass") {
				return be.Op == token.EQL, true
			}
			return false, false
		}
		nCmp := 0
		for _, b := range r.F.G.Blocks {
			if cond, isCase := r.F.Cond(b); cond != nil && !isCase {
				if _, ok := isPassCmp(cond); ok {
					nCmp++
				}
			}
		}
		if nCmp > 0 {
			notPass := r.AvoidEdges(func(cond ast.Expr, isCase bool) (int, bool) {
				if isCase {
					return 0, false
				}
				eq, ok := isPassCmp(cond)
				if !ok {
					return 0, false
				}
				if eq {
					return 0, true // val == pass: true edge impossible in the world "value is not pass"
				}
				return 1, true
			})
			okP, witP := true, ""
			for _, fp := range flagPts {
				if _, f := r.F.Reach(Query{From: start, Inclusive: true, Target: func(q Pt) bool { return q == fp }, Avoid: r.F.IterEnd(l), AvoidEdge: orEdge(notPass)}); f {
					// reachable without passing the comparison at all is judged by (a); here: reachable through the wrong side
					if _, viaCmp := r.F.Reach(Query{From: start, Inclusive: true, Target: func(q Pt) bool { return q == fp }, Avoid: func(q Pt) bool {
						if r.F.IterEnd(l)(q) {
							return true
						}
						if e, isE := q.Node().(ast.Expr); isE {
							if _, ok := isPassCmp(e); ok {
								return true
							}
						}
						return false
					}}); !viaCmp {
						okP, witP = false, "line "+itoa(r.Line(fp))
					}
				}
			}
			c.Hold("R7", fn+":good-only-for-pass", pos, okP, "the good-signature flag is set on the side of the comparison with ResultPass on which the value is NOT pass ("+witP+"): a signature that does not cover the required fields counts as good")
		}
	}
	// (b) the result value recorded in that world is never `pass`
	okVal := true
	wv := ""
	nLit := 0
	for _, pt := range r.F.Points() {
		n := pt.Node()
		if n == nil || !within(l.Body, n) {
			continue
		}
		ast.Inspect(n, func(x ast.Node) bool {
			cl, ok := x.(*ast.CompositeLit)
			if !ok || !typeIs(info.TypeOf(cl), "github.com/emersion/go-msgauth/authres", "DKIMResult") {
				return true
			}
			for _, e := range cl.Elts {
				kv, ok := e.(*ast.KeyValueExpr)
				if !ok || kv.Key.(*ast.Ident).Name != "Value" {
					continue
				}
				if _, f := r.F.Reach(Query{From: start, Inclusive: true, Target: func(q Pt) bool { return q == pt }, Avoid: r.F.IterEnd(l), AvoidEdge: errWorld}); !f {
					continue // not recorded in the failure world
				}
				nLit++
				vals := []ast.Expr{kv.Value}
				if o := objOf(info, kv.Value); o != nil && localIn(r.FI.Decl.Body, o) {
					ds, ok := r.ReachingDefs(o, pt, errWorld)
					if !ok {
						okVal, wv = false, "the value recorded at line "+itoa(r.Line(pt))+" has a definition that cannot be read"
					}
					vals = ds
				}
				for _, v := range vals {
					if strings.HasSuffix(exprStr(v), "ResultPass") || strings.Contains(exprStr(v), "ResultPass)") {
						okVal, wv = false, "at line "+itoa(r.Line(pt))+" the value "+exprStr(v)+" is recorded for a verification whose Err is non-nil"
					}
				}
			}
			return true
		})
	}
	c.Hold("R7", fn+":no-pass-with-error", pos, okVal && nLit > 0, "dkim=pass can be reported for a signature that did not verify: "+wv)
}

// declNode: the node that declares a local object (for "declared inside the loop?" questions); nil if not found.
func declNode(r *RuleCtx, o types.Object) ast.Node {
	var out ast.Node
	ast.Inspect(r.FI.Decl.Body, func(n ast.Node) bool {
		if id, ok := n.(*ast.Ident); ok && r.Info.Defs[id] == o {
			out = id
		}
		return true
	})
	return out
}

var _ = sort.Strings
