package main

import (
	"bufio"
	"bytes"
	"encoding/json"
	"fmt"
	"go/ast"
	"go/constant"
	"go/token"
	"go/types"
	"os"
	"os/exec"
	"path/filepath"
	"regexp"
	"regexp/syntax"
	"sort"
	"strconv"
	"strings"
)

// E-crash, bounds part. The Go compiler's own bounds-check-elimination log is the oracle for WHICH index / slice
// operations still carry a run-time check; each of them must be discharged here by a dominating guard.

type bceSite struct {
	File      string
	Line, Col int
	Kind      string // IsInBounds | IsSliceInBounds
}

// bceLog runs `go build -gcflags=-d=ssa/check_bce/debug=1` for the packages (compile only, nothing is executed).
func bceLog(repo string, pkgs []string, overlay map[string][]byte) ([]bceSite, error) {
	args := []string{"build", "-gcflags=-d=ssa/check_bce/debug=1"}
	if len(overlay) > 0 {
		// compile the same (in-memory) variant the analysis sees
		tmp, err := os.MkdirTemp("", "maddyverif-bce-")
		if err != nil {
			return nil, err
		}
		defer os.RemoveAll(tmp)
		repl := map[string]string{}
		i := 0
		for path, data := range overlay {
			i++
			f := filepath.Join(tmp, fmt.Sprintf("f%d.go", i))
			if err := os.WriteFile(f, data, 0o644); err != nil {
				return nil, err
			}
			repl[path] = f
		}
		js, _ := json.Marshal(map[string]interface{}{"Replace": repl})
		ov := filepath.Join(tmp, "overlay.json")
		if err := os.WriteFile(ov, js, 0o644); err != nil {
			return nil, err
		}
		args = append(args, "-overlay="+ov)
	}
	args = append(args, pkgs...)
	cmd := exec.Command("go", args...)
	cmd.Dir = repo
	cmd.Env = append(os.Environ(), "GOFLAGS=-mod=mod", "GOPROXY=off", "GOSUMDB=off", "GOWORK=off", "GOTOOLCHAIN=local")
	var out bytes.Buffer
	cmd.Stdout = &out
	cmd.Stderr = &out
	err := cmd.Run()
	var sites []bceSite
	re := regexp.MustCompile(`^(.+\.go):(\d+):(\d+): Found (IsInBounds|IsSliceInBounds)`)
	sc := bufio.NewScanner(&out)
	seen := map[string]bool{}
	var other []string
	for sc.Scan() {
		line := sc.Text()
		if m := re.FindStringSubmatch(line); m != nil {
			l, _ := strconv.Atoi(m[2])
			cn, _ := strconv.Atoi(m[3])
			f := m[1]
			if !filepath.IsAbs(f) {
				f = filepath.Join(repo, f)
			}
			k := fmt.Sprint(f, l, cn, m[4])
			if !seen[k] {
				seen[k] = true
				sites = append(sites, bceSite{f, l, cn, m[4]})
			}
		} else if !strings.HasPrefix(line, "#") && strings.TrimSpace(line) != "" {
			other = append(other, line)
		}
	}
	if err != nil {
		return nil, fmt.Errorf("go build failed: %v: %s", err, strings.Join(other, "; "))
	}
	sort.Slice(sites, func(i, j int) bool {
		if sites[i].File != sites[j].File {
			return sites[i].File < sites[j].File
		}
		if sites[i].Line != sites[j].Line {
			return sites[i].Line < sites[j].Line
		}
		return sites[i].Col < sites[j].Col
	})
	return sites, nil
}

// ---------------------------------------------------------------------------
// linear facts:  t1 - t2 <= k   (terms are canonical expression texts; "" is the constant 0)

type linFact struct {
	t1, t2 string
	k      int64
}

type linExpr struct {
	term string
	off  int64
	ok   bool
}

type boundsCtx struct {
	c     *Check
	r     *RuleCtx
	info  *types.Info
	depth int
}

// lin normalises an integer expression to term+offset, expanding single-definition locals.
func (bc *boundsCtx) lin(e ast.Expr, depth int) linExpr {
	e = ast.Unparen(e)
	if tv, ok := bc.info.Types[e]; ok && tv.Value != nil && tv.Value.Kind() == constant.Int {
		if v, ok := constant.Int64Val(tv.Value); ok {
			return linExpr{"", v, true}
		}
	}
	switch x := e.(type) {
	case *ast.BinaryExpr:
		if x.Op == token.ADD || x.Op == token.SUB {
			a, b := bc.lin(x.X, depth), bc.lin(x.Y, depth)
			if a.ok && b.ok && b.term == "" {
				if x.Op == token.ADD {
					return linExpr{a.term, a.off + b.off, true}
				}
				return linExpr{a.term, a.off - b.off, true}
			}
			if a.ok && b.ok && a.term == "" && x.Op == token.ADD {
				return linExpr{b.term, a.off + b.off, true}
			}
		}
	case *ast.Ident:
		if depth < 4 {
			if o, ok := bc.info.Uses[x].(*types.Var); ok && !o.IsField() {
				def, n := localDef(bc.info, bc.r.FI.Decl.Body, o)
				if n == 1 && def != nil {
					if le := bc.lin(def, depth+1); le.ok && (le.term != "" || true) {
						// only substitute definitions that are linear in len(...) or constants
						if strings.HasPrefix(le.term, "len(") || le.term == "" {
							return le
						}
					}
				}
			}
		}
	case *ast.CallExpr:
		// int(x) conversions
		if tv, ok := bc.info.Types[x.Fun]; ok && tv.IsType() && len(x.Args) == 1 {
			return bc.lin(x.Args[0], depth)
		}
	}
	return linExpr{exprStr(e), 0, true}
}

// factsOfAtom: linear facts implied by atom having the given truth value.
func (bc *boundsCtx) factsOfAtom(atom ast.Expr, truth bool) []linFact {
	atom = ast.Unparen(atom)
	var out []linFact
	switch x := atom.(type) {
	case *ast.BinaryExpr:
		op := x.Op
		if !truth {
			switch op {
			case token.LSS:
				op = token.GEQ
			case token.LEQ:
				op = token.GTR
			case token.GTR:
				op = token.LEQ
			case token.GEQ:
				op = token.LSS
			case token.EQL:
				op = token.NEQ
			case token.NEQ:
				op = token.EQL
			default:
				return nil
			}
		}
		// string equality with a constant: length known
		if op == token.EQL {
			for _, pr := range [][2]ast.Expr{{x.X, x.Y}, {x.Y, x.X}} {
				if s, ok := constString(bc.info, pr[1]); ok {
					if tv, ok := bc.info.Types[pr[0]]; ok && isStringType(tv.Type) {
						t := "len(" + exprStr(pr[0]) + ")"
						out = append(out, linFact{"", t, -int64(len(s))}, linFact{t, "", int64(len(s))})
					}
				}
			}
		}
		a, b := bc.lin(x.X, 0), bc.lin(x.Y, 0)
		if !a.ok || !b.ok {
			return out
		}
		if tv, ok := bc.info.Types[x.X]; !ok || tv.Type == nil {
			return out
		} else if bt, ok := tv.Type.Underlying().(*types.Basic); !ok || bt.Info()&types.IsInteger == 0 {
			return out
		}
		// a.term + a.off  OP  b.term + b.off
		switch op {
		case token.LSS: // a - b <= b.off - a.off - 1
			out = append(out, linFact{a.term, b.term, b.off - a.off - 1})
		case token.LEQ:
			out = append(out, linFact{a.term, b.term, b.off - a.off})
		case token.GTR:
			out = append(out, linFact{b.term, a.term, a.off - b.off - 1})
		case token.GEQ:
			out = append(out, linFact{b.term, a.term, a.off - b.off})
		case token.EQL:
			out = append(out, linFact{a.term, b.term, b.off - a.off}, linFact{b.term, a.term, a.off - b.off})
		case token.NEQ:
			// len(x) != 0  ⇒ len(x) >= 1 (lengths are non-negative)
			if strings.HasPrefix(a.term, "len(") && b.term == "" && b.off-a.off == 0 {
				out = append(out, linFact{"", a.term, -1})
			}
		}
	case *ast.CallExpr:
		// a one-line predicate of the same package on the same receiver name (`func (d *D) hasToken() bool { return
		// d.cursor >= 0 && d.cursor < len(d.tokens) }`): the facts of its expression
		if re := singleReturnExpr(bc.c.P, bc.info, x); re != nil && len(x.Args) == 0 {
			if d := bc.c.P.DeclOf(callee(bc.info, x)); d != nil && d.Decl.Recv != nil && len(d.Decl.Recv.List) == 1 && len(d.Decl.Recv.List[0].Names) == 1 && callRecv(x) != nil &&
				d.Decl.Recv.List[0].Names[0].Name == exprStr(callRecv(x)) && d.Obj != bc.r.FI.Obj {
				succ := 0
				if !truth {
					succ = 1
				}
				for _, af := range atomsOnEdge(re, succ) {
					if _, isCall := ast.Unparen(af.E).(*ast.CallExpr); isCall {
						continue // no nesting
					}
					out = append(out, bc.factsOfAtom(af.E, af.T)...)
				}
			}
		}
		if truth && isCall(bc.info, x, "strings.HasPrefix", "strings.HasSuffix") && len(x.Args) == 2 {
			if s, ok := constString(bc.info, x.Args[1]); ok {
				out = append(out, linFact{"", "len(" + exprStr(x.Args[0]) + ")", -int64(len(s))})
			}
		}
	}
	return out
}

// prefixSuffixLen: if both HasPrefix(s,P) and HasSuffix(s,Q) dominate and P,Q cannot overlap, len(s) >= |P|+|Q|.
func nonOverlapping(p, q string) bool {
	for k := 1; k <= len(p) && k <= len(q); k++ {
		if p[len(p)-k:] == q[:k] {
			return false
		}
	}
	return true
}

// dominatingFacts collects the linear facts that hold at point use (established on every path and not invalidated
// by a later assignment that can reach the use without the fact being re-established).
func (bc *boundsCtx) dominatingFacts(use Pt) []linFact {
	r := bc.r
	type cand struct {
		f    linFact
		pred func(atom ast.Expr) (bool, bool)
	}
	var cands []linFact
	seen := map[linFact]bool{}
	prefix := map[string][]string{} // s -> constant prefixes established
	suffix := map[string][]string{}
	for _, b := range r.F.G.Blocks {
		cond, isCase := r.F.Cond(b)
		if cond == nil || isCase || !b.Live {
			continue
		}
		for si := 0; si < 2; si++ {
			for _, af := range atomsOnEdge(cond, si) {
				for _, f := range bc.factsOfAtom(af.E, af.T) {
					if !seen[f] {
						seen[f] = true
						cands = append(cands, f)
					}
				}
			}
		}
	}
	var out []linFact
	holds := func(test func(atom ast.Expr, truth bool) bool) bool {
		avoid := func(b *cfgBlock, i int) bool {
			cond, isCase := r.F.Cond(b)
			if cond == nil || isCase {
				return false
			}
			for _, af := range atomsOnEdge(cond, i) {
				if test(af.E, af.T) {
					return true
				}
			}
			return false
		}
		_, f := r.F.Reach(Query{From: r.Entry(), Inclusive: true, Target: isPt([]Pt{use}), AvoidEdge: avoid, NoCorr: true})
		return !f
	}
	for _, f := range cands {
		f := f
		if holds(func(atom ast.Expr, truth bool) bool {
			for _, g := range bc.factsOfAtom(atom, truth) {
				if g.t1 == f.t1 && g.t2 == f.t2 && g.k <= f.k {
					return true
				}
			}
			return false
		}) && bc.notKilled(f, use) {
			out = append(out, f)
		}
	}
	// prefix / suffix pairs
	for _, b := range r.F.G.Blocks {
		cond, isCase := r.F.Cond(b)
		if cond == nil || isCase {
			continue
		}
		for si := 0; si < 2; si++ {
			for _, af := range atomsOnEdge(cond, si) {
				call, ok := ast.Unparen(af.E).(*ast.CallExpr)
				if !ok || !af.T || len(call.Args) != 2 {
					continue
				}
				s, okc := constString(bc.info, call.Args[1])
				if !okc {
					continue
				}
				tgt := exprStr(call.Args[0])
				isP := isCall(bc.info, call, "strings.HasPrefix")
				isS := isCall(bc.info, call, "strings.HasSuffix")
				if !isP && !isS {
					continue
				}
				if holds(func(atom ast.Expr, truth bool) bool {
					c2, ok := ast.Unparen(atom).(*ast.CallExpr)
					if !ok || !truth || len(c2.Args) != 2 {
						return false
					}
					s2, ok2 := constString(bc.info, c2.Args[1])
					return ok2 && s2 == s && exprStr(c2.Args[0]) == tgt && ((isP && isCall(bc.info, c2, "strings.HasPrefix")) || (isS && isCall(bc.info, c2, "strings.HasSuffix")))
				}) {
					if isP {
						prefix[tgt] = append(prefix[tgt], s)
					} else {
						suffix[tgt] = append(suffix[tgt], s)
					}
				}
			}
		}
	}
	for tgt, ps := range prefix {
		for _, p := range ps {
			for _, q := range suffix[tgt] {
				if nonOverlapping(p, q) {
					out = append(out, linFact{"", "len(" + tgt + ")", -int64(len(p) + len(q))})
				}
			}
		}
	}
	return out
}

// notKilled: no assignment to a variable mentioned by the fact can reach the use without passing an edge that
// re-establishes it.
func (bc *boundsCtx) notKilled(f linFact, use Pt) bool {
	r := bc.r
	mentionsTerm := func(n ast.Node, term string) bool {
		if term == "" {
			return false
		}
		base := strings.TrimSuffix(strings.TrimPrefix(term, "len("), ")")
		killed := false
		inspectNoLit(n, func(x ast.Node) bool {
			switch s := x.(type) {
			case *ast.AssignStmt:
				for _, l := range s.Lhs {
					ls := exprStr(l)
					if ls == base || ls == term || strings.HasPrefix(base, ls+".") || strings.HasPrefix(base, ls+"[") {
						killed = true
					}
				}
			case *ast.IncDecStmt:
				ls := exprStr(s.X)
				if ls == base || ls == term {
					killed = true
				}
			}
			return true
		})
		return killed
	}
	kills := r.F.Find(func(n ast.Node) bool { return mentionsTerm(n, f.t1) || mentionsTerm(n, f.t2) })
	if len(kills) == 0 {
		return true
	}
	avoid := func(b *cfgBlock, i int) bool {
		cond, isCase := r.F.Cond(b)
		if cond == nil || isCase {
			return false
		}
		for _, af := range atomsOnEdge(cond, i) {
			for _, g := range bc.factsOfAtom(af.E, af.T) {
				if g.t1 == f.t1 && g.t2 == f.t2 && g.k <= f.k {
					return true
				}
			}
		}
		return false
	}
	for _, k := range kills {
		if k == use {
			continue
		}
		if _, found := r.F.Reach(Query{From: []Pt{k}, Target: isPt([]Pt{use}), AvoidEdge: avoid, NoCorr: true}); found {
			return false
		}
	}
	return true
}

func proves(facts []linFact, t1, t2 string, k int64) bool {
	if t1 == t2 {
		return 0 <= k
	}
	for _, f := range facts {
		if f.t1 == t1 && f.t2 == t2 && f.k <= k {
			return true
		}
	}
	// lengths are non-negative:  0 - len(x) <= 0
	if t1 == "" && strings.HasPrefix(t2, "len(") && k >= 0 {
		return true
	}
	// transitivity through one intermediate fact:  t1 - m <= a, m - t2 <= b  ⇒  t1 - t2 <= a+b
	for _, f := range facts {
		if f.t1 != t1 {
			continue
		}
		for _, g := range facts {
			if g.t1 == f.t2 && g.t2 == t2 && f.k+g.k <= k {
				return true
			}
		}
		if f.t2 != "" && t2 == "" {
			continue
		}
	}
	return false
}

// intrinsicLen: facts about the length of the indexed value that come from how it was produced.
func (bc *boundsCtx) intrinsicLen(x ast.Expr, use Pt, facts []linFact) (min int64, why string) {
	info := bc.info
	x = ast.Unparen(x)
	// []rune(s) with len(s) >= 1
	if call, ok := x.(*ast.CallExpr); ok && len(call.Args) == 1 {
		if tv, ok := info.Types[call.Fun]; ok && tv.IsType() {
			if sl, ok := tv.Type.Underlying().(*types.Slice); ok {
				if b, ok := sl.Elem().Underlying().(*types.Basic); ok && (b.Kind() == types.Int32 || b.Kind() == types.Uint8) {
					if at, ok := info.Types[call.Args[0]]; ok && isStringType(at.Type) {
						if proves(facts, "", "len("+exprStr(call.Args[0])+")", -1) {
							return 1, "conversion of a non-empty string"
						}
					}
				}
			}
		}
	}
	// a local defined once by such a conversion (`runes := []rune(s)`), the string not reassigned since
	if id, ok := x.(*ast.Ident); ok {
		if o, ok := info.Uses[id].(*types.Var); ok && !o.IsField() {
			if def, n := localDef(info, bc.r.FI.Decl.Body, o); n == 1 && def != nil {
				if call, ok := ast.Unparen(def).(*ast.CallExpr); ok && len(call.Args) == 1 {
					if tv, ok := info.Types[call.Fun]; ok && tv.IsType() {
						stable := true
						if so, ok := objOf(info, call.Args[0]).(*types.Var); ok && assignedBetween(info, bc.r.FI.Decl.Body, so, def.End(), id.Pos()) {
							stable = false
						}
						if stable {
							if min, why := bc.intrinsicLen(call, use, facts); min > 0 {
								return min, why
							}
						}
					}
				}
			}
		}
	}
	// any element M[i] of a FindAllStringSubmatch result: len = groups+1
	if ix, ok := x.(*ast.IndexExpr); ok {
		src := ast.Unparen(ix.X)
		if so := objOf(info, src); so != nil {
			if def, n := localDef(info, bc.r.FI.Decl.Body, so); n == 1 && def != nil {
				src = ast.Unparen(def)
			}
		}
		if call, ok := src.(*ast.CallExpr); ok && isCall(info, call, "regexp.Regexp.FindAllStringSubmatch", "regexp.Regexp.FindAllSubmatch") {
			if n, ok := bc.regexpGroups(callRecv(call)); ok {
				return int64(n + 1), "sub-matches of a constant regexp with " + itoa(n) + " group(s)"
			}
		}
	}
	if o := objOf(info, x); o != nil {
		// value variable of a range over FindAllStringSubmatch: len = groups+1
		for _, rs := range rangesIn(bc.r.FI.Decl.Body, func(rs *ast.RangeStmt) bool { return rs.Value != nil && objOf(info, rs.Value) == o }) {
			src := rs.X
			if so := objOf(info, src); so != nil {
				if def, n := localDef(info, bc.r.FI.Decl.Body, so); n == 1 && def != nil {
					src = def
				}
			}
			if call, ok := ast.Unparen(src).(*ast.CallExpr); ok && isCall(info, call, "regexp.Regexp.FindAllStringSubmatch", "regexp.Regexp.FindAllSubmatch") {
				if n, ok := bc.regexpGroups(callRecv(call)); ok {
					return int64(n + 1), "sub-matches of a constant regexp with " + itoa(n) + " group(s)"
				}
			}
		}
		// single definition
		if def, n := localDef(info, bc.r.FI.Decl.Body, o); n == 1 && def != nil {
			if call, ok := ast.Unparen(def).(*ast.CallExpr); ok {
				if isCall(info, call, "strings.SplitN") && len(call.Args) == 3 {
					if tv, ok := info.Types[call.Args[2]]; ok && tv.Value != nil {
						if v, ok := constant.Int64Val(tv.Value); ok && v != 0 {
							if s, ok := constString(info, call.Args[1]); ok && s != "" {
								return 1, "strings.SplitN with a non-empty separator returns at least one element"
							}
						}
					}
				}
				if isCall(info, call, "strings.Split") && len(call.Args) == 2 {
					if s, ok := constString(info, call.Args[1]); ok && s != "" {
						return 1, "strings.Split with a non-empty separator returns at least one element"
					}
				}
			}
		}
	}
	return 0, ""
}

func (bc *boundsCtx) regexpGroups(e ast.Expr) (int, bool) {
	o := objOf(bc.info, e)
	v, ok := o.(*types.Var)
	if !ok || v.Pkg() == nil {
		return 0, false
	}
	init := bc.c.P.globalInit(v)
	call, ok := ast.Unparen(init).(*ast.CallExpr)
	if !ok || len(call.Args) != 1 {
		return 0, false
	}
	pk := bc.c.P.ByPath[v.Pkg().Path()]
	if pk == nil || !isCall(pk.TypesInfo, call, "regexp.MustCompile") {
		return 0, false
	}
	s, ok := constString(pk.TypesInfo, call.Args[0])
	if !ok {
		return 0, false
	}
	re, err := syntax.Parse(s, syntax.Perl)
	if err != nil {
		return 0, false
	}
	return re.MaxCap(), true
}

// discharge decides one index / slice expression: locally, or – for an index expression in an unexported function
// whose index is a parameter – as a precondition every call site in the package establishes.
func (bc *boundsCtx) discharge(n ast.Node) (bool, string) {
	ok, why := bc.dischargeLocal(n, nil)
	if ok {
		return true, ""
	}
	if ix, isIx := n.(*ast.IndexExpr); isIx && !bc.r.FI.Obj.Exported() && bc.depth < 1 {
		if ok2 := bc.dischargeAtCallers(ix); ok2 {
			return true, ""
		}
	}
	return ok, why
}

// dischargeAtCallers: `X[p±k]` with p a parameter and X mentioning at most the receiver: proved at every call site
// with the argument substituted for p (receiver names must coincide, so that X reads the same in caller and callee).
func (bc *boundsCtx) dischargeAtCallers(ix *ast.IndexExpr) bool {
	fi := bc.r.FI
	idx := bc.lin(ix.Index, 0)
	if !idx.ok || idx.term == "" || fi.Decl.Type.Params == nil {
		return false
	}
	pidx, pi := -1, 0
	for _, f := range fi.Decl.Type.Params.List {
		for _, nm := range f.Names {
			if nm.Name == idx.term {
				if o, ok := bc.info.Defs[nm].(*types.Var); ok && !assignedBetween(bc.info, fi.Decl.Body, o, fi.Decl.Body.Pos(), ix.Pos()) {
					pidx = pi
				}
			}
			pi++
		}
	}
	if pidx < 0 {
		return false
	}
	recvName := ""
	if fi.Decl.Recv != nil && len(fi.Decl.Recv.List) == 1 && len(fi.Decl.Recv.List[0].Names) == 1 {
		recvName = fi.Decl.Recv.List[0].Names[0].Name
	}
	// X may mention only the receiver
	okX := true
	ast.Inspect(ix.X, func(y ast.Node) bool {
		if id, ok := y.(*ast.Ident); ok {
			if v, ok := bc.info.Uses[id].(*types.Var); ok && !v.IsField() && id.Name != recvName {
				okX = false
			}
		}
		return true
	})
	if !okX {
		return false
	}
	lenT := "len(" + exprStr(ix.X) + ")"
	sites, all := 0, true
	bc.c.P.AllFuncs([]*packagesPkg{fi.Pkg}, func(caller *FuncInfo) {
		if strings.HasSuffix(bc.c.P.Fset.Position(caller.Decl.Pos()).Filename, "_test.go") {
			return
		}
		inf := caller.Info()
		for _, call := range callsIn(caller.Decl.Body) {
			if callee(inf, call) != fi.Obj {
				continue
			}
			sites++
			if recvName != "" && (callRecv(call) == nil || exprStr(callRecv(call)) != recvName) || pidx >= len(call.Args) {
				all = false
				continue
			}
			cr := bc.c.CtxOf(caller)
			cb := &boundsCtx{c: bc.c, r: cr, info: inf, depth: bc.depth + 1}
			use, found := cr.F.PtOf(call.Pos())
			if !found {
				all = false
				continue
			}
			facts := cb.dominatingFacts(use)
			if be := enclosingAnd(caller.Decl.Body, call); be != nil {
				for _, left := range be {
					for _, af := range atomsOnEdge(left, 0) {
						facts = append(facts, cb.factsOfAtom(af.E, af.T)...)
					}
				}
			}
			a := cb.lin(call.Args[pidx], 0)
			if !a.ok {
				all = false
				continue
			}
			off := a.off + idx.off
			lowOK := proves(facts, "", a.term, off) || (a.term == "" && off >= 0)
			upOK := proves(facts, a.term, lenT, -1-off)
			if !lowOK || !upOK {
				all = false
			}
		}
	})
	return sites > 0 && all
}

func (bc *boundsCtx) dischargeLocal(n ast.Node, _ []linFact) (bool, string) {
	r := bc.r
	use, found := r.F.PtOf(n.Pos())
	if !found {
		return false, "undecided: operation not located in the control-flow graph"
	}
	facts := bc.dominatingFacts(use)
	// facts established inside the same condition (short-circuit): `len(a) != 0 && a[len(a)-1] == x`
	if be := enclosingAnd(r.FI.Decl.Body, n); be != nil {
		for _, left := range be {
			for _, af := range atomsOnEdge(left, 0) {
				facts = append(facts, bc.factsOfAtom(af.E, af.T)...)
			}
		}
	}
	// range index variables
	rangeIdx := map[string]string{} // index var name -> "len(X)"
	ast.Inspect(r.FI.Decl.Body, func(x ast.Node) bool {
		if rs, ok := x.(*ast.RangeStmt); ok && rs.Key != nil && within(rs.Body, n) {
			if id, ok := rs.Key.(*ast.Ident); ok {
				// the ranged expression must not be assigned in the loop body
				assigned := false
				xs := exprStr(rs.X)
				ast.Inspect(rs.Body, func(y ast.Node) bool {
					if as, ok := y.(*ast.AssignStmt); ok {
						for _, l := range as.Lhs {
							if exprStr(l) == xs {
								assigned = true
							}
						}
					}
					return true
				})
				if !assigned {
					rangeIdx[id.Name] = "len(" + xs + ")"
				}
			}
		}
		return true
	})
	for v, ln := range rangeIdx {
		facts = append(facts, linFact{"", v, 0}, linFact{v, ln, -1})
	}
	// a local slice defined exactly once as make([]T, n) (and never re-sliced or appended to: that would be a second
	// definition) has length n
	if base := indexedBase(n); base != nil {
		if o, ok := objOf(bc.info, base).(*types.Var); ok && !o.IsField() {
			if def, nd := localDef(bc.info, r.FI.Decl.Body, o); nd == 1 && def != nil {
				if call, ok := ast.Unparen(def).(*ast.CallExpr); ok && len(call.Args) >= 2 {
					if id, ok := call.Fun.(*ast.Ident); ok && id.Name == "make" {
						if _, isB := bc.info.Uses[id].(*types.Builtin); isB {
							if ln := bc.lin(call.Args[1], 0); ln.ok {
								lenT := "len(" + exprStr(base) + ")"
								// the operands of n must not change between the make and the use
								stable := true
								ast.Inspect(call.Args[1], func(y ast.Node) bool {
									if di, ok := y.(*ast.Ident); ok {
										if dv, ok := bc.info.Uses[di].(*types.Var); ok && !dv.IsField() && assignedBetween(bc.info, r.FI.Decl.Body, dv, def.End(), n.Pos()) {
											stable = false
										}
									}
									return true
								})
								if stable {
									facts = append(facts, linFact{lenT, ln.term, ln.off}, linFact{ln.term, lenT, -ln.off})
								}
							}
						}
					}
				}
			}
		}
	}
	switch x := n.(type) {
	case *ast.IndexExpr:
		if _, isMap := bc.info.TypeOf(x.X).Underlying().(*types.Map); isMap {
			return true, ""
		}
		idx := bc.lin(x.Index, 0)
		lenT := "len(" + exprStr(x.X) + ")"
		// lower bound: 0 <= idx
		lowOK := proves(facts, "", idx.term, idx.off) || (idx.term == "" && idx.off >= 0)
		// upper bound: idx <= len-1
		upOK := proves(facts, idx.term, lenT, -1-idx.off)
		if !upOK && idx.term == "" {
			if min, _ := bc.intrinsicLen(x.X, use, facts); min > idx.off {
				upOK = true
			}
			// constant index with a fact len(X) >= idx+1
			if proves(facts, "", lenT, -(idx.off + 1)) {
				upOK = true
			}
		}
		if !upOK && idx.term == lenT {
			// len(X)-k with len(X) >= k
			upOK = idx.off <= -1
			lowOK = proves(facts, "", lenT, idx.off)
		}
		if lowOK && upOK {
			return true, ""
		}
		what := "upper"
		if !lowOK {
			what = "lower"
		}
		return false, "no dominating guard implies the " + what + " bound of " + exprStr(x) + " (a `!= nil` test or a length test of another value does not)"
	case *ast.SliceExpr:
		lenT := "len(" + exprStr(x.X) + ")"
		lo := linExpr{"", 0, true}
		if x.Low != nil {
			lo = bc.lin(x.Low, 0)
		}
		hi := linExpr{lenT, 0, true}
		if x.High != nil {
			hi = bc.lin(x.High, 0)
		}
		// 0 <= lo, lo <= hi, hi <= len
		ok1 := (lo.term == "" && lo.off >= 0) || proves(facts, "", lo.term, lo.off)
		ok3 := (hi.term == lenT && hi.off <= 0) || proves(facts, hi.term, lenT, -hi.off)
		// lo <= hi :  lo.term - hi.term <= hi.off - lo.off
		ok2 := proves(facts, lo.term, hi.term, hi.off-lo.off)
		if lo.term == "" && hi.term == lenT {
			// constant low, len-k high: need len >= lo + k
			ok2 = proves(facts, "", lenT, -(lo.off - hi.off))
		}
		if hi.term == lenT && hi.off < 0 {
			// also need hi >= 0 for the compiler's check: len >= k
			if !proves(facts, "", lenT, hi.off) {
				ok3 = false
			}
		}
		if ok1 && ok2 && ok3 {
			return true, ""
		}
		return false, "no dominating guard implies 0 <= low <= high <= len for " + exprStr(x)
	}
	return false, "undecided: unsupported operation"
}

// enclosingAnd: if n sits in the right operand of one or more `&&`, returns the left operands (they are true when n
// is evaluated).
func enclosingAnd(root ast.Node, n ast.Node) []ast.Expr {
	var out []ast.Expr
	ast.Inspect(root, func(x ast.Node) bool {
		if be, ok := x.(*ast.BinaryExpr); ok && be.Op == token.LAND && posIn(be.Y, n.Pos()) {
			var conj func(e ast.Expr)
			conj = func(e ast.Expr) {
				if b2, ok := ast.Unparen(e).(*ast.BinaryExpr); ok && b2.Op == token.LAND {
					conj(b2.X)
					conj(b2.Y)
					return
				}
				out = append(out, e)
			}
			conj(be.X)
		}
		return true
	})
	return out
}

// indexedBase: the value being indexed / sliced by n.
func indexedBase(n ast.Node) ast.Expr {
	switch x := n.(type) {
	case *ast.IndexExpr:
		return ast.Unparen(x.X)
	case *ast.SliceExpr:
		return ast.Unparen(x.X)
	}
	return nil
}
