package main

import (
	"regexp"
	"strconv"
	"go/ast"
	"go/constant"
	"go/token"
	"go/types"
	"sort"
	"strings"
)

func init() { register("C20", checkC20) }

const (
	cfgparserRel = "framework/cfgparser"
	lexerRel     = "framework/config/lexer"
)

func checkC20(c *Check) {
	p := c.P
	c.explain = "C20 (configuration parsing never crashes and terminates), static part: the Go compiler's bounds-check-elimination log (compile only) lists every index/slice operation of the two parser packages that still carries a run-time check; each is discharged by a dominating guard (linear facts from branch conditions, short-circuit operands, range indices, prefix/suffix pairs, constant regexp group counts, SplitN, non-empty string conversions). " +
		"Explicit panics, single-value type assertions and nil-map writes in the call cone of Read are enumerated; every recursion cycle of the cone is matched with its bound (depth guard on the non-structural edges, structural descent otherwise); every non-range loop is classified with its progress argument; macros/snippets never reach the result and directive names are validated; imports are re-expanded while any was spliced in."
	c.notCover = "the print/parse round trip (no printer in the tree), that the shipped configuration files load (an execution), exponential SIZE of import expansion (only depth is bounded), token-level line accounting."
	c.Assume("the compiler's prove/BCE pass is sound: an index operation not listed in its log cannot fail")

	c20Bounds(c)
	c20Panics(c)
	c20Recursion(c)
	c20Loops(c)
	c20Post(c)
	c20Lines(c)
	c20ImportBudget(c)
	c20EnvCleanup(c)
	c20MacroBudget(c)
	c20MacroStringBudget(c)
	c20LineBreaksAgree(c, "R6c")
	c20EnvLast(c, "R4b")
	c20PushBackMatchesRead(c, "R8")
	_ = p
}

// ---- R3b: the depth guard bounds how DEEP import expansion goes, not how much it produces: a snippet that imports
// itself twice (`(a) { import a; import a }`) doubles the number of import directives on each of the 255 permitted
// passes – a 30-byte input grows the tree until memory runs out. Termination needs a bound on the total number of
// expansions: every expansion of an import directive is counted against a budget that is shared by the whole parse
// (nested files included) and tested before the imported nodes are spliced in.
func c20ImportBudget(c *Check) {
	c.Rule("R3b", "import expansion is bounded in total, not only in depth: before an import directive is resolved a counter reachable from the parse context is changed and compared with a bound, and the same counter is handed to the parser of an imported file", 1)
	r := c.need("R3b", cfgparserRel, "parseContext", "expandImports")
	if r == nil {
		return
	}
	info := r.Info
	resolve := r.Calls(calling("~/" + cfgparserRel + ".parseContext.resolveImport"))
	msg := ""
	if len(resolve) == 0 {
		msg = "undecided: expandImports does not resolve imports"
	} else {
		// a counter: a field of the context (possibly behind a pointer) that is modified (++/--/+=/-=/assignment) at a
		// point every path to resolveImport passes, and compared with something on such a path
		var recv types.Object
		if rl := r.FI.Decl.Recv; rl != nil && len(rl.List) == 1 && len(rl.List[0].Names) == 1 {
			recv = info.Defs[rl.List[0].Names[0]]
		}
		counters := map[*types.Var][]Pt{}
		for _, pt := range r.F.Points() {
			n := pt.Node()
			if n == nil {
				continue
			}
			var targets []ast.Expr
			switch s := n.(type) {
			case *ast.IncDecStmt:
				targets = append(targets, s.X)
			case *ast.AssignStmt:
				if s.Tok != token.DEFINE {
					targets = append(targets, s.Lhs...)
				}
			}
			for _, t := range targets {
				e := ast.Unparen(t)
				if st, ok := e.(*ast.StarExpr); ok {
					e = ast.Unparen(st.X)
				}
				if sel, ok := e.(*ast.SelectorExpr); ok && recv != nil && objOf(info, sel.X) == recv {
					if fv := fieldOf(info, sel); fv != nil {
						counters[fv] = append(counters[fv], pt)
					}
				}
			}
		}
		ok := false
		for fv, pts := range counters {
			if okMP, _ := r.MustPass(r.Entry(), true, isPt(resolve), isPt(pts)); !okMP {
				continue
			}
			// compared on the way as well
			cmp := false
			for _, b := range r.F.G.Blocks {
				cond, isCase := r.F.Cond(b)
				if cond == nil || isCase {
					continue
				}
				ast.Inspect(cond, func(x ast.Node) bool {
					if sel, isSel := x.(*ast.SelectorExpr); isSel && fieldOf(info, sel) == fv {
						cmp = true
					}
					return true
				})
			}
			if cmp {
				ok = true
				// … and it is ONE counter for the whole parse: shared by reference with the parsers of imported files (a
				// pointer, a map, …). A counter copied by value into each imported file bounds every file on its own: a
				// chain of files each importing the next one twice costs 2^n parses
				shared := false
				switch fv.Type().Underlying().(type) {
				case *types.Pointer, *types.Map, *types.Chan, *types.Slice:
					shared = true
				}
				c.Hold("R3b", "expandImports:budget-shared", fv.Pos(), shared, "the import budget ("+fv.Name()+") is a plain "+fv.Type().String()+" in the parse context: resolveImport hands each imported file a COPY of what is left, so what that file (and the files it imports) spends is not charged to the importer – n files that each import the next one twice are parsed 2^n times; the limit of "+"the budget never triggers")
			}
		}
		if !ok {
			msg = "the expansion of an import directive is not counted against any budget of the parse: only the number of passes is limited (255), while a snippet that imports itself twice doubles the directives on every pass – `(a) {\\n import a\\n import a\\n}\\n import a` does not come back (the tree grows until memory is exhausted)"
		}
	}
	c.Hold("R3b", "expandImports:total-budget", r.FI.Decl.Pos(), msg == "", msg)
}

// ---- R6: every consumed line feed is counted (the dispenser's same-line / next-line decisions, hence the shape
// of the parsed tree, depend on token line numbers)
func c20Lines(c *Check) {
	c.Rule("R6", "lexer: on every path that consumes a line feed the line counter is incremented before the next character is read", 1)
	r := c.need("R6", lexerRel, "lexer", "next")
	if r == nil {
		return
	}
	info := r.Info
	var readPt Pt
	var ch, errObj types.Object
	for _, pt := range r.F.Points() {
		if as, ok := pt.Node().(*ast.AssignStmt); ok && len(as.Rhs) == 1 && len(as.Lhs) == 3 {
			if call, ok := ast.Unparen(as.Rhs[0]).(*ast.CallExpr); ok && methodName(call) == "ReadRune" {
				readPt, ch, errObj = pt, objOf(info, as.Lhs[0]), objOf(info, as.Lhs[2])
			}
		}
	}
	if ch == nil || errObj == nil {
		c.Fail("R6", "lexer.next:read", r.FI.Decl.Pos(), "undecided: no ReadRune in the lexer loop")
		return
	}
	inc := func(pt Pt) bool {
		s, ok := pt.Node().(*ast.IncDecStmt)
		if !ok || s.Tok != token.INC {
			return false
		}
		fv := fieldOf(info, s.X)
		return fv != nil && objName(fv) == "line"
	}
	// the world in which the character just read is a line feed
	world := r.F.World(func(atom ast.Expr) (bool, bool) {
		atom = ast.Unparen(atom)
		if be, ok := atom.(*ast.BinaryExpr); ok && (be.Op == token.EQL || be.Op == token.NEQ) && objOf(info, be.X) == ch {
			if tv, ok := info.Types[be.Y]; ok && tv.Value != nil {
				isLF := tv.Value.ExactString() == "10"
				return isLF == (be.Op == token.EQL), true
			}
		}
		if call, ok := atom.(*ast.CallExpr); ok && isCall(info, call, "unicode.IsSpace") && len(call.Args) == 1 && objOf(info, call.Args[0]) == ch {
			return true, true
		}
		if be, ok := atom.(*ast.BinaryExpr); ok && (be.Op == token.EQL || be.Op == token.NEQ) && objOf(info, be.X) == errObj && isNilIdent(info, be.Y) {
			return be.Op == token.EQL, true // the read succeeded
		}
		return false, false
	})
	// the same world for comparisons written as `switch ch { case '\\': … }`
	chWorld := r.F.ValueWorld(func(e ast.Expr) (constant.Value, bool) {
		if id, ok := ast.Unparen(e).(*ast.Ident); ok && objOf(info, id) == ch {
			return constant.MakeInt64(10), true
		}
		return nil, false
	})
	next := func(pt Pt) bool { return pt == readPt || r.F.IsExitPt(pt) }
	path, f := r.F.Reach(Query{From: []Pt{readPt}, Target: next, Avoid: inc, AvoidEdge: orEdge(world, chWorld), NoCorr: true})
	c.Hold("R6", "lexer.next:line-feed-counted", r.FI.Decl.Pos(), !f, "a line feed can be consumed without incrementing the line counter (e.g. after a backslash inside quotes): later tokens carry a line number that is too small and the dispenser joins or splits directives wrongly: "+r.F.Describe(path))
}

// ---- R1
func c20Bounds(c *Check) {
	c.Rule("R1", "every index / slice operation of the parser packages that the compiler could not prove in bounds is discharged by a dominating guard", 1)
	// (the floor is 1: a refactoring may leave the compiler fewer sites to report; an empty log fails in boundsRule)
	boundsRule(c, "R1", []string{cfgparserRel, lexerRel})
}

// boundsRule: see C20.R1; rels are the packages whose remaining bounds checks are to be discharged.
var boundsExceptions = map[string]string{
	"address.Split:sliceinbounds1": "indx is the result of strings.LastIndexByte(addr, '@') and the function has returned for -1: 0 <= indx < len(addr)",
	"address.Split:sliceinbounds2": "as above: indx+1 <= len(addr)",
}

func boundsRule(c *Check, ruleID string, rels []string) {
	p := c.P
	var dirs []string
	for _, rel := range rels {
		dirs = append(dirs, "./"+rel)
	}
	sites, err := bceLog(p.Repo, dirs, p.Overlay)
	if err != nil {
		c.Fail(ruleID, "bce-log", token.NoPos, "undecided: "+err.Error())
		return
	}
	if len(sites) == 0 {
		c.Fail(ruleID, "bce-log", token.NoPos, "undecided: the compiler reported no remaining bounds checks (log not produced?)")
		return
	}
	type fileFunc struct {
		fi *FuncInfo
	}
	for _, rel := range rels {
		pk := p.Pkg(rel)
		if pk == nil {
			c.Fail(ruleID, rel, token.NoPos, "anchor unresolved: package")
			continue
		}
		var funcs []*FuncInfo
		p.AllFuncs([]*packagesPkg{pk}, func(fi *FuncInfo) { funcs = append(funcs, fi) })
		ord := map[string]int{}
		for _, s := range sites {
			// locate the enclosing function
			var fi *FuncInfo
			for _, f := range funcs {
				ps, pe := p.Fset.Position(f.Decl.Pos()), p.Fset.Position(f.Decl.End())
				if ps.Filename == s.File && ps.Line <= s.Line && s.Line <= pe.Line {
					fi = f
				}
			}
			if fi == nil {
				continue
			}
			c.SawFunc(fi.Name())
			c.sites++
			r := &RuleCtx{C: c, FI: fi, F: p.FlowOfFunc(fi), Info: fi.Info()}
			bc := &boundsCtx{c: c, r: r, info: fi.Info()}
			// candidate operations on that line
			var ops []ast.Node
			var calls []*ast.CallExpr
			ast.Inspect(fi.Decl.Body, func(n ast.Node) bool {
				switch x := n.(type) {
				case *ast.IndexExpr:
					if p.Fset.Position(x.Lbrack).Line == s.Line && s.Kind == "IsInBounds" {
						if _, isMap := fi.Info().TypeOf(x.X).Underlying().(*types.Map); !isMap {
							ops = append(ops, x)
						}
					}
				case *ast.SliceExpr:
					if p.Fset.Position(x.Lbrack).Line == s.Line && s.Kind == "IsSliceInBounds" {
						ops = append(ops, x)
					}
				case *ast.CallExpr:
					ps, pe := p.Fset.Position(x.Pos()), p.Fset.Position(x.End())
					if ps.Line == s.Line && ps.Column <= s.Col && s.Col <= pe.Column {
						calls = append(calls, x)
					}
				}
				return true
			})
			// prefer the operation whose bracket is at (or nearest before) the reported column
			sort.Slice(ops, func(i, j int) bool {
				return abs(lbrackCol(p, ops[i])-s.Col) < abs(lbrackCol(p, ops[j])-s.Col)
			})
			name := refName(fi.Obj)
			ord[name]++
			key := fi.Pkg.Types.Name() + "." + name + ":" + strings.ToLower(strings.TrimPrefix(s.Kind, "Is")) + itoa(ord[name])
			if len(ops) == 0 {
				// inlining echo: a call to a same-package function whose own sites are judged separately
				echo := false
				for _, call := range calls {
					if cf := p.DeclOf(callee(fi.Info(), call)); cf != nil && cf.Pkg == fi.Pkg {
						echo = true
					}
					// a standard-library function the compiler inlined here (strings.TrimSuffix): its own bounds
					// checks are the library's, reported at the call's position
					if fn := callee(fi.Info(), call); fn != nil && fn.Pkg() != nil && !strings.Contains(fn.Pkg().Path(), ".") {
						echo = true
					}
				}
				// the call stood here before the helper-extraction pass read the new helper in place
				if p.inlinedAt[s.File+":"+itoa(s.Line)] {
					echo = true
				}
				if echo {
					c.HoldConst(ruleID, key+":inlined-callee", fi.Decl.Pos(), true, "")
				} else {
					c.Fail(ruleID, key, fi.Decl.Pos(), "undecided: no index/slice operation found at "+p.Pos(fi.Decl.Pos())+" line "+itoa(s.Line))
				}
				continue
			}
			// all candidate operations on the line nearest to the column must be discharged (when several share the
			// line, each BCE entry picks its nearest; judging every candidate would double-count)
			op := ops[0]
			if why, isEx := boundsExceptions[key]; isEx {
				c.Except(ruleID + " " + key + ": " + why)
				continue
			}
			ok, msg := bc.discharge(op)
			c.Hold(ruleID, key, op.Pos(), ok, msg)
		}
	}
}

func abs(i int) int {
	if i < 0 {
		return -i
	}
	return i
}

func lbrackCol(p *Prog, n ast.Node) int {
	switch x := n.(type) {
	case *ast.IndexExpr:
		return p.Fset.Position(x.Lbrack).Column
	case *ast.SliceExpr:
		return p.Fset.Position(x.Lbrack).Column
	}
	return 0
}

// cone: maddy functions statically reachable from cfgparser.Read (within the two parser packages).
func c20Cone(c *Check) map[*types.Func]*FuncInfo {
	p := c.P
	cone := map[*types.Func]*FuncInfo{}
	root := p.Func(cfgparserRel, "", "Read")
	if root == nil {
		return cone
	}
	var visit func(fi *FuncInfo)
	visit = func(fi *FuncInfo) {
		if fi == nil || cone[fi.Obj] != nil {
			return
		}
		cone[fi.Obj] = fi
		c.SawFunc(fi.Name())
		ast.Inspect(fi.Decl.Body, func(n ast.Node) bool {
			if call, ok := n.(*ast.CallExpr); ok {
				if cf := p.DeclOf(callee(fi.Info(), call)); cf != nil {
					rel := strings.TrimPrefix(cf.Pkg.PkgPath, modPath+"/")
					if rel == cfgparserRel || rel == lexerRel {
						visit(cf)
					}
				}
			}
			return true
		})
	}
	visit(root)
	return cone
}

// ---- R2
func c20Panics(c *Check) {
	c.Rule("R2", "in the call cone of Read: no explicit panic, no single-value type assertion, no write to a map that may be nil, no integer division by a variable", 1)
	cone := c20Cone(c)
	if len(cone) < 10 {
		c.Fail("R2", "cone", token.NoPos, "undecided: call cone of cfgparser.Read not resolved")
		return
	}
	n := 0
	for _, fi := range cone {
		info := fi.Info()
		ast.Inspect(fi.Decl.Body, func(x ast.Node) bool {
			switch s := x.(type) {
			case *ast.CallExpr:
				if id, ok := s.Fun.(*ast.Ident); ok && id.Name == "panic" {
					if _, isB := info.Uses[id].(*types.Builtin); isB {
						n++
						c.Hold("R2", fi.Name()+":panic", s.Pos(), false, "explicit panic reachable from configuration parsing")
					}
				}
			case *ast.TypeAssertExpr:
				if s.Type == nil {
					return true
				}
				// single-value form: parent is not a 2-value assignment
				single := true
				ast.Inspect(fi.Decl.Body, func(y ast.Node) bool {
					if as, ok := y.(*ast.AssignStmt); ok && len(as.Lhs) == 2 && len(as.Rhs) == 1 && ast.Unparen(as.Rhs[0]) == ast.Expr(s) {
						single = false
					}
					if vs, ok := y.(*ast.ValueSpec); ok && len(vs.Names) == 2 && len(vs.Values) == 1 && ast.Unparen(vs.Values[0]) == ast.Expr(s) {
						single = false
					}
					return true
				})
				if single {
					n++
					c.Hold("R2", fi.Name()+":type-assertion", s.Pos(), false, "single-value type assertion (panics on mismatch) reachable from configuration parsing")
				}
			case *ast.BinaryExpr:
				if s.Op == token.QUO || s.Op == token.REM {
					if tv, ok := info.Types[s.Y]; ok && tv.Value == nil {
						if b, ok := tv.Type.Underlying().(*types.Basic); ok && b.Info()&types.IsInteger != 0 {
							n++
							c.Hold("R2", fi.Name()+":division", s.Pos(), false, "integer division by a variable reachable from configuration parsing")
						}
					}
				}
			case *ast.AssignStmt:
				for _, l := range s.Lhs {
					ix, ok := ast.Unparen(l).(*ast.IndexExpr)
					if !ok {
						continue
					}
					if _, isMap := info.TypeOf(ix.X).Underlying().(*types.Map); !isMap {
						continue
					}
					// the map must be a field initialised in the context literal, or a local made in this function
					okInit := false
					if fv := fieldOf(info, ix.X); fv != nil {
						okInit = fieldInitialisedInLiterals(c.P, fi.Pkg, fv)
					} else if o := objOf(info, ix.X); o != nil {
						if def, k := localDef(info, fi.Decl.Body, o); k >= 1 && def != nil {
							if call, ok := ast.Unparen(def).(*ast.CallExpr); ok {
								if id, ok := call.Fun.(*ast.Ident); ok && id.Name == "make" {
									okInit = true
								}
							}
							if _, ok := ast.Unparen(def).(*ast.CompositeLit); ok {
								okInit = true
							}
						}
					}
					n++
					c.Hold("R2", fi.Name()+":map-write:"+exprStr(ix.X), s.Pos(), okInit, "write to a map that is not initialised on every construction path (assignment to entry in nil map)")
				}
			}
			return true
		})
	}
	if n == 0 {
		c.HoldConst("R2", "cone:no-panic-sites", token.NoPos, true, "")
	}
}

// fieldInitialisedInLiterals: every composite literal of the field's struct type in the package sets the field to a
// non-nil value.
func fieldInitialisedInLiterals(p *Prog, pk *packagesPkg, fv *types.Var) bool {
	owner := fieldOwner(p, fv)
	if owner == nil {
		return false
	}
	okAll, n := true, 0
	for _, f := range pk.Syntax {
		ast.Inspect(f, func(x ast.Node) bool {
			cl, ok := x.(*ast.CompositeLit)
			if !ok || namedOf(pk.TypesInfo.TypeOf(cl)) != owner {
				return true
			}
			n++
			set := false
			for _, el := range cl.Elts {
				if kv, ok := el.(*ast.KeyValueExpr); ok {
					if id, ok := kv.Key.(*ast.Ident); ok && id.Name == objName(fv) && !isNilIdent(pk.TypesInfo, kv.Value) {
						set = true
					}
				}
			}
			if !set {
				okAll = false
			}
			return true
		})
	}
	return okAll && n > 0
}

// ---- R3
func c20Recursion(c *Check) {
	p := c.P
	c.Rule("R3", "every recursion cycle in the cone of Read is bounded: a recursive call either descends structurally (argument is a child of the parameter) or is dominated by a depth guard whose counter it increases", 4)
	cone := c20Cone(c)
	// call edges within the cone
	edges := map[*types.Func][]*types.Func{}
	type callSite struct {
		from *FuncInfo
		call *ast.CallExpr
		to   *types.Func
	}
	var sitesAll []callSite
	for _, fi := range cone {
		ast.Inspect(fi.Decl.Body, func(n ast.Node) bool {
			if call, ok := n.(*ast.CallExpr); ok {
				if fn := callee(fi.Info(), call); fn != nil && cone[fn] != nil {
					edges[fi.Obj] = append(edges[fi.Obj], fn)
					sitesAll = append(sitesAll, callSite{fi, call, fn})
				}
			}
			return true
		})
	}
	// reachability closure to find which edges are on a cycle
	reach := func(from, to *types.Func) bool {
		seen := map[*types.Func]bool{}
		var dfs func(f *types.Func) bool
		dfs = func(f *types.Func) bool {
			if f == to {
				return true
			}
			if seen[f] {
				return false
			}
			seen[f] = true
			for _, g := range edges[f] {
				if dfs(g) {
					return true
				}
			}
			return false
		}
		for _, g := range edges[from] {
			if dfs(g) {
				return true
			}
		}
		return false
	}
	// an edge is "bounded" if it descends structurally, is dominated by a depth guard, or enters a function that
	// tests its depth counter before increasing it. Every cycle must contain a bounded edge: after removing the
	// bounded edges the call graph of the cone must be acyclic.
	n := 0
	type edgeKey struct{ from, to *types.Func }
	bounded := map[*ast.CallExpr]bool{}
	var cyc []callSite
	for _, cs := range sitesAll {
		if !(cs.to == cs.from.Obj || reach(cs.to, cs.from.Obj)) {
			continue
		}
		n++
		cyc = append(cyc, cs)
		fi := cs.from
		info := fi.Info()
		r := &RuleCtx{C: c, FI: fi, F: p.FlowOfFunc(fi), Info: info}
		structural := false
		for _, a := range cs.call.Args {
			e := ast.Unparen(a)
			if u, ok := e.(*ast.UnaryExpr); ok && u.Op == token.AND {
				e = ast.Unparen(u.X)
			}
			if ix, ok := e.(*ast.IndexExpr); ok {
				if s, ok := ast.Unparen(ix.X).(*ast.SelectorExpr); ok && s.Sel.Name == "Children" {
					structural = true
				}
			}
			if s, ok := e.(*ast.SelectorExpr); ok && s.Sel.Name == "Children" {
				structural = true
			}
			if o := objOf(info, e); o != nil {
				for _, rs := range rangesIn(fi.Decl.Body, func(rs *ast.RangeStmt) bool { return rs.Value != nil && objOf(info, rs.Value) == o }) {
					if s, ok := ast.Unparen(rs.X).(*ast.SelectorExpr); ok && s.Sel.Name == "Children" {
						structural = true
					}
				}
			}
		}
		depthOK, _ := c20DepthGuard(c, r, cs.call)
		entryOK := false
		if cf := cone[cs.to]; cf != nil {
			rc := &RuleCtx{C: c, FI: cf, F: p.FlowOfFunc(cf), Info: cf.Info()}
			entryOK, _ = c20EntryGuard(c, rc)
		}
		bounded[cs.call] = structural || depthOK || entryOK
	}
	// cycle detection on the unbounded edges
	un := map[*types.Func][]*types.Func{}
	for _, cs := range cyc {
		if !bounded[cs.call] {
			un[cs.from.Obj] = append(un[cs.from.Obj], cs.to)
		}
	}
	onCycle := func(from, to *types.Func) bool {
		seen := map[*types.Func]bool{}
		var dfs func(f *types.Func) bool
		dfs = func(f *types.Func) bool {
			if f == from {
				return true
			}
			if seen[f] {
				return false
			}
			seen[f] = true
			for _, g := range un[f] {
				if dfs(g) {
					return true
				}
			}
			return false
		}
		return dfs(to)
	}
	for _, cs := range cyc {
		key := refName(cs.from.Obj) + "→" + cs.to.Name()
		bad := !bounded[cs.call] && onCycle(cs.from.Obj, cs.to)
		c.Hold("R3", key, cs.call.Pos(), !bad, "recursion cycle without a bound: no call on the cycle through this edge descends structurally, is dominated by a depth guard or enters a function that tests its depth counter first: a self-referencing input recurses until the stack overflows")
	}
	// the depth counters must actually increase somewhere on the import cycle
	inc := false
	for _, cs := range cyc {
		for _, a := range cs.call.Args {
			if be, ok := ast.Unparen(a).(*ast.BinaryExpr); ok && be.Op == token.ADD && exprStr(be.Y) == "1" {
				inc = true
			}
		}
	}
	c.Hold("R3", "depth-counter-increases", token.NoPos, inc, "no recursive call passes depth+1: the depth guards can never trigger")
	if n < 4 {
		c.Fail("R3", "cycles", token.NoPos, "undecided: expected the block-nesting and import-expansion recursion cycles")
	}
	// The nesting counter is the depth only if an invocation of readNodes that has given its level back (nesting--)
	// reads no further node: otherwise the following lines are parsed as children of a block that was closed, at a
	// counter value one too low – each such line nests one level deeper while the counter never grows.
	if r := c.need("R3", cfgparserRel, "parseContext", "readNodes"); r != nil {
		info := r.Info
		reads := r.F.PtCalls(calling("~/" + cfgparserRel + ".parseContext.readNode"))
		decsNesting := func(inf *types.Info, n ast.Node) bool {
			found := false
			inspectNoLit(n, func(x ast.Node) bool {
				if ids, ok := x.(*ast.IncDecStmt); ok && ids.Tok == token.DEC {
					if fv := fieldOf(inf, ids.X); fv != nil && objName(fv) == "nesting" {
						found = true
					}
				}
				return true
			})
			return found
		}
		var decs []Pt
		for _, pt := range r.F.Points() {
			if _, ok := pt.Node().(*ast.IncDecStmt); ok && decsNesting(info, pt.Node()) {
				decs = append(decs, pt)
				continue
			}
			// … or through a method of the parser that does it (`ctx.leaveBlock()`)
			for _, call := range callsAt(pt.Node()) {
				if fn := callee(info, call); fn != nil && fn.Pkg() == r.FI.Obj.Pkg() && fn != r.FI.Obj {
					if d := c.P.DeclOf(fn); d != nil && d.Decl.Body != nil && decsNesting(d.Info(), d.Decl.Body) {
						decs = append(decs, pt)
					}
				}
			}
		}
		flagSet := func(pt Pt) types.Object {
			as, ok := pt.Node().(*ast.AssignStmt)
			if !ok || len(as.Lhs) != 1 || len(as.Rhs) != 1 {
				return nil
			}
			if id, ok := ast.Unparen(as.Rhs[0]).(*ast.Ident); !ok || id.Name != "true" {
				return nil
			}
			if v, ok := objOf(info, as.Lhs[0]).(*types.Var); ok && !v.IsField() {
				return v
			}
			return nil
		}
		if len(decs) < 2 {
			c.Fail("R3", "readNodes:level-given-back", r.FI.Decl.Pos(), "undecided: expected the two places where a block's closing brace gives the nesting level back")
		}
		for i, d := range decs {
			key := "readNodes:closed" + itoa(i+1) + ":reads-no-further-node"
			msg := ""
			if path, f := r.F.Reach(Query{From: []Pt{d}, Target: reads, Avoid: func(pt Pt) bool { return flagSet(pt) != nil }}); f {
				msg = r.F.Describe(path)
			}
			for _, pt := range r.F.Points() {
				fl := flagSet(pt)
				if fl == nil {
					continue
				}
				if _, reach := r.F.Reach(Query{From: []Pt{d}, Target: func(q Pt) bool { return q == pt }, Avoid: reads}); !reach {
					continue
				}
				if path, f := r.F.ReachRefined(pt, fl, false, true, reads, nil); f {
					msg = r.F.Describe(path)
				}
			}
			c.Hold("R3", key, r.Pos(d), msg == "", "after the closing brace of its block was consumed (nesting--) readNodes goes on reading nodes into the same block: the nesting limit is bypassed (N lines `a { $(x) = 1 }` give a tree N levels deep) and directives land in the wrong block: "+msg)
		}
	}
}

// c20DepthGuard: call passes <ctr>+1 (or the counter was incremented) and a dominating guard `ctr > K` returns.
func c20DepthGuard(c *Check, r *RuleCtx, call *ast.CallExpr) (bool, string) {
	info := r.Info
	var ctr types.Object
	for _, a := range call.Args {
		e := ast.Unparen(a)
		if be, ok := e.(*ast.BinaryExpr); ok && be.Op == token.ADD {
			if tv, ok := info.Types[be.Y]; ok && tv.Value != nil && tv.Value.String() == "1" {
				e = ast.Unparen(be.X)
			}
		}
		if o, ok := objOf(info, e).(*types.Var); ok {
			if b, ok := o.Type().Underlying().(*types.Basic); ok && b.Info()&types.IsInteger != 0 {
				for _, po := range paramObjs(r.FI) {
					if po == types.Object(o) {
						ctr = o
					}
				}
			}
		}
	}
	if ctr == nil {
		return false, "no depth counter is passed"
	}
	pt, found := r.F.PtOf(call.Pos())
	if !found {
		return false, "call not located"
	}
	// must be unreachable when the edges establishing "ctr <= K" (guard not triggered) are removed … i.e. every path
	// to the call passed the guard's passing edge
	pass := r.F.AvoidImplying(func(atom ast.Expr) (bool, bool) {
		be, ok := ast.Unparen(atom).(*ast.BinaryExpr)
		if !ok || objOf(info, be.X) != ctr {
			return false, false
		}
		if tv, ok := info.Types[be.Y]; !ok || tv.Value == nil {
			return false, false
		}
		switch be.Op {
		case token.GTR, token.GEQ:
			return false, true // the passing edge is the one where `ctr > K` is false
		case token.LSS, token.LEQ:
			return true, true
		}
		return false, false
	})
	if _, f := r.F.Reach(Query{From: r.Entry(), Inclusive: true, Target: isPt([]Pt{pt}), AvoidEdge: pass}); f {
		// the guard may act through a flag that is only set after the guard passed (`containsImports`): follow
		// bool locals initialised to false
		for _, dp := range r.F.Points() {
			as, ok := dp.Node().(*ast.AssignStmt)
			if !ok || len(as.Lhs) != 1 || len(as.Rhs) != 1 {
				continue
			}
			tv, ok := info.Types[as.Rhs[0]]
			if !ok || tv.Value == nil || tv.Value.String() != "false" {
				continue
			}
			flag := objOf(info, as.Lhs[0])
			if flag == nil {
				continue
			}
			if _, f2 := r.F.ReachRefined2(dp, flag, true, true, isPt([]Pt{pt}), nil, pass); !f2 {
				return true, ""
			}
		}
		return false, "the call is reachable without passing the depth guard on " + ctr.Name()
	}
	return true, ""
}

// c20EntryGuard: the function starts with a guard on a counter field that it increments afterwards (nesting).
func c20EntryGuard(c *Check, r *RuleCtx) (bool, string) {
	info := r.Info
	var incs []Pt
	var fieldName string
	for _, pt := range r.F.Points() {
		if s, ok := pt.Node().(*ast.IncDecStmt); ok && s.Tok == token.INC {
			if fv := fieldOf(info, s.X); fv != nil {
				incs = append(incs, pt)
				fieldName = objName(fv)
			}
		}
	}
	if len(incs) == 0 {
		return false, "no depth counter"
	}
	pass := r.F.AvoidImplying(func(atom ast.Expr) (bool, bool) {
		be, ok := ast.Unparen(atom).(*ast.BinaryExpr)
		if !ok {
			return false, false
		}
		fv := fieldOf(info, be.X)
		if fv == nil || objName(fv) != fieldName {
			return false, false
		}
		if tv, ok := info.Types[be.Y]; !ok || tv.Value == nil {
			return false, false
		}
		switch be.Op {
		case token.GTR, token.GEQ:
			return false, true
		}
		return false, false
	})
	if _, f := r.F.Reach(Query{From: r.Entry(), Inclusive: true, Target: isPt(incs), AvoidEdge: pass}); f {
		return false, "the nesting counter is increased without the limit having been tested"
	}
	// every recursive descent in this function happens after the increment
	return true, ""
}

// ---- R4
func c20Loops(c *Check) {
	p := c.P
	c.Rule("R4", "every non-range loop in the cone of Read makes progress on each iteration: bounded counter, condition that consumes a token, or every path back to the head passes a successful consuming call", 5)
	cone := c20Cone(c)
	advancing := map[string]bool{"Next": true, "NextArg": true, "NextLine": true, "next": true, "ReadRune": true, "NextBlock": true}
	isAdvance := func(info *types.Info, call *ast.CallExpr) bool { return advancing[methodName(call)] }
	n := 0
	var names []*FuncInfo
	for _, fi := range cone {
		names = append(names, fi)
	}
	sort.Slice(names, func(i, j int) bool { return names[i].Name() < names[j].Name() })
	for _, fi := range names {
		info := fi.Info()
		r := &RuleCtx{C: c, FI: fi, F: p.FlowOfFunc(fi), Info: info}
		li := 0
		ast.Inspect(fi.Decl.Body, func(x ast.Node) bool {
			fs, ok := x.(*ast.ForStmt)
			if !ok {
				return true
			}
			n++
			li++
			key := refName(fi.Obj) + ":loop" + itoa(li)
			class, msg := "", ""
			switch {
			case fs.Cond != nil && fs.Post != nil:
				// counter loop: `i < K` with i++
				class = "counter"
				if inc, ok := fs.Post.(*ast.IncDecStmt); !ok || !mentions(info, fs.Cond, objOf(info, inc.X)) {
					class, msg = "", "loop with a post statement that does not drive its condition"
				}
			case fs.Cond != nil:
				// condition is (a disjunction of) advancing calls, or an iterator's Next()
				adv := false
				ast.Inspect(fs.Cond, func(y ast.Node) bool {
					if call, ok := y.(*ast.CallExpr); ok && isAdvance(info, call) {
						adv = true
					}
					return true
				})
				if adv {
					class = "consuming-condition"
				} else {
					msg = "loop condition " + exprStr(fs.Cond) + " is not a consuming call"
				}
			default:
				// `for {}`: every path from the body start back to the body start passes the success edge of an advancing call,
				// or the named exception (readNode's continuation loop)
				var body []Pt
				for _, b := range r.F.G.Blocks {
					if b.Kind == kindForBody && b.Stmt == ast.Stmt(fs) {
						body = append(body, Pt{b, 0})
					}
				}
				advPt := func(pt Pt) bool {
					nd := pt.Node()
					if nd == nil || !within(fs.Body, nd) {
						return false
					}
					for _, call := range callsAt(nd) {
						if isAdvance(info, call) {
							return true
						}
					}
					// nested loops whose condition consumes
					return false
				}
				back := func(pt Pt) bool { return pt.I == 0 && isPt(body)(pt) }
				path, f := r.F.Reach(Query{From: body, Target: back, Avoid: advPt})
				if !f {
					class = "consuming-body"
				} else if c20ContinuationLoop(r, fs) {
					class = "exception:line-continuation"
					c.Except("cfgparser.(*parseContext).readNode: outer `for {}` – progress is by consuming the trailing `\\` argument: the `continue` is taken only when the last argument equals the one-byte constant `\\`, which the preceding statements remove, so len(node.Args) strictly decreases whenever the inner loop did not advance")
				} else {
					msg = "a path returns to the loop head without consuming input: " + r.F.Describe(path)
				}
			}
			c.Hold("R4", key, fs.Pos(), class != "", msg+" (a loop that does not advance never terminates on some input)")
			return true
		})
	}
	if n < 5 {
		c.Fail("R4", "loops", token.NoPos, "undecided: expected the lexer/dispenser/parser loops in the cone")
	}
}

// c20ContinuationLoop checks the side-condition of the readNode exception: every `continue` of the loop is inside an
// if whose condition compares the last element of a slice with a one-byte constant, and the block truncates that
// element / slice before continuing.
func c20ContinuationLoop(r *RuleCtx, fs *ast.ForStmt) bool {
	info := r.Info
	ok := false
	bad := false
	ast.Inspect(fs.Body, func(n ast.Node) bool {
		if inner, isFor := n.(*ast.ForStmt); isFor && inner != fs {
			return false
		}
		is, isIf := n.(*ast.IfStmt)
		if !isIf {
			return true
		}
		hasContinue := false
		for _, s := range is.Body.List {
			if b, isB := s.(*ast.BranchStmt); isB && b.Tok == token.CONTINUE {
				hasContinue = true
			}
		}
		if !hasContinue {
			return true
		}
		// condition: … X[len(X)-1] == "<one byte>"
		cmpOK := false
		ast.Inspect(is.Cond, func(y ast.Node) bool {
			if be, isBin := y.(*ast.BinaryExpr); isBin && be.Op == token.EQL {
				if s, okc := constString(info, be.Y); okc && len(s) == 1 {
					if _, isIx := ast.Unparen(be.X).(*ast.IndexExpr); isIx {
						cmpOK = true
					}
				}
			}
			return true
		})
		// body truncates: an assignment whose RHS is a slice expression with High = len(..)-1 or [:last]
		truncates := false
		for _, s := range is.Body.List {
			ast.Inspect(s, func(y ast.Node) bool {
				if se, isSl := y.(*ast.SliceExpr); isSl && se.High != nil && se.Low == nil {
					truncates = true
				}
				return true
			})
		}
		if cmpOK && truncates {
			ok = true
		} else {
			bad = true
		}
		return true
	})
	return ok && !bad
}

// ---- R5
func c20Post(c *Check) {
	p := c.P
	c.Rule("R5", "readNodes never appends a macro or snippet declaration to the result; every other node's name is validated; expandImports re-expands whenever it spliced an import in", 3)
	if r := c.need("R5", cfgparserRel, "parseContext", "readNodes"); r != nil {
		info := r.Info
		appends := r.Assigns(func(l, rhs ast.Expr) bool {
			o, args := appendTarget(info, l, rhs)
			return o != nil && len(args) == 1
		})
		// in the world node.Macro == true or node.Snippet == true the append must be unreachable from the readNode call
		reads := r.Calls(calling("~/" + cfgparserRel + ".parseContext.readNode"))
		msg := ""
		for _, fld := range []string{"Macro", "Snippet"} {
			fld := fld
			world := r.F.World(func(atom ast.Expr) (bool, bool) {
				if s, ok := ast.Unparen(atom).(*ast.SelectorExpr); ok && s.Sel.Name == fld && fieldOf(info, s) != nil {
					return true, true
				}
				return false, false
			})
			if path, f := r.F.Reach(Query{From: reads, Target: isPt(appends), Avoid: isPt(reads), AvoidEdge: world}); f {
				msg = "a " + strings.ToLower(fld) + " declaration can be appended to the parsed tree (it would remain unexpanded): " + r.F.Describe(path)
			}
		}
		c.Hold("R5", "readNodes:declarations-not-in-result", r.FI.Decl.Pos(), msg == "" && len(appends) > 0 && len(reads) == 1, msg)
		// every node that enters the result – by an append statement or by an append inside a return – and every macro
		// definition that enters the macro table has had its own macro references expanded since it was read
		enters := append([]Pt{}, appends...)
		for _, pt := range r.F.Points() {
			switch st := pt.Node().(type) {
			case *ast.ReturnStmt:
				for _, res := range st.Results {
					if call, ok := ast.Unparen(res).(*ast.CallExpr); ok {
						if id, isID := call.Fun.(*ast.Ident); isID && id.Name == "append" && len(call.Args) >= 2 {
							enters = append(enters, pt)
						}
					}
				}
			case *ast.AssignStmt:
				for _, l := range st.Lhs {
					if ix, ok := ast.Unparen(l).(*ast.IndexExpr); ok {
						if fv := fieldOf(info, ix.X); fv != nil && objName(fv) == "macros" {
							enters = append(enters, pt)
						}
					}
				}
			}
		}
		expands := r.Calls(calling("~/" + cfgparserRel + ".parseContext.expandMacros"))
		msg2 := ""
		if path, f := r.F.Reach(Query{From: reads, Target: isPt(enters), Avoid: func(q Pt) bool { return isPt(expands)(q) || isPt(reads)(q) }}); f {
			msg2 = "a node can enter the parsed tree (or a macro definition the macro table) without expandMacros having been applied to it since it was read: a `$(name)` reference in it remains unexpanded in the returned tree: " + r.F.Describe(path)
		}
		c.Hold("R5", "readNodes:macros-expanded", r.FI.Decl.Pos(), msg2 == "" && len(expands) > 0, msg2)
	}
	if r := c.need("R5", cfgparserRel, "parseContext", "readNode"); r != nil {
		info := r.Info
		val := r.Calls(calling("~/" + cfgparserRel + ".validateNodeName"))
		// every success return in the world !Macro && !Snippet passes the validation, and its error is returned
		world := r.F.World(func(atom ast.Expr) (bool, bool) {
			if s, ok := ast.Unparen(atom).(*ast.SelectorExpr); ok && (s.Sel.Name == "Macro" || s.Sel.Name == "Snippet") && fieldOf(info, s) != nil {
				return false, true
			}
			return false, false
		})
		path, f := r.F.Reach(Query{From: r.Entry(), Inclusive: true, Target: r.IsSuccessReturn, Avoid: isPt(val), AvoidEdge: world})
		msg := ""
		if f || len(val) == 0 {
			msg = "an ordinary directive can be returned without its name having been validated: " + r.F.Describe(path)
		}
		for _, pt := range val {
			call := r.CallAt(pt, calling("~/"+cfgparserRel+".validateNodeName"))
			if found, w, decided := r.OnErr(pt, call, false, r.IsSuccessReturn, nil); !decided || found {
				msg = "an invalid directive name is accepted: " + w
			}
		}
		c.Hold("R5", "readNode:name-validated", r.FI.Decl.Pos(), msg == "", msg)
	}
	// the validation classifies characters: a unicode.IsX predicate is never applied to one byte of a string
	// re-interpreted as a code point (for a multi-byte character that is its UTF-8 lead byte, never a digit/letter)
	{
		nuni := 0
		p.AllFuncs(p.ServerPkgs(), func(fi *FuncInfo) {
			if !strings.HasSuffix(fi.Pkg.PkgPath, "/"+cfgparserRel) && !strings.HasSuffix(fi.Pkg.PkgPath, "/"+lexerRel) {
				return
			}
			info := fi.Info()
			k := 0
			for _, call := range callsIn(fi.Decl) {
				fn := callee(info, call)
				if fn == nil || fn.Pkg() == nil || fn.Pkg().Path() != "unicode" || len(call.Args) != 1 {
					continue
				}
				k++
				nuni++
				bad := false
				if conv, ok := ast.Unparen(call.Args[0]).(*ast.CallExpr); ok && len(conv.Args) == 1 && info.Types[conv.Fun].IsType() {
					if b, ok := info.TypeOf(conv.Args[0]).Underlying().(*types.Basic); ok && b.Kind() == types.Uint8 {
						bad = true
					}
				}
				c.Hold("R5", fi.Name()+":unicode."+fn.Name()+itoa(k)+":on-characters", call.Pos(), !bad, "unicode."+fn.Name()+" is applied to a single byte converted to a rune, not to a decoded character: names starting with / containing non-ASCII characters are classified by their UTF-8 lead byte (e.g. a non-ASCII digit passes the 'cannot start with a digit' test)")
			}
		})
		if nuni < 3 {
			c.Fail("R5", "unicode-classification", token.NoPos, "undecided: expected the character classification of directive names and of the lexer")
		}
	}
	// the expansions walk the whole tree: each of them descends into the children of every node it handles
	if r := c.need("R5", cfgparserRel, "parseContext", "expandMacros"); r != nil {
		info := r.Info
		self := r.FI.Obj
		var nodeP types.Object
		if ps := r.FI.Decl.Type.Params.List; len(ps) == 1 && len(ps[0].Names) == 1 {
			nodeP = info.Defs[ps[0].Names[0]]
		}
		isChildren := func(e ast.Expr) bool {
			sx, ok := ast.Unparen(e).(*ast.SelectorExpr)
			return ok && sx.Sel.Name == "Children" && objOf(info, sx.X) == nodeP && nodeP != nil
		}
		msg := "expandMacros does not descend into the children of the node (macros inside blocks stay unexpanded)"
		for _, l := range elemLoops(info, r.FI.Decl.Body, isChildren) {
			l := l
			descends := false
			for _, call := range callsIn(l.Body) {
				if callee(info, call) == self && len(call.Args) == 1 {
					a := ast.Unparen(call.Args[0])
					if u, ok := a.(*ast.UnaryExpr); ok && u.Op == token.AND {
						a = ast.Unparen(u.X)
					}
					if l.IsElem(a) {
						descends = true
					}
				}
			}
			if !descends || !l.Whole {
				continue
			}
			w := r.F.World(func(atom ast.Expr) (bool, bool) {
				if be, ok := ast.Unparen(atom).(*ast.BinaryExpr); ok && (be.Op == token.EQL || be.Op == token.NEQ) && isNilIdent(info, be.Y) && isChildren(be.X) {
					return be.Op == token.NEQ, true
				}
				return false, false
			})
			if path, f := r.F.Reach(Query{From: r.Entry(), Inclusive: true, Target: r.IsSuccessReturn, Avoid: isPt(r.F.LoopDone(l)), AvoidEdge: w}); f {
				msg = "expandMacros can succeed without having expanded the children of a block: " + r.F.Describe(path)
			} else {
				msg = ""
			}
			// an error of the recursive call is returned
			for _, pt := range r.F.Points() {
				for _, call := range callsAt(pt.Node()) {
					if callee(info, call) == self && within(l.Body, call) {
						if found, wv, decided := r.OnErr(pt, call, false, func(q Pt) bool { return r.IsSuccessReturn(q) || r.F.IterEnd(l)(q) && !r.F.IsExitPt(q) }, nil); !decided || found {
							msg = "an error while expanding a child is dropped: " + wv
						}
					}
				}
			}
		}
		c.Hold("R5", "expandMacros:descends", r.FI.Decl.Pos(), msg == "", msg)
	}
	if r := c.need("R5", cfgparserRel, "", "expandEnvironment"); r != nil {
		info := r.Info
		self := r.FI.Obj
		var nodesP types.Object
		if ps := r.FI.Decl.Type.Params.List; len(ps) == 1 && len(ps[0].Names) == 1 {
			nodesP = info.Defs[ps[0].Names[0]]
		}
		msg := "expandEnvironment does not visit the nodes it is given"
		for _, l := range elemLoops(info, r.FI.Decl.Body, func(e ast.Expr) bool { return objOf(info, e) == nodesP && nodesP != nil }) {
			l := l
			if !l.Whole {
				continue
			}
			// in every iteration: the children are replaced by their expansion, name and arguments go through the replacer
			recurse := func(pt Pt) bool {
				return nodeAssigns(pt.Node(), func(lhs, rhs ast.Expr) bool {
					sx, ok := ast.Unparen(lhs).(*ast.SelectorExpr)
					if !ok || sx.Sel.Name != "Children" || rhs == nil {
						return false
					}
					call, ok := ast.Unparen(rhs).(*ast.CallExpr)
					if !ok || callee(info, call) != self || len(call.Args) != 1 {
						return false
					}
					ax, ok := ast.Unparen(call.Args[0]).(*ast.SelectorExpr)
					return ok && ax.Sel.Name == "Children" && sameExpr(ax.X, sx.X)
				})
			}
			msg = ""
			if path, f := r.F.Reach(Query{From: r.F.LoopBodyStart(l), Inclusive: true, Target: r.F.IterEnd(l), Avoid: recurse}); f {
				msg = "a node is handled without expanding the environment placeholders of its children: " + r.F.Describe(path)
			}
			for _, fld := range []string{"Name", "Args"} {
				fld := fld
				sets := func(pt Pt) bool {
					return nodeAssigns(pt.Node(), func(lhs, _ ast.Expr) bool {
						sx, ok := ast.Unparen(lhs).(*ast.SelectorExpr)
						return ok && sx.Sel.Name == fld
					})
				}
				if path, f := r.F.Reach(Query{From: r.F.LoopBodyStart(l), Inclusive: true, Target: r.F.IterEnd(l), Avoid: sets}); f && msg == "" {
					msg = "a node is handled without expanding the environment placeholders of its " + fld + ": " + r.F.Describe(path)
				}
			}
		}
		c.Hold("R5", "expandEnvironment:descends", r.FI.Decl.Pos(), msg == "", msg)
	}
	if r := c.need("R5", cfgparserRel, "parseContext", "expandImports"); r != nil {
		info := r.Info
		self := r.FI.Obj
		// splice points: append(x, subtree...) with subtree the result of resolveImport
		var splice []Pt
		for _, pt := range r.F.Points() {
			as, ok := pt.Node().(*ast.AssignStmt)
			if !ok || len(as.Rhs) != 1 {
				continue
			}
			call, ok := ast.Unparen(as.Rhs[0]).(*ast.CallExpr)
			if !ok || !call.Ellipsis.IsValid() {
				continue
			}
			if id, ok := call.Fun.(*ast.Ident); ok && id.Name == "append" {
				splice = append(splice, pt)
			}
		}
		// tail re-expansion: a self call on the node itself (not on a child)
		var rerun []Pt
		for _, pt := range r.F.Points() {
			for _, call := range callsAt(pt.Node()) {
				if callee(info, call) == self && len(call.Args) >= 1 {
					if o := objOf(info, call.Args[0]); o != nil {
						if prm := paramObjs(r.FI)["node"]; prm == o {
							rerun = append(rerun, pt)
						}
					}
				}
			}
		}
		msg := ""
		if len(splice) == 0 || len(rerun) == 0 {
			msg = "undecided: splice of an imported subtree / re-expansion call not found"
		} else {
			// after a splice, every success exit passes the re-expansion. The flag idiom: a bool set true right at the
			// splice branch and tested after the loop.
			var flag types.Object
			for _, pt := range r.F.Points() {
				if as, ok := pt.Node().(*ast.AssignStmt); ok && len(as.Lhs) == 1 && len(as.Rhs) == 1 {
					if tv, ok := info.Types[as.Rhs[0]]; ok && tv.Value != nil && tv.Value.String() == "true" {
						if o := objOf(info, as.Lhs[0]); o != nil {
							// set on every path to the splice?
							if okm, _ := r.MustPass(r.Entry(), true, isPt(splice), isPt([]Pt{pt})); okm {
								flag = o
								// from the flag assignment with flag==true, a success exit avoiding the rerun must be unreachable
								if path, f := r.F.ReachRefined(pt, o, false, true, r.IsSuccessReturn, isPt(rerun)); f {
									msg = "after an import was spliced in, the function can return without expanding the spliced nodes again (an import inside a snippet body stays unexpanded in the returned tree): " + r.F.Describe(path)
								}
							}
						}
					}
				}
			}
			if flag == nil {
				if path, f := r.F.Reach(Query{From: splice, Target: r.IsSuccessReturn, Avoid: isPt(rerun)}); f {
					msg = "after an import was spliced in, the function can return without expanding the spliced nodes again: " + r.F.Describe(path)
				}
			}
		}
		c.Hold("R5", "expandImports:re-expands", r.FI.Decl.Pos(), msg == "", msg)
	}
	_ = p
}


// R7: "no placeholder remains". After the environment replacer ran, removeUnexpandedEnvvars deletes what is left of
// the `{env:NAME}` placeholders with ONE pass of a regular expression. That pass must be closed: its output contains
// no match of the same expression (deleting an inner placeholder must not let the text around it close up into a new
// one – `{en{env:X}v:HOME}` – which a second parse of the printed tree would then expand: the round trip of the
// property fails and a live placeholder is in the returned tree). The pattern is a constant of the program; it is
// read from the source and the closure is decided by evaluating Go's regexp engine on every string of up to seven
// tokens over the pattern's own alphabet (its literal pieces and one character of every class it distinguishes).
// Nothing of maddy runs.
func c20EnvCleanup(c *Check) {
	c.Rule("R7", "removeUnexpandedEnvvars: one pass of each clean-up expression leaves nothing the same expression matches (decided for the constant pattern over all strings of up to seven tokens of its own alphabet)", 1)
	// wherever in the package the clean-up pass is made (the helper may have been inlined into its caller)
	type site struct {
		fi   *FuncInfo
		call *ast.CallExpr
	}
	var sites []site
	for _, fi := range funcsOfPkgs(c.P, cfgparserRel) {
		fi := fi
		// function literals included: the pass may be made by a local closure
		ast.Inspect(fi.Decl.Body, func(x ast.Node) bool {
			if call, ok := x.(*ast.CallExpr); ok && isCall(fi.Info(), call, "regexp.Regexp.ReplaceAllString", "regexp.Regexp.ReplaceAllLiteralString") && len(call.Args) == 2 {
				sites = append(sites, site{fi, call})
			}
			return true
		})
	}
	n := 0
	for _, st := range sites {
		call := st.call
		r := &RuleCtx{C: c, FI: st.fi, Info: st.fi.Info()}
		info := r.Info
		c.SawFunc(st.fi.Name())
		n++
		key := "envvars-cleanup:pass" + itoa(n)
		repl, okR := constString(info, call.Args[1])
		v, isVar := objOf(info, callRecv(call)).(*types.Var)
		if !okR || !isVar || v.Parent() != r.FI.Pkg.Types.Scope() {
			c.Fail("R7", key, call.Pos(), "undecided: the clean-up expression is not a package-level constant pattern with a constant replacement")
			continue
		}
		// the initialiser regexp.MustCompile(<constant>)
		pat, found := "", false
		for _, file := range r.FI.Pkg.Syntax {
			ast.Inspect(file, func(x ast.Node) bool {
				vs, ok := x.(*ast.ValueSpec)
				if !ok {
					return true
				}
				for i, nm := range vs.Names {
					if info.Defs[nm] == v && i < len(vs.Values) {
						if mc, ok := ast.Unparen(vs.Values[i]).(*ast.CallExpr); ok && isCall(info, mc, "regexp.MustCompile") && len(mc.Args) == 1 {
							pat, found = constString(info, mc.Args[0])
						}
					}
				}
				return true
			})
		}
		if !found {
			c.Fail("R7", key, call.Pos(), "undecided: the pattern of "+v.Name()+" is not a constant handed to regexp.MustCompile")
			continue
		}
		re, err := regexp.Compile(pat)
		if err != nil {
			c.Fail("R7", key, call.Pos(), "the clean-up pattern does not compile: "+err.Error())
			continue
		}
		// alphabet: the literal prefix split in two (so that a match can be assembled around a deleted one), the
		// closing delimiter, and one character per class the pattern can distinguish
		prefix, _ := re.LiteralPrefix()
		tokens := []string{"A", "$", "}"}
		if len(prefix) >= 2 {
			tokens = append(tokens, prefix, prefix[:len(prefix)/2], prefix[len(prefix)/2:])
		}
		witness := ""
		var gen func(s string, depth int)
		gen = func(s string, depth int) {
			if witness != "" {
				return
			}
			if s != "" {
				out := re.ReplaceAllString(s, repl)
				if isCall(info, call, "regexp.Regexp.ReplaceAllLiteralString") {
					out = re.ReplaceAllLiteralString(s, repl)
				}
				if re.MatchString(out) {
					witness = "input " + strconv.Quote(s) + " becomes " + strconv.Quote(out) + ", which the expression still matches"
					return
				}
			}
			if depth == 7 {
				return
			}
			for _, t := range tokens {
				gen(s+t, depth+1)
			}
		}
		gen("", 0)
		c.Hold("R7", key, call.Pos(), witness == "", "one pass of "+strconv.Quote(pat)+" is not closed: "+witness+" – a live placeholder is left in the returned tree, and printing and parsing the tree again expands it (the round trip changes the tree)")
	}
	if n == 0 {
		c.Fail("R7", "envvars-cleanup:passes", token.NoPos, "undecided: no clean-up pass (regexp ReplaceAllString) found in the configuration parser")
	}
}


// R3c: a macro may be defined from references of other macros; `$(m1) = $(m0) $(m0)`, `$(m2) = $(m1) $(m1)`, … doubles
// the argument list with every line – forty lines are 2^40 arguments: Read does not return and memory runs out. Where
// expandMacros splices a macro's (multi-valued) replacement into an argument list, the resulting length is compared
// with a bound before the next argument is processed.
func c20MacroBudget(c *Check) {
	c.Rule("R3c", "macro expansion is bounded in total: after a macro's replacement list is spliced into the arguments (append with a spread), every path to the next iteration passes a comparison of the list's length, whose failure returns an error", 1)
	r := c.need("R3c", cfgparserRel, "parseContext", "expandMacros")
	if r == nil {
		return
	}
	info := r.Info
	n := 0
	msg := ""
	for _, pt := range r.F.Points() {
		as, ok := pt.Node().(*ast.AssignStmt)
		if !ok || len(as.Lhs) != 1 || len(as.Rhs) != 1 {
			continue
		}
		call, ok := ast.Unparen(as.Rhs[0]).(*ast.CallExpr)
		if !ok || !call.Ellipsis.IsValid() {
			continue
		}
		if id, isID := call.Fun.(*ast.Ident); !isID || id.Name != "append" {
			continue
		}
		lst := objOf(info, as.Lhs[0])
		if lst == nil {
			continue
		}
		n++
		guards := func(b *cfgBlock, i int) bool {
			cond, isCase := r.F.Cond(b)
			if cond == nil || isCase {
				return false
			}
			hit := false
			ast.Inspect(cond, func(x ast.Node) bool {
				if lc, ok := x.(*ast.CallExpr); ok && len(lc.Args) == 1 {
					if id, isID := lc.Fun.(*ast.Ident); isID && id.Name == "len" && objOf(info, lc.Args[0]) == lst {
						hit = true
					}
				}
				return true
			})
			return hit
		}
		next := func(q Pt) bool {
			if q.I != 0 {
				return false
			}
			return q.B.Kind == kindRangeLoop || q.B.Kind == kindForLoop || q.B.Kind == kindRangeDone || q.B.Kind == kindForDone
		}
		if path, f := r.F.Reach(Query{From: []Pt{pt}, Target: next, AvoidEdge: guards}); f {
			msg = "a macro's replacement list is spliced into the arguments and the next argument is processed without the length of the list having been compared with any bound: `$(m1) = $(m0) $(m0)` … doubles the list per line, a 900-byte input makes Read allocate 2^40 arguments (it neither returns nor fails): " + r.F.Describe(path)
		}
	}
	c.Hold("R3c", "expandMacros:bounded-splice", r.FI.Decl.Pos(), msg == "" && n > 0, msg)
}

// ---- R3d: the in-string twin of R3c. `$(m1) = "x$(m0)$(m0)"` doubles the LENGTH of one argument per line.
func c20MacroStringBudget(c *Check) {
	c.Rule("R3d", "in-string macro expansion is bounded: after a macro's value is substituted into an argument (strings.Replace / ReplaceAll assigned back to the argument), every path to the next substitution or to the successful return passes a comparison of the argument's length, whose failure returns an error", 1)
	n := 0
	for _, fi := range funcsOfPkgs(c.P, cfgparserRel) {
		if fi.Decl.Body == nil {
			continue
		}
		var r *RuleCtx
		info := fi.Info()
		for _, pt := range c.P.FlowOfFunc(fi).Points() {
			as, ok := pt.Node().(*ast.AssignStmt)
			if !ok || len(as.Lhs) != 1 || len(as.Rhs) != 1 {
				continue
			}
			call, ok := ast.Unparen(as.Rhs[0]).(*ast.CallExpr)
			if !ok || !isCall(info, call, "strings.Replace", "strings.ReplaceAll", "strings.Replacer.Replace") || len(call.Args) < 3 {
				continue
			}
			str := objOf(info, as.Lhs[0])
			if str == nil || objOf(info, call.Args[0]) != str {
				continue // not a substitution into the same string
			}
			// the substituted text comes from the macro table
			fromTable := false
			for _, d := range defsOfExpr(info, fi.Decl.Body, call.Args[2]) {
				ast.Inspect(d, func(x ast.Node) bool {
					if sel, ok := x.(*ast.SelectorExpr); ok && sel.Sel.Name == "macros" {
						fromTable = true
					}
					return true
				})
			}
			if !fromTable {
				continue
			}
			if r == nil {
				r = &RuleCtx{C: c, FI: fi, F: c.P.FlowOfFunc(fi), Info: info}
				c.SawFunc(fi.Name())
			}
			n++
			guards := func(b *cfgBlock, i int) bool {
				cond, isCase := r.F.Cond(b)
				if cond == nil || isCase {
					return false
				}
				hit := false
				ast.Inspect(cond, func(x ast.Node) bool {
					if lc, ok := x.(*ast.CallExpr); ok && len(lc.Args) == 1 {
						if id, isID := lc.Fun.(*ast.Ident); isID && id.Name == "len" && objOf(info, lc.Args[0]) == str {
							hit = true
						}
					}
					return true
				})
				return hit
			}
			next := func(q Pt) bool {
				if q == pt || r.IsSuccessReturn(q) {
					return true
				}
				return false
			}
			path, f := r.F.Reach(Query{From: []Pt{pt}, Target: next, AvoidEdge: guards})
			c.Hold("R3d", refName(fi.Obj)+":bounded-substitution"+itoa(n), as.Pos(), !f, "a macro's value is substituted into an argument and the next substitution (or the return) is reached without the argument's length having been compared with any bound: `$(m1) = \"x$(m0)$(m0)\"` … doubles the length per line, a 1 KB input makes Read build a 2^41-byte string (it neither returns nor fails): "+r.F.Describe(path))
		}
	}
	if n == 0 {
		c.HoldConst("R3d", "no-in-string-substitution", token.NoPos, true, "")
	}
}

// defsOfExpr: e itself and, when it is a local variable, the right-hand sides assigned to it in body.
func defsOfExpr(info *types.Info, body ast.Node, e ast.Expr) []ast.Node {
	out := []ast.Node{e}
	o := objOf(info, e)
	if o == nil {
		return out
	}
	ast.Inspect(body, func(x ast.Node) bool {
		if as, ok := x.(*ast.AssignStmt); ok && len(as.Lhs) == len(as.Rhs) {
			for i, l := range as.Lhs {
				if objOf(info, l) == o {
					out = append(out, as.Rhs[i])
				}
			}
		}
		return true
	})
	return out
}
