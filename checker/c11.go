package main

import (
	"go/ast"
	"go/constant"
	"go/token"
	"go/types"
	"golang.org/x/tools/go/cfg"
	"sort"
	"strings"
)

func init() { register("C11", checkC11) }

const (
	limitsRel   = "internal/limits"
	limitersRel = "internal/limits/limiters"
	remoteRel   = "internal/target/remote"
)

func checkC11(c *Check) {
	c.explain = "C11 (limits enforced, every permit returned), structural part: each scope's limiter is built from that scope's own constructor list (guard/use agreement, no write-only list); every acquire is paired on all control-flow exits with a release of the same key or an ownership transfer " +
		"(endpoint session, remote target Start/Close, per-destination permit in connectionForDomain and in the Close loop, roll-back inside Group.TakeMsg and MultiLimit); limit operations cannot dereference an absent limiter (nil-returning helper, guard contradictions); " +
		"staleness comparisons have the direction that can ever be true."
	c.notCover = "the run-time invariant '≤ N holders' itself (follows from channel semantics given pairing), reaping of a bucket whose permits are still held, timing."

	c.Rule("L1", "limiter locks: every mutex the package's functions take is released on every path to a return, and nothing unlocks a mutex it does not hold (immediate or deferred; function literals separately)", 2)
	lockBalance(c, "L1", []string{limitersRel, limitsRel}, nil)
	c.Rule("L2", "the bucket table of a BucketSet is only touched while its mutex is held (a permit taken from a bucket that a concurrent reaper just replaced is never given back to the bucket that counts it)", 3)
	locksetRule(c, "L2", limitersRel, "BucketSet", "mLck", []string{"m"}, map[string]string{})

	c11BucketSet(c)
	c11Wiring(c)
	c11FreshPerKey(c)
	c11ConnTable(c)
	c11Pairing(c)
	c11NoCrash(c)
	c11Staleness(c)
	c11Eviction(c)
	c11OutcomeMatchesCase(c)
	c11DestKeyIsTakeKey(c, "R10")
	c11NoNegativeChannelSize(c, "R12")
	c11GrantedMeansTaken(c, "R13")
	c11WrapperReportsInnerAnswer(c, "R14")

	// the endpoint's permits: C03.R5 / C03.immut (acquire/release pairing and key agreement in the SMTP session) are
	// this property's rules for the endpoint scope; they are re-evaluated here.
	c.Rule("R3", "SMTP endpoint: the permit is released with the key it was taken with (C03.R5 take/release pairing, release-key provenance, clean-up releases; C03.immut sender immutable while open)", 3)
	sub := newCheck("C03", c.P, c.Tier)
	checkC03(sub)
	for _, o := range sub.obs {
		if o.Rule != "R5" && o.Rule != "immut" {
			continue
		}
		c.Hold("R3", o.Rule+":"+o.Key, o.posRaw, o.OK, o.Msg)
	}
	c03ReleaseBeforeForgetting(c, "R3e")
	c.Rule("R3d", "a session that the SMTP library replaces (repeated EHLO / LHLO, also in the middle of a BDAT transfer) is logged out by the library or by NewSession: its open transaction is aborted and its permits are given back (C03.A1)", 1)
	for _, o := range sub.obs {
		if o.Rule == "A1" && strings.Contains(o.Key, "replaced") {
			c.Hold("R3d", o.Rule+":"+o.Key, o.posRaw, o.OK, o.Msg)
		}
	}
	for f := range sub.funcs {
		c.SawFunc(f)
	}
	c11KeyAgreement(c)
}

// R3b: the key of the per-sender permit is computed the same way where it is taken and where it is given back: the
// empty key exactly for the empty sender, the domain part of the sender otherwise; the give-back is not skipped
// for the empty sender.
func c11KeyAgreement(c *Check) {
	c.Rule("R3b", "SMTP endpoint: the sender-domain key of TakeMsg / ReleaseMsg is \"\" exactly in the world 'sender is empty' and the domain of address.Split(sender) otherwise – at the take site and at the release site alike; with an empty sender the release is still performed; the address key is the peer's IP for a TCP peer and the stand-in only otherwise", 4)
	type site struct {
		fn     string
		isCall CallPred
		argIdx int
		take   bool
	}
	for _, st := range []site{
		{"startDelivery", calling("~/internal/limits.Group.TakeMsg"), 2, true},
		{"releaseLimits", calling("~/internal/limits.Group.ReleaseMsg"), 1, false},
	} {
		r := c.need("R3b", smtpEndpRel, "Session", st.fn)
		if r == nil {
			continue
		}
		info := r.Info
		calls := r.Calls(st.isCall)
		if len(calls) < 1 {
			c.Fail("R3b", st.fn+":key", r.FI.Decl.Pos(), "undecided: the limiter call was not found")
			continue
		}
		cp := calls[0]
		call := r.CallAt(cp, st.isCall)
		dom, _ := objOf(info, call.Args[st.argIdx]).(*types.Var)
		// the sender: the field s.mailFrom at the release site; at the take site the variable later stored into it
		isSender := func(e ast.Expr) bool {
			e = ast.Unparen(e)
			if fv := fieldOf(info, e); fv != nil && objName(fv) == "mailFrom" {
				return true
			}
			if !st.take {
				return false
			}
			o := objOf(info, e)
			found := false
			ast.Inspect(r.FI.Decl.Body, func(n ast.Node) bool {
				if as, ok := n.(*ast.AssignStmt); ok && len(as.Lhs) == 1 && len(as.Rhs) == 1 {
					if fv := fieldOf(info, as.Lhs[0]); fv != nil && objName(fv) == "mailFrom" && objOf(info, as.Rhs[0]) == o && o != nil {
						found = true
					}
				}
				return true
			})
			return found
		}
		world := func(empty bool) func(b *cfgBlock, i int) bool {
			return r.F.World(func(atom ast.Expr) (bool, bool) {
				if be, ok := ast.Unparen(atom).(*ast.BinaryExpr); ok && (be.Op == token.EQL || be.Op == token.NEQ) && isSender(be.X) {
					if sv, ok := constString(info, be.Y); ok && sv == "" {
						return (be.Op == token.EQL) == empty, true
					}
				}
				return false, false
			})
		}
		// splitDomainOf: local y is the domain result of address.Split(sender) (its only definition)
		splitDomainOf := func(y types.Object) bool {
			found, n := false, 0
			ast.Inspect(r.FI.Decl.Body, func(x ast.Node) bool {
				a2, ok := x.(*ast.AssignStmt)
				if !ok {
					return true
				}
				for i, l := range a2.Lhs {
					if objOf(info, l) != y {
						continue
					}
					n++
					if len(a2.Lhs) == 3 && len(a2.Rhs) == 1 && i == 1 {
						if sc, isC := ast.Unparen(a2.Rhs[0]).(*ast.CallExpr); isC && isCall(info, sc, "~/framework/address.Split") && len(sc.Args) == 1 && isSender(sc.Args[0]) {
							found = true
						}
					}
				}
				return true
			})
			return found && n == 1
		}
		msg := ""
		if dom == nil || dom.IsField() {
			msg = "undecided: the key argument is not a local variable"
		} else {
			kinds := func(empty bool) (sawEmpty, sawSplit, sawOther bool) {
				w := world(empty)
				isDef := func(q Pt) bool {
					return q.Node() != nil && (assignsObj(info, q.Node(), dom) || isZeroStringDecl(info, q.Node(), dom))
				}
				for _, dp := range r.F.Points() {
					if dp.Node() == nil || !isDef(dp) {
						continue
					}
					if _, f := r.F.Reach(Query{From: []Pt{dp}, Target: func(q Pt) bool { return q == cp }, Avoid: func(q Pt) bool { return q != cp && isDef(q) }, AvoidEdge: w}); !f {
						continue
					}
					if _, f := r.F.Reach(Query{From: r.Entry(), Inclusive: true, Target: func(q Pt) bool { return q == dp }, AvoidEdge: w}); !f {
						continue
					}
					as, _ := dp.Node().(*ast.AssignStmt)
					if as != nil && len(as.Lhs) == len(as.Rhs) && len(as.Lhs) > 1 {
						// parallel assignment `domain, err = "", nil`: the component for the key
						for i, l := range as.Lhs {
							if objOf(info, l) == types.Object(dom) {
								as = &ast.AssignStmt{Lhs: []ast.Expr{l}, Tok: as.Tok, Rhs: []ast.Expr{as.Rhs[i]}}
							}
						}
					}
					switch {
					case as == nil && isZeroStringDecl(info, dp.Node(), dom):
						sawEmpty = true
					case as != nil && len(as.Rhs) == 1 && len(as.Lhs) == 1:
						if sv, ok := constString(info, as.Rhs[0]); ok && sv == "" {
							sawEmpty = true
						} else if y := objOf(info, as.Rhs[0]); y != nil && splitDomainOf(y) {
							sawSplit = true // `_, d, err := Split(sender); domain = d`
						} else {
							sawOther = true
						}
					case as != nil && len(as.Rhs) == 1 && len(as.Lhs) == 3:
						if sc, ok := ast.Unparen(as.Rhs[0]).(*ast.CallExpr); ok && isCall(info, sc, "~/framework/address.Split") && len(sc.Args) == 1 && isSender(sc.Args[0]) && objOf(info, as.Lhs[1]) == dom {
							sawSplit = true
						} else {
							sawOther = true
						}
					default:
						sawOther = true
					}
				}
				return
			}
			e1, s1, o1 := kinds(true)
			e2, s2, o2 := kinds(false)
			switch {
			case o1 || o2:
				msg = "the sender-domain key is computed from something other than \"\" / address.Split(sender)"
			case !e1 || s1:
				msg = "for the empty sender the key is not the empty string"
			case e2 || !s2:
				msg = "for a non-empty sender the key is not the domain part of that sender (the permit is taken and given back under different keys: a sender-domain bucket leaks or is released although it was never taken)"
			}
			if msg == "" && !st.take {
				if pth, f := r.F.Reach(Query{From: r.Entry(), Inclusive: true, Target: r.F.IsExitPt, Avoid: isPt(calls), AvoidEdge: world(true)}); f {
					msg = "with the empty (null) sender the permits are not given back: " + r.F.Describe(pth)
				}
			}
		}
		c.Hold("R3b", st.fn+":key", r.Pos(cp), msg == "", msg)

		msg = c11AddrKey(r, cp, call.Args[st.argIdx-1])
		c.Hold("R3b", st.fn+":address-key", r.Pos(cp), msg == "", msg)
	}
	// the remote target takes and releases a message permit under the same kind of key
	for _, st := range []struct {
		recv, fn string
		pred     CallPred
		idx      int
	}{
		{"Target", "Start", calling("~/internal/limits.Group.TakeMsg"), 1},
		{"remoteDelivery", "Close", calling("~/internal/limits.Group.ReleaseMsg"), 0},
	} {
		r := c.need("R3b", remoteRel, st.recv, st.fn)
		if r == nil {
			continue
		}
		calls := r.Calls(st.pred)
		if len(calls) != 1 {
			c.Fail("R3b", "remote."+st.fn+":address-key", r.FI.Decl.Pos(), "undecided: expected one limiter call")
			continue
		}
		call := r.CallAt(calls[0], st.pred)
		msg := c11AddrKey(r, calls[0], call.Args[st.idx])
		c.Hold("R3b", "remote."+st.fn+":address-key", r.Pos(calls[0]), msg == "", msg)
	}
}

// R6: a bucket looked up before an eviction pass is not used afterwards
func c11Eviction(c *Check) {
	p := c.P
	c.Rule("R6", "limiter tables: a value looked up in the table is not used after a pass that may delete entries from the same table (the entry may have been evicted and closed)", 2)
	pk := p.Pkg(limitersRel)
	if pk == nil {
		c.Fail("R6", "package", token.NoPos, "anchor unresolved")
		return
	}
	n := 0
	p.AllFuncs([]*packagesPkg{pk}, func(fi *FuncInfo) {
		info := fi.Info()
		r := &RuleCtx{C: c, FI: fi, F: p.FlowOfFunc(fi), Info: info}
		// lookups: v, ok := M[k] / v := M[k] with M a map field
		for _, pt := range r.F.Points() {
			as, ok := pt.Node().(*ast.AssignStmt)
			if !ok || len(as.Rhs) != 1 {
				continue
			}
			ix, ok := ast.Unparen(as.Rhs[0]).(*ast.IndexExpr)
			if !ok {
				continue
			}
			mf := fieldOf(info, ix.X)
			if mf == nil {
				continue
			}
			if _, isMap := mf.Type().Underlying().(*types.Map); !isMap {
				continue
			}
			v := objOf(info, as.Lhs[0])
			if v == nil {
				continue
			}
			n++
			c.SawFunc(fi.Name())
			deletes := r.F.Find(func(nd ast.Node) bool {
				hit := false
				inspectNoLit(nd, func(x ast.Node) bool {
					if call, ok := x.(*ast.CallExpr); ok {
						if id, ok := call.Fun.(*ast.Ident); ok && (id.Name == "delete" || id.Name == "clear") && len(call.Args) >= 1 && fieldOf(info, call.Args[0]) == mf {
							hit = true
						}
					}
					return true
				})
				return hit
			})
			redef := func(q Pt) bool {
				return q != pt && nodeAssigns(q.Node(), func(l, _ ast.Expr) bool { return objOf(info, l) == v })
			}
			uses := func(q Pt) bool {
				if q == pt {
					return false
				}
				found := false
				inspectNoLit(q.Node(), func(x ast.Node) bool {
					if id, ok := x.(*ast.Ident); ok && info.Uses[id] == v {
						found = true
					}
					return true
				})
				return found
			}
			msg := ""
			for _, d := range deletes {
				_, f1 := r.F.Reach(Query{From: []Pt{pt}, Target: isPt([]Pt{d}), Avoid: redef})
				path, f2 := r.F.Reach(Query{From: []Pt{d}, Target: uses, Avoid: redef})
				if f1 && f2 {
					msg = "the entry read from " + mf.Name() + " is used after entries were deleted from the table: if the eviction removed (and closed) that very entry, the caller gets a limiter that is no longer in the table – the next request for the key creates a fresh one (more than N holders) and the release goes to the wrong one: " + r.F.Describe(path)
				}
			}
			c.Hold("R6", fi.Name()+":"+v.Name(), as.Pos(), msg == "", msg)
		}
	})
	if n == 0 {
		c.Fail("R6", "limiters:lookups", token.NoPos, "undecided: no table lookups found")
	}
}

// ---------------------------------------------------------------------------
// R1

func c11Wiring(c *Check) {
	c.Rule("R1a", "limits.Init: a limiter guarded by `len(X) != 0` is built by ranging over the same list X", 3)
	c.Rule("R1b", "limits.Init: no constructor list is write-only (appended to but never iterated)", 3)
	r := c.need("R1a", limitsRel, "Group", "Init")
	if r == nil {
		return
	}
	info := r.Info
	// (a)
	ast.Inspect(r.FI.Decl.Body, func(n ast.Node) bool {
		is, ok := n.(*ast.IfStmt)
		if !ok {
			return true
		}
		be, ok := ast.Unparen(is.Cond).(*ast.BinaryExpr)
		if !ok {
			return true
		}
		call, ok := ast.Unparen(be.X).(*ast.CallExpr)
		if !ok || len(call.Args) != 1 {
			return true
		}
		if id, ok := call.Fun.(*ast.Ident); !ok || id.Name != "len" {
			return true
		}
		guard := objOf(info, call.Args[0])
		if guard == nil {
			return true
		}
		if _, isSlice := guard.Type().Underlying().(*types.Slice); !isSlice {
			return true
		}
		// which constructor lists does the then-branch use (in a closure, or handed to a helper)? Every local slice of the
		// guard's type that is mentioned there
		var used []types.Object
		ast.Inspect(is.Body, func(x ast.Node) bool {
			id, ok := x.(*ast.Ident)
			if !ok {
				return true
			}
			o, ok := info.Uses[id].(*types.Var)
			if !ok || o.IsField() || o.Parent() == nil || o.Pos() > is.Pos() || !localIn(r.FI.Decl.Body, o) {
				return true
			}
			if _, isSlice := o.Type().Underlying().(*types.Slice); isSlice && types.Identical(o.Type(), guard.Type()) {
				used = append(used, o)
			}
			return true
		})
		if len(used) == 0 {
			return true
		}
		bad := ""
		// the limiter is built exactly when limits were configured for the scope: the guard is true for a non-empty list
		if v, ok := evalExpr(info, is.Cond, func(e ast.Expr) (constantValue, bool) {
			if lc, ok := ast.Unparen(e).(*ast.CallExpr); ok && len(lc.Args) == 1 {
				if id, ok := lc.Fun.(*ast.Ident); ok && id.Name == "len" && objOf(info, lc.Args[0]) == guard {
					return makeInt(1), true
				}
			}
			return nil, false
		}); !ok || !boolVal(v) {
			bad = "the limiter of this scope is not built when limits ARE configured for it (the guard on len(" + guard.Name() + ") has the wrong polarity): the configured limits are never enforced"
		}
		for _, u := range used {
			if u != guard {
				bad = "the limiter guarded by len(" + guard.Name() + ") is built from " + u.Name() + " (the configured limits of this scope are ignored)"
			}
		}
		c.Hold("R1a", "Init:"+guard.Name(), is.Pos(), bad == "", bad)
		return true
	})
	// (b)
	appended := map[types.Object]token.Pos{}
	read := map[types.Object]bool{}
	ast.Inspect(r.FI.Decl.Body, func(n ast.Node) bool {
		switch s := n.(type) {
		case *ast.AssignStmt:
			for i, l := range s.Lhs {
				if i < len(s.Rhs) {
					if o, _ := appendTarget(info, l, s.Rhs[i]); o != nil {
						appended[o] = s.Pos()
					}
				}
			}
		case *ast.RangeStmt:
			if o := objOf(info, s.X); o != nil {
				read[o] = true
			}
		case *ast.KeyValueExpr:
			if o := objOf(info, s.Value); o != nil {
				read[o] = true
			}
		case *ast.IndexExpr:
			if o := objOf(info, s.X); o != nil {
				read[o] = true
			}
		case *ast.CallExpr:
			if id, ok := s.Fun.(*ast.Ident); ok && (id.Name == "len" || id.Name == "cap" || id.Name == "append") {
				return true
			}
			for _, a := range s.Args {
				if o := objOf(info, a); o != nil {
					read[o] = true
				}
			}
		}
		return true
	})
	for o, pos := range appended {
		c.Hold("R1b", "Init:"+o.Name(), pos, read[o], "list "+o.Name()+" is filled from the configuration but never read: the limits configured for this scope have no effect")
	}
}

// ---------------------------------------------------------------------------
// R2

func c11Pairing(c *Check) {
	c.Rule("R2", "every acquired permit is, on every exit, released with the same key or handed to an owner that releases it", 7)
	isTakeDest := calling("~/" + limitsRel + ".Group.TakeDest")
	isRelDest := calling("~/" + limitsRel + ".Group.ReleaseDest")
	isTakeMsg := calling("~/" + limitsRel + ".Group.TakeMsg")
	isRelMsg := calling("~/" + limitsRel + ".Group.ReleaseMsg")

	// (i) connectionForDomain
	if r := c.need("R2", remoteRel, "remoteDelivery", "connectionForDomain"); r != nil {
		info := r.Info
		takes := r.Calls(isTakeDest)
		if len(takes) != 1 {
			c.Fail("R2", "connectionForDomain:take", r.FI.Decl.Pos(), "undecided: expected exactly one TakeDest")
		} else {
			take := r.CallAt(takes[0], isTakeDest)
			released := func(pt Pt) bool {
				call := r.CallAt(pt, isRelDest)
				return call != nil && len(call.Args) == 1 && sameExpr(call.Args[0], take.Args[1])
			}
			owned := func(pt Pt) bool {
				return nodeAssigns(pt.Node(), func(l, _ ast.Expr) bool {
					ix, ok := ast.Unparen(l).(*ast.IndexExpr)
					return ok && isField(info, ix.X, "remoteDelivery", "connections") && sameExpr(ix.Index, take.Args[1])
				})
			}
			found, w, decided := r.OnErr(takes[0], take, true, r.IsNormalExit, orPt(released, owned))
			msg := ""
			if !decided {
				msg = "the result of TakeDest is not checked"
			} else if found {
				msg = "after a successful TakeDest a path returns without ReleaseDest(domain) and without storing the connection in the delivery (whose Close releases it): the destination permit leaks, e.g. when the next hop rejects MAIL FROM: " + w
			}
			c.Hold("R2", "connectionForDomain:dest-permit", r.Pos(takes[0]), msg == "", msg)
		}
	}
	// (ii) remoteDelivery.Close loop: every iteration releases the connection's destination permit
	if r := c.need("R2", remoteRel, "remoteDelivery", "Close"); r != nil {
		info := r.Info
		loops := rangesIn(r.FI.Decl.Body, func(rs *ast.RangeStmt) bool { return isField(info, rs.X, "remoteDelivery", "connections") })
		if len(loops) != 1 {
			c.Fail("R2", "remoteDelivery.Close:loop", r.FI.Decl.Pos(), "undecided: expected one loop over the delivery's connections")
		} else {
			rs := loops[0]
			v := objOf(info, rs.Value)
			rel := func(pt Pt) bool {
				call := r.CallAt(pt, isRelDest)
				if call == nil || len(call.Args) != 1 {
					return false
				}
				s, ok := ast.Unparen(call.Args[0]).(*ast.SelectorExpr)
				return ok && objOf(info, s.X) == v && s.Sel.Name == "domain"
			}
			var bodyStart []Pt
			for _, b := range r.F.G.Blocks {
				if b.Kind == kindRangeBody && b.Stmt == ast.Stmt(rs) {
					bodyStart = append(bodyStart, Pt{b, 0})
				}
			}
			iterEnd := func(pt Pt) bool {
				return (pt.B.Stmt == ast.Stmt(rs) && (pt.B.Kind == kindRangeLoop || pt.B.Kind == kindRangeDone) && pt.I == 0) || r.F.IsExitPt(pt)
			}
			p, f := r.F.Reach(Query{From: bodyStart, Inclusive: true, Target: iterEnd, Avoid: rel})
			c.Hold("R2", "remoteDelivery.Close:dest-permit-per-connection", rs.Pos(), !f, "an iteration over the delivery's connections can finish without ReleaseDest(conn.domain) (e.g. for a connection that is closed instead of pooled): "+r.F.Describe(p))
			// the message permit: every normal exit passes ReleaseMsg, except the exempt Split-error return
			splitCalls := r.Calls(calling("~/framework/address.Split"))
			exempt := func(pt Pt) bool {
				if !r.IsNormalExit(pt) {
					return false
				}
				for _, sp := range splitCalls {
					call := r.CallAt(sp, calling("~/framework/address.Split"))
					if f, _, d := r.OnErr(sp, call, true, isPt([]Pt{pt}), nil); d && !f {
						return true
					}
				}
				return false
			}
			p2, f2 := r.F.Reach(Query{From: r.Entry(), Inclusive: true, Target: func(pt Pt) bool { return r.IsNormalExit(pt) && !exempt(pt) }, Avoid: r.IsCallPt(isRelMsg)})
			if len(splitCalls) > 0 {
				// side-condition of the exception: mailFrom has exactly one store (the literal in Start) and Start split the same string before TakeMsg
				okSide := false
				if st := c.In(remoteRel, "Target", "Start"); st != nil {
					sp := st.Calls(calling("~/framework/address.Split"))
					tk := st.Calls(isTakeMsg)
					if len(sp) > 0 && len(tk) == 1 {
						okSide, _ = st.MustPass(st.Entry(), true, isPt(tk), func(pt Pt) bool {
							// either the split happened or mailFrom == "" was established
							if isPt(sp)(pt) {
								return true
							}
							return false
						})
						if !okSide {
							// the split is guarded by mailFrom != "": accept if the only way around it is the empty-sender edge
							avoid := st.F.AvoidImplying(func(atom ast.Expr) (bool, bool) {
								if be, ok := ast.Unparen(atom).(*ast.BinaryExpr); ok && (be.Op == token.EQL || be.Op == token.NEQ) {
									if s, ok := constString(st.Info, be.Y); ok && s == "" {
										return be.Op == token.EQL, true
									}
								}
								return false, false
							})
							_, f := st.F.Reach(Query{From: st.Entry(), Inclusive: true, Target: isPt(tk), Avoid: isPt(sp), AvoidEdge: avoid})
							okSide = !f
						}
					}
				}
				c.Except("remote.(*remoteDelivery).Close: `return err` after address.Split(rd.mailFrom) – infeasible: Start split the same string before TakeMsg and returned on error")
				c.Hold("R2", "remoteDelivery.Close:exception-side-condition", r.FI.Decl.Pos(), okSide, "the exception for the Split-error return in Close no longer holds: Start does not split the sender before taking the permit")
			}
			c.Hold("R2", "remoteDelivery.Close:msg-permit", r.FI.Decl.Pos(), !f2, "Close can return without ReleaseMsg: "+r.F.Describe(p2))
		}
	}
	// (iii) the code that returns the message permit runs exactly once per finished delivery: it lives in Close (called
	// only from Commit and Abort), or – after a clean-up that merged Close's body into a shared helper – in Commit and
	// Abort themselves (so C01/C03's typestate gives exactly one execution)
	if pk := c.P.Pkg(remoteRel); pk != nil {
		releases := map[*types.Func]bool{}
		c.P.AllFuncs([]*packagesPkg{pk}, func(fi *FuncInfo) {
			if inlinedAwayNow[fi.Obj] {
				return
			}
			for _, call := range callsIn(fi.Decl.Body) {
				if methodName(call) == "ReleaseMsg" {
					releases[fi.Obj] = true
				}
			}
		})
		okCallers, n := true, 0
		why := ""
		for fn := range releases {
			nm := refName(fn)
			if nm != "Close" && nm != "Commit" && nm != "Abort" {
				okCallers, why = false, "the message permit is returned in "+nm
			}
		}
		c.P.AllFuncs([]*packagesPkg{pk}, func(fi *FuncInfo) {
			if inlinedAwayNow[fi.Obj] {
				return
			}
			nm := refName(fi.Obj)
			cnt := 0
			ast.Inspect(fi.Decl.Body, func(x ast.Node) bool {
				if call, ok := x.(*ast.CallExpr); ok {
					if fn := callee(fi.Info(), call); fn != nil && releases[fn] && fn != fi.Obj {
						cnt++
					}
				}
				return true
			})
			if cnt > 0 && nm != "Commit" && nm != "Abort" {
				okCallers, why = false, nm+" calls the function that returns the permits"
			}
			if nm == "Commit" || nm == "Abort" {
				if sig, ok := fi.Obj.Type().(*types.Signature); ok && sig.Recv() != nil && namedOf(sig.Recv().Type()) != nil && objName(namedOf(sig.Recv().Type()).Obj()) == "remoteDelivery" {
					own := 0
					if releases[fi.Obj] {
						own = 1
					}
					if own+cnt == 1 {
						n++
					} else {
						okCallers, why = false, nm+" returns the permits "+itoa(own+cnt)+" times"
					}
				}
			}
		})
		c.Hold("R2", "remoteDelivery.Close:callers", token.NoPos, okCallers && n == 2, "the permits of a remote delivery are not returned exactly once, from Commit and from Abort: "+why)
	}
	// (iv) remote Start: TakeMsg success ⇒ delivery object returned (owner) ; failure ⇒ nil delivery
	if r := c.need("R2", remoteRel, "Target", "Start"); r != nil {
		takes := r.Calls(isTakeMsg)
		if len(takes) == 1 {
			take := r.CallAt(takes[0], isTakeMsg)
			retOwner := func(pt Pt) bool {
				_, ret := r.F.Exit(pt)
				if ret == nil || len(ret.Results) != 2 {
					return false
				}
				return !isNilIdent(r.Info, ret.Results[0]) && isNilIdent(r.Info, ret.Results[1])
			}
			found, w, decided := r.OnErr(takes[0], take, true, func(pt Pt) bool { return r.IsNormalExit(pt) && !retOwner(pt) }, r.IsCallPt(isRelMsg))
			msg := ""
			if !decided {
				msg = "the result of TakeMsg is not checked"
			} else if found {
				msg = "after a successful TakeMsg, Start can return without handing out the delivery that owns the permit and without releasing it: " + w
			}
			c.Hold("R2", "remote.Target.Start:msg-permit", r.Pos(takes[0]), msg == "", msg)
		} else {
			c.Fail("R2", "remote.Target.Start:take", r.FI.Decl.Pos(), "undecided: expected exactly one TakeMsg")
		}
	}
	// (v) Group.TakeMsg roll-back
	if r := c.need("R2", limitsRel, "Group", "TakeMsg"); r != nil {
		info := r.Info
		type stage struct {
			field string
			pt    Pt
			call  *ast.CallExpr
		}
		var stages []stage
		for _, pt := range r.F.Points() {
			for _, call := range callsAt(pt.Node()) {
				if methodName(call) == "TakeContext" || methodName(call) == "Take" {
					if fv := fieldOf(info, callRecv(call)); fv != nil {
						stages = append(stages, stage{objName(fv), pt, call})
					}
				}
			}
		}
		if len(stages) < 3 {
			c.Fail("R2", "Group.TakeMsg:stages", r.FI.Decl.Pos(), "undecided: expected the three stages all/ip/source")
		}
		for k, st := range stages {
			relOf := func(field string) func(Pt) bool {
				return func(pt Pt) bool {
					for _, call := range callsAt(pt.Node()) {
						if methodName(call) == "Release" {
							if fv := fieldOf(info, callRecv(call)); fv != nil && objName(fv) == field {
								return true
							}
						}
						// a method of the group that releases that stage (`g.releaseIP(addr)`)
						if fn := callee(info, call); fn != nil && fn.Pkg() == r.FI.Obj.Pkg() && fn != r.FI.Obj {
							if d := c.P.DeclOf(fn); d != nil && d.Decl.Body != nil {
								for _, c2 := range callsIn(d.Decl.Body) {
									if methodName(c2) == "Release" {
										if fv := fieldOf(d.Info(), callRecv(c2)); fv != nil && objName(fv) == field {
											return true
										}
									}
								}
							}
						}
					}
					return false
				}
			}
			msg := ""
			// a roll-back written as `defer func() { if err != nil { g.x.Release() } }()` right after stage x succeeded: it
			// runs at every return with the error variable it tests; it gives stage x back exactly when the failing stage
			// assigned that very variable (a shadowing `err :=` leaves the tested variable nil)
			stErr := errVarAssigned(info, st.pt.Node(), st.call)
			deferredRelease := func(j int) bool {
				other := stages[j]
				oErr := errVarAssigned(info, other.pt.Node(), other.call)
				var dpts []Pt
				for _, q := range r.F.Points() {
					ds, ok := q.Node().(*ast.DeferStmt)
					if !ok {
						continue
					}
					fl, ok := ast.Unparen(ds.Call.Fun).(*ast.FuncLit)
					if !ok || len(fl.Body.List) != 1 {
						continue
					}
					is, ok := fl.Body.List[0].(*ast.IfStmt)
					if !ok || is.Else != nil || stErr == nil {
						continue
					}
					if ns, isTest := nilTest(info, is.Cond, stErr); !isTest || ns != 1 {
						continue // not `stErr != nil`
					}
					rel := false
					for _, c2 := range callsIn(is.Body) {
						if methodName(c2) == "Release" {
							if fv := fieldOf(info, callRecv(c2)); fv != nil && objName(fv) == other.field {
								rel = true
							}
						}
					}
					if rel {
						dpts = append(dpts, q)
					}
				}
				if len(dpts) == 0 || oErr == nil {
					return false
				}
				// registered on every path from the successful earlier stage to this stage
				_, escapes := r.F.ReachRefined(other.pt, oErr, true, false, func(q Pt) bool { return q == st.pt }, isPt(dpts))
				return !escapes
			}
			// on failure of stage k: every earlier stage is released before returning, stage k and later are not
			for j, other := range stages {
				if j < k && deferredRelease(j) {
					continue
				}
				if j < k {
					// the earlier stage may have been skipped (nil limiter): releasing is required only on paths where it was taken.
					found, w, decided := r.OnErr(st.pt, st.call, false, r.IsNormalExit, relOf(other.field))
					if !decided {
						msg = "the error of stage " + st.field + " is dropped"
					} else if found && j == 0 {
						msg = "stage " + st.field + " failed but the permit of stage " + other.field + " is not returned: " + w
					} else if found {
						// earlier optional stage: the release must at least be attempted under its nil guard: require a release call to exist on some failure path
						f2, _, _ := r.OnErr(st.pt, st.call, false, relOf(other.field), nil)
						if !f2 {
							msg = "stage " + st.field + " failed but the permit of stage " + other.field + " is never returned"
						}
					}
				} else {
					if f, w, _ := r.OnErr(st.pt, st.call, false, relOf(other.field), nil); f {
						msg = "stage " + st.field + " failed and the roll-back releases stage " + other.field + " which was not acquired: " + w
					}
				}
			}
			// failure returns a non-nil error
			if f, w, _ := r.OnErr(st.pt, st.call, false, r.IsSuccessReturn, nil); f {
				msg = "stage " + st.field + " failed but TakeMsg reports success: " + w
			}
			c.Hold("R2", "Group.TakeMsg:rollback:"+st.field, r.Pos(st.pt), msg == "", msg)
		}
	}
	// (v-b) what TakeMsg / TakeDest take, ReleaseMsg / ReleaseDest give back: every limiter field acquired in the taking
	// function is released in its sibling on every path where that field is configured (non-nil)
	for _, pair := range [][2]string{{"TakeMsg", "ReleaseMsg"}, {"TakeDest", "ReleaseDest"}} {
		rt, rr := c.In(limitsRel, "Group", pair[0]), c.In(limitsRel, "Group", pair[1])
		if rt == nil || rr == nil {
			c.Fail("R2", "Group."+pair[1]+":gives-back", token.NoPos, "anchor unresolved")
			continue
		}
		taken := map[string]bool{}
		for _, call := range callsIn(rt.FI.Decl.Body) {
			if m := methodName(call); m == "TakeContext" || m == "Take" {
				if fv := fieldOf(rt.Info, callRecv(call)); fv != nil {
					taken[objName(fv)] = true
				}
			}
		}
		msg := ""
		if len(taken) == 0 {
			msg = "undecided: " + pair[0] + " acquires nothing"
		}
		ri := rr.Info
		for fld := range taken {
			rel := func(pt Pt) bool {
				for _, call := range callsAt(pt.Node()) {
					if methodName(call) == "Release" {
						if fv := fieldOf(ri, callRecv(call)); fv != nil && objName(fv) == fld {
							return true
						}
					}
					// a method of the group that releases that scope when it is configured (`g.releaseIP(addr)`)
					if fn := callee(ri, call); fn != nil && fn.Pkg() == rr.FI.Obj.Pkg() && fn != rr.FI.Obj {
						if d := c.P.DeclOf(fn); d != nil && d.Decl.Body != nil {
							g := c.CtxOf(d)
							gi := g.Info
							grel := func(q Pt) bool {
								for _, c2 := range callsAt(q.Node()) {
									if methodName(c2) == "Release" {
										if fv := fieldOf(gi, callRecv(c2)); fv != nil && objName(fv) == fld {
											return true
										}
									}
								}
								return false
							}
							gw := g.F.World(func(atom ast.Expr) (bool, bool) {
								if be, ok := ast.Unparen(atom).(*ast.BinaryExpr); ok && (be.Op == token.EQL || be.Op == token.NEQ) && isNilIdent(gi, be.Y) {
									if fv := fieldOf(gi, be.X); fv != nil && objName(fv) == fld {
										return be.Op == token.NEQ, true
									}
								}
								return false, false
							})
							if len(g.F.Find(func(n ast.Node) bool { return grel(ptOfNode(g.F, n)) })) > 0 {
								if _, skips := g.F.Reach(Query{From: g.Entry(), Inclusive: true, Target: g.F.IsExitPt, Avoid: grel, AvoidEdge: gw}); !skips {
									return true
								}
							}
						}
					}
				}
				return false
			}
			w := rr.F.World(func(atom ast.Expr) (bool, bool) {
				if be, ok := ast.Unparen(atom).(*ast.BinaryExpr); ok && (be.Op == token.EQL || be.Op == token.NEQ) && isNilIdent(ri, be.Y) {
					if fv := fieldOf(ri, be.X); fv != nil && objName(fv) == fld {
						return be.Op == token.NEQ, true // the limiter of this scope is configured
					}
				}
				return false, false
			})
			if path, f := rr.F.Reach(Query{From: rr.Entry(), Inclusive: true, Target: rr.F.IsExitPt, Avoid: rel, AvoidEdge: w}); f {
				msg = pair[1] + " can return without releasing the permit of scope `" + fld + "` that " + pair[0] + " acquired (the scope fills up and never drains): " + rr.F.Describe(path)
			}
		}
		c.Hold("R2", "Group."+pair[1]+":gives-back", rr.FI.Decl.Pos(), msg == "", msg)
	}
	// (vi) MultiLimit roll-back releases exactly the prefix
	for _, m := range []string{"Take", "TakeContext"} {
		r := c.need("R2", limitersRel, "MultiLimit", m)
		if r == nil {
			continue
		}
		ok, msg := multiLimitRollback(r)
		c.Hold("R2", "MultiLimit."+m+":rollback-prefix", r.FI.Decl.Pos(), ok, msg)
	}
}

// multiLimitRollback: the acquisition loop over the wrapped limiters (any loop form with an index) releases, on a
// failed acquire, exactly the prefix below the failing index – inline, through a snapshot `held := W[:i]`, or in a
// helper of the package that is handed the index.
func multiLimitRollback(r *RuleCtx) (bool, string) {
	info := r.Info
	isWrapped := func(inf *types.Info) func(ast.Expr) bool {
		return func(e ast.Expr) bool { fv := fieldOf(inf, e); return fv != nil && objName(fv) == "Wrapped" }
	}
	var acq *ElemLoop
	for _, l := range elemLoops(info, r.FI.Decl.Body, isWrapped(info)) {
		l := l
		takes := false
		ast.Inspect(l.Body, func(n ast.Node) bool {
			if call, ok := n.(*ast.CallExpr); ok && (methodName(call) == "Take" || methodName(call) == "TakeContext") && callRecv(call) != nil && l.IsElem(callRecv(call)) {
				takes = true
			}
			return true
		})
		if takes && acq == nil {
			acq = l
		}
	}
	if acq == nil {
		return false, "undecided: acquisition loop not recognised"
	}
	idx := acq.Idx
	if idx == nil {
		return false, "undecided: the acquisition loop has no index (the acquired prefix cannot be named)"
	}
	type rel struct {
		ok  bool
		why string
	}
	var rels []rel
	// prefixOf: e denotes list[:bound] / list[0:bound]
	prefixOf := func(inf *types.Info, body ast.Node, e ast.Expr, isList func(ast.Expr) bool, bound types.Object) (bool, bool) {
		e = ast.Unparen(e)
		if o, ok := objOf(inf, e).(*types.Var); ok && !o.IsField() {
			if def, n := localDef(inf, body, o); n == 1 && def != nil {
				e = ast.Unparen(def)
			}
		}
		se, ok := e.(*ast.SliceExpr)
		if !ok {
			return false, false
		}
		lowOK := se.Low == nil
		if se.Low != nil {
			if tv, ok := inf.Types[se.Low]; ok && tv.Value != nil && tv.Value.String() == "0" {
				lowOK = true
			}
		}
		return true, lowOK && isList(se.X) && se.High != nil && objOf(inf, se.High) == bound && bound != nil
	}
	releaseLoops := func(inf *types.Info, body ast.Node) []*ElemLoop {
		var out []*ElemLoop
		for _, l := range elemLoops(inf, body, func(ast.Expr) bool { return true }) {
			l := l
			hasRel := false
			ast.Inspect(l.Body, func(x ast.Node) bool {
				if call, ok := x.(*ast.CallExpr); ok && methodName(call) == "Release" && callRecv(call) != nil && l.IsElem(callRecv(call)) {
					hasRel = true
				}
				return true
			})
			if hasRel {
				out = append(out, l)
			}
		}
		return out
	}
	seen := map[ast.Stmt]bool{}
	for _, l := range releaseLoops(info, acq.Body) {
		seen[l.Stmt] = true
		sliced, okP := prefixOf(info, r.FI.Decl.Body, l.List, isWrapped(info), idx)
		switch {
		case !sliced:
			rels = append(rels, rel{false, "the roll-back ranges over the whole list, not the acquired prefix"})
		case !okP || !l.Whole:
			rels = append(rels, rel{false, "the roll-back releases " + exprStr(l.List) + " instead of the acquired prefix [:" + idx.Name() + "] (it releases a limiter that was not acquired, or skips one that was)"})
		default:
			rels = append(rels, rel{true, ""})
		}
	}
	// hand-written index loops over the prefix
	ast.Inspect(acq.Body, func(n ast.Node) bool {
		s, ok := n.(*ast.ForStmt)
		if !ok || seen[s] {
			return true
		}
		hasRel := false
		ast.Inspect(s.Body, func(x ast.Node) bool {
			if call, ok := x.(*ast.CallExpr); ok && methodName(call) == "Release" {
				hasRel = true
			}
			return true
		})
		if !hasRel {
			return true
		}
		// accepted: j := i-1; j >= 0; j--   or   j := 0; j < i; j++
		okShape := false
		if as, ok := s.Init.(*ast.AssignStmt); ok && len(as.Lhs) == 1 && len(as.Rhs) == 1 {
			j := objOf(info, as.Lhs[0])
			if be, ok := ast.Unparen(as.Rhs[0]).(*ast.BinaryExpr); ok && be.Op == token.SUB && objOf(info, be.X) == idx && exprStr(be.Y) == "1" {
				if cb, ok := ast.Unparen(s.Cond).(*ast.BinaryExpr); ok && cb.Op == token.GEQ && objOf(info, cb.X) == j && exprStr(cb.Y) == "0" {
					okShape = true
				}
			}
			if exprStr(as.Rhs[0]) == "0" {
				if cb, ok := ast.Unparen(s.Cond).(*ast.BinaryExpr); ok && cb.Op == token.LSS && objOf(info, cb.X) == j && objOf(info, cb.Y) == idx {
					okShape = true
				}
			}
		}
		if okShape {
			rels = append(rels, rel{true, ""})
		} else {
			rels = append(rels, rel{false, "the roll-back loop does not cover exactly the indices below the failing one (it starts at or includes index " + idx.Name() + ", releasing a limiter that was not acquired)"})
		}
		return false
	})
	// a helper that is handed the failing index
	for _, call := range callsIn(acq.Body) {
		fn := callee(info, call)
		if fn == nil || fn.Pkg() != r.FI.Obj.Pkg() || fn == r.FI.Obj {
			continue
		}
		d := r.C.P.DeclOf(fn)
		if d == nil || d.Decl.Body == nil {
			continue
		}
		di := d.Info()
		rl := releaseLoops(di, d.Decl.Body)
		if len(rl) == 0 {
			continue
		}
		var bound types.Object
		pi := 0
		for _, f := range d.Decl.Type.Params.List {
			for _, nm := range f.Names {
				if pi < len(call.Args) && objOf(info, call.Args[pi]) == idx {
					bound = di.Defs[nm]
				}
				pi++
			}
		}
		for _, l := range rl {
			sliced, okP := prefixOf(di, d.Decl.Body, l.List, isWrapped(di), bound)
			if sliced && okP && l.Whole && bound != nil {
				rels = append(rels, rel{true, ""})
			} else {
				rels = append(rels, rel{false, "the roll-back helper " + fn.Name() + " does not release exactly the prefix below the failing index (" + exprStr(l.List) + ")"})
			}
		}
	}
	if len(rels) == 0 {
		return false, "on failure of one limiter the ones already acquired are not released"
	}
	for _, x := range rels {
		if !x.ok {
			return false, x.why
		}
	}
	return true, ""
}

// ---------------------------------------------------------------------------
// R4

func c11NoCrash(c *Check) {
	p := c.P
	c.Rule("R4a", "a helper in the limiter packages that can return nil is never dereferenced by a caller without a nil test", 1)
	c.Rule("R4b", "a limiter field that is nil-tested before use in one place is not used unguarded in another", 4)
	var pkgs []*packagesPkg
	for _, rel := range []string{limitsRel, limitersRel} {
		if pk := p.Pkg(rel); pk != nil {
			pkgs = append(pkgs, pk)
		}
	}
	// (a)
	nilRet := map[*types.Func]*FuncInfo{}
	p.AllFuncs(pkgs, func(fi *FuncInfo) {
		sig := fi.Obj.Type().(*types.Signature)
		if sig.Results().Len() != 1 {
			return
		}
		switch sig.Results().At(0).Type().Underlying().(type) {
		case *types.Interface, *types.Pointer, *types.Map:
		default:
			return
		}
		if isErrorType(sig.Results().At(0).Type()) {
			return
		}
		ast.Inspect(fi.Decl.Body, func(n ast.Node) bool {
			if _, ok := n.(*ast.FuncLit); ok {
				return false
			}
			if ret, ok := n.(*ast.ReturnStmt); ok && len(ret.Results) == 1 && isNilIdent(fi.Info(), ret.Results[0]) {
				nilRet[fi.Obj] = fi
			}
			return true
		})
	})
	nA := 0
	p.AllFuncs(pkgs, func(fi *FuncInfo) {
		info := fi.Info()
		r := &RuleCtx{C: c, FI: fi, F: p.FlowOfFunc(fi), Info: info}
		for _, pt := range r.F.Points() {
			as, ok := pt.Node().(*ast.AssignStmt)
			if !ok || len(as.Lhs) != 1 || len(as.Rhs) != 1 {
				continue
			}
			call, ok := ast.Unparen(as.Rhs[0]).(*ast.CallExpr)
			if !ok {
				continue
			}
			fn := callee(info, call)
			if fn == nil || nilRet[fn] == nil {
				continue
			}
			v := objOf(info, as.Lhs[0])
			if v == nil {
				continue
			}
			nA++
			c.SawFunc(fi.Name())
			uses := func(q Pt) bool {
				return derefsUnguarded(info, q.Node(), v)
			}
			// a use reachable while v may be nil: prune the edges that establish v != nil
			path, f := r.F.ReachRefined(pt, v, true, false, uses, nil)
			c.Hold("R4a", fi.Name()+":"+fn.Name(), as.Pos(), !f, shortName(fn)+" can return nil (e.g. when the bucket table is full) and the result is used without a nil test: "+r.F.Describe(path))
		}
	})
	if nA == 0 {
		c.HoldConst("R4a", "limiters:no-nil-returning-helper-is-dereferenced", token.NoPos, true, "")
	}
	// (b) fields of Group that are nil-tested somewhere
	gpk := p.Pkg(limitsRel)
	if gpk == nil {
		return
	}
	tested := map[*types.Var]bool{}
	p.AllFuncs([]*packagesPkg{gpk}, func(fi *FuncInfo) {
		ast.Inspect(fi.Decl.Body, func(n ast.Node) bool {
			if be, ok := n.(*ast.BinaryExpr); ok && (be.Op == token.NEQ || be.Op == token.EQL) && isNilIdent(fi.Info(), be.Y) {
				if fv := fieldOf(fi.Info(), be.X); fv != nil {
					tested[fv] = true
				}
			}
			return true
		})
	})
	p.AllFuncs([]*packagesPkg{gpk}, func(fi *FuncInfo) {
		info := fi.Info()
		r := &RuleCtx{C: c, FI: fi, F: p.FlowOfFunc(fi), Info: info}
		for fv := range tested {
			var usePts []Pt
			for _, pt := range r.F.Points() {
				for _, call := range callsAt(pt.Node()) {
					if fieldOf(info, callRecv(call)) == fv {
						usePts = append(usePts, pt)
					}
				}
			}
			if len(usePts) == 0 {
				continue
			}
			c.SawFunc(fi.Name())
			// every use must be dominated by an edge establishing field != nil
			avoid := r.F.AvoidImplying(func(atom ast.Expr) (bool, bool) {
				if be, ok := ast.Unparen(atom).(*ast.BinaryExpr); ok && (be.Op == token.NEQ || be.Op == token.EQL) && isNilIdent(info, be.Y) && fieldOf(info, be.X) == fv {
					return be.Op == token.NEQ, true
				}
				return false, false
			})
			for _, up := range usePts {
				path, f := r.F.Reach(Query{From: r.Entry(), Inclusive: true, Target: isPt([]Pt{up}), AvoidEdge: avoid})
				c.Hold("R4b", fi.Name()+":"+objName(fv), r.Pos(up), !f, "field "+objName(fv)+" is nil when its scope is not configured (it is nil-tested elsewhere) but is used here without the test (nil dereference): "+r.F.Describe(path))
			}
		}
	})
}

// ---------------------------------------------------------------------------
// R5

func c11Staleness(c *Check) {
	c.Rule("R5", "a staleness test `a.Sub(b) ⋈ d` compares a later instant minus a stored stamp (it can be true)", 1)
	c11StalenessIn(c, "R5", []string{limitersRel, limitsRel, "internal/smtpconn/pool"})
	c11ReaperSparesHeldBuckets(c, "R10")
}

func c11StalenessIn(c *Check, rule string, rels []string) {
	p := c.P
	for _, rel := range rels {
		pk := p.Pkg(rel)
		if pk == nil {
			c.Fail(rule, rel, token.NoPos, "anchor unresolved: package")
			continue
		}
		p.AllFuncs([]*packagesPkg{pk}, func(fi *FuncInfo) {
			info := fi.Info()
			var isNowIn func(f2 *FuncInfo, e ast.Expr, depth int) bool
			isNowIn = func(f2 *FuncInfo, e ast.Expr, depth int) bool {
				inf := f2.Info()
				e = ast.Unparen(e)
				if call, ok := e.(*ast.CallExpr); ok && isCall(inf, call, "time.Now") {
					return true
				}
				o, isVar := objOf(inf, e).(*types.Var)
				if !isVar || o.IsField() {
					return false
				}
				if def, n := localDef(inf, f2.Decl.Body, o); n == 1 && def != nil {
					if call, ok := ast.Unparen(def).(*ast.CallExpr); ok && isCall(inf, call, "time.Now") {
						return true
					}
				}
				// a parameter that every caller in the package binds to "now" (`reapStale(time.Now())`)
				if depth < 2 && f2.Decl.Type.Params != nil && !f2.Obj.Exported() {
					pi, idx := 0, -1
					for _, f := range f2.Decl.Type.Params.List {
						for _, nm := range f.Names {
							if inf.Defs[nm] == types.Object(o) {
								idx = pi
							}
							pi++
						}
					}
					if idx >= 0 {
						sites, all := 0, true
						p.AllFuncs([]*packagesPkg{f2.Pkg}, func(caller *FuncInfo) {
							for _, call := range callsIn(caller.Decl.Body) {
								if callee(caller.Info(), call) == f2.Obj {
									sites++
									if idx >= len(call.Args) || !isNowIn(caller, call.Args[idx], depth+1) {
										all = false
									}
								}
							}
						})
						return sites > 0 && all
					}
				}
				return false
			}
			isNow := func(e ast.Expr) bool { return isNowIn(fi, e, 0) }
			isStamp := func(e ast.Expr) bool {
				e = ast.Unparen(e)
				if fieldOf(info, e) != nil {
					return true
				}
				if call, ok := e.(*ast.CallExpr); ok && strings.HasPrefix(methodName(call), "LastUse") {
					return true
				}
				return false
			}
			ast.Inspect(fi.Decl.Body, func(n ast.Node) bool {
				be, ok := n.(*ast.BinaryExpr)
				if !ok {
					return true
				}
				switch be.Op {
				case token.GTR, token.GEQ, token.LSS, token.LEQ:
				default:
					return true
				}
				for side, e := range []ast.Expr{be.X, be.Y} {
					call, ok := ast.Unparen(e).(*ast.CallExpr)
					if !ok || !isCall(info, call, "time.Time.Sub") || len(call.Args) != 1 {
						continue
					}
					recv, arg := callRecv(call), call.Args[0]
					c.SawFunc(fi.Name())
					key := fi.Name() + ":" + exprStr(e)
					switch {
					case isNow(recv) && isStamp(arg):
						c.Hold(rule, key, be.Pos(), true, "")
					case isStamp(recv) && isNow(arg):
						// stamp - now <= 0: "> d" (d positive) is never true, "< d" always true
						gt := (be.Op == token.GTR || be.Op == token.GEQ) == (side == 0)
						what := "is never true: nothing ever becomes stale (the table is never reaped)"
						if !gt {
							what = "is always true"
						}
						c.Hold(rule, key, be.Pos(), false, "`"+exprStr(be)+"` subtracts the later instant from the stored stamp (a non-positive duration), so the test "+what)
					default:
						// both stamps or both derived from now (timer arithmetic): not a staleness test
					}
				}
				return true
			})
		})
	}
}

// c11AddrKey: the address argument of a TakeMsg / ReleaseMsg call is the peer's IP exactly when the connection has a
// TCP address, and the loopback stand-in otherwise. Decided by a small abstract evaluation of the argument in three
// model worlds – "TCP peer" (every *net.TCPAddr assertion on a net.Addr succeeds, connection and address present),
// "other peer" (the assertion fails), "no address" (connection or address nil, assertion fails) – over reaching
// definitions, through local aliases and through helper functions of the package (each return evaluated).
func c11AddrKey(r *RuleCtx, cp Pt, arg ast.Expr) string {
	want := []struct {
		name           string
		okV, present   bool
		expect, gotMsg string
	}{
		{"a TCP peer", true, true, "peer", "the per-IP limit is applied to, or released for, somebody else"},
		{"a peer without a TCP address", false, true, "standin", "the value of a failed assertion is used (nil address) or the peer is mis-keyed"},
		{"a message without a connection address", false, false, "standin", "an absent address is dereferenced or mis-keyed"},
	}
	for _, w := range want {
		got := c11AbsAddr(r, cp, arg, w.okV, w.present, 0)
		if len(got) != 1 || !got[w.expect] {
			var l []string
			for k := range got {
				l = append(l, k)
			}
			sort.Strings(l)
			return "for " + w.name + " the address key evaluates to {" + strings.Join(l, ",") + "}, expected " + w.expect + ": " + w.gotMsg
		}
	}
	return ""
}

func c11IsTCPAssert(info *types.Info, e ast.Expr) bool {
	ta, ok := ast.Unparen(e).(*ast.TypeAssertExpr)
	if !ok || ta.Type == nil {
		return false
	}
	pt, ok := info.TypeOf(ta.Type).(*types.Pointer)
	if !ok || !typeIs(pt.Elem(), "net", "TCPAddr") {
		return false
	}
	if typeIs(info.TypeOf(ta.X), "net", "Addr") {
		if fv := fieldOf(info, ta.X); fv != nil && objName(fv) == "LocalAddr" {
			return false
		}
		return true
	}
	return false
}

func c11AddrWorld(r *RuleCtx, okV, present bool) func(b *cfgBlock, i int) bool {
	w := c11AddrWorld0(r, okV, present)
	info := r.Info
	return func(b *cfgBlock, i int) bool {
		// `switch a := addr.(type) { case *net.TCPAddr: … }`: the clause is entered exactly for a TCP peer
		// (go/cfg does not list the case types of a type switch: the clause is read off the successor block)
		if len(b.Succs) == 2 && b.Succs[0].Kind == cfg.KindSwitchCaseBody {
			if cc, isCC := b.Succs[0].Stmt.(*ast.CaseClause); isCC && len(cc.List) == 1 {
				if tv, ok := info.Types[cc.List[0]]; ok && tv.IsType() {
					if p, isPtr := tv.Type.(*types.Pointer); isPtr && typeIs(p.Elem(), "net", "TCPAddr") {
						if i == 0 {
							return !okV
						}
						return okV
					}
				}
			}
		}
		return w(b, i)
	}
}

func c11AddrWorld0(r *RuleCtx, okV, present bool) func(b *cfgBlock, i int) bool {
	info := r.Info
	body := r.F.Body
	return r.F.World(func(atom ast.Expr) (bool, bool) {
		if id, isID := ast.Unparen(atom).(*ast.Ident); isID {
			if v, isVar := info.Uses[id].(*types.Var); isVar && isBoolType(v.Type()) {
				if def, _ := localDef(info, body, v); def != nil && c11IsTCPAssert(info, def) {
					return okV, true
				}
			}
		}
		if be, isBin := ast.Unparen(atom).(*ast.BinaryExpr); isBin && (be.Op == token.EQL || be.Op == token.NEQ) && isNilIdent(info, be.Y) {
			t := info.TypeOf(be.X)
			if typeIs(t, "net", "Addr") {
				return (be.Op == token.NEQ) == present, true
			}
			if p, isPtr := t.(*types.Pointer); isPtr && typeIs(p.Elem(), modulePkg, "ConnState") {
				return (be.Op == token.NEQ) == present, true
			}
			if p, isPtr := t.(*types.Pointer); isPtr && typeIs(p.Elem(), "net", "TCPAddr") {
				return (be.Op == token.NEQ) == okV, true // `if tcpAddr != nil` after `tcpAddr, _ := …`
			}
		}
		return false, false
	})
}

// c11AbsAddr evaluates expression e at point at to a set of {peer, standin, zero, other}.
func c11AbsAddr(r *RuleCtx, at Pt, e ast.Expr, okV, present bool, depth int) map[string]bool {
	info := r.Info
	out := map[string]bool{}
	if depth > 6 || e == nil {
		out["other"] = true
		return out
	}
	e = ast.Unparen(e)
	switch x := e.(type) {
	case *ast.SelectorExpr:
		if x.Sel.Name == "IP" {
			for k := range c11AbsAddr(r, at, x.X, okV, present, depth+1) {
				out[k] = true
			}
			return out
		}
	case *ast.UnaryExpr:
		if x.Op == token.AND {
			if cl, ok := ast.Unparen(x.X).(*ast.CompositeLit); ok && typeIs(info.TypeOf(cl), "net", "TCPAddr") {
				out["standin"] = true
				return out
			}
		}
	case *ast.TypeAssertExpr:
		if c11IsTCPAssert(info, x) {
			if okV {
				out["peer"] = true
			} else {
				out["zero"] = true
			}
			return out
		}
	case *ast.CallExpr:
		if isCall(info, x, "net.IPv4", "net.ParseIP") {
			out["standin"] = true
			return out
		}
		if fn := callee(info, x); fn != nil && fn.Pkg() != nil && fn.Pkg() == r.FI.Pkg.Types {
			if d := r.C.P.DeclOf(fn); d != nil && d.Decl.Body != nil {
				g := r.C.CtxOf(d)
				n := 0
				for _, pt := range g.F.Points() {
					ret, ok := pt.Node().(*ast.ReturnStmt)
					if !ok || len(ret.Results) != 1 {
						continue
					}
					// reachable in this world?
					if _, f := g.F.Reach(Query{From: g.Entry(), Inclusive: true, Target: func(q Pt) bool { return q == pt }, AvoidEdge: c11AddrWorld(g, okV, present)}); !f {
						continue
					}
					n++
					for k := range c11AbsAddr(g, pt, ret.Results[0], okV, present, depth+1) {
						out[k] = true
					}
				}
				if n == 0 {
					out["other"] = true
				}
				return out
			}
		}
	case *ast.Ident:
		o, isVar := info.Uses[x].(*types.Var)
		if !isVar || o.IsField() {
			break
		}
		// the variable of a type-switch clause `case *net.TCPAddr`
		implicit := false
		ast.Inspect(r.F.Body, func(n ast.Node) bool {
			if cc, ok := n.(*ast.CaseClause); ok && info.Implicits[cc] == types.Object(o) {
				implicit = true
			}
			return !implicit
		})
		if implicit {
			if p, isPtr := o.Type().(*types.Pointer); isPtr && typeIs(p.Elem(), "net", "TCPAddr") {
				if okV {
					out["peer"] = true
				} else {
					out["zero"] = true
				}
				return out
			}
			out["other"] = true
			return out
		}
		world := c11AddrWorld(r, okV, present)
		isDef := func(q Pt) bool {
			n := q.Node()
			if n == nil {
				return false
			}
			if assignsObj(info, n, o) {
				return true
			}
			if vs, ok := n.(*ast.ValueSpec); ok {
				for _, nm := range vs.Names {
					if info.Defs[nm] == types.Object(o) {
						return true
					}
				}
			}
			return false
		}
		nd := 0
		for _, dp := range r.F.Points() {
			if !isDef(dp) {
				continue
			}
			if _, f := r.F.Reach(Query{From: []Pt{dp}, Target: func(q Pt) bool { return q == at }, Avoid: func(q Pt) bool { return q != at && isDef(q) }, AvoidEdge: world}); !f {
				continue
			}
			if _, f := r.F.Reach(Query{From: r.Entry(), Inclusive: true, Target: func(q Pt) bool { return q == dp }, AvoidEdge: world}); !f {
				continue
			}
			nd++
			var rhs ast.Expr
			switch d := dp.Node().(type) {
			case *ast.AssignStmt:
				for i, l := range d.Lhs {
					if objOf(info, l) == types.Object(o) {
						if len(d.Rhs) == len(d.Lhs) {
							rhs = d.Rhs[i]
						} else if len(d.Rhs) == 1 && i == 0 {
							rhs = d.Rhs[0] // value of a comma-ok form
						}
					}
				}
			case *ast.ValueSpec:
				for i, nm := range d.Names {
					if info.Defs[nm] == types.Object(o) && i < len(d.Values) {
						rhs = d.Values[i]
					}
				}
				if rhs == nil {
					out["zero"] = true
					continue
				}
			}
			if rhs == nil {
				out["other"] = true
				continue
			}
			for k := range c11AbsAddr(r, dp, rhs, okV, present, depth+1) {
				out[k] = true
			}
		}
		if nd == 0 {
			// a parameter: evaluated at the call sites by the caller of this function? not followed – unknown
			out["other"] = true
		}
		return out
	}
	out["other"] = true
	return out
}

// R7: BucketSet enforces. With a constructor configured, Take / TakeContext succeed only as the answer of the
// key's own limiter; without one they are no-ops; a full table refuses; a bucket is created exactly when the key
// has none; Release gives the permit back to the key's limiter.
func c11BucketSet(c *Check) {
	c.Rule("R7", "BucketSet: with a limiter constructor configured Take/TakeContext succeed only as the answer of the key's limiter and Release reaches it; without one they are no-ops; a nil bucket (table full) is refused; take() stores a bucket exactly when the key has none and hands out the stored one", 8)
	newWorld := func(r *RuleCtx, configured bool) func(b *cfgBlock, i int) bool {
		info := r.Info
		return r.F.World(func(atom ast.Expr) (bool, bool) {
			be, ok := ast.Unparen(atom).(*ast.BinaryExpr)
			if !ok || (be.Op != token.EQL && be.Op != token.NEQ) || !isNilIdent(info, be.Y) {
				return false, false
			}
			if fv := fieldOf(info, be.X); fv != nil && objName(fv) == "New" {
				return (be.Op == token.NEQ) == configured, true
			}
			return false, false
		})
	}
	for _, m := range []struct {
		name  string
		inner []string
	}{
		{"Take", []string{"Take"}},
		{"TakeContext", []string{"TakeContext"}},
		{"Release", []string{"Release"}},
	} {
		r := c.need("R7", limitersRel, "BucketSet", m.name)
		if r == nil {
			continue
		}
		info := r.Info
		inner := func(q Pt) bool {
			// a call of the limiter interface method (through the bucket) – also as the returned expression
			hit := false
			n := q.Node()
			if n == nil {
				return false
			}
			inspectNoLit(n, func(x ast.Node) bool {
				if call, ok := x.(*ast.CallExpr); ok && isCall(info, call, "~/"+limitersRel+".L."+m.inner[0]) {
					hit = true
				}
				return true
			})
			return hit
		}
		okExit := func(q Pt) bool {
			k, ret := r.F.Exit(q)
			if k == NotExit || !r.F.IsNormalExit(q) {
				return false
			}
			if ret == nil || len(ret.Results) == 0 {
				return true // Release: any return
			}
			last := ast.Unparen(ret.Results[len(ret.Results)-1])
			if isNilIdent(info, last) {
				return true
			}
			if tv, ok := info.Types[last]; ok && tv.Value != nil && tv.Value.Kind() == constant.Bool {
				return constant.BoolVal(tv.Value)
			}
			return false
		}
		msg := ""
		if path, f := r.F.Reach(Query{From: r.Entry(), Inclusive: true, Target: okExit, Avoid: inner, AvoidEdge: newWorld(r, true)}); f && m.name != "Release" {
			msg = "with a limiter configured, " + m.name + " can succeed without asking the key's limiter (the limit is not enforced): " + r.F.Describe(path)
		} else if _, f := r.F.Reach(Query{From: r.Entry(), Inclusive: true, Target: inner, AvoidEdge: newWorld(r, true)}); !f {
			msg = "with a limiter configured, " + m.name + " never reaches the key's limiter"
		} else if _, f := r.F.Reach(Query{From: r.Entry(), Inclusive: true, Target: inner, AvoidEdge: newWorld(r, false)}); f {
			msg = "without a limiter constructor " + m.name + " still goes to the table (nil constructor is called)"
		} else if _, f := r.F.Reach(Query{From: r.Entry(), Inclusive: true, Target: okExit, AvoidEdge: newWorld(r, false)}); !f {
			msg = "without a limiter constructor " + m.name + " does not succeed (an unconfigured scope refuses everything)"
		}
		c.Hold("R7", "BucketSet."+m.name+":enforces-iff-configured", r.FI.Decl.Pos(), msg == "", msg)
		if m.name == "Release" {
			// the key's bucket: released when it exists, left alone when it does not
			msg := "undecided: no table lookup in Release"
			for _, pt := range r.F.Points() {
				as, isAs := pt.Node().(*ast.AssignStmt)
				if !isAs || len(as.Lhs) != 2 || len(as.Rhs) != 1 {
					continue
				}
				if _, isIx := ast.Unparen(as.Rhs[0]).(*ast.IndexExpr); !isIx {
					continue
				}
				okObj := objOf(info, as.Lhs[1])
				msg = ""
				if path, f := r.F.ReachRefined(pt, okObj, true, true, inner, nil); f {
					msg = "Release dereferences the bucket of a key that has none: " + r.F.Describe(path)
				} else if _, f := r.F.ReachRefined(pt, okObj, false, true, inner, nil); !f {
					msg = "the permit of a key that has a bucket is never given back (the concurrency limit fills up and refuses everybody)"
				}
			}
			c.Hold("R7", "BucketSet.Release:existing-bucket-released", r.FI.Decl.Pos(), msg == "", msg)
			continue
		}
		// nil bucket refused
		take := calling("~/" + limitersRel + ".BucketSet.take")
		msg = "undecided: no call of take"
		for _, pt := range r.Calls(take) {
			as, ok := pt.Node().(*ast.AssignStmt)
			if !ok || len(as.Lhs) != 1 {
				continue
			}
			b := objOf(info, as.Lhs[0])
			msg = ""
			// (a call through the bucket in the right operand of `b != nil && …` does not run for a missing bucket)
			innerDeref := func(q Pt) bool { return inner(q) && derefsUnguarded(info, q.Node(), b) }
			if path, f := r.F.ReachRefined(pt, b, true, false, orPt(okExit, innerDeref), nil); f {
				msg = "when the table is full (no bucket) " + m.name + " succeeds or dereferences the missing bucket: " + r.F.Describe(path)
			}
		}
		c.Hold("R7", "BucketSet."+m.name+":full-table-refused", r.FI.Decl.Pos(), msg == "", msg)
	}
	if r := c.need("R7", limitersRel, "BucketSet", "take"); r != nil {
		info := r.Info
		// the lookup `bucket, ok := r.m[key]`
		var lookPt Pt
		var okObj, bObj types.Object
		for _, pt := range r.F.Points() {
			if as, isAs := pt.Node().(*ast.AssignStmt); isAs && len(as.Lhs) == 2 && len(as.Rhs) == 1 {
				if ix, isIx := ast.Unparen(as.Rhs[0]).(*ast.IndexExpr); isIx {
					if fv := fieldOf(info, ix.X); fv != nil && objName(fv) == "m" {
						lookPt, bObj, okObj = pt, objOf(info, as.Lhs[0]), objOf(info, as.Lhs[1])
					}
				}
			}
		}
		stores := r.Assigns(func(l, _ ast.Expr) bool {
			ix, ok := ast.Unparen(l).(*ast.IndexExpr)
			if !ok {
				return false
			}
			fv := fieldOf(info, ix.X)
			return fv != nil && objName(fv) == "m"
		})
		msg := ""
		switch {
		case okObj == nil || bObj == nil || len(stores) == 0:
			msg = "undecided: the table lookup / the insertion was not found"
		default:
			if path, f := r.F.ReachRefined(lookPt, okObj, false, true, isPt(stores), nil); f {
				msg = "a bucket that exists is replaced by a fresh one (the key's count starts from zero on every call: the limit is never reached): " + r.F.Describe(path)
			} else if path, f := r.F.ReachRefined(lookPt, okObj, true, true, r.IsNormalExitNonNil(info), isPt(stores)); f {
				msg = "for a key without a bucket none is stored before one is handed out: " + r.F.Describe(path)
			}
		}
		c.Hold("R7", "BucketSet.take:insert-iff-missing", r.FI.Decl.Pos(), msg == "", msg)
		// full table: after the eviction pass, in the world 'still over the maximum' the function returns nil
		isOver := func(atom ast.Expr) bool {
			be, ok := ast.Unparen(atom).(*ast.BinaryExpr)
			if !ok || (be.Op != token.GTR && be.Op != token.GEQ) {
				return false
			}
			fv := fieldOf(info, be.Y)
			return fv != nil && objName(fv) == "MaxBuckets"
		}
		over := r.F.World(func(atom ast.Expr) (bool, bool) {
			if isOver(atom) {
				return true, true
			}
			return false, false
		})
		msg = ""
		if okObj != nil {
			if path, f := r.F.Reach(Query{From: r.Entry(), Inclusive: true, Target: func(q Pt) bool { return q == lookPt }, AvoidEdge: over}); f {
				msg = "with the table over its maximum after the eviction pass another bucket is still created (unbounded memory under a flood of keys): " + r.F.Describe(path)
			}
		}
		c.Hold("R7", "BucketSet.take:bounded", r.FI.Decl.Pos(), msg == "" && okObj != nil, msg)
	}
}

// IsNormalExitNonNil: a normal return whose last result is not the nil literal.
func (r *RuleCtx) IsNormalExitNonNil(info *types.Info) func(Pt) bool {
	return func(q Pt) bool {
		k, ret := r.F.Exit(q)
		if k == NotExit || !r.F.IsNormalExit(q) || ret == nil || len(ret.Results) == 0 {
			return false
		}
		return !isNilIdent(info, ret.Results[len(ret.Results)-1])
	}
}

// isZeroStringDecl: `var v string` (or `var v = ""`).
func isZeroStringDecl(info *types.Info, n ast.Node, v types.Object) bool {
	vs, ok := n.(*ast.ValueSpec)
	if !ok {
		return false
	}
	for i, nm := range vs.Names {
		if info.Defs[nm] != v {
			continue
		}
		if i >= len(vs.Values) {
			return true
		}
		sv, isC := constString(info, vs.Values[i])
		return isC && sv == ""
	}
	return false
}

// ---------------------------------------------------------------------------
// R8: a per-key scope counts per key only if every key has limiters of its own. The table (BucketSet) calls the
// constructor it was given once per new key; what that constructor returns must be built inside it. A slice, struct or
// limiter allocated outside the constructor and captured by it is the same object for every key: permits of one
// source domain are counted against – and released into – another's.
func c11FreshPerKey(c *Check) {
	p := c.P
	c.Rule("R8", "the constructor handed to a keyed limiter table builds its result from scratch on every call: of the variables it captures it only ranges over, measures, indexes or calls the configured constructor list – it never stores into, re-slices or returns captured state (one object shared by all keys)", 3)
	n := 0
	p.AllFuncs(p.ServerPkgs(), func(fi *FuncInfo) {
		info := fi.Info()
		body := fi.Decl.Body
		for _, call := range callsIn(body) {
			if !isCall(info, call, "~/internal/limits/limiters.NewBucketSet") || len(call.Args) < 1 {
				continue
			}
			n++
			c.SawFunc(fi.Name())
			key := refName(fi.Obj) + ":table" + itoa(n)
			lits, why := c11CtorLiterals(p, fi, info, call.Args[0], 0)
			if len(lits) == 0 {
				c.Hold("R8", key, call.Pos(), false, "undecided: the constructor is not a function literal the analysis can find ("+why+")")
				continue
			}
			msg := ""
			for _, fl := range lits {
				if m := c11SharedCapture(p, info, fl); m != "" {
					msg = m
				}
			}
			c.Hold("R8", key, call.Pos(), msg == "", msg)
		}
	})
}

// c11CtorLiterals resolves an expression of function type to the function literals it can denote: a literal, a local
// bound once to one, or a call of a function (declared, or a local literal) whose returns are such expressions.
func c11CtorLiterals(p *Prog, fi *FuncInfo, info *types.Info, e ast.Expr, depth int) ([]*ast.FuncLit, string) {
	if depth > 3 {
		return nil, "too deep"
	}
	e = resolveLocal(info, fi.Decl.Body, e)
	switch x := ast.Unparen(e).(type) {
	case *ast.FuncLit:
		return []*ast.FuncLit{x}, ""
	case *ast.CallExpr:
		var bodies []*ast.BlockStmt
		var inner *FuncInfo = fi
		switch f := ast.Unparen(resolveLocal(info, fi.Decl.Body, x.Fun)).(type) {
		case *ast.FuncLit:
			bodies = append(bodies, f.Body)
		default:
			if fn := callee(info, x); fn != nil {
				if d := p.DeclOf(fn); d != nil && d.Decl.Body != nil {
					bodies = append(bodies, d.Decl.Body)
					inner = d
				}
			}
		}
		if len(bodies) == 0 {
			return nil, "call of an unknown function"
		}
		var out []*ast.FuncLit
		why := ""
		for _, b := range bodies {
			inspectNoLit(b, func(y ast.Node) bool {
				if ret, ok := y.(*ast.ReturnStmt); ok && len(ret.Results) >= 1 {
					ls, w := c11CtorLiterals(p, inner, inner.Info(), ret.Results[0], depth+1)
					if len(ls) == 0 {
						why = w
					}
					out = append(out, ls...)
				}
				return true
			})
		}
		if why != "" {
			return nil, why
		}
		return out, ""
	}
	return nil, "not a literal: " + exprStr(e)
}

// c11SharedCapture: a captured variable used other than as a list of constructors.
func c11SharedCapture(p *Prog, info *types.Info, fl *ast.FuncLit) string {
	msg := ""
	var stack []ast.Node
	ast.Inspect(fl.Body, func(n ast.Node) bool {
		if n == nil {
			stack = stack[:len(stack)-1]
			return true
		}
		stack = append(stack, n)
		id, ok := n.(*ast.Ident)
		if !ok {
			return true
		}
		v, isVar := info.Uses[id].(*types.Var)
		if !isVar || v.IsField() || (v.Pkg() != nil && v.Parent() == v.Pkg().Scope()) {
			return true
		}
		if v.Pos() >= fl.Pos() && v.Pos() < fl.End() {
			return true // declared inside the constructor
		}
		switch v.Type().Underlying().(type) {
		case *types.Basic:
			return true // numbers, strings, durations: values, not shared objects
		}
		// the context of the use
		var parent ast.Node
		if len(stack) >= 2 {
			parent = stack[len(stack)-2]
		}
		okUse := false
		switch pn := parent.(type) {
		case *ast.RangeStmt:
			okUse = pn.X == ast.Expr(id)
		case *ast.CallExpr:
			if pn.Fun == ast.Expr(id) {
				okUse = true // the captured constructor is called
			} else if fid, isID := pn.Fun.(*ast.Ident); isID && (fid.Name == "len" || fid.Name == "cap") {
				okUse = true
			}
		case *ast.IndexExpr:
			// ctors[i] read (not on the left of an assignment)
			if pn.X == ast.Expr(id) {
				okUse = true
				if len(stack) >= 3 {
					if as, isAs := stack[len(stack)-3].(*ast.AssignStmt); isAs {
						for _, l := range as.Lhs {
							if l == ast.Expr(pn) {
								okUse = false
							}
						}
					}
				}
			}
		}
		if !okUse {
			msg = "line " + itoa(p.Fset.Position(id.Pos()).Line) + ": the constructor uses captured variable " + id.Name + " as part of what it builds: that object is allocated once, outside the constructor, and is therefore the same for every key of the scope (a new key's bucket replaces / shares the limiters of all existing keys: limits are exceeded and permits are released into the wrong semaphore)"
		}
		return true
	})
	return msg
}

// R2c: the destination permit of a connection is returned by remoteDelivery.Close, which walks the delivery's
// connection table. An entry that leaves the table any other way (delete, a fresh map) takes its permit with it: the
// permit is never returned and, with `destination concurrency N`, N such events block the domain for good.
func c11ConnTable(c *Check) {
	p := c.P
	c.Rule("R2c", "remote target: an entry leaves the delivery's connection table only together with the release of its destination permit (the table is never deleted from or replaced outside the path that calls ReleaseDest)", 1)
	pk := p.Pkg(remoteRel)
	if pk == nil {
		c.Fail("R2c", "package", token.NoPos, "anchor unresolved")
		return
	}
	isRel := calling("~/" + limitsRel + ".Group.ReleaseDest")
	n := 0
	p.AllFuncs([]*packagesPkg{pk}, func(fi *FuncInfo) {
		info := fi.Info()
		var sites []ast.Node
		ast.Inspect(fi.Decl.Body, func(x ast.Node) bool {
			switch s := x.(type) {
			case *ast.CallExpr:
				if id, ok := s.Fun.(*ast.Ident); ok && (id.Name == "delete" || id.Name == "clear") && len(s.Args) >= 1 {
					if fv := fieldOf(info, s.Args[0]); fv != nil && objName(fv) == "connections" {
						sites = append(sites, s)
					}
				}
			case *ast.AssignStmt:
				for _, l := range s.Lhs {
					if fv := fieldOf(info, l); fv != nil && objName(fv) == "connections" {
						if o := fieldOwner(p, fv); o != nil && objName(o.Obj()) == "remoteDelivery" {
							sites = append(sites, s)
						}
					}
				}
			}
			return true
		})
		if len(sites) == 0 {
			return
		}
		r := c.CtxOf(fi)
		rels := r.Calls(isRel)
		for _, s := range sites {
			n++
			pt, ok := r.F.PtOfNode(s)
			msg := ""
			if !ok {
				msg = "undecided: the statement was not found in the flow graph"
			} else if len(rels) == 0 {
				msg = "a connection is removed from the delivery's table (line " + itoa(p.Fset.Position(s.Pos()).Line) + ") in a function that never returns the destination permit taken for it: Close will not see the entry any more – the permit leaks, after N such events `destination concurrency N` blocks the domain"
			} else if okMP, w := r.MustPass([]Pt{pt}, false, r.F.IsExitPt, isPt(rels)); !okMP {
				if okBefore, _ := r.MustPass(r.Entry(), true, func(q Pt) bool { return q == pt }, isPt(rels)); !okBefore {
					msg = "a connection is removed from the delivery's table on a path that does not return its destination permit: " + w
				}
			}
			c.Hold("R2c", refName(fi.Obj)+":table"+itoa(n), s.Pos(), msg == "", msg)
		}
	})
	// the table is created once, where the delivery is created (Start); that literal is not a site above
	c.Hold("R2c", "remoteDelivery.connections:sites", token.NoPos, true, "")
}


// R9: a waiting acquisition is a select between "got the permit" (a send to / receive from the limiter's own channel)
// and "gave up" (context done, timer). What the function reports must be decided by the case that fired: after the
// acquire case only a constant success (or a sentinel for a closed limiter), after a give-up case never a success. A
// result computed after the select from something else (`return ctx.Err()`) can disagree with the case taken: the
// permit is held while the caller is told it got none, and nobody ever returns it.
func c11OutcomeMatchesCase(c *Check) {
	c.Rule("R9", "limiters: in a select between acquiring and giving up, the acquire case leads only to returns of the constant success (or of a package-level sentinel error), a give-up case never to a constant success – the reported outcome is the case that fired, not something re-read afterwards", 2)
	p := c.P
	pk := p.Pkg("internal/limits/limiters")
	if pk == nil {
		c.Fail("R9", "package", token.NoPos, "anchor unresolved")
		return
	}
	info := pk.TypesInfo
	n := 0
	for _, fi := range funcsOfPkgs(p, "internal/limits/limiters") {
		sig := fi.Obj.Type().(*types.Signature)
		if sig.Recv() == nil || sig.Results().Len() != 1 {
			continue
		}
		recvObj := types.Object(nil)
		if fi.Decl.Recv != nil && len(fi.Decl.Recv.List) == 1 && len(fi.Decl.Recv.List[0].Names) == 1 {
			recvObj = info.Defs[fi.Decl.Recv.List[0].Names[0]]
		}
		ownChan := func(e ast.Expr) bool {
			sel, ok := ast.Unparen(e).(*ast.SelectorExpr)
			return ok && fieldOf(info, sel) != nil && recvObj != nil && objOf(info, sel.X) == recvObj
		}
		var r *RuleCtx
		inspectNoLit(fi.Decl.Body, func(x ast.Node) bool {
			sel, ok := x.(*ast.SelectStmt)
			if !ok {
				return true
			}
			hasAcquire := false
			type clause struct {
				cc      *ast.CommClause
				acquire bool
			}
			var cls []clause
			for _, st := range sel.Body.List {
				cc := st.(*ast.CommClause)
				if cc.Comm == nil {
					cls = append(cls, clause{cc, false})
					continue
				}
				acq := false
				switch cm := cc.Comm.(type) {
				case *ast.SendStmt:
					acq = ownChan(cm.Chan)
				case *ast.ExprStmt:
					if u, ok := ast.Unparen(cm.X).(*ast.UnaryExpr); ok && u.Op == token.ARROW {
						acq = ownChan(u.X)
					}
				case *ast.AssignStmt:
					if len(cm.Rhs) == 1 {
						if u, ok := ast.Unparen(cm.Rhs[0]).(*ast.UnaryExpr); ok && u.Op == token.ARROW {
							acq = ownChan(u.X)
						}
					}
				}
				if acq {
					hasAcquire = true
				}
				cls = append(cls, clause{cc, acq})
			}
			if !hasAcquire || len(cls) < 2 {
				return true
			}
			if r == nil {
				r = c.CtxOf(fi)
			}
			c.SawFunc(fi.Name())
			constSuccess := func(e ast.Expr) bool {
				if isNilIdent(info, e) {
					return true
				}
				tv, ok := info.Types[e]
				return ok && tv.Value != nil && tv.Value.String() == "true"
			}
			sentinel := func(e ast.Expr) bool {
				o := objOf(info, e)
				v, ok := o.(*types.Var)
				return ok && v.Pkg() != nil && v.Parent() == v.Pkg().Scope()
			}
			for i, cl := range cls {
				n++
				key := fi.Name() + ":case" + itoa(i+1)
				// start: the first point of the clause (its comm statement, or its body)
				var start []Pt
				for _, b := range r.F.G.Blocks {
					if b.Stmt == ast.Stmt(cl.cc) && b.Kind == kindSelectCaseBody {
						start = append(start, Pt{b, 0})
					}
				}
				if len(start) == 0 {
					if cl.cc.Comm != nil {
						if pt, ok := r.F.PtOfNode(cl.cc.Comm); ok {
							start = append(start, pt)
						}
					}
				}
				if len(start) == 0 {
					c.Fail("R9", key, cl.cc.Pos(), "undecided: select case not located in the control-flow graph")
					continue
				}
				msg := ""
				for _, b := range r.F.G.Blocks {
					q := Pt{b, len(b.Nodes)}
					_, ret := r.F.Exit(q)
					if ret == nil || len(ret.Results) != 1 {
						continue
					}
					if _, reach := r.F.Reach(Query{From: start, Inclusive: true, Target: func(t Pt) bool { return t == q }}); !reach {
						continue
					}
					res := ast.Unparen(ret.Results[0])
					// a plain local (`var err error … return err`) is judged by the definitions that reach this return on
					// a path from this case: those made on the way, and – if the way can avoid them all – those live at
					// the case (a declaration without a value is the zero value: nil / false)
					if v, isVar := objOf(info, res).(*types.Var); isVar && !v.IsField() && !(v.Pkg() != nil && v.Parent() == v.Pkg().Scope()) {
						isDef := func(t Pt) bool {
							if t.Node() == nil {
								return false
							}
							if vs, isSpec := t.Node().(*ast.ValueSpec); isSpec {
								for _, nm := range vs.Names {
									if info.Defs[nm] == v {
										return true
									}
								}
							}
							return assignsObj(info, t.Node(), v)
						}
						rhsOf := func(dp Pt) (ast.Expr, bool) { // (nil, true) = zero value
							switch st := dp.Node().(type) {
							case *ast.AssignStmt:
								for i, l := range st.Lhs {
									if objOf(info, l) == v && len(st.Rhs) == len(st.Lhs) {
										return st.Rhs[i], true
									}
								}
							case *ast.ValueSpec:
								for i, nm := range st.Names {
									if info.Defs[nm] == v {
										if i < len(st.Values) {
											return st.Values[i], true
										}
										return nil, true
									}
								}
							}
							return nil, false
						}
						var vals []ast.Expr
						undecided := false
						add := func(dp Pt) {
							e, ok := rhsOf(dp)
							if !ok {
								undecided = true
								return
							}
							vals = append(vals, e)
						}
						for _, dp := range r.F.Points() {
							if !isDef(dp) {
								continue
							}
							dp := dp
							// made on the way from the case to the return
							if _, f1 := r.F.Reach(Query{From: start, Inclusive: true, Target: func(t Pt) bool { return t == dp }}); f1 {
								if _, f2 := r.F.Reach(Query{From: []Pt{dp}, Target: func(t Pt) bool { return t == q }, Avoid: func(t Pt) bool { return t != dp && isDef(t) }}); f2 {
									add(dp)
								}
							}
						}
						if _, direct := r.F.Reach(Query{From: start, Inclusive: true, Target: func(t Pt) bool { return t == q }, Avoid: func(t Pt) bool { return isDef(t) && !isPt(start)(t) }}); direct {
							for _, dp := range r.F.Points() {
								if !isDef(dp) {
									continue
								}
								dp := dp
								if _, live := r.F.Reach(Query{From: []Pt{dp}, Target: isPt(start), Avoid: func(t Pt) bool { return t != dp && isDef(t) }}); live {
									add(dp)
								}
							}
						}
						if !undecided && len(vals) > 0 {
							allSucc, anySucc := true, false
							for _, e := range vals {
								ok := e == nil || constSuccess(e) || (cl.acquire && sentinel(e))
								if e != nil && !cl.acquire {
									ok = constSuccess(e)
								}
								if ok {
									anySucc = true
								} else {
									allSucc = false
								}
							}
							if cl.acquire && allSucc {
								continue
							}
							if !cl.acquire && !anySucc {
								continue
							}
							if !cl.acquire && anySucc {
								msg = "a give-up case (context done / timer) can end in the constant success at line " + itoa(p.Fset.Position(ret.Pos()).Line) + " (" + v.Name() + " still has its success value there): the caller proceeds without holding a permit and releases one it never took"
								continue
							}
						}
					}
					if cl.acquire {
						if !constSuccess(res) && !sentinel(res) {
							msg = "after the permit was acquired the function returns " + exprStr(res) + " (line " + itoa(p.Fset.Position(ret.Pos()).Line) + "), not the constant success: when that value says 'failed' (the context expired in the same instant) the permit is held but the caller was told it got none – it is never released and the limit shrinks by one for good"
						}
					} else if constSuccess(res) {
						msg = "a give-up case (context done / timer) can end in the constant success at line " + itoa(p.Fset.Position(ret.Pos()).Line) + ": the caller proceeds without holding a permit and releases one it never took"
					}
				}
				c.Hold("R9", key, cl.cc.Pos(), msg == "", msg)
			}
			return true
		})
	}
	if n < 4 {
		c.Fail("R9", "selects", token.NoPos, "undecided: fewer than two acquire/give-up selects found in the limiters package")
	}
}


// derefsUnguarded: node n selects through v (v.f, v.m()) somewhere that is not the right operand of `v != nil && …`
// (nor of `v == nil || …`) – short-circuit evaluation is a nil test.
func derefsUnguarded(info *types.Info, n ast.Node, v types.Object) bool {
	found := false
	var walk func(x ast.Node)
	walk = func(x ast.Node) {
		if x == nil || found {
			return
		}
		inspectNoLit(x, func(y ast.Node) bool {
			if found {
				return false
			}
			if be, ok := y.(*ast.BinaryExpr); ok && (be.Op == token.LAND || be.Op == token.LOR) {
				if ns, isTest := nilTest(info, be.X, v); isTest && ((be.Op == token.LAND && ns == 1) || (be.Op == token.LOR && ns == 0)) {
					walk(be.X)
					return false // the right operand only runs when v is not nil
				}
			}
			if s, ok := y.(*ast.SelectorExpr); ok && objOf(info, s.X) == v {
				found = true
			}
			return true
		})
	}
	walk(n)
	return found
}
