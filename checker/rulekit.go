package main

import (
	"go/ast"
	"go/token"
	"go/types"
	"golang.org/x/tools/go/cfg"
	"strings"
)

// RuleCtx bundles a check, a function and its flow for concise rule code.
type RuleCtx struct {
	C    *Check
	FI   *FuncInfo
	F    *Flow
	Info *types.Info

	nilRet map[Pt]int // mayReturnNil cache: 1 yes, 2 no
}

func (c *Check) In(rel, recv, name string) *RuleCtx {
	fi := c.P.Func(rel, recv, name)
	if fi == nil {
		return nil
	}
	c.SawFunc(fi.Name())
	return &RuleCtx{C: c, FI: fi, F: c.P.FlowOfFunc(fi), Info: fi.Info()}
}

// need resolves an anchor or records the failure under rule.
func (c *Check) need(rule, rel, recv, name string) *RuleCtx {
	r := c.In(rel, recv, name)
	if r == nil {
		n := name
		if recv != "" {
			n = recv + "." + name
		}
		c.Fail(rule, rel+":"+n, token.NoPos, "anchor unresolved: function not found")
	}
	return r
}

func (r *RuleCtx) Entry() []Pt { return []Pt{r.F.Entry()} }

// Calls returns the points that execute a call satisfying pred.
func (r *RuleCtx) Calls(pred CallPred) []Pt {
	return r.F.Find(func(n ast.Node) bool {
		for _, c := range callsAt(n) {
			if pred(r.Info, c) {
				return true
			}
		}
		return false
	})
}

// CallAt returns the first call at pt satisfying pred.
func (r *RuleCtx) CallAt(pt Pt, pred CallPred) *ast.CallExpr {
	for _, c := range callsAt(pt.Node()) {
		if pred(r.Info, c) {
			return c
		}
	}
	return nil
}

func (r *RuleCtx) IsCallPt(pred CallPred) func(Pt) bool { return r.F.PtCalls(pred) }

// Assigns returns the points containing an assignment whose (lhs, rhs) satisfies pred.
func (r *RuleCtx) Assigns(pred func(lhs, rhs ast.Expr) bool) []Pt {
	return r.F.Find(func(n ast.Node) bool { return nodeAssigns(n, pred) })
}

func nodeAssigns(n ast.Node, pred func(lhs, rhs ast.Expr) bool) bool {
	found := false
	if n == nil {
		return false
	}
	inspectNoLit(n, func(x ast.Node) bool {
		if as, ok := x.(*ast.AssignStmt); ok {
			for i, l := range as.Lhs {
				var rhs ast.Expr
				if len(as.Rhs) == len(as.Lhs) {
					rhs = as.Rhs[i]
				} else if len(as.Rhs) == 1 {
					rhs = as.Rhs[0]
				}
				if pred(l, rhs) {
					found = true
				}
			}
		}
		return true
	})
	return found
}

func isPt(pts []Pt) func(Pt) bool {
	return func(p Pt) bool {
		for _, q := range pts {
			if p == q {
				return true
			}
		}
		return false
	}
}

// MustPass: every path from `from` (inclusive entry, or after the given points) to a target passes a via point.
// Returns ok and a witness description if violated.
func (r *RuleCtx) MustPass(from []Pt, inclusive bool, target, via func(Pt) bool) (bool, string) {
	path, found := r.F.Reach(Query{From: from, Inclusive: inclusive, Target: target, Avoid: via})
	if found {
		return false, r.F.Describe(path)
	}
	return true, ""
}

// Reachable: some path from→target (avoiding `avoid`).
func (r *RuleCtx) Reachable(from []Pt, inclusive bool, target, avoid func(Pt) bool) (bool, string) {
	path, found := r.F.Reach(Query{From: from, Inclusive: inclusive, Target: target, Avoid: avoid})
	return found, r.F.Describe(path)
}

// OnErr: paths after call point pt on which the error assigned there is non-nil (wantNil=false) or nil.
func (r *RuleCtx) OnErr(pt Pt, call *ast.CallExpr, wantNil bool, target, avoid func(Pt) bool) (found bool, witness string, ok bool) {
	obj := errVarAssigned(r.Info, pt.Node(), call)
	if obj == nil {
		return false, "", false
	}
	path, f := r.F.ReachRefined(pt, obj, wantNil, false, target, avoid)
	return f, r.F.Describe(path), true
}

func (r *RuleCtx) Line(pt Pt) int {
	if n := pt.Node(); n != nil {
		return r.C.P.Fset.Position(n.Pos()).Line
	}
	return 0
}

func (r *RuleCtx) Pos(pt Pt) token.Pos {
	if n := pt.Node(); n != nil {
		return n.Pos()
	}
	return r.FI.Decl.Pos()
}

// successReturn: a ReturnStmt whose last result is the nil identifier (or a function without error result).
func (r *RuleCtx) IsSuccessReturn(pt Pt) bool {
	if pt.I != len(pt.B.Nodes) {
		return false
	}
	k, ret := r.F.Exit(pt)
	switch k {
	case ExitFallOff:
		return true
	case ExitReturn:
		if len(ret.Results) == 0 {
			return true // bare return: conservatively a success exit
		}
		last := ret.Results[len(ret.Results)-1]
		sig, _ := r.FI.Obj.Type().(*types.Signature)
		sigErr := sig != nil && r.F.Body == r.FI.Decl.Body && sig.Results().Len() > 0 && isErrorType(sig.Results().At(sig.Results().Len()-1).Type())
		if sigErr || isErrorType(r.Info.TypeOf(last)) || isNilIdent(r.Info, last) {
			if isNilIdent(r.Info, last) {
				return true
			}
			// an error variable: a success return iff some definition of it reaches this return with the variable still
			// nil (`return err` under `if err != nil` does not; a tail `return err` after `err = f()` does; so does the
			// slip `if err == nil { return err }`)
			if o := objOf(r.Info, last); o != nil {
				if v, ok := o.(*types.Var); ok && !v.IsField() && v.Parent() != nil && v.Pkg() != nil && v.Parent() != v.Pkg().Scope() && r.F.Body == r.FI.Decl.Body {
					if r.F.KnownNonNil(v) {
						return false
					}
					return r.mayReturnNil(pt, v)
				}
			}
			return false
		}
		return true
	}
	return false
}

func (r *RuleCtx) IsNormalExit(pt Pt) bool { return r.F.IsNormalExit(pt) }

// localDef finds the (single) defining expression of a local variable object inside the function body.
func localDef(info *types.Info, body ast.Node, obj types.Object) (ast.Expr, int) {
	var def ast.Expr
	n := 0
	ast.Inspect(body, func(x ast.Node) bool {
		switch s := x.(type) {
		case *ast.AssignStmt:
			for i, l := range s.Lhs {
				if objOf(info, l) == obj {
					n++
					if len(s.Rhs) == len(s.Lhs) {
						def = s.Rhs[i]
					} else if len(s.Rhs) == 1 {
						def = s.Rhs[0]
					}
				}
			}
		case *ast.ValueSpec:
			for i, nm := range s.Names {
				if info.Defs[nm] == obj {
					n++
					if i < len(s.Values) {
						def = s.Values[i]
					}
				}
			}
		}
		return true
	})
	return def, n
}

// pathSuffix chases a path expression (local variables, filepath.Join, string concatenation) to the constant
// suffix it ends with, e.g. ".meta", ".meta.new". ok=false if the tail is not constant.
func pathSuffix(info *types.Info, body ast.Node, e ast.Expr, depth int) (string, bool) {
	if depth > 8 || e == nil {
		return "", false
	}
	e = ast.Unparen(e)
	if s, ok := constString(info, e); ok {
		return s, true
	}
	switch x := e.(type) {
	case *ast.Ident:
		obj := objOf(info, x)
		if obj == nil {
			return "", false
		}
		def, n := localDef(info, body, obj)
		if n != 1 || def == nil {
			return "", false
		}
		return pathSuffix(info, body, def, depth+1)
	case *ast.BinaryExpr:
		if x.Op != token.ADD {
			return "", false
		}
		r, ok := pathSuffix(info, body, x.Y, depth+1)
		if !ok {
			return "", false
		}
		// extend to the left while constant
		if l, ok := pathSuffix(info, body, x.X, depth+1); ok {
			// only keep the extension part of the left operand (from its last dot)
			if i := strings.LastIndex(l, "."); i >= 0 {
				return l[i:] + r, true
			}
		}
		return r, true
	case *ast.CallExpr:
		if isCall(info, x, "path/filepath.Join", "path.Join") && len(x.Args) > 0 {
			return pathSuffix(info, body, x.Args[len(x.Args)-1], depth+1)
		}
	}
	return "", false
}

// recvObj returns the object of the receiver identifier of a method call x.M(...).
func recvObj(info *types.Info, call *ast.CallExpr) types.Object {
	rc := callRecv(call)
	if rc == nil {
		return nil
	}
	return objOf(info, rc)
}

// sameExpr compares two expressions structurally (by canonical text) – used for path arguments and keys.
func sameExpr(a, b ast.Expr) bool { return a != nil && b != nil && exprStr(a) == exprStr(b) }

// condEdge describes "succ i of the block whose condition satisfies pred".
func (r *RuleCtx) AvoidEdges(pred func(cond ast.Expr, isCase bool) (succ int, ok bool)) func(b *cfgBlock, i int) bool {
	return func(b *cfgBlock, i int) bool {
		cond, isCase := r.F.Cond(b)
		if cond == nil {
			return false
		}
		s, ok := pred(cond, isCase)
		return ok && s == i
	}
}

// mentions: expression e refers to object obj.
func mentions(info *types.Info, e ast.Node, obj types.Object) bool {
	found := false
	if e == nil || obj == nil {
		return false
	}
	ast.Inspect(e, func(n ast.Node) bool {
		if id, ok := n.(*ast.Ident); ok && (info.Uses[id] == obj || info.Defs[id] == obj) {
			found = true
		}
		return !found
	})
	return found
}

// mentionsField: e contains a selector of a field with the given name.
func mentionsField(info *types.Info, e ast.Node, name string) bool {
	found := false
	if e == nil {
		return false
	}
	ast.Inspect(e, func(n ast.Node) bool {
		if s, ok := n.(*ast.SelectorExpr); ok && s.Sel.Name == name && fieldOf(info, s) != nil {
			found = true
		}
		return !found
	})
	return found
}

// rangeOver returns RangeStmts in body whose range expression satisfies pred.
func rangesIn(body ast.Node, pred func(*ast.RangeStmt) bool) []*ast.RangeStmt {
	var out []*ast.RangeStmt
	ast.Inspect(body, func(n ast.Node) bool {
		if rs, ok := n.(*ast.RangeStmt); ok && pred(rs) {
			out = append(out, rs)
		}
		return true
	})
	return out
}

// isAppendTo: expr is `append(x, …)` assigned to x where x denotes obj (local) or field name.
func appendTarget(info *types.Info, lhs, rhs ast.Expr) (types.Object, []ast.Expr) {
	call, ok := ast.Unparen(rhs).(*ast.CallExpr)
	if !ok || len(call.Args) < 1 {
		return nil, nil
	}
	if id, ok := call.Fun.(*ast.Ident); !ok || id.Name != "append" {
		return nil, nil
	} else if _, isB := info.Uses[id].(*types.Builtin); !isB {
		return nil, nil
	}
	lo, ao := objOf(info, lhs), objOf(info, call.Args[0])
	if lo == nil || lo != ao {
		return nil, nil
	}
	return lo, call.Args[1:]
}

// SuccessOnlyFrom decides: the function (single error result) returns nil only as the nil result of one of the
// `granting` calls. Every return is classified by the origin of a possibly-nil value:
//   - a surely non-nil expression (error constructor, composite literal, package-level sentinel): fine;
//   - the literal nil: every path to it passes a granting call, and it is unreachable from the last granting
//     call with that call's error refined to non-nil;
//   - an error variable: for each of its definitions that can be nil (zero declaration, nil, a call result) and
//     that reaches the return with the variable still nil, the definition must be a granting call.
//
// It returns one message per offending return ("" = holds) keyed by return ordinal.
func (r *RuleCtx) SuccessOnlyFrom(granting CallPred) (msgs []string, nGrant int) {
	info := r.Info
	f := r.F
	grantPts := r.Calls(granting)
	nGrant = len(grantPts)
	isGrant := isPt(grantPts)
	surelyNonNil := func(e ast.Expr) bool {
		e = ast.Unparen(e)
		switch x := e.(type) {
		case *ast.CallExpr:
			if isCall(info, x, "fmt.Errorf", "errors.New") {
				return true
			}
			if tv, ok := info.Types[x.Fun]; ok && tv.IsType() && len(x.Args) == 1 {
				return false
			}
			return false
		case *ast.UnaryExpr:
			return x.Op == token.AND
		case *ast.CompositeLit:
			return true
		case *ast.Ident, *ast.SelectorExpr:
			if v, ok := objOf(info, x).(*types.Var); ok && !v.IsField() && v.Pkg() != nil && v.Parent() == v.Pkg().Scope() {
				return true // package-level sentinel error
			}
		}
		return false
	}
	for _, blk := range f.G.Blocks {
		if !blk.Live {
			continue
		}
		pt := Pt{blk, len(blk.Nodes)}
		k, ret := f.Exit(pt)
		if k == ExitFallOff {
			msgs = append(msgs, "the function can fall off its end")
			continue
		}
		if k != ExitReturn || ret == nil {
			continue
		}
		if len(ret.Results) != 1 {
			msgs = append(msgs, "undecided: return with "+itoa(len(ret.Results))+" results (named results are not modelled)")
			continue
		}
		e := ast.Unparen(ret.Results[0])
		line := "line " + itoa(r.C.P.Fset.Position(ret.Pos()).Line)
		retPt := func(q Pt) bool { return q == pt }
		switch {
		case surelyNonNil(e):
			msgs = append(msgs, "")
		case isNilIdent(info, e):
			msg := ""
			if path, found := f.Reach(Query{From: r.Entry(), Inclusive: true, Target: retPt, Avoid: isGrant}); found {
				msg = "`return nil` (" + line + ") is reachable without any granting call: " + f.Describe(path)
			}
			for _, gp := range grantPts {
				call := r.CallAt(gp, granting)
				eo := errVarAssigned(info, gp.Node(), call)
				if eo == nil {
					if rs, ok := gp.Node().(*ast.ReturnStmt); ok && len(rs.Results) == 1 && ast.Unparen(rs.Results[0]) == call {
						continue
					}
					msg = "the result of the granting call at line " + itoa(r.Line(gp)) + " is not kept"
					continue
				}
				if path, found := f.ReachRefined(gp, eo, false, false, retPt, isGrant); found {
					msg = "`return nil` (" + line + ") is reachable after the granting call failed: " + f.Describe(path)
				}
			}
			msgs = append(msgs, msg)
		default:
			if call, ok := e.(*ast.CallExpr); ok && granting(info, call) {
				msgs = append(msgs, "")
				continue
			}
			v, ok := objOf(info, e).(*types.Var)
			if !ok || v.IsField() {
				msgs = append(msgs, "undecided: `return "+exprStr(e)+"` ("+line+") is neither nil, an error constructor, a sentinel nor a local error variable")
				continue
			}
			msg := ""
			// nilOrigins: the non-granting definitions through which variable w can be nil at point `at`
			var nilOrigins func(w *types.Var, at func(Pt) bool, depth int) string
			nilOrigins = func(w *types.Var, at func(Pt) bool, depth int) string {
				res := ""
				for _, dp := range f.Points() {
					n := dp.Node()
					if n == nil {
						continue
					}
					assigned := false
					var rhs ast.Expr
					switch s := n.(type) {
					case *ast.ValueSpec:
						for i, nm := range s.Names {
							if info.Defs[nm] == w {
								assigned = true
								if i < len(s.Values) {
									rhs = s.Values[i]
								}
							}
						}
					case *ast.AssignStmt:
						for i, l := range s.Lhs {
							if objOf(info, l) == w {
								assigned = true
								if len(s.Rhs) == len(s.Lhs) {
									rhs = s.Rhs[i]
								} else if len(s.Rhs) == 1 {
									rhs = s.Rhs[0]
								}
							}
						}
					}
					if !assigned || (rhs != nil && surelyNonNil(rhs)) {
						continue
					}
					if rc, ok := ast.Unparen(rhs).(*ast.CallExpr); ok && granting(info, rc) {
						continue
					}
					others := func(q Pt) bool { return q.Node() != nil && assignsObj(info, q.Node(), w) }
					path, found := f.ReachRefined(dp, w, true, false, at, others)
					if !found {
						continue
					}
					what := "its zero value"
					if rhs != nil {
						what = exprStr(rhs)
						// a copy of another local error variable: nil only if that one can be nil here
						if src, ok := objOf(info, rhs).(*types.Var); ok && !src.IsField() && src != w && depth < 3 && !isParamOrResult(r.FI, src) {
							sub := nilOrigins(src, func(q Pt) bool { return q == dp }, depth+1)
							if sub == "" {
								continue
							}
							res = sub
							continue
						}
					}
					res = "`" + w.Name() + "` can be nil – success – as " + what + " (line " + itoa(r.Line(dp)) + "), not as the result of a granting call: " + f.Describe(path)
				}
				return res
			}
			if m := nilOrigins(v, retPt, 0); m != "" {
				msg = "`return " + v.Name() + "` (" + line + "): " + m
			}
			// parameters and results are not definitions we can see
			if isParamOrResult(r.FI, v) {
				msg = "undecided: `return " + v.Name() + "` returns a parameter/named result"
			}
			msgs = append(msgs, msg)
		}
	}
	return msgs, nGrant
}

// CtxOf builds a rule context for an arbitrary function of the program.
func (c *Check) CtxOf(fi *FuncInfo) *RuleCtx {
	c.SawFunc(fi.Name())
	return &RuleCtx{C: c, FI: fi, F: c.P.FlowOfFunc(fi), Info: fi.Info()}
}

// GateEdges supports the "extracted gate" idiom: `if err := gate(x); err != nil { return … }` where gate is a
// function of the same package. world(g) gives, for a function g, the branch edges that are impossible in the
// situation under consideration (e.g. "the level is below the requirement"). If – in that situation – gate has
// no way to return nil (every reachable return is a surely non-nil error), the caller's edges on which the
// assigned error is nil are impossible too; they are returned as edges to avoid in r.
func (r *RuleCtx) GateEdges(world func(g *RuleCtx) func(b *cfgBlock, i int) bool) func(b *cfgBlock, i int) bool {
	info := r.Info
	gated := map[types.Object]bool{} // error variables that are surely non-nil after their (only) gate call
	for _, pt := range r.F.Points() {
		for _, call := range callsAt(pt.Node()) {
			fn := callee(info, call)
			if fn == nil || fn.Pkg() != r.FI.Obj.Pkg() || fn == r.FI.Obj {
				continue
			}
			sig, _ := fn.Type().(*types.Signature)
			if sig == nil || sig.Results().Len() != 1 || !isErrorType(sig.Results().At(0).Type()) {
				continue
			}
			d := r.C.P.DeclOf(fn)
			if d == nil || d.Decl.Body == nil {
				continue
			}
			eo := errVarAssigned(info, pt.Node(), call)
			if eo == nil {
				continue
			}
			g := r.C.CtxOf(d)
			w := world(g)
			ginfo := g.Info
			mayNil := func(q Pt) bool {
				k, ret := g.F.Exit(q)
				if k == ExitFallOff {
					return true
				}
				if k != ExitReturn || ret == nil {
					return false
				}
				if len(ret.Results) != 1 {
					return true
				}
				switch x := ast.Unparen(ret.Results[0]).(type) {
				case *ast.UnaryExpr:
					return x.Op != token.AND
				case *ast.CompositeLit:
					return false
				case *ast.CallExpr:
					return !isCall(ginfo, x, "fmt.Errorf", "errors.New")
				}
				return true
			}
			if _, found := g.F.Reach(Query{From: g.Entry(), Inclusive: true, Target: mayNil, AvoidEdge: w}); !found {
				if _, n := localDef(info, r.FI.Decl.Body, eo); n == 1 {
					gated[eo] = true
				}
			}
		}
	}
	if len(gated) == 0 {
		return nil
	}
	return func(b *cfgBlock, i int) bool {
		cond, isCase := r.F.Cond(b)
		if cond == nil || isCase {
			return false
		}
		for _, af := range atomsOnEdge(cond, i) {
			for eo := range gated {
				if ns, ok := nilTest(info, af.E, eo); ok {
					// atom true ⇔ (ns==1 ? non-nil : nil); the edge claims nil if (ns==0) == af.T
					if (ns == 0) == af.T {
						return true
					}
				}
			}
		}
		return false
	}
}

func orEdge(fs ...func(b *cfgBlock, i int) bool) func(b *cfgBlock, i int) bool {
	return func(b *cfgBlock, i int) bool {
		for _, f := range fs {
			if f != nil && f(b, i) {
				return true
			}
		}
		return false
	}
}

// ---------------------------------------------------------------------------
// Loops over a collection, independent of the loop form.

// ElemLoop is a loop that visits the elements of a collection:
//
//	for _, x := range L            (x is the element)
//	for i := range L               (L[i] is the element)
//	for i := 0; i < len(L); i++    (L[i] is the element; also with a snapshot `s := L` taken just before)
type ElemLoop struct {
	Stmt  ast.Stmt // *ast.RangeStmt or *ast.ForStmt
	Body  *ast.BlockStmt
	List  ast.Expr     // the collection as written in the loop header
	Val   types.Object // range value variable (nil for index loops)
	Idx   types.Object // index variable (nil if blank)
	Whole bool         // every element is visited unless the body leaves early
	Guard ast.Expr     // extra conjunct of an index loop's condition (`i < len(L) && g`): the loop also ends once g is false; Whole is false then
	info  *types.Info
	fbody ast.Node
}

// IsElem: e denotes the element of the current iteration (the value variable, List[idx], or a local defined once
// inside the body as List[idx]).
func (l *ElemLoop) IsElem(e ast.Expr) bool {
	e = ast.Unparen(e)
	if ix, ok := e.(*ast.IndexExpr); ok {
		return l.Idx != nil && objOf(l.info, ix.Index) == l.Idx && sameListExpr(l.info, ix.X, l.List)
	}
	o := objOf(l.info, e)
	if o == nil {
		return false
	}
	if l.Val != nil && o == l.Val {
		return true
	}
	if localIn(l.Body, o) {
		if def, n := localDef(l.info, l.Body, o); n == 1 && def != nil {
			if ix, ok := ast.Unparen(def).(*ast.IndexExpr); ok {
				return l.Idx != nil && objOf(l.info, ix.Index) == l.Idx && sameListExpr(l.info, ix.X, l.List)
			}
		}
	}
	return false
}

// ElemObj: the variable holding the element, if there is one (value variable or the local defined as List[idx]).
func (l *ElemLoop) ElemObj() types.Object {
	if l.Val != nil {
		return l.Val
	}
	var res types.Object
	ast.Inspect(l.Body, func(n ast.Node) bool {
		if as, ok := n.(*ast.AssignStmt); ok && as.Tok == token.DEFINE && len(as.Lhs) == 1 && len(as.Rhs) == 1 {
			if l.IsElem(as.Rhs[0]) {
				if _, isIx := ast.Unparen(as.Rhs[0]).(*ast.IndexExpr); isIx && res == nil {
					res = l.info.Defs[as.Lhs[0].(*ast.Ident)]
				}
			}
		}
		return true
	})
	return res
}

func sameListExpr(info *types.Info, a, b ast.Expr) bool {
	a, b = ast.Unparen(a), ast.Unparen(b)
	if oa, ob := objOf(info, a), objOf(info, b); oa != nil && ob != nil {
		if _, isSel := a.(*ast.SelectorExpr); !isSel {
			return oa == ob
		}
	}
	return exprStr(a) == exprStr(b)
}

// elemLoops finds the loops over collections accepted by isList. A local snapshot (`s := L; for i := 0; i <
// len(s); i++`) is seen through: isList is also asked about the single definition of a local collection.
func elemLoops(info *types.Info, fbody ast.Node, isList func(e ast.Expr) bool) []*ElemLoop {
	listOK := func(e ast.Expr) bool {
		if isList(e) {
			return true
		}
		if o, ok := objOf(info, e).(*types.Var); ok && !o.IsField() {
			if def, n := localDef(info, fbody, o); n == 1 && def != nil && isList(def) {
				return true
			}
		}
		return false
	}
	var out []*ElemLoop
	ast.Inspect(fbody, func(n ast.Node) bool {
		switch s := n.(type) {
		case *ast.RangeStmt:
			if !listOK(s.X) {
				return true
			}
			l := &ElemLoop{Stmt: s, Body: s.Body, List: s.X, Whole: true, info: info, fbody: fbody}
			if s.Value != nil {
				l.Val = objOf(info, s.Value)
			}
			if s.Key != nil {
				if id, ok := s.Key.(*ast.Ident); !ok || id.Name != "_" {
					l.Idx = objOf(info, s.Key)
				}
			}
			out = append(out, l)
		case *ast.ForStmt:
			// for i := 0; i < len(L); i++
			init, ok := s.Init.(*ast.AssignStmt)
			if !ok || len(init.Lhs) != 1 || len(init.Rhs) != 1 {
				return true
			}
			idx := objOf(info, init.Lhs[0])
			cond, ok := s.Cond.(*ast.BinaryExpr)
			var guard ast.Expr
			if ok && cond.Op == token.LAND {
				if inner, isBin := ast.Unparen(cond.X).(*ast.BinaryExpr); isBin {
					cond, guard = inner, cond.Y
				}
			}
			if !ok || idx == nil || cond.Op != token.LSS || objOf(info, cond.X) != idx {
				return true
			}
			lc, ok := ast.Unparen(cond.Y).(*ast.CallExpr)
			if !ok || len(lc.Args) != 1 {
				return true
			}
			if id, ok := lc.Fun.(*ast.Ident); !ok || id.Name != "len" {
				return true
			}
			if !listOK(lc.Args[0]) {
				return true
			}
			post, ok := s.Post.(*ast.IncDecStmt)
			whole := ok && post.Tok == token.INC && objOf(info, post.X) == idx
			if tv, ok := info.Types[init.Rhs[0]]; !ok || tv.Value == nil || tv.Value.String() != "0" {
				whole = false
			}
			// the index must not be written in the body
			if assignedBetween(info, s.Body, idx, s.Body.Pos(), s.Body.End()) {
				whole = false
			}
			out = append(out, &ElemLoop{Stmt: s, Body: s.Body, List: lc.Args[0], Idx: idx, Whole: whole && guard == nil, Guard: guard, info: info, fbody: fbody})
		}
		return true
	})
	return out
}

// LoopDone: the points reached when the loop has run to completion (not by break / return).
func (f *Flow) LoopDone(l *ElemLoop) []Pt {
	var out []Pt
	for _, b := range f.G.Blocks {
		if b.Stmt == l.Stmt && (b.Kind == cfg.KindRangeDone || b.Kind == cfg.KindForDone) {
			out = append(out, Pt{b, 0})
		}
	}
	return out
}

// LoopBodyStart: the first point of an iteration's body.
func (f *Flow) LoopBodyStart(l *ElemLoop) []Pt {
	var out []Pt
	for _, b := range f.G.Blocks {
		if b.Stmt == l.Stmt && (b.Kind == cfg.KindRangeBody || b.Kind == cfg.KindForBody) {
			out = append(out, Pt{b, 0})
		}
	}
	return out
}

// IterEnd: pt is where an iteration of the loop ends (next iteration's head, the loop's done block) – or a function exit.
func (f *Flow) IterEnd(l *ElemLoop) func(Pt) bool {
	return func(pt Pt) bool {
		if pt.B.Stmt == l.Stmt && pt.I == 0 {
			switch pt.B.Kind {
			case cfg.KindRangeLoop, cfg.KindRangeDone, cfg.KindForPost, cfg.KindForDone:
				return true
			case cfg.KindForLoop:
				return true
			}
		}
		return f.IsExitPt(pt)
	}
}

// reachesCall: fi's body (closures and go statements included) contains a call satisfying pred, directly or
// through functions of the maddy module it calls statically (bounded depth).
func (p *Prog) reachesCall(fi *FuncInfo, pred CallPred, depth int) bool {
	if fi == nil || fi.Decl.Body == nil {
		return false
	}
	info := fi.Info()
	for _, call := range callsIn(fi.Decl.Body) {
		if pred(info, call) {
			return true
		}
		if depth > 0 {
			if fn := callee(info, call); fn != nil && fn.Pkg() != nil && strings.HasPrefix(fn.Pkg().Path(), modPath) && fn != fi.Obj {
				if d := p.DeclOf(fn); d != nil && p.reachesCall(d, pred, depth-1) {
					return true
				}
			}
		}
	}
	return false
}

// resolveLocal: an identifier of a local variable that is defined exactly once stands for its defining expression
// (followed through up to three such definitions).
func resolveLocal(info *types.Info, body ast.Node, e ast.Expr) ast.Expr {
	for i := 0; i < 3; i++ {
		id, ok := ast.Unparen(e).(*ast.Ident)
		if !ok {
			return e
		}
		o, ok := info.Uses[id].(*types.Var)
		if !ok || o.IsField() {
			return e
		}
		def, n := localDef(info, body, o)
		if n != 1 || def == nil {
			return e
		}
		e = def
	}
	return e
}

// resolveLocalAt: like resolveLocal, but a local with several definitions stands for the only one that reaches point
// at (flags set together with it are respected by the path query: `v, ok = "", false … if !ok {return}`).
func (r *RuleCtx) resolveLocalAt(e ast.Expr, at Pt) ast.Expr {
	for i := 0; i < 3; i++ {
		id, ok := ast.Unparen(e).(*ast.Ident)
		if !ok {
			return e
		}
		o, ok := r.Info.Uses[id].(*types.Var)
		if !ok || o.IsField() {
			return e
		}
		def, n := localDef(r.Info, r.FI.Decl.Body, o)
		if n == 1 && def != nil {
			e = def
			continue
		}
		defs, ok := r.ReachingDefs(o, at, nil)
		if !ok || len(defs) != 1 {
			return e
		}
		e = defs[0]
	}
	return e
}

// ReachingDefs: the right-hand sides of the assignments to local variable obj that can reach point at (no other
// assignment to obj in between), on paths that respect avoidEdge. ok=false if a definition without a usable
// right-hand side (tuple assignment, range variable, inc/dec) reaches.
func (r *RuleCtx) ReachingDefs(obj types.Object, at Pt, avoidEdge func(b *cfgBlock, i int) bool) (defs []ast.Expr, ok bool) {
	info := r.Info
	ok = true
	isDef := func(q Pt) bool { return q.Node() != nil && assignsObj(info, q.Node(), obj) }
	for _, dp := range r.F.Points() {
		n := dp.Node()
		if n == nil {
			continue
		}
		var rhs ast.Expr
		assigned := false
		switch s := n.(type) {
		case *ast.AssignStmt:
			for i, l := range s.Lhs {
				if objOf(info, l) == obj {
					assigned = true
					if len(s.Rhs) == len(s.Lhs) && (s.Tok == token.ASSIGN || s.Tok == token.DEFINE) {
						rhs = s.Rhs[i]
					}
				}
			}
		case *ast.ValueSpec:
			for i, nm := range s.Names {
				if info.Defs[nm] == obj {
					assigned = true
					if i < len(s.Values) {
						rhs = s.Values[i]
					}
				}
			}
		default:
			if assignsObj(info, n, obj) {
				assigned = true
			}
		}
		if !assigned {
			continue
		}
		if _, f := r.F.Reach(Query{From: []Pt{dp}, Target: func(q Pt) bool { return q == at }, Avoid: func(q Pt) bool { return q != at && isDef(q) }, AvoidEdge: avoidEdge}); !f {
			continue
		}
		// the definition itself must be reachable in this world
		if _, f := r.F.Reach(Query{From: r.Entry(), Inclusive: true, Target: func(q Pt) bool { return q == dp }, AvoidEdge: avoidEdge}); !f {
			continue
		}
		if rhs == nil {
			ok = false
			continue
		}
		defs = append(defs, rhs)
	}
	return defs, ok
}

// ReachingDefsDeep: like ReachingDefs, but a definition that is a plain copy of another local (`x = y`, as left behind
// when a helper is read in place) is replaced by the definitions of that local reaching the copy.
func (r *RuleCtx) ReachingDefsDeep(obj types.Object, at Pt, avoidEdge func(b *cfgBlock, i int) bool, depth int) (defs []ast.Expr, ok bool) {
	ds, ok := r.ReachingDefs(obj, at, avoidEdge)
	for _, d := range ds {
		if id, isID := ast.Unparen(d).(*ast.Ident); isID && depth < 3 {
			if v, isVar := r.Info.Uses[id].(*types.Var); isVar && !v.IsField() && v != obj && v.Pkg() != nil && v.Parent() != v.Pkg().Scope() {
				if cp, found := r.F.PtOfNode(d); found {
					sub, subOK := r.ReachingDefsDeep(v, cp, avoidEdge, depth+1)
					if len(sub) > 0 || !subOK {
						defs = append(defs, sub...)
						ok = ok && subOK
						continue
					}
				}
			}
		}
		defs = append(defs, d)
	}
	return defs, ok
}

// mayReturnNil: local error variable v is returned at exit point ex; is there a definition of v from which ex is
// reachable with v nil and not redefined? Definitions by surely non-nil expressions are skipped; parameters and
// named results (no visible definition) count as possibly nil only if never assigned. Cached per exit.
func (r *RuleCtx) mayReturnNil(ex Pt, v *types.Var) bool {
	if r.nilRet == nil {
		r.nilRet = map[Pt]int{}
	}
	if c, ok := r.nilRet[ex]; ok {
		return c == 1
	}
	r.nilRet[ex] = 2
	info := r.Info
	res := false
	ndefs := 0
	for _, dp := range r.F.Points() {
		n := dp.Node()
		if n == nil || !assignsObj(info, n, v) {
			if vs, ok := n.(*ast.ValueSpec); ok {
				mine := false
				for _, nm := range vs.Names {
					if info.Defs[nm] == types.Object(v) {
						mine = true
					}
				}
				if !mine {
					continue
				}
			} else {
				continue
			}
		}
		ndefs++
		// surely non-nil right-hand side?
		if as, ok := n.(*ast.AssignStmt); ok && len(as.Lhs) == len(as.Rhs) {
			skip := false
			for i, l := range as.Lhs {
				if objOf(info, l) == types.Object(v) {
					switch x := ast.Unparen(as.Rhs[i]).(type) {
					case *ast.UnaryExpr:
						skip = x.Op == token.AND
					case *ast.CallExpr:
						skip = isCall(info, x, "fmt.Errorf", "errors.New")
					}
				}
			}
			if skip {
				continue
			}
		}
		redef := func(q Pt) bool { return q.Node() != nil && assignsObj(info, q.Node(), v) }
		if _, f := r.F.ReachRefined(dp, v, true, false, func(q Pt) bool { return q == ex }, redef); f {
			res = true
			break
		}
	}
	if ndefs == 0 {
		res = false // a parameter handed through: the caller's business
	}
	if res {
		r.nilRet[ex] = 1
	}
	return res
}

// LoopHeadIs: p is the point at which the loop is entered (the range expression; the init statement or, without
// one, the condition of a counting loop).
func (f *Flow) LoopHeadIs(l *ElemLoop, p Pt) bool {
	n := p.Node()
	if n == nil {
		return false
	}
	switch s := l.Stmt.(type) {
	case *ast.RangeStmt:
		return n == ast.Node(s.X)
	case *ast.ForStmt:
		if s.Init != nil {
			return n == ast.Node(s.Init)
		}
		return s.Cond != nil && n == ast.Node(s.Cond)
	}
	return false
}

// isParamOrResult: v is a parameter, the receiver or a named result of fi (inlined helper bodies bring locals whose
// declarations lie outside fi's own source range, so positions cannot decide this).
func isParamOrResult(fi *FuncInfo, v *types.Var) bool {
	sig := fi.Obj.Type().(*types.Signature)
	if sig.Recv() == v {
		return true
	}
	for i := 0; i < sig.Params().Len(); i++ {
		if sig.Params().At(i) == v {
			return true
		}
	}
	for i := 0; i < sig.Results().Len(); i++ {
		if sig.Results().At(i) == v {
			return true
		}
	}
	return false
}


// copyClosure: obj and every local variable that receives it through plain copies (`x = obj`, also inside parallel
// assignments), transitively; flow-insensitive.
func copyClosure(info *types.Info, body ast.Node, obj types.Object) map[types.Object]bool {
	set := map[types.Object]bool{}
	if obj == nil {
		return set
	}
	set[obj] = true
	for changed := true; changed; {
		changed = false
		ast.Inspect(body, func(n ast.Node) bool {
			as, ok := n.(*ast.AssignStmt)
			if !ok || len(as.Lhs) != len(as.Rhs) {
				return true
			}
			for i, l := range as.Lhs {
				y := objOf(info, as.Rhs[i])
				if y == nil || !set[y] {
					continue
				}
				if _, isID := ast.Unparen(as.Rhs[i]).(*ast.Ident); !isID {
					continue
				}
				if x, isVar := objOf(info, l).(*types.Var); isVar && !x.IsField() && !set[x] {
					set[x] = true
					changed = true
				}
			}
			return true
		})
	}
	return set
}


// ReachBadReturn: is there a path from `from` to a return whose result number idx is "bad"? A result that is a plain
// local variable is judged by the definition that reaches the return on that very path: the query first runs to a
// definition whose right-hand side is bad and then from there to the return without passing another definition
// (what an extracted helper looks like once it is read in place: `res, ok = refusal, false; goto end; …; if !ok { return res }`).
// bad(nil) is asked for a definition without a usable right-hand side (tuple assignment, zero-value declaration).
// Exits that are not return statements with enough results are passed to bad as nil as well.
func (r *RuleCtx) ReachBadReturn(from []Pt, idx int, bad func(e ast.Expr) bool, avoid func(Pt) bool, avoidEdge func(b *cfgBlock, i int) bool) ([]Pt, bool) {
	info := r.Info
	var exits []Pt
	for _, b := range r.F.G.Blocks {
		if b.Live && len(b.Succs) == 0 {
			exits = append(exits, Pt{b, len(b.Nodes)})
		}
	}
	for _, ex := range exits {
		k, ret := r.F.Exit(ex)
		if k == NotExit || k == ExitPanic {
			continue
		}
		var e ast.Expr
		if ret != nil && idx < len(ret.Results) {
			e = ret.Results[idx]
		}
		var v *types.Var
		if e != nil {
			if id, isID := ast.Unparen(e).(*ast.Ident); isID {
				if o, isVar := info.Uses[id].(*types.Var); isVar && !o.IsField() && !(o.Pkg() != nil && o.Parent() == o.Pkg().Scope()) {
					v = o
				}
			}
		}
		isEx := func(q Pt) bool { return q == ex }
		if v == nil {
			if !bad(e) {
				continue
			}
			if path, f := r.F.Reach(Query{From: from, Inclusive: true, Target: isEx, Avoid: avoid, AvoidEdge: avoidEdge}); f {
				return path, true
			}
			continue
		}
		isDef := func(q Pt) bool { return q.Node() != nil && assignsObj(info, q.Node(), v) }
		nDefs := 0
		for _, dp := range r.F.Points() {
			n := dp.Node()
			if n == nil || !assignsObj(info, n, v) {
				continue
			}
			nDefs++
			var rhs ast.Expr
			switch s := n.(type) {
			case *ast.AssignStmt:
				for i, l := range s.Lhs {
					if objOf(info, l) == v && len(s.Rhs) == len(s.Lhs) && (s.Tok == token.ASSIGN || s.Tok == token.DEFINE) {
						rhs = s.Rhs[i]
					}
				}
			case *ast.ValueSpec:
				for i, nm := range s.Names {
					if info.Defs[nm] == v && i < len(s.Values) {
						rhs = s.Values[i]
					}
				}
			}
			if !bad(rhs) {
				continue
			}
			dp := dp
			p1, f1 := r.F.Reach(Query{From: from, Inclusive: true, Target: func(q Pt) bool { return q == dp }, Avoid: avoid, AvoidEdge: avoidEdge})
			if !f1 {
				continue
			}
			p2, f2 := r.F.Reach(Query{From: []Pt{dp}, Inclusive: true, Target: isEx, Avoid: func(q Pt) bool { return q != dp && (isDef(q) || (avoid != nil && avoid(q))) }, AvoidEdge: avoidEdge})
			if f2 {
				return append(p1, p2...), true
			}
		}
		if nDefs == 0 && bad(e) {
			// a parameter or named result never assigned
			if path, f := r.F.Reach(Query{From: from, Inclusive: true, Target: isEx, Avoid: avoid, AvoidEdge: avoidEdge}); f {
				return path, true
			}
		}
	}
	return nil, false
}
