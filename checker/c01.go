package main

import (
	"go/ast"
	"go/constant"
	"go/token"
	"go/types"
	"strings"
)

func init() { register("C01", checkC01) }

const modulePkg = modPath + "/framework/module"

// deliveryMethods of module.Delivery / module.PartialDelivery
func isDeliveryMethod(info *types.Info, call *ast.CallExpr, names ...string) bool {
	fn := callee(info, call)
	if fn == nil {
		return false
	}
	sig, _ := fn.Type().(*types.Signature)
	if sig == nil || sig.Recv() == nil {
		return false
	}
	for _, n := range names {
		if fn.Name() == n {
			return true
		}
	}
	return false
}

// callOn: call is a method call whose receiver identifier denotes one of objs; returns the method name.
func callOn(info *types.Info, call *ast.CallExpr, objs map[types.Object]bool) string {
	o := recvObj(info, call)
	if o == nil || !objs[o] {
		return ""
	}
	return methodName(call)
}

func checkC01(c *Check) {
	c.explain = "C01 (one terminal outcome per recipient), structural part, on the queue's delivery loop: typestate of the downstream delivery in deliver (closed exactly once on every path, Commit only when not all failed); " +
		"every failure of Start/AddRcpt/Body/Commit is recorded for all recipients it concerns; the per-attempt classification in tryDelivery is a partition (delivered / retry / failed) with retry only on the temporary edge and below the attempt bound " +
		"(the bound comparison is evaluated at its boundary); the failure report is decided and handed over before the spool forgets; emitDSN suppresses only for a missing bounce pipeline, a null sender or a generation error. " +
		"The status-key contract below the queue (keys reported by targets equal the queue's own strings) is C09's rule set, evaluated there."
	c.notCover = "behaviour of real remote servers, semantics of third-party error types, the retry delay, what a target's Commit actually does."

	c01Deliver(c)
	c01TryDelivery(c)
	c01EmitDSN(c)
	c01Teardown(c)

	// R3: the status-key contract of the targets below the queue. tryDelivery reads "no recorded error ⇒ delivered",
	// so every key a target reports must be one of the queue's own strings. This is C09's rule set, evaluated here
	// for the outbound targets (remote, smtp/lmtp, smtpconn).
	c.Rule("R3", "targets below the queue report per-recipient results only under the exact strings the queue passed to AddRcpt, once (C09.K1/K1f/K2/K3b/K3c on remote, smtp/lmtp, smtpconn)", 6)
	sub := newCheck("C09", c.P, c.Tier)
	checkC09(sub)
	for _, o := range sub.obs {
		switch o.Rule {
		case "K1", "K1f", "K2", "K3b", "K3c", "K3d", "K6":
		default:
			continue
		}
		if !(strings.Contains(o.Key, "smtp_downstream") || strings.Contains(o.Key, "remote") || strings.Contains(o.Key, "smtpconn") || strings.HasPrefix(o.Key, "C.") || strings.HasPrefix(o.Key, "delivery.") || strings.HasPrefix(o.Key, "remoteDelivery.") || strings.HasPrefix(o.Key, "smtp.")) {
			continue
		}
		c.Hold("R3", o.Rule+":"+o.Key, o.posRaw, o.OK, o.Msg)
	}
	for f := range sub.funcs {
		c.SawFunc(f)
	}

	// R7: a record read back from the spool can be processed. tryDelivery files a failed recipient's error and attempt
	// count in maps of the persisted record; a record whose map comes back nil (never initialised, or initialised empty
	// under an `omitempty` tag) makes the first failing recipient after a restart panic: the message is renamed to
	// *.meta_broken – not delivered, not retried, not reported. This is C02's rule R7, a clause of this property too.
	c.Rule("R7", "the maps of the spooled record that tryDelivery writes are non-nil in every record that can be read back (C02.R7)", 1)
	sub2 := newCheck("C02", c.P, c.Tier)
	c02RecordMaps(sub2)
	for _, o := range sub2.obs {
		if o.Rule == "R7" {
			c.Hold("R7", o.Key, o.posRaw, o.OK, o.Msg)
		}
	}

	// R8: the recipients the queue answers for are the recipients it said yes to, and a target's failure for one of them
	// is found under the string the queue handed to the target. C10.R5 / R6, clauses of "no silent loss" as well.
	c.Rule("R8", "queueDelivery.AddRcpt accepts only after putting the unmodified address on the pending list; partialError.SetStatus files a failure under the key it was called with (C10.R5, C10.R6)", 2)
	sub10 := newCheck("C10", c.P, c.Tier)
	c10Recipients(sub10)
	for _, o := range sub10.obs {
		if o.Rule == "R5" || o.Rule == "R6" {
			c.Hold("R8", o.Rule+":"+o.Key, o.posRaw, o.OK, o.Msg)
		}
	}
	for f := range sub10.funcs {
		c.SawFunc(f)
	}

	// R9: the status kept per failed recipient is what the failure report is written from, and the report writer
	// refuses a recipient block whose status class is 0 – the whole report is then not generated and nothing is handed
	// to the bounce pipeline. The function producing the kept status must therefore never leave a class-0 enhanced code.
	c.Rule("R9", "the status stored per failed recipient (QueueMetadata.RcptErrs) always has a non-zero enhanced-code class: in its producer every store of a run-time enhanced code is guarded by a test that the class digit is set, constants have class 4/5 (the report writer refuses class 0: no report would be emitted)", 2)
	c01StatusClass(c)

	// R10: the failure report is the recipient's terminal outcome. Its writers have mandatory fields (refusing them is
	// a programming error of the caller) and optional ones – guarded by `info.F != ""` – whose content is outside the
	// queue's control: Received-From-MTA is the name the client gave in EHLO/HELO. A value that cannot be represented
	// must cost the field, not the report: an error return inside an optional-field block turns `EHLO xn--0` into "no
	// failure report for any message of this client that fails on its first attempt".
	c.Rule("R10", "failure report writers (internal/dsn): the block of an optional field (guarded by a non-empty test of that field) never returns an error – a value that cannot be represented drops the field, not the report", 3)
	c01OptionalFields(c)

	// R11/R12: clauses anchored under other properties that "no recipient is lost" rests on as well
	c.Rule("R11", "the retry wheel's callback never waits on the wheel's own goroutine (a wedged wheel attempts and reports nothing) (C02.R10)", 1)
	importRules(c, "C02", c02WheelCallback, map[string]bool{"R10": true}, "R11")
	c.Rule("R12", "the record written to the spool differs from the live one in nothing but the stripped connection state: SMTPUTF8 and the other envelope options are there for the attempts that read the record back (a report for an internationalized recipient needs them) (C10.R1c)", 1)
	importRules(c, "C10", checkC10, map[string]bool{"R1c": true}, "R12")
	c02AttemptEndsRemovedOrScheduled(c, "R15")
	c.Rule("R13", "a target that fans the body out over several connections or targets reports each part's outcome for that part's recipients only: a recipient whose server accepted the message is never marked failed by another connection's failure (it would be retried – a duplicate) (C09.K11)", 1)
	importRules(c, "C09", c09PerPartStatus, map[string]bool{"K11": true}, "R13")
	c.Rule("R14", "a permanent answer of the next hop is not turned into a temporary one: smtpconn rewrites 552 to 452 for RCPT only (C16.R9)", 0)
	importRules(c, "C16", func(s *Check) { c16ReplyClassRewrittenForRcptOnly(s, "R9") }, map[string]bool{"R9": true}, "R14")
}

func c01OptionalFields(c *Check) {
	p := c.P
	n := 0
	for _, fi := range funcsOfPkgs(p, "internal/dsn") {
		sig := fi.Obj.Type().(*types.Signature)
		if sig.Recv() == nil || refName(fi.Obj) != "WriteTo" {
			continue
		}
		info := fi.Info()
		var recv types.Object
		if fi.Decl.Recv != nil && len(fi.Decl.Recv.List) == 1 && len(fi.Decl.Recv.List[0].Names) == 1 {
			recv = info.Defs[fi.Decl.Recv.List[0].Names[0]]
		}
		c.SawFunc(fi.Name())
		inspectNoLit(fi.Decl.Body, func(x ast.Node) bool {
			is, ok := x.(*ast.IfStmt)
			if !ok || is.Else != nil {
				return true
			}
			be, ok := ast.Unparen(is.Cond).(*ast.BinaryExpr)
			if !ok || be.Op != token.NEQ {
				return true
			}
			sel, ok := ast.Unparen(be.X).(*ast.SelectorExpr)
			if !ok || recv == nil || objOf(info, sel.X) != recv || fieldOf(info, sel) == nil {
				return true
			}
			if s, isC := constString(info, be.Y); !isC || s != "" {
				return true
			}
			n++
			bad := token.NoPos
			inspectNoLit(is.Body, func(y ast.Node) bool {
				if ret, ok := y.(*ast.ReturnStmt); ok && len(ret.Results) == 1 && !isNilIdent(info, ret.Results[0]) {
					bad = ret.Pos()
				}
				return true
			})
			key := fi.Pkg.Types.Name() + "." + recvTypeName(fi.Decl) + ".WriteTo:" + sel.Sel.Name
			c.Hold("R10", key, is.Pos(), !bad.IsValid(), "the optional report field "+sel.Sel.Name+" makes the whole report fail when its value cannot be represented (return at line "+itoa(p.Fset.Position(bad).Line)+"): the field's content is not under the queue's control (Received-From-MTA is the client's EHLO name – `EHLO xn--0`), the generation error is only logged, nothing reaches the bounce pipeline and the recipient is dropped from the queue")
			return true
		})
	}
	if n < 3 {
		c.Fail("R10", "optional-fields", token.NoPos, "undecided: fewer than three optional fields found in the report writers")
	}
}

// c01StatusClass: see R9.
func c01StatusClass(c *Check) {
	p := c.P
	pk := p.Pkg(queueRel)
	if pk == nil {
		c.Fail("R9", "queue", token.NoPos, "undecided: queue package not loaded")
		return
	}
	info := pk.TypesInfo
	// producers: functions of the package whose result is stored into a RcptErrs element
	producers := map[*types.Func]bool{}
	for _, fi := range funcsOfPkgs(p, queueRel) {
		ast.Inspect(fi.Decl.Body, func(n ast.Node) bool {
			as, ok := n.(*ast.AssignStmt)
			if !ok || len(as.Lhs) != len(as.Rhs) {
				return true
			}
			for i, l := range as.Lhs {
				ix, ok := ast.Unparen(l).(*ast.IndexExpr)
				if !ok || !isField(info, ix.X, "QueueMetadata", "RcptErrs") {
					continue
				}
				if call, ok := ast.Unparen(as.Rhs[i]).(*ast.CallExpr); ok {
					if fn := callee(info, call); fn != nil && fn.Pkg() == pk.Types {
						producers[fn] = true
					}
				}
			}
			return true
		})
	}
	if len(producers) == 0 {
		c.Fail("R9", "producers", token.NoPos, "undecided: no function whose result is stored in QueueMetadata.RcptErrs")
		return
	}
	isEnch := func(e ast.Expr) bool {
		fv := fieldOf(info, e)
		return fv != nil && objName(fv) == "EnhancedCode"
	}
	stripConv := func(e ast.Expr) ast.Expr {
		for {
			e = ast.Unparen(e)
			call, ok := e.(*ast.CallExpr)
			if !ok || len(call.Args) != 1 {
				return e
			}
			if tv, has := info.Types[call.Fun]; !has || !tv.IsType() {
				return e
			}
			e = call.Args[0]
		}
	}
	constClass := func(e ast.Expr) (int64, bool) {
		cl, ok := stripConv(e).(*ast.CompositeLit)
		if !ok || len(cl.Elts) == 0 {
			return 0, ok // an empty literal is class 0
		}
		return constInt(info.Types[cl.Elts[0]])
	}
	for fn := range producers {
		fi := p.DeclOf(fn)
		if fi == nil || fi.Decl.Body == nil {
			continue
		}
		c.SawFunc(fi.Name())
		r := c.CtxOf(fi)
		n := 0
		var judge func(pt Pt, pos token.Pos, rhs ast.Expr, what string)
		judge = func(pt Pt, pos token.Pos, rhs ast.Expr, what string) {
			n++
			key := fi.Name() + ":" + what + itoa(n)
			if cls, isConst := constClass(rhs); isConst {
				c.Hold("R9", key, pos, cls == 4 || cls == 5, "the kept status gets the constant enhanced-code class "+itoa(int(cls))+": the failure report for the recipient cannot be written")
				return
			}
			// a local that holds the default chosen earlier (`defaultCode := EnhancedCode{5,0,0}; if temp { defaultCode = … }`):
			// judged by the definitions that reach this point
			if id, isID := stripConv(rhs).(*ast.Ident); isID && what != "via" {
				if v, isVar := info.Uses[id].(*types.Var); isVar && !v.IsField() && v.Parent() != pk.Types.Scope() {
					if defs, ok := r.ReachingDefsDeep(v, pt, nil, 0); ok && len(defs) > 0 {
						allConst := true
						for _, d := range defs {
							if _, isConst := constClass(d); !isConst {
								allConst = false
							}
						}
						if allConst {
							n--
							for _, d := range defs {
								judge(pt, pos, d, "via")
							}
							return
						}
					}
				}
			}
			src := exprStr(stripConv(rhs))
			// keyed by the kind of source (its type), not by the name a variable happens to have
			srcT := ""
			if t := info.TypeOf(stripConv(rhs)); t != nil {
				srcT = types.TypeString(t, func(p *types.Package) string { return p.Name() })
			}
			if sel, isSel := stripConv(rhs).(*ast.SelectorExpr); isSel {
				if t := info.TypeOf(sel.X); t != nil {
					srcT = types.TypeString(t, func(p *types.Package) string { return p.Name() }) + "." + sel.Sel.Name
				}
			}
			key = fi.Name() + ":" + what + ":" + srcT
			guard := r.F.AvoidImplying(func(atom ast.Expr) (bool, bool) {
				be, ok := ast.Unparen(atom).(*ast.BinaryExpr)
				if !ok {
					return false, false
				}
				// src[0] != 0, src[0] > 0, src[0] == 0 ; src != T{} / src == T{}
				x := ast.Unparen(be.X)
				if ix, isIx := x.(*ast.IndexExpr); isIx {
					if i0, ok := constInt(info.Types[ix.Index]); !ok || i0 != 0 || exprStr(ast.Unparen(ix.X)) != src {
						return false, false
					}
					z, ok := constInt(info.Types[be.Y])
					if !ok {
						return false, false
					}
					switch {
					case z == 0 && (be.Op == token.NEQ || be.Op == token.GTR):
						return true, true
					case z == 0 && (be.Op == token.EQL || be.Op == token.LEQ):
						return false, true
					case z >= 1 && be.Op == token.GEQ:
						return true, true
					case z >= 1 && be.Op == token.LSS:
						return false, true
					}
					return false, false
				}
				if exprStr(x) == src {
					if cl, isLit := ast.Unparen(be.Y).(*ast.CompositeLit); isLit && len(cl.Elts) == 0 {
						switch be.Op {
						case token.NEQ:
							return true, true
						case token.EQL:
							return false, true
						}
					}
				}
				return false, false
			})
			path, f := r.F.Reach(Query{From: r.Entry(), Inclusive: true, Target: func(q Pt) bool { return q == pt }, AvoidEdge: guard})
			c.Hold("R9", key, pos, !f, "the enhanced code "+src+" is copied into the kept status without a test that its class digit is set: a failure whose reply carries no enhanced code (class 0) is stored as such, the report writer refuses it, and no failure report is emitted for the recipients of that attempt: "+r.F.Describe(path))
		}
		for _, pt := range r.F.Points() {
			switch x := pt.Node().(type) {
			case *ast.AssignStmt:
				if len(x.Lhs) != len(x.Rhs) {
					continue
				}
				for i, l := range x.Lhs {
					l = ast.Unparen(l)
					if isEnch(l) {
						judge(pt, x.Pos(), x.Rhs[i], "store")
					} else if ix, ok := l.(*ast.IndexExpr); ok && isEnch(ix.X) {
						if i0, ok := constInt(info.Types[ix.Index]); ok && i0 == 0 {
							n++
							v, isConst := constInt(info.Types[x.Rhs[i]])
							c.Hold("R9", fi.Name()+":class"+itoa(n), x.Pos(), isConst && (v == 4 || v == 5), "the class digit of the kept status is set to something other than the constants 4 / 5")
						}
					}
				}
			}
			// literals of the status type with an EnhancedCode element
			if nd := pt.Node(); nd != nil {
				ast.Inspect(nd, func(y ast.Node) bool {
					if _, isLit := y.(*ast.FuncLit); isLit {
						return false
					}
					cl, ok := y.(*ast.CompositeLit)
					if !ok {
						return true
					}
					for _, el := range cl.Elts {
						if kv, ok := el.(*ast.KeyValueExpr); ok {
							if id, ok := kv.Key.(*ast.Ident); ok && id.Name == "EnhancedCode" {
								if fv, ok := info.Uses[id].(*types.Var); ok && fv.IsField() {
									judge(pt, kv.Pos(), kv.Value, "literal")
								}
							}
						}
					}
					return true
				})
			}
		}
		if n < 2 {
			c.Fail("R9", fi.Name()+":stores", fi.Decl.Pos(), "undecided: fewer than two stores of an enhanced code in the producer of the kept status")
		}
	}
}

func c01Deliver(c *Check) {
	c.Rule("R1", "deliver: from a successful target Start every path closes the delivery exactly once (Commit or Abort), nothing is called on it afterwards, and Commit is only reached when some accepted recipient has no error", 4)
	c.Rule("R2", "deliver: an error of Start / AddRcpt / Body / Commit is recorded for every recipient it concerns before the function returns", 4)
	r := c.need("R1", queueRel, "Queue", "deliver")
	if r == nil {
		return
	}
	info := r.Info
	// the delivery object: LHS of `x, err := <target>.Start(...)`
	var startPt Pt
	var startCall *ast.CallExpr
	objs := map[types.Object]bool{}
	for _, pt := range r.F.Points() {
		as, ok := pt.Node().(*ast.AssignStmt)
		if !ok || len(as.Rhs) != 1 || len(as.Lhs) != 2 {
			continue
		}
		call, ok := ast.Unparen(as.Rhs[0]).(*ast.CallExpr)
		if !ok || qname(callee(info, call)) != modulePkg+".DeliveryTarget.Start" {
			continue
		}
		startPt, startCall = pt, call
		if o := objOf(info, as.Lhs[0]); o != nil {
			objs[o] = true
		}
	}
	if startCall == nil {
		c.Fail("R1", "deliver:start", r.FI.Decl.Pos(), "undecided: no call of DeliveryTarget.Start found")
		return
	}
	// aliases: y, ok := x.(T)
	ast.Inspect(r.FI.Decl.Body, func(n ast.Node) bool {
		if as, ok := n.(*ast.AssignStmt); ok && len(as.Rhs) == 1 {
			if ta, ok := ast.Unparen(as.Rhs[0]).(*ast.TypeAssertExpr); ok {
				if o := objOf(info, ta.X); o != nil && objs[o] {
					if a := objOf(info, as.Lhs[0]); a != nil {
						objs[a] = true
					}
				}
			}
		}
		return true
	})
	onDelivery := func(names ...string) func(Pt) bool {
		return func(pt Pt) bool {
			for _, call := range callsAt(pt.Node()) {
				m := callOn(info, call, objs)
				for _, n := range names {
					if m == n {
						return true
					}
				}
			}
			return false
		}
	}
	anyOnDelivery := func(pt Pt) bool {
		for _, call := range callsAt(pt.Node()) {
			if callOn(info, call, objs) != "" {
				return true
			}
		}
		return false
	}
	closing := onDelivery("Commit", "Abort")
	errObj := errVarAssigned(info, startPt.Node(), startCall)
	// (a) closed on every path after a successful Start
	p, f := r.F.ReachRefined(startPt, errObj, true, false, r.IsNormalExit, closing)
	c.Hold("R1", "deliver:closed-on-all-paths", r.Pos(startPt), !f, "a path returns with the downstream delivery neither committed nor aborted: "+r.F.Describe(p))
	// (b) at most once, (c) no use after close
	closePts := r.F.Find(func(n ast.Node) bool { return closing(ptOfNode(r.F, n)) })
	bad, bad2 := "", ""
	for _, cp := range closePts {
		if p, f := r.F.Reach(Query{From: []Pt{cp}, Target: closing}); f {
			bad = "the delivery can be closed twice: " + r.F.Describe(p)
		}
		if p, f := r.F.Reach(Query{From: []Pt{cp}, Target: anyOnDelivery}); f {
			bad2 = "the delivery is used after it was closed: " + r.F.Describe(p)
		}
	}
	c.Hold("R1", "deliver:closed-at-most-once", r.FI.Decl.Pos(), bad == "" && len(closePts) >= 2, bad)
	c.Hold("R1", "deliver:no-use-after-close", r.FI.Decl.Pos(), bad2 == "", bad2)
	// failure of Start: nothing may be called on the (nil) delivery
	p, f = r.F.ReachRefined(startPt, errObj, false, false, anyOnDelivery, nil)
	c.Hold("R1", "deliver:no-use-after-failed-start", r.Pos(startPt), !f, "the delivery is used although Start failed: "+r.F.Describe(p))
	// (d) Commit guarded by "not all failed"
	commitPts := r.F.Find(func(n ast.Node) bool { return onDelivery("Commit")(ptOfNode(r.F, n)) })
	c01CommitGuard(c, r, commitPts)

	// ---- R2
	// the partialError value: the local whose field Errs is stored to
	isErrsStore := func(lhs ast.Expr) (key ast.Expr, ok bool) {
		ix, isIx := ast.Unparen(lhs).(*ast.IndexExpr)
		if !isIx {
			return nil, false
		}
		if isField(info, ix.X, "partialError", "Errs") {
			return ix.Index, true
		}
		return nil, false
	}
	// Closures (and functions of the package) that fan an error out over a list. Two shapes: `func(err error)` ranging
	// a fixed list, and `func(rcpts []string, err error)` ranging its list parameter.
	type fan struct {
		fixed   types.Object // the list ranged, if it is not a parameter
		listIdx int          // index of the list parameter (-1 if fixed)
		errIdx  int          // index of the error parameter
	}
	fanOf := func(inf *types.Info, ft *ast.FuncType, body *ast.BlockStmt) (fan, bool) {
		var prms []types.Object
		if ft.Params != nil {
			for _, f := range ft.Params.List {
				for _, nm := range f.Names {
					prms = append(prms, inf.Defs[nm])
				}
			}
		}
		for _, l := range elemLoops(inf, body, func(e ast.Expr) bool {
			sl, ok := inf.TypeOf(e).Underlying().(*types.Slice)
			return ok && isStringType(sl.Elem())
		}) {
			if !l.Whole {
				continue
			}
			l := l
			errIdx := -1
			ast.Inspect(l.Body, func(x ast.Node) bool {
				if a2, ok := x.(*ast.AssignStmt); ok && len(a2.Lhs) == 1 && len(a2.Rhs) == 1 {
					if ix, isIx := ast.Unparen(a2.Lhs[0]).(*ast.IndexExpr); isIx && isField(inf, ix.X, "partialError", "Errs") && l.IsElem(ix.Index) {
						for i, po := range prms {
							if objOf(inf, a2.Rhs[0]) == po && po != nil {
								errIdx = i
							}
						}
					}
				}
				return true
			})
			if errIdx < 0 {
				continue
			}
			escape := false
			inspectNoLit(l.Body, func(x ast.Node) bool {
				switch b := x.(type) {
				case *ast.BranchStmt:
					escape = escape || b.Tok != token.FALLTHROUGH
				case *ast.ReturnStmt:
					escape = true
				}
				return true
			})
			if escape {
				continue
			}
			lo := objOf(inf, l.List)
			for i, po := range prms {
				if lo == po && po != nil {
					return fan{listIdx: i, errIdx: errIdx}, true
				}
			}
			return fan{fixed: lo, listIdx: -1, errIdx: errIdx}, true
		}
		return fan{}, false
	}
	fanout := map[types.Object]fan{}
	ast.Inspect(r.FI.Decl.Body, func(n ast.Node) bool {
		as, ok := n.(*ast.AssignStmt)
		if !ok || len(as.Lhs) != 1 || len(as.Rhs) != 1 {
			return true
		}
		fl, ok := as.Rhs[0].(*ast.FuncLit)
		if !ok {
			return true
		}
		if fn, ok := fanOf(info, fl.Type, fl.Body); ok {
			if o := objOf(info, as.Lhs[0]); o != nil {
				fanout[o] = fn
			}
		}
		return true
	})
	// fanCall: the call records eo for every element of which list?
	fanCall := func(call *ast.CallExpr, eo types.Object) (ast.Expr, types.Object, bool) {
		var fn fan
		found := false
		if id, ok := call.Fun.(*ast.Ident); ok {
			fn, found = fanout[objOf(info, id)]
		}
		if !found {
			if cf := callee(info, call); cf != nil && cf.Pkg() == r.FI.Obj.Pkg() {
				if d := c.P.DeclOf(cf); d != nil && d.Decl.Body != nil {
					fn, found = fanOf(d.Info(), d.Decl.Type, d.Decl.Body)
					if found && fn.listIdx < 0 {
						found = false // a fixed list inside another function is not this message's list
					}
				}
			}
		}
		if !found || fn.errIdx >= len(call.Args) || objOf(info, call.Args[fn.errIdx]) != eo {
			return nil, nil, false
		}
		if fn.listIdx >= 0 {
			if fn.listIdx >= len(call.Args) {
				return nil, nil, false
			}
			return call.Args[fn.listIdx], objOf(info, call.Args[fn.listIdx]), true
		}
		return nil, fn.fixed, true
	}
	// accepted list: the local appended with the recipient on AddRcpt's nil edge
	type stage struct {
		name string
		pts  []Pt
	}
	stages := []stage{
		{"Start", []Pt{startPt}},
		{"AddRcpt", r.F.Find(func(n ast.Node) bool { return onDelivery("AddRcpt")(ptOfNode(r.F, n)) })},
		{"Body", r.F.Find(func(n ast.Node) bool { return onDelivery("Body")(ptOfNode(r.F, n)) })},
		{"Commit", commitPts},
	}
	// the recipient list the function iterates to add recipients (range expression containing the AddRcpt call)
	var rcptRange *ast.RangeStmt
	for _, rs := range rangesIn(r.FI.Decl.Body, func(rs *ast.RangeStmt) bool {
		found := false
		ast.Inspect(rs.Body, func(n ast.Node) bool {
			if call, ok := n.(*ast.CallExpr); ok && callOn(info, call, objs) == "AddRcpt" {
				found = true
			}
			return true
		})
		return found
	}) {
		rcptRange = rs
	}
	var acceptedObj types.Object
	if rcptRange != nil {
		ast.Inspect(rcptRange.Body, func(n ast.Node) bool {
			if as, ok := n.(*ast.AssignStmt); ok && len(as.Lhs) == 1 && len(as.Rhs) == 1 {
				if o, args := appendTarget(info, as.Lhs[0], as.Rhs[0]); o != nil && len(args) == 1 && objOf(info, args[0]) == objOf(info, rcptRange.Value) {
					acceptedObj = o
				}
			}
			return true
		})
	}
	for _, st := range stages {
		if len(st.pts) == 0 {
			c.Hold("R2", "deliver:"+st.name, r.FI.Decl.Pos(), false, "undecided: no "+st.name+" call on the delivery")
			continue
		}
		for _, pt := range st.pts {
			var call *ast.CallExpr
			for _, cc := range callsAt(pt.Node()) {
				if (st.name == "Start" && cc == startCall) || callOn(info, cc, objs) == st.name {
					call = cc
				}
			}
			eo := errVarAssigned(info, pt.Node(), call)
			if eo == nil {
				c.Hold("R2", "deliver:"+st.name, r.Pos(pt), false, "the error of "+st.name+" is dropped (not assigned)")
				continue
			}
			// recording points for this error object
			var wantRange ast.Expr
			if rcptRange != nil {
				wantRange = rcptRange.X
			}
			rec := func(p Pt) bool {
				n := p.Node()
				if n == nil {
					return false
				}
				// direct store perr.Errs[k] = err with the right key
				hit := false
				inspectNoLit(n, func(x ast.Node) bool {
					switch s := x.(type) {
					case *ast.AssignStmt:
						if len(s.Lhs) == 1 && len(s.Rhs) == 1 && objOf(info, s.Rhs[0]) == eo {
							if k, ok := isErrsStore(s.Lhs[0]); ok {
								if st.name == "AddRcpt" && len(call.Args) >= 2 && objOf(info, k) == objOf(info, call.Args[1]) {
									hit = true
								}
							}
						}
					case *ast.CallExpr:
						if le, lo, ok := fanCall(s, eo); ok {
							switch st.name {
							case "Body", "Commit":
								if lo == acceptedObj && acceptedObj != nil {
									hit = true
								}
							case "Start":
								if le != nil && wantRange != nil && sameExpr(le, wantRange) {
									hit = true
								}
							}
						}
					}
					return true
				})
				if hit {
					return true
				}
				// range X node of a loop that stores the error for every element of the full recipient list
				if st.name != "AddRcpt" {
					// any whole-list loop form (range with value, range with index, counting loop)
					for _, l := range elemLoops(info, r.FI.Decl.Body, func(e ast.Expr) bool {
						sl, isSl := info.TypeOf(e).Underlying().(*types.Slice)
						return isSl && isStringType(sl.Elem())
					}) {
						if !l.Whole || !r.F.LoopHeadIs(l, p) {
							continue
						}
						if st.name == "Start" {
							if wantRange != nil && !sameExpr(l.List, wantRange) {
								continue
							}
						} else if acceptedObj == nil || objOf(info, l.List) != acceptedObj {
							continue
						}
						l := l
						ok := false
						ast.Inspect(l.Body, func(x ast.Node) bool {
							if s, isAs := x.(*ast.AssignStmt); isAs && len(s.Lhs) == 1 && len(s.Rhs) == 1 && objOf(info, s.Rhs[0]) == eo {
								if k, isStore := isErrsStore(s.Lhs[0]); isStore && l.IsElem(k) {
									ok = true
								}
							}
							return true
						})
						if ok {
							return true
						}
					}
				}
				return false
			}
			target := orPt(r.IsNormalExit, isPt([]Pt{pt}))
			p, f := r.F.ReachRefined(pt, eo, false, false, target, rec)
			what := "all recipients of the message"
			switch st.name {
			case "AddRcpt":
				what = "that recipient"
			case "Body", "Commit":
				what = "all accepted recipients"
			}
			c.Hold("R2", "deliver:"+st.name, r.Pos(pt), !f, "a failure of "+st.name+" can be left unrecorded for "+what+" (it would count as delivered): "+r.F.Describe(p))
		}
	}
}

// ptOfNode finds the point of a top-level CFG node.
func ptOfNode(f *Flow, n ast.Node) Pt {
	for _, b := range f.G.Blocks {
		for i, x := range b.Nodes {
			if x == n {
				return Pt{b, i}
			}
		}
	}
	return Pt{}
}

func c01CommitGuard(c *Check, r *RuleCtx, commitPts []Pt) {
	info := r.Info
	if len(commitPts) == 0 {
		c.Hold("R1", "deliver:commit-guard", r.FI.Decl.Pos(), false, "undecided: no Commit on the delivery")
		return
	}
	// A bool local that witnesses "some accepted recipient has no recorded error": it is initialised with a constant
	// and flipped (to the opposite constant) only under a nil test of a recorded error inside a complete loop over
	// recipients. Both polarities occur: allFailed := true … = false, and anySucceeded := false … = true.
	var flag types.Object
	var flipped bool // the value the flag has once a success was seen
	okShape := false
	var flipStmt *ast.AssignStmt // the flip written as `flag = <recorded error> != nil` in a loop guarded by the flag
	for _, l := range elemLoops(info, r.FI.Decl.Body, func(e ast.Expr) bool {
		sl, ok := info.TypeOf(e).Underlying().(*types.Slice)
		return ok && isStringType(sl.Elem())
	}) {
		l := l
		if !l.Whole && l.Guard != nil {
			// for i := 0; i < len(L) && flag; i++ { flag = Errs[L[i]] != nil }: the loop stops at the first success, so
			// the flag has flipped exactly if one was seen (the mirrored form `!flag … == nil` likewise)
			for _, st := range l.Body.List {
				as, ok := st.(*ast.AssignStmt)
				if !ok || len(as.Lhs) != 1 || len(as.Rhs) != 1 || as.Tok != token.ASSIGN {
					continue
				}
				be, ok := ast.Unparen(as.Rhs[0]).(*ast.BinaryExpr)
				if !ok || (be.Op != token.NEQ && be.Op != token.EQL) || !isNilIdent(info, be.Y) {
					continue
				}
				ix, ok := ast.Unparen(be.X).(*ast.IndexExpr)
				if !ok || !isField(info, ix.X, "partialError", "Errs") || !l.IsElem(ix.Index) {
					continue
				}
				v, isVar := objOf(info, as.Lhs[0]).(*types.Var)
				if !isVar || v.IsField() {
					continue
				}
				fl := be.Op == token.EQL // value of the flag once a recipient without error was seen
				g := ast.Unparen(l.Guard)
				neg := false
				if ue, ok := g.(*ast.UnaryExpr); ok && ue.Op == token.NOT {
					g, neg = ast.Unparen(ue.X), true
				}
				// the loop continues only while the flag still has its "no success" value
				if objOf(info, g) == v && neg == fl {
					flag, flipped, okShape, flipStmt = v, fl, true, as
				}
			}
		}
		if !l.Whole {
			continue
		}
		ast.Inspect(l.Body, func(x ast.Node) bool {
			is, ok := x.(*ast.IfStmt)
			if !ok {
				return true
			}
			be, ok := ast.Unparen(is.Cond).(*ast.BinaryExpr)
			if !ok || be.Op != token.EQL || !isNilIdent(info, be.Y) {
				return true
			}
			ix, ok := ast.Unparen(be.X).(*ast.IndexExpr)
			if !ok || !isField(info, ix.X, "partialError", "Errs") || !l.IsElem(ix.Index) {
				return true
			}
			for _, st := range is.Body.List {
				if as, ok := st.(*ast.AssignStmt); ok && len(as.Lhs) == 1 && len(as.Rhs) == 1 {
					if tv, ok := info.Types[as.Rhs[0]]; ok && tv.Value != nil && tv.Value.Kind() == constant.Bool {
						if v, isVar := objOf(info, as.Lhs[0]).(*types.Var); isVar && !v.IsField() {
							flag, flipped, okShape = v, constant.BoolVal(tv.Value), true
						}
					}
				}
			}
			return true
		})
	}
	if flag == nil || !okShape {
		c.Hold("R1", "deliver:commit-guard", r.Pos(commitPts[0]), false, "undecided: no 'all failed' flag computed from the recorded errors of the accepted recipients")
		return
	}
	// every assignment to the flag is a constant; exactly the flip has the "success seen" value, the initialisation
	// the opposite one (otherwise the flag says nothing)
	badAssign := ""
	nAssign, nInit := 0, 0
	ast.Inspect(r.FI.Decl.Body, func(n ast.Node) bool {
		if as, ok := n.(*ast.AssignStmt); ok {
			for i, l := range as.Lhs {
				if objOf(info, l) == flag && i < len(as.Rhs) {
					nAssign++
					if as == flipStmt {
						continue
					}
					tv, ok := info.Types[as.Rhs[i]]
					if !ok || tv.Value == nil || tv.Value.Kind() != constant.Bool {
						badAssign = "the flag is assigned a non-constant value"
					} else if constant.BoolVal(tv.Value) != flipped {
						nInit++
					}
				}
			}
		}
		return true
	})
	if nInit == 0 && badAssign == "" {
		badAssign = "the flag is initialised with the value it gets when a recipient succeeded: it cannot tell 'all failed' from 'some succeeded'"
	}
	// Commit must be unreachable in the world "no success was seen" (the flag still has its initial value)
	avoid := r.F.World(func(atom ast.Expr) (bool, bool) {
		if objOf(info, atom) == flag {
			return !flipped, true
		}
		return false, false
	})
	p, f := r.F.Reach(Query{From: r.Entry(), Inclusive: true, Target: isPt(commitPts), AvoidEdge: avoid})
	msg := badAssign
	if f {
		msg = "Commit is reachable although every accepted recipient failed (a message that failed permanently for all would be committed): " + r.F.Describe(p)
	}
	c.Hold("R1", "deliver:commit-guard", r.Pos(commitPts[0]), !f && badAssign == "" && nAssign >= 2, msg)
	// the converse: once some accepted recipient has no recorded error the delivery is never aborted (an aborted
	// delivery whose recipients carry no error counts as delivered: the message would be lost)
	var accepted types.Object
	for _, l := range elemLoops(info, r.FI.Decl.Body, func(e ast.Expr) bool { return true }) {
		l := l
		ast.Inspect(l.Body, func(x ast.Node) bool {
			if as, ok := x.(*ast.AssignStmt); ok && len(as.Lhs) == 1 && len(as.Rhs) == 1 {
				if o, args := appendTarget(info, as.Lhs[0], as.Rhs[0]); o != nil && len(args) == 1 && l.IsElem(args[0]) {
					for _, call := range callsIn(l.Body) {
						if methodName(call) == "AddRcpt" {
							accepted = o
						}
					}
				}
			}
			return true
		})
	}
	aborts := r.F.Find(func(n ast.Node) bool {
		for _, call := range callsAt(n) {
			if methodName(call) == "Abort" {
				return true
			}
		}
		return false
	})
	succWorld := r.F.World(func(atom ast.Expr) (bool, bool) {
		if objOf(info, atom) == flag {
			return flipped, true
		}
		if sx, ok := lenZeroEdge(info, atom); ok && accepted != nil && mentions(info, atom, accepted) {
			return sx != 0, true // some recipient was accepted
		}
		return false, false
	})
	pa, fa := r.F.Reach(Query{From: r.Entry(), Inclusive: true, Target: isPt(aborts), AvoidEdge: succWorld})
	c.Hold("R1", "deliver:abort-only-if-nothing-succeeded", r.FI.Decl.Pos(), !fa && len(aborts) > 0 && accepted != nil, "the downstream delivery can be aborted although an accepted recipient has no recorded error (it would count as delivered while nothing was committed – the message is lost): "+r.F.Describe(pa))
}

func c01TryDelivery(c *Check) {
	c.Rule("R4", "tryDelivery: each recipient of the attempt ends in exactly one class - delivered (no recorded error), retried, or failed; retried only on the temporary edge and below the attempt bound", 5)
	r := c.need("R4", queueRel, "Queue", "tryDelivery")
	if r == nil {
		return
	}
	info := r.Info
	// the loop over the pending recipients (any loop form, also over a snapshot of the list): contains a lookup
	// `e, ok := X.Errs[<element>]`
	var loop *ElemLoop
	var lookup *ast.AssignStmt
	for _, l := range elemLoops(info, r.FI.Decl.Body, func(e ast.Expr) bool { return isField(info, e, "QueueMetadata", "To") }) {
		if !l.Whole {
			continue
		}
		l := l
		ast.Inspect(l.Body, func(n ast.Node) bool {
			if as, ok := n.(*ast.AssignStmt); ok && len(as.Lhs) == 2 && len(as.Rhs) == 1 {
				if ix, ok := ast.Unparen(as.Rhs[0]).(*ast.IndexExpr); ok && isField(info, ix.X, "partialError", "Errs") && l.IsElem(ix.Index) {
					loop, lookup = l, as
				}
			}
			return true
		})
	}
	if loop == nil {
		c.Fail("R4", "tryDelivery:loop", r.FI.Decl.Pos(), "undecided: no loop over the pending recipients that looks up the recorded error of each")
		return
	}
	errObj, okObj := objOf(info, lookup.Lhs[0]), objOf(info, lookup.Lhs[1])
	lookupPt := ptOfNode(r.F, lookup)
	// the two result lists: locals appended with the recipient inside the loop
	appendsTo := map[types.Object][]Pt{}
	for _, pt := range r.F.Points() {
		as, ok := pt.Node().(*ast.AssignStmt)
		if !ok || len(as.Lhs) != 1 || len(as.Rhs) != 1 || !within(loop.Body, as) {
			continue
		}
		if o, args := appendTarget(info, as.Lhs[0], as.Rhs[0]); o != nil && len(args) == 1 && loop.IsElem(args[0]) {
			appendsTo[o] = append(appendsTo[o], pt)
		}
	}
	// which is the retry list? the one assigned to meta.To afterwards; the other per-attempt list is the failed list
	var retryObj, failedObj types.Object
	ast.Inspect(r.FI.Decl.Body, func(n ast.Node) bool {
		if as, ok := n.(*ast.AssignStmt); ok && len(as.Lhs) == 1 && len(as.Rhs) == 1 && isField(info, as.Lhs[0], "QueueMetadata", "To") {
			if o := objOf(info, as.Rhs[0]); o != nil && appendsTo[o] != nil {
				retryObj = o
			}
		}
		return true
	})
	for o := range appendsTo {
		if o != retryObj {
			failedObj = o
		}
	}
	if retryObj == nil || failedObj == nil || len(appendsTo) != 2 {
		c.Fail("R4", "tryDelivery:lists", loop.Stmt.Pos(), "undecided: expected exactly two per-attempt lists filled in the classification loop (the retry list, assigned to the pending recipients, and the failed list)")
		return
	}
	retryPts, failPts := appendsTo[retryObj], appendsTo[failedObj]
	isRetry, isFail := isPt(retryPts), isPt(failPts)
	// "end of iteration" = reaching the loop head again or leaving the function
	iterEnd := r.F.IterEnd(loop)
	// (1) recorded error present ⇒ exactly one of retry / failed
	p, f := r.F.ReachRefined(lookupPt, okObj, false, true, iterEnd, orPt(isRetry, isFail))
	c.Hold("R4", "tryDelivery:failed-or-retried", lookup.Pos(), !f, "a recipient with a recorded error can leave the iteration neither re-queued nor reported as failed (it is silently dropped): "+r.F.Describe(p))
	both := ""
	for _, a := range retryPts {
		if p, f := r.F.Reach(Query{From: []Pt{a}, Target: isFail, Avoid: iterEnd}); f {
			both = "a recipient can be both re-queued and reported as failed: " + r.F.Describe(p)
		}
	}
	for _, a := range failPts {
		if p, f := r.F.Reach(Query{From: []Pt{a}, Target: isRetry, Avoid: iterEnd}); f {
			both = "a recipient can be both reported as failed and re-queued: " + r.F.Describe(p)
		}
		if p, f := r.F.Reach(Query{From: []Pt{a}, Target: isFail, Avoid: iterEnd}); f {
			both = "a recipient can be added to the failed list twice: " + r.F.Describe(p)
		}
	}
	for _, a := range retryPts {
		if p, f := r.F.Reach(Query{From: []Pt{a}, Target: isRetry, Avoid: iterEnd}); f {
			both = "a recipient can be re-queued twice: " + r.F.Describe(p)
		}
	}
	c.Hold("R4", "tryDelivery:at-most-one-class", loop.Stmt.Pos(), both == "", both)
	// (2) no recorded error ⇒ delivered: neither list
	p, f = r.F.ReachRefined(lookupPt, okObj, true, true, orPt(isRetry, isFail), iterEnd)
	c.Hold("R4", "tryDelivery:delivered-not-requeued", lookup.Pos(), !f, "a recipient without a recorded error (delivered) is re-queued or reported as failed: "+r.F.Describe(p))
	// (3) retry only on the temporary edge
	isTempCall := func(e ast.Expr) bool {
		call, ok := ast.Unparen(e).(*ast.CallExpr)
		return ok && isCall(info, call, exterrPkg+".IsTemporaryOrUnspec", exterrPkg+".IsTemporary") && len(call.Args) == 1 && objOf(info, call.Args[0]) == errObj
	}
	tempVars := map[types.Object]bool{}
	ast.Inspect(loop.Body, func(n ast.Node) bool {
		if as, ok := n.(*ast.AssignStmt); ok && len(as.Lhs) == 1 && len(as.Rhs) == 1 && isTempCall(as.Rhs[0]) {
			if o := objOf(info, as.Lhs[0]); o != nil {
				tempVars[o] = true
			}
		}
		return true
	})
	avoidTemp := r.F.AvoidImplying(func(atom ast.Expr) (bool, bool) {
		if isTempCall(atom) {
			return true, true
		}
		if o := objOf(info, atom); o != nil && tempVars[o] {
			return true, true
		}
		return false, false
	})
	p, f = r.F.Reach(Query{From: []Pt{lookupPt}, Target: isRetry, Avoid: iterEnd, AvoidEdge: avoidTemp})
	c.Hold("R4", "tryDelivery:retry-only-if-temporary", lookup.Pos(), !f && (len(tempVars) > 0 || true), "a recipient is re-queued without its error having been classified temporary/unclassified on that path: "+r.F.Describe(p))
	// (4) attempt bound, evaluated at its boundary: with tries-so-far = 0 and max = 1 the recipient must not be
	// re-queued; with max = 2 it must not be failed (given a temporary error)
	boundAtom := func(atom ast.Expr) bool { return mentionsField(info, atom, "maxTries") }
	evalBound := func(atom ast.Expr, tries, max int64) (bool, bool) {
		v, ok := evalExpr(info, atom, func(e ast.Expr) (constant.Value, bool) {
			e = ast.Unparen(e)
			if s, ok := e.(*ast.SelectorExpr); ok && s.Sel.Name == "maxTries" && fieldOf(info, s) != nil {
				return constant.MakeInt64(max), true
			}
			if ix, ok := e.(*ast.IndexExpr); ok && isField(info, ix.X, "QueueMetadata", "TriesCount") {
				return constant.MakeInt64(tries), true
			}
			return nil, false
		})
		if !ok || v.Kind() != constant.Bool {
			return false, false
		}
		return constant.BoolVal(v), true
	}
	sawBound := false
	undecidedBound := false
	mkAvoid := func(tries, max int64) func(b *cfgBlock, i int) bool {
		return func(b *cfgBlock, i int) bool {
			cond, isCase := r.F.Cond(b)
			if cond == nil || isCase {
				return false
			}
			// an edge is infeasible if it asserts a truth value for the bound atom that contradicts its evaluation,
			// or asserts non-temporary
			for _, af := range atomsOnEdge(cond, i) {
				if boundAtom(af.E) {
					sawBound = true
					v, ok := evalBound(af.E, tries, max)
					if !ok {
						undecidedBound = true
						continue
					}
					if v != af.T {
						return true
					}
				}
				if isTempCall(af.E) || (objOf(info, af.E) != nil && tempVars[objOf(info, af.E)]) {
					if !af.T {
						return true // we evaluate the temporary case
					}
				}
			}
			return false
		}
	}
	// the condition is a disjunction, so the edge facts are only known on one side; complement with a direct
	// evaluation of the whole condition
	wholeAvoid := func(tries, max int64) func(b *cfgBlock, i int) bool {
		inner := mkAvoid(tries, max)
		return func(b *cfgBlock, i int) bool {
			if inner(b, i) {
				return true
			}
			cond, isCase := r.F.Cond(b)
			if cond == nil || isCase || !mentionsField(info, cond, "maxTries") {
				return false
			}
			v, ok := evalExpr(info, cond, func(e ast.Expr) (constant.Value, bool) {
				e = ast.Unparen(e)
				if s, ok := e.(*ast.SelectorExpr); ok && s.Sel.Name == "maxTries" && fieldOf(info, s) != nil {
					return constant.MakeInt64(max), true
				}
				if ix, ok := e.(*ast.IndexExpr); ok && isField(info, ix.X, "QueueMetadata", "TriesCount") {
					return constant.MakeInt64(tries), true
				}
				if isTempCall(e) || (objOf(info, e) != nil && tempVars[objOf(info, e)]) {
					return constant.MakeBool(true), true
				}
				return nil, false
			})
			if !ok || v.Kind() != constant.Bool {
				undecidedBound = true
				return false
			}
			sawBound = true
			return constant.BoolVal(v) != (i == 0)
		}
	}
	pA, fA := r.F.ReachRefined2(lookupPt, okObj, false, true, isRetry, iterEnd, wholeAvoid(0, 1))
	pB, fB := r.F.ReachRefined2(lookupPt, okObj, false, true, isFail, iterEnd, wholeAvoid(0, 2))
	msg := ""
	if !sawBound {
		msg = "no comparison with the configured maximum number of attempts guards the re-queue"
	} else if undecidedBound {
		msg = "undecided: the attempt-bound comparison could not be evaluated"
	} else if fA {
		msg = "with max_tries = 1 a recipient that failed temporarily on its first attempt is re-queued (one attempt too many): " + r.F.Describe(pA)
	} else if fB {
		msg = "with max_tries = 2 a recipient that failed temporarily on its first attempt is given up (one attempt too few): " + r.F.Describe(pB)
	}
	c.Hold("R4", "tryDelivery:attempt-bound", lookup.Pos(), msg == "", msg)
	// (5) the bookkeeping the bound and the report rest on: a re-queued recipient's attempt counter is incremented in
	// that iteration; a recipient reported as failed has its last error stored for the report
	incr := func(pt Pt) bool {
		found := false
		inspectNoLit(pt.Node(), func(x ast.Node) bool {
			switch s := x.(type) {
			case *ast.IncDecStmt:
				if ix, ok := ast.Unparen(s.X).(*ast.IndexExpr); ok && s.Tok == token.INC && isField(info, ix.X, "QueueMetadata", "TriesCount") && loop.IsElem(ix.Index) {
					found = true
				}
			case *ast.AssignStmt:
				for _, l := range s.Lhs {
					if ix, ok := ast.Unparen(l).(*ast.IndexExpr); ok && isField(info, ix.X, "QueueMetadata", "TriesCount") && loop.IsElem(ix.Index) && (s.Tok == token.ADD_ASSIGN || s.Tok == token.ASSIGN) {
						found = true
					}
				}
			}
			return true
		})
		return found
	}
	storesErr := func(pt Pt) bool {
		return nodeAssigns(pt.Node(), func(l, _ ast.Expr) bool {
			ix, ok := ast.Unparen(l).(*ast.IndexExpr)
			return ok && isField(info, ix.X, "QueueMetadata", "RcptErrs") && loop.IsElem(ix.Index)
		})
	}
	bk := ""
	for _, a := range retryPts {
		// every iteration that re-queues passes the increment (before or after the append)
		if p1, f1 := r.F.Reach(Query{From: r.F.LoopBodyStart(loop), Inclusive: true, Target: func(q Pt) bool { return q == a }, Avoid: orPt(incr, iterEnd)}); f1 {
			if p2, f2 := r.F.Reach(Query{From: []Pt{a}, Target: iterEnd, Avoid: incr}); f2 {
				bk = "a recipient is re-queued without its attempt counter being incremented (it would be retried for ever, the configured maximum never applies): " + r.F.Describe(append(p1, p2...))
			}
		}
	}
	for _, a := range failPts {
		if p1, f1 := r.F.Reach(Query{From: r.F.LoopBodyStart(loop), Inclusive: true, Target: func(q Pt) bool { return q == a }, Avoid: orPt(storesErr, iterEnd)}); f1 {
			bk = "a recipient is reported as failed without its last error having been stored for the report (the report generator dereferences that entry): " + r.F.Describe(p1)
		}
	}
	c.Hold("R4", "tryDelivery:bookkeeping", lookup.Pos(), bk == "", bk)
	// (6) what happens to the message as a whole follows the retry list: with recipients left to retry it is never
	// removed from the spool and a retry is scheduled on every path; with none left it is removed and nothing is scheduled
	rmPts, addPts := r.Calls(isRmDisk), r.Calls(isWheelAd)
	pendWorld := func(pending bool) func(b *cfgBlock, i int) bool {
		return r.F.World(func(atom ast.Expr) (bool, bool) {
			if sx, ok := lenZeroEdge(info, atom); ok && mentions(info, atom, retryObj) {
				return (sx == 0) != pending, true
			}
			return false, false
		})
	}
	after := r.F.LoopDone(loop)
	fate := ""
	if len(rmPts) == 0 || len(addPts) == 0 {
		fate = "undecided: expected the removal from the spool and the scheduling of the retry in tryDelivery"
	} else {
		if pth, f := r.F.Reach(Query{From: after, Inclusive: true, Target: isPt(rmPts), AvoidEdge: pendWorld(true)}); f {
			fate = "the message is removed from the spool although recipients are still waiting for a retry (they are lost): " + r.F.Describe(pth)
		} else if pth, f := r.F.Reach(Query{From: after, Inclusive: true, Target: r.F.IsExitPt, Avoid: isPt(addPts), AvoidEdge: pendWorld(true)}); f {
			fate = "with recipients left to retry the attempt can end without scheduling the next one (the message stays in the spool until the next restart): " + r.F.Describe(pth)
		} else if pth, f := r.F.Reach(Query{From: after, Inclusive: true, Target: isPt(addPts), AvoidEdge: pendWorld(false)}); f {
			fate = "a retry is scheduled although no recipient is left (the message is re-queued for ever): " + r.F.Describe(pth)
		} else if pth, f := r.F.Reach(Query{From: after, Inclusive: true, Target: r.F.IsExitPt, Avoid: isPt(rmPts), AvoidEdge: pendWorld(false)}); f {
			fate = "with every recipient delivered or reported the message is not removed from the spool (it is loaded and attempted again after a restart): " + r.F.Describe(pth)
		}
	}
	c.Hold("R4", "tryDelivery:message-fate-follows-retry-list", lookup.Pos(), fate == "", fate)

	// ---- R5
	c.Rule("R5", "tryDelivery: whether a failure report is due is decided, and the report handed over, before the message is removed, its metadata rewritten or the retry scheduled", 2)
	// (same queries as C02.R4b, stated here for the 'exactly one failure report' clause)
	emit := r.Calls(isEmitDSN)
	forget := orPt(isPt(r.Calls(isRmDisk)), isPt(r.Calls(isUpdMeta)), isPt(r.Calls(isWheelAd)))
	isGuard := func(pt Pt) bool {
		if pt.I != len(pt.B.Nodes)-1 {
			return false
		}
		cond, _ := r.F.Cond(pt.B)
		return cond != nil && mentions(info, cond, failedObj)
	}
	ok, w := r.MustPass(r.Entry(), true, forget, isGuard)
	c.Hold("R5", "tryDelivery:report-decided-first", r.FI.Decl.Pos(), ok && len(emit) > 0, "the message can be removed / rewritten / rescheduled on a path that never looks at the failed list: "+w)
	guardEdge := r.F.AvoidImplying(func(atom ast.Expr) (bool, bool) {
		if !mentions(info, atom, failedObj) {
			return false, false
		}
		if s, ok := lenZeroEdge(info, atom); ok {
			return s == 0, true
		}
		return false, false
	})
	p, f = r.F.Reach(Query{From: r.Entry(), Inclusive: true, Target: orPt(forget, r.IsNormalExit), Avoid: isPt(emit), AvoidEdge: guardEdge})
	c.Hold("R5", "tryDelivery:report-emitted", r.FI.Decl.Pos(), !f, "with failed recipients present the function can finish or forget them without handing a report to emitDSN: "+r.F.Describe(p))
	// the report is given the failed list
	okArg := len(emit) > 0
	for _, pt := range emit {
		call := r.CallAt(pt, isEmitDSN)
		if len(call.Args) != 3 || objOf(info, call.Args[2]) != failedObj {
			okArg = false
		}
	}
	c.HoldConst("R5", "tryDelivery:report-gets-failed-list", r.FI.Decl.Pos(), okArg, "emitDSN is not given the list of terminally failed recipients")
}

func c01EmitDSN(c *Check) {
	c.Rule("R5e", "emitDSN: before the bounce pipeline is started, the only early returns are: no bounce pipeline, null sender, failure to generate the message id or the report", 3)
	r := c.need("R5e", queueRel, "Queue", "emitDSN")
	if r == nil {
		return
	}
	info := r.Info
	starts := r.Calls(func(info *types.Info, call *ast.CallExpr) bool {
		return qname(callee(info, call)) == modulePkg+".DeliveryTarget.Start"
	})
	if len(starts) != 1 {
		c.Fail("R5e", "emitDSN:start", r.FI.Decl.Pos(), "undecided: expected exactly one Start of the bounce pipeline")
		return
	}
	// classify every return not preceded by Start
	for _, pt := range r.F.Points() {
		ret, ok := pt.Node().(*ast.ReturnStmt)
		if !ok {
			continue
		}
		if f, _ := r.Reachable(starts, false, isPt([]Pt{pt}), nil); f {
			continue // after Start: handled by the delivery itself
		}
		reason := ""
		// the return's block is the then-branch of an if: every alternative of its condition (the guards may be
		// merged with ||) must be one of the allowed reasons
		if is, ok := pt.B.Stmt.(*ast.IfStmt); ok && pt.B.Kind == kindIfThen {
			var alts []ast.Expr
			var split func(e ast.Expr)
			split = func(e ast.Expr) {
				e = ast.Unparen(e)
				if be, ok := e.(*ast.BinaryExpr); ok && be.Op == token.LOR {
					split(be.X)
					split(be.Y)
					return
				}
				alts = append(alts, e)
			}
			split(is.Cond)
			all := len(alts) > 0
			for _, cond := range alts {
				rs := ""
				if be, ok := cond.(*ast.BinaryExpr); ok && be.Op == token.EQL {
					if isNilIdent(info, be.Y) && isField(info, be.X, "Queue", "dsnPipeline") {
						rs = "no-pipeline"
					}
					if s, ok := constString(info, be.Y); ok && s == "" && (isField(info, be.X, "MsgMetadata", "OriginalFrom") || isField(info, be.X, "QueueMetadata", "From")) {
						rs = "null-sender"
					}
				}
				if be, ok := cond.(*ast.BinaryExpr); ok && be.Op == token.NEQ && isNilIdent(info, be.Y) && isErrorType(info.TypeOf(be.X)) {
					rs = "generation-error"
				}
				if rs == "" {
					all = false
				} else {
					reason = rs
				}
			}
			if !all {
				reason = ""
			}
		}
		c.Hold("R5e", "emitDSN:return", ret.Pos(), reason != "", "the failure report is suppressed on a condition other than: no bounce pipeline, null sender, generation error")
	}
	// null sender test must exist and dominate Start (C18.R4 shares this)
	avoidNull := r.F.AvoidImplying(func(atom ast.Expr) (bool, bool) {
		if be, ok := ast.Unparen(atom).(*ast.BinaryExpr); ok && (be.Op == token.EQL || be.Op == token.NEQ) {
			if s, ok := constString(info, be.Y); ok && s == "" && (isField(info, be.X, "MsgMetadata", "OriginalFrom") || isField(info, be.X, "QueueMetadata", "From")) {
				return be.Op == token.NEQ, true // edges establishing "sender is not null"
			}
		}
		return false, false
	})
	p, f := r.F.Reach(Query{From: r.Entry(), Inclusive: true, Target: isPt(starts), AvoidEdge: avoidNull})
	c.Hold("R5e", "emitDSN:null-sender-guard", r.Pos(starts[0]), !f, "the bounce pipeline can be started for a message with the null sender (reports about reports): "+r.F.Describe(p))
}

// R6: the downstream SMTP target commits by closing its connection and returns what Close returns; the queue treats a
// Commit error as "nothing was delivered" and re-attempts every accepted recipient. By then the next hop has answered
// 250 to the final dot: the message IS delivered. The error of the QUIT command (a 421 at idle time-out, a dropped
// connection) therefore must not come back from Close – only the outcome of closing the socket may.
func c01Teardown(c *Check) {
	c.Rule("R6", "smtpconn.C.Close: the value returned never derives from the QUIT command's error (the smtp target returns it from Commit; a failed QUIT after an accepted message would make the queue deliver it again)", 1)
	r := c.need("R6", "internal/smtpconn", "C", "Close")
	if r == nil {
		return
	}
	info := r.Info
	body := r.FI.Decl.Body
	tainted := map[types.Object]bool{}
	hasQuit := func(e ast.Expr) bool {
		found := false
		ast.Inspect(e, func(x ast.Node) bool {
			switch y := x.(type) {
			case *ast.CallExpr:
				if methodName(y) == "Quit" {
					found = true
				}
			case *ast.Ident:
				if o := info.Uses[y]; o != nil && tainted[o] {
					found = true
				}
			}
			return !found
		})
		return found
	}
	nQuit := 0
	ast.Inspect(body, func(x ast.Node) bool {
		if call, ok := x.(*ast.CallExpr); ok && methodName(call) == "Quit" {
			nQuit++
		}
		return true
	})
	for changed := true; changed; {
		changed = false
		ast.Inspect(body, func(x ast.Node) bool {
			as, ok := x.(*ast.AssignStmt)
			if !ok {
				return true
			}
			for i, l := range as.Lhs {
				var rhs ast.Expr
				if len(as.Rhs) == len(as.Lhs) {
					rhs = as.Rhs[i]
				} else if len(as.Rhs) == 1 {
					rhs = as.Rhs[0]
				}
				o := objOf(info, l)
				if rhs == nil || o == nil || tainted[o] {
					continue
				}
				if v, isVar := o.(*types.Var); !isVar || v.IsField() {
					continue
				}
				if hasQuit(rhs) {
					tainted[o] = true
					changed = true
				}
			}
			return true
		})
	}
	msg := ""
	inspectNoLit(body, func(x ast.Node) bool {
		if ret, ok := x.(*ast.ReturnStmt); ok {
			for _, e := range ret.Results {
				if hasQuit(e) {
					msg = "line " + itoa(c.P.Fset.Position(ret.Pos()).Line) + ": Close returns the error of QUIT (" + exprStr(e) + "): target.smtp returns it from Commit after the next hop accepted the message, and the queue re-attempts – the recipients get the message once per attempt"
				}
			}
		}
		return true
	})
	if nQuit == 0 {
		msg = "undecided: no QUIT in Close"
	}
	c.Hold("R6", "C.Close:quit-error-not-returned", r.FI.Decl.Pos(), msg == "", msg)
	// … and neither does the outcome of closing the socket on the path on which QUIT failed: the peer has dropped or
	// reset the connection, and over TLS closing such a connection fails as well (the close_notify alert cannot be
	// written: "tls: failed to send closeNotify alert (but connection was closed anyway)"). The message was accepted
	// with 250 before QUIT was sent; an error from Close makes target.smtp's Commit fail and the queue send it again.
	isQuit := func(info *types.Info, call *ast.CallExpr) bool { return methodName(call) == "Quit" }
	for i, pt := range r.Calls(isQuit) {
		call := r.CallAt(pt, isQuit)
		nonNilReturn := func(q Pt) bool {
			if q.I != len(q.B.Nodes) {
				return false
			}
			k, ret := r.F.Exit(q)
			if k != ExitReturn || ret == nil || len(ret.Results) == 0 {
				return false
			}
			return !isNilIdent(info, ret.Results[len(ret.Results)-1])
		}
		found, wit, ok := r.OnErr(pt, call, false, nonNilReturn, nil)
		key := "C.Close:nil-after-failed-quit"
		if i > 0 {
			key += itoa(i + 1)
		}
		if !ok {
			c.Hold("R6", key, r.Pos(pt), false, "the error of QUIT is not kept in a variable")
			continue
		}
		c.Hold("R6", key, r.Pos(pt), !found, "after QUIT failed Close can return an error ("+wit+"): over TLS closing a connection the peer has reset fails too (close_notify cannot be sent) – the smtp target returns that from Commit although the next hop answered 250 to the message, the queue delivers it again on every attempt and finally reports a failure for delivered mail")
	}
}
