package main

import (
	"fmt"
	"go/ast"
	"go/token"
	"go/types"
	"sort"
	"strings"
)

// Relational typestate analysis of one struct field holding a resource with open/close discipline
// (Session.delivery). Abstract state: typestate of the field × known nil-ness of local error variables ×
// pending deferred calls. Same-receiver method calls and deferred closures are interpreted inline; the exits of an
// inlined method are pairs (typestate, nil-ness of the returned error) which the caller binds to its own error
// variable (without this the analysis reports false "use in state Nil" paths).

const (
	tsNil = iota
	tsOpen
	tsClosed
)

var tsNames = []string{"Nil", "Open", "Closed"}

const (
	nnUnknown = iota
	nnNil
	nnNonNil
)

type tsConfig struct {
	p        *Prog
	field    *types.Var
	recv     *types.Named
	closers  map[string]bool
	maxDepth int
	watch    map[*types.Var]map[string]bool // field -> functions allowed to store it while Open
	reports  map[string]tsReport
	funcs    map[string]bool
	paths    int
}

type tsReport struct {
	Kind  string // leak-nil | leak-overwrite | use-closed | use-nil | close-not-open | exit-closed
	Fn    string // function in which the event occurs
	Entry string // entry method
	State string
	Pos   token.Pos
	Via   string
}

type tsState struct {
	ts     int
	errs   map[types.Object]int
	defers []ast.Node // *ast.DeferStmt, innermost last
}

func (s tsState) clone() tsState {
	n := tsState{ts: s.ts, errs: make(map[types.Object]int, len(s.errs)), defers: append([]ast.Node{}, s.defers...)}
	for k, v := range s.errs {
		n.errs[k] = v
	}
	return n
}

func (s tsState) key() string {
	var ks []string
	for k, v := range s.errs {
		if v != nnUnknown {
			ks = append(ks, fmt.Sprintf("%s@%d=%d", k.Name(), k.Pos(), v))
		}
	}
	sort.Strings(ks)
	d := ""
	for _, n := range s.defers {
		d += fmt.Sprint(n.Pos(), ",")
	}
	return fmt.Sprintf("%d|%s|%s", s.ts, strings.Join(ks, ";"), d)
}

type tsExit struct {
	ts  int
	err int // nil-ness of the returned error (nnUnknown if the function returns no error)
}

type tsFrame struct {
	cfg   *tsConfig
	fi    *FuncInfo
	info  *types.Info
	flow  *Flow
	entry string
	via   string
	depth int
	recvO types.Object // receiver variable of this function
	exits map[tsExit]bool
	memo  map[string]bool

	collect  *[]tsState // for closure bodies: the states at the closure's exits
	boundErr map[*ast.AssignStmt]bool
}

func (c *tsConfig) report(kind string, fr *tsFrame, st int, pos token.Pos) {
	key := kind + "|" + fr.fi.Name() + "|" + fr.entry
	if _, ok := c.reports[key]; ok {
		return
	}
	c.reports[key] = tsReport{Kind: kind, Fn: fr.fi.Name(), Entry: fr.entry, State: tsNames[st], Pos: pos, Via: fr.via}
}

// run interprets fi from the given state and returns its exits.
func (c *tsConfig) run(fi *FuncInfo, st tsState, entry, via string, depth int, init ...map[types.Object]int) map[tsExit]bool {
	c.funcs[fi.Name()] = true
	fr := &tsFrame{cfg: c, fi: fi, info: fi.Info(), flow: c.p.FlowOfFunc(fi), entry: entry, via: via, depth: depth, exits: map[tsExit]bool{}, memo: map[string]bool{}}
	if fi.Decl.Recv != nil && len(fi.Decl.Recv.List) == 1 && len(fi.Decl.Recv.List[0].Names) == 1 {
		fr.recvO = fr.info.Defs[fi.Decl.Recv.List[0].Names[0]]
	}
	inner := st.clone()
	inner.defers = nil
	inner.errs = map[types.Object]int{}
	for _, m := range init {
		for k, v := range m {
			inner.errs[k] = v
		}
	}
	fr.walk(fr.flow, fr.flow.G.Blocks[0], 0, inner)
	return fr.exits
}

// isTrackedField: e is <recv>.<field> for the receiver variable.
func (fr *tsFrame) isTracked(e ast.Expr) bool {
	s, ok := ast.Unparen(e).(*ast.SelectorExpr)
	if !ok {
		return false
	}
	return fieldOf(fr.info, s) == fr.cfg.field
}

func (fr *tsFrame) walk(flow *Flow, b *cfgBlock, i int, st tsState) {
	fr.cfg.paths++
	k := fmt.Sprintf("%p|%d|%d|%s", flow, b.Index, i, st.key())
	if fr.memo[k] {
		return
	}
	fr.memo[k] = true
	for ; i < len(b.Nodes); i++ {
		n := b.Nodes[i]
		// a node can fork the state (inlined calls): process and continue for each resulting state
		outs := fr.step(n, st)
		if len(outs) == 0 {
			return
		}
		if len(outs) == 1 {
			st = outs[0]
			continue
		}
		for _, o := range outs {
			fr.walk(flow, b, i+1, o)
		}
		return
	}
	if len(b.Succs) == 0 {
		fr.exit(flow, b, st)
		return
	}
	cond, isCase := flow.Cond(b)
	for si, s := range b.Succs {
		ns := st
		if cond != nil && !isCase {
			feasible := true
			ns = st.clone()
			for _, af := range atomsOnEdge(cond, si) {
				if !fr.refine(af, &ns) {
					feasible = false
				}
			}
			if !feasible {
				continue
			}
		}
		fr.walk(flow, s, 0, ns)
	}
}

// refine applies an atomic fact; returns false if it contradicts the state.
func (fr *tsFrame) refine(af atomFact, st *tsState) bool {
	// constant-valued local bool flag: facts are kept in errs (nnNil = false, nnNonNil = true); `*p` of a *bool
	// parameter bound to the caller's flag (finish(&committed)) is the flag
	if se, ok := ast.Unparen(af.E).(*ast.StarExpr); ok {
		if o := objOf(fr.info, se.X); o != nil {
			if pt, ok := o.Type().Underlying().(*types.Pointer); ok && isBoolType(pt.Elem()) {
				switch st.errs[o] {
				case nnNil:
					return !af.T
				case nnNonNil:
					return af.T
				}
				if af.T {
					st.errs[o] = nnNonNil
				} else {
					st.errs[o] = nnNil
				}
				return true
			}
		}
	}
	if o := objOf(fr.info, af.E); o != nil {
		if b, ok := o.Type().Underlying().(*types.Basic); ok && b.Kind() == types.Bool {
			if _, isVar := o.(*types.Var); isVar {
				switch st.errs[o] {
				case nnNil:
					return !af.T
				case nnNonNil:
					return af.T
				}
				if af.T {
					st.errs[o] = nnNonNil
				} else {
					st.errs[o] = nnNil
				}
			}
		}
		return true
	}
	be, ok := ast.Unparen(af.E).(*ast.BinaryExpr)
	if !ok || (be.Op != token.EQL && be.Op != token.NEQ) {
		return true
	}
	var x ast.Expr
	if isNilIdent(fr.info, be.Y) {
		x = be.X
	} else if isNilIdent(fr.info, be.X) {
		x = be.Y
	} else {
		return true
	}
	isNil := (be.Op == token.EQL) == af.T
	if fr.isTracked(x) {
		if isNil {
			return st.ts == tsNil
		}
		return st.ts != tsNil
	}
	if o := objOf(fr.info, x); o != nil && isErrorType(o.Type()) {
		switch st.errs[o] {
		case nnNil:
			return isNil
		case nnNonNil:
			return !isNil
		}
		if isNil {
			st.errs[o] = nnNil
		} else {
			st.errs[o] = nnNonNil
		}
	}
	return true
}

func (fr *tsFrame) exit(flow *Flow, b *cfgBlock, st tsState) {
	kind, ret := flow.Exit(Pt{b, len(b.Nodes)})
	if kind == ExitPanic {
		return
	}
	// nil-ness of the returned error
	rn := nnUnknown
	sig := fr.fi.Obj.Type().(*types.Signature)
	hasErr := sig.Results().Len() > 0 && isErrorType(sig.Results().At(sig.Results().Len()-1).Type())
	if flow.Body == fr.fi.Decl.Body && hasErr && ret != nil && len(ret.Results) > 0 {
		last := ret.Results[len(ret.Results)-1]
		switch {
		case isNilIdent(fr.info, last):
			rn = nnNil
		default:
			if o := objOf(fr.info, last); o != nil {
				rn = st.errs[o]
			} else if call, ok := ast.Unparen(last).(*ast.CallExpr); ok {
				// wrapErr(err)-style: non-nil iff its error argument is non-nil
				for _, a := range call.Args {
					if o := objOf(fr.info, a); o != nil && isErrorType(o.Type()) {
						rn = st.errs[o]
					}
				}
				if rn == nnNil && !fr.cfg.p.nilPreserving(callee(fr.info, call)) {
					rn = nnUnknown
				}
				if _, isLit := ast.Unparen(last).(*ast.UnaryExpr); isLit {
					rn = nnNonNil
				}
			} else if u, ok := ast.Unparen(last).(*ast.UnaryExpr); ok && u.Op == token.AND {
				rn = nnNonNil
			}
		}
	}
	if fr.collect != nil {
		// end of a closure body: hand the state back to runClosure
		out := st.clone()
		out.defers = nil
		*fr.collect = append(*fr.collect, out)
		return
	}
	// run deferred calls LIFO
	states := []tsState{st}
	for di := len(st.defers) - 1; di >= 0; di-- {
		d := st.defers[di].(*ast.DeferStmt)
		var next []tsState
		for _, s := range states {
			s2 := s.clone()
			s2.defers = nil
			next = append(next, fr.runDeferred(d, s2)...)
		}
		states = next
	}
	for _, s := range states {
		fr.exits[tsExit{s.ts, rn}] = true
	}
}

func (fr *tsFrame) runDeferred(d *ast.DeferStmt, st tsState) []tsState {
	if fl, ok := d.Call.Fun.(*ast.FuncLit); ok {
		return fr.runClosure(fl, st)
	}
	return fr.stepCalls([]*ast.CallExpr{d.Call}, nil, st)
}

// runClosure interprets a function literal body in the current frame (captured variables keep their facts).
func (fr *tsFrame) runClosure(fl *ast.FuncLit, st tsState) []tsState {
	sub := &tsFrame{cfg: fr.cfg, fi: fr.fi, info: fr.info, flow: fr.cfg.p.FlowOf(fr.info, fl.Body, fr.fi.Name()+"$lit"), entry: fr.entry, via: fr.via, depth: fr.depth, recvO: fr.recvO, exits: map[tsExit]bool{}, memo: map[string]bool{}}
	// closure exits carry full states: collect them
	var outs []tsState
	sub.collect = &outs
	sub.walk(sub.flow, sub.flow.G.Blocks[0], 0, st)
	return dedupStates(outs)
}

func dedupStates(in []tsState) []tsState {
	seen := map[string]bool{}
	var out []tsState
	for _, s := range in {
		k := s.key()
		if !seen[k] {
			seen[k] = true
			out = append(out, s)
		}
	}
	return out
}

// step interprets one CFG node.
func (fr *tsFrame) step(n ast.Node, st tsState) []tsState {
	switch s := n.(type) {
	case *ast.DeferStmt:
		ns := st.clone()
		ns.defers = append(ns.defers, s)
		return []tsState{ns}
	case *ast.GoStmt:
		return []tsState{st}
	}
	// calls first (right-hand sides are evaluated before the assignment takes effect)
	calls := callsAt(n)
	outs := fr.stepCalls(calls, n, st)
	// assignments to the tracked field / to error variables
	var res []tsState
	for _, o := range outs {
		res = append(res, fr.stepAssign(n, o))
	}
	return res
}

func (fr *tsFrame) stepAssign(n ast.Node, st tsState) tsState {
	as, ok := n.(*ast.AssignStmt)
	if !ok {
		return st
	}
	ns := st
	cloned := false
	for i, l := range as.Lhs {
		if fv := fieldOf(fr.info, l); fv != nil && fr.cfg.watch[fv] != nil && st.ts == tsOpen && !fr.cfg.watch[fv][refName(fr.fi.Obj)] {
			fr.cfg.report("store-while-open:"+objName(fv), fr, st.ts, as.Pos())
		}
		if fr.isTracked(l) {
			var rhs ast.Expr
			if len(as.Rhs) == len(as.Lhs) {
				rhs = as.Rhs[i]
			}
			if !cloned {
				ns = st.clone()
				cloned = true
			}
			if rhs != nil && isNilIdent(fr.info, rhs) {
				if ns.ts == tsOpen {
					fr.cfg.report("leak-nil", fr, ns.ts, as.Pos())
				}
				ns.ts = tsNil
			} else {
				if ns.ts == tsOpen {
					fr.cfg.report("leak-overwrite", fr, ns.ts, as.Pos())
				}
				ns.ts = tsOpen
			}
			continue
		}
		// local bool flag assigned a constant
		if o := objOf(fr.info, l); o != nil && len(as.Rhs) == len(as.Lhs) {
			if b, ok := o.Type().Underlying().(*types.Basic); ok && b.Kind() == types.Bool {
				if !cloned {
					ns = st.clone()
					cloned = true
				}
				ns.errs[o] = nnUnknown
				if tv, ok := fr.info.Types[as.Rhs[i]]; ok && tv.Value != nil {
					if tv.Value.String() == "true" {
						ns.errs[o] = nnNonNil
					} else if tv.Value.String() == "false" {
						ns.errs[o] = nnNil
					}
				}
				continue
			}
		}
		// plain error variable assigned something that is not an inlined call result: unknown / nil / non-nil
		if o := objOf(fr.info, l); o != nil && isErrorType(o.Type()) {
			if _, bound := fr.boundErr[as]; bound {
				continue
			}
			if !cloned {
				ns = st.clone()
				cloned = true
			}
			v := nnUnknown
			if len(as.Rhs) == len(as.Lhs) {
				if isNilIdent(fr.info, as.Rhs[i]) {
					v = nnNil
				} else if u, ok := ast.Unparen(as.Rhs[i]).(*ast.UnaryExpr); ok && u.Op == token.AND {
					v = nnNonNil
				} else if ro := objOf(fr.info, as.Rhs[i]); ro != nil && isErrorType(ro.Type()) {
					// a copy of another error variable / field carries its fact
					if f, known := st.errs[ro]; known {
						v = f
					}
				} else if call, ok := ast.Unparen(as.Rhs[i]).(*ast.CallExpr); ok && fr.cfg.p.errWrapper(callee(fr.info, call)) {
					// wrapErr(err)-style converter: non-nil for a non-nil argument
					for _, a := range call.Args {
						if ao := objOf(fr.info, a); ao != nil && isErrorType(ao.Type()) && st.errs[ao] == nnNonNil {
							v = nnNonNil
						}
					}
				}
			}
			ns.errs[o] = v
		}
	}
	return ns
}

// stepCalls interprets the calls of a node in source order.
func (fr *tsFrame) stepCalls(calls []*ast.CallExpr, node ast.Node, st tsState) []tsState {
	states := []tsState{st}
	for _, call := range calls {
		var next []tsState
		for _, s := range states {
			next = append(next, fr.stepCall(call, node, s)...)
		}
		states = dedupStates(next)
	}
	return states
}

func (fr *tsFrame) stepCall(call *ast.CallExpr, node ast.Node, st tsState) []tsState {
	// method call on the tracked field, possibly through a type assertion: s.delivery.(T).M(...)
	if rc := callRecv(call); rc != nil {
		base := ast.Unparen(rc)
		if ta, ok := base.(*ast.TypeAssertExpr); ok {
			base = ast.Unparen(ta.X)
		}
		if fr.isTracked(base) {
			ns := st.clone()
			m := methodName(call)
			if fr.cfg.closers[m] {
				if ns.ts != tsOpen {
					fr.cfg.report("close-not-open", fr, ns.ts, call.Pos())
				}
				ns.ts = tsClosed
			} else if ns.ts == tsClosed {
				fr.cfg.report("use-closed", fr, ns.ts, call.Pos())
			} else if ns.ts == tsNil {
				fr.cfg.report("use-nil", fr, ns.ts, call.Pos())
			}
			// error result of the call is unknown
			if node != nil {
				if eo := errVarAssigned(fr.info, node, call); eo != nil {
					ns.errs[eo] = nnUnknown
					fr.markBound(node)
				}
			}
			return []tsState{ns}
		}
	}
	// same-receiver method call: inline
	fn := callee(fr.info, call)
	if fn != nil && fr.depth < fr.cfg.maxDepth {
		if sig, ok := fn.Type().(*types.Signature); ok && sig.Recv() != nil && namedOf(sig.Recv().Type()) == fr.cfg.recv {
			if rc := callRecv(call); rc != nil && objOf(fr.info, rc) == fr.recvO && fr.recvO != nil {
				if cf := fr.cfg.p.DeclOf(fn); cf != nil {
					bind := map[types.Object]int{}
					if ps := cf.Decl.Type.Params; ps != nil {
						var pobjs []types.Object
						for _, f := range ps.List {
							for _, nm := range f.Names {
								pobjs = append(pobjs, cf.Info().Defs[nm])
							}
						}
						for ai, a := range call.Args {
							if ai >= len(pobjs) || pobjs[ai] == nil {
								continue
							}
							if u, ok := ast.Unparen(a).(*ast.UnaryExpr); ok && u.Op == token.AND {
								if fo := objOf(fr.info, u.X); fo != nil && isBoolType(fo.Type()) {
									bind[pobjs[ai]] = st.errs[fo]
								}
							} else if ao := objOf(fr.info, a); ao != nil && (isErrorType(ao.Type()) || isBoolType(ao.Type())) {
								bind[pobjs[ai]] = st.errs[ao]
							}
						}
					}
					exits := fr.cfg.run(cf, st, fr.entry, fr.via+"→"+fn.Name(), fr.depth+1, bind)
					var eo types.Object
					if node != nil {
						eo = errVarAssigned(fr.info, node, call)
						if eo != nil {
							fr.markBound(node)
						}
					}
					var outs []tsState
					for ex := range exits {
						ns := st.clone()
						ns.ts = ex.ts
						if eo != nil {
							ns.errs[eo] = ex.err
						}
						outs = append(outs, ns)
					}
					if len(outs) == 0 {
						return nil // callee never returns normally
					}
					return dedupStates(outs)
				}
			}
		}
	}
	// immediately invoked function literal
	if fl, ok := call.Fun.(*ast.FuncLit); ok {
		return fr.runClosure(fl, st)
	}
	// any other call: its error result is unknown
	if node != nil {
		if eo := errVarAssigned(fr.info, node, call); eo != nil {
			ns := st.clone()
			ns.errs[eo] = nnUnknown
			if fr.cfg.p.errWrapper(fn) {
				// wrapErr(err)-style converter: non-nil for a non-nil argument
				for _, a := range call.Args {
					if ao := objOf(fr.info, a); ao != nil && isErrorType(ao.Type()) && st.errs[ao] == nnNonNil {
						ns.errs[eo] = nnNonNil
					}
				}
			}
			fr.markBound(node)
			return []tsState{ns}
		}
	}
	return []tsState{st}
}

func (fr *tsFrame) markBound(node ast.Node) {
	if as, ok := node.(*ast.AssignStmt); ok {
		if fr.boundErr == nil {
			fr.boundErr = map[*ast.AssignStmt]bool{}
		}
		fr.boundErr[as] = true
	}
}

// errWrapper: fn has one error parameter and an error result, and returns a surely non-nil value whenever that
// parameter is non-nil (wrapErr-style converters). Decided on the function's own flow graph; cached.
func (p *Prog) errWrapper(fn *types.Func) bool {
	if fn == nil {
		return false
	}
	if p.errWrap == nil {
		p.errWrap = map[*types.Func]int{}
	}
	if v, ok := p.errWrap[fn]; ok {
		return v == 1
	}
	p.errWrap[fn] = 2 // in progress: recursion counts as "no"
	res := func() bool {
		d := p.DeclOf(fn)
		if d == nil || d.Decl.Body == nil {
			return false
		}
		sig := fn.Type().(*types.Signature)
		if sig.Results().Len() != 1 || !isErrorType(sig.Results().At(0).Type()) {
			return false
		}
		var prm types.Object
		for i := 0; i < sig.Params().Len(); i++ {
			if isErrorType(sig.Params().At(i).Type()) {
				if prm != nil {
					return false
				}
				prm = sig.Params().At(i)
			}
		}
		if prm == nil {
			return false
		}
		info := d.Info()
		f := p.FlowOfFunc(d)
		var surely func(e ast.Expr, depth int) bool
		surely = func(e ast.Expr, depth int) bool {
			e = ast.Unparen(e)
			switch x := e.(type) {
			case *ast.UnaryExpr:
				return x.Op == token.AND
			case *ast.CompositeLit:
				return true
			case *ast.CallExpr:
				if isCall(info, x, "fmt.Errorf", "errors.New") {
					return true
				}
				if cf := callee(info, x); cf != nil && cf != fn && p.errWrapper(cf) {
					for _, a := range x.Args {
						if objOf(info, a) == prm {
							return true
						}
					}
				}
			case *ast.Ident:
				o := objOf(info, x)
				if o == prm {
					return true
				}
				if v, ok := o.(*types.Var); ok && depth < 2 && !v.IsField() && localIn(d.Decl.Body, v) {
					if def, n := localDef(info, d.Decl.Body, v); n == 1 && def != nil {
						return surely(def, depth+1)
					}
				}
			}
			return false
		}
		bad := func(pt Pt) bool {
			k, ret := f.Exit(pt)
			if k == ExitFallOff {
				return true
			}
			return k == ExitReturn && ret != nil && (len(ret.Results) != 1 || !surely(ret.Results[0], 0))
		}
		world := f.World(func(atom ast.Expr) (bool, bool) {
			if ns, ok := nilTest(info, atom, prm); ok {
				return ns == 1, true
			}
			return false, false
		})
		_, found := f.Reach(Query{From: []Pt{f.Entry()}, Inclusive: true, Target: bad, AvoidEdge: world})
		return !found
	}()
	if res {
		p.errWrap[fn] = 1
	} else {
		p.errWrap[fn] = 0
	}
	return res
}

// nilPreserving: fn returns nil for a nil error argument (`if err == nil { return nil }` first) – assumed for
// wrapErr-style converters only.
func (p *Prog) nilPreserving(fn *types.Func) bool { return fn != nil }
