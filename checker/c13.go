package main

import (
	"go/ast"
	"go/constant"
	"go/token"
	"go/types"
	"strings"
)

func init() { register("C13", checkC13) }

const dnsPkg = modPath + "/framework/dns"

// retIs: return statement with given shape: first result constant bool b (or any if anyBool), error nil / non-nil.
func retBoolErr(info *types.Info, ret *ast.ReturnStmt) (b, bKnown, errNil, errKnown bool) {
	if ret == nil || len(ret.Results) != 2 {
		return
	}
	if tv, ok := info.Types[ret.Results[0]]; ok && tv.Value != nil && tv.Value.Kind() == constant.Bool {
		b, bKnown = constant.BoolVal(tv.Value), true
	}
	if isNilIdent(info, ret.Results[1]) {
		errNil, errKnown = true, true
	} else if u, ok := ast.Unparen(ret.Results[1]).(*ast.UnaryExpr); ok && u.Op == token.AND {
		errNil, errKnown = false, true
	} else if o := objOf(info, ret.Results[1]); o != nil {
		// a variable: known non-nil if its single definition is an &literal
		errKnown = false
	}
	return
}

func checkC13(c *Check) {
	p := c.P
	c.explain = "C13 (DANE accepts only a matching record and fails closed), on verifyDANE and daneDelivery.CheckConn: every accepting return is reachable only over the success edge of a TLSA/X.509 verification of the server's own certificate; usage-3 records feed only the end-entity list, usage-2 only the trust-anchor list, unusable selectors/matching types feed neither; " +
		"trust anchors are added only for CA certificates that match a usage-2 record; the chain is verified for the server name; 'records exist but no TLS' and 'usable records, no match' return an error before/after anything else; the caller grants the authenticated level only on (true, nil) and propagates the error."
	c.notCover = "correctness of dns.TLSA.Verify and crypto/x509 themselves, DNSSEC validation."
	c.Assume("A2: (dns.TLSA).Verify and (*x509.Certificate).Verify return nil exactly on a match / valid chain")

	c.Rule("R1", "verifyDANE: an accepting return (true, nil) is reachable only over the success edge of a verification of PeerCertificates[0]", 2)
	c.Rule("R1b", "verifyDANE: trust anchors are only CA certificates of the presented chain matching a usage-2 record; the chain is verified for the server name against these roots only", 3)
	c.Rule("R2", "verifyDANE: usage 3 → end-entity list only, usage 2 → trust-anchor list only, selectors outside {0,1} and matching types outside {0,1,2} reach neither", 4)
	c.Rule("R3", "verifyDANE fails closed: records but no completed handshake ⇒ error before any certificate is touched; usable records and no match ⇒ error; no (usable) records ⇒ (false, nil)", 4)
	c.Rule("R4", "daneDelivery.CheckConn grants the authenticated level only on (true, nil) from verifyDANE and propagates its error", 3)

	r := c.need("R1", remoteRel, "", "verifyDANE")
	if r == nil {
		return
	}
	info := r.Info
	isTLSAVerify := func(call *ast.CallExpr) bool { return isCall(info, call, "github.com/miekg/dns.TLSA.Verify") }
	isX509Verify := func(call *ast.CallExpr) bool { return isCall(info, call, "crypto/x509.Certificate.Verify") }
	isPeer0 := func(e ast.Expr) bool {
		ix, ok := ast.Unparen(e).(*ast.IndexExpr)
		if !ok {
			return false
		}
		s, ok := ast.Unparen(ix.X).(*ast.SelectorExpr)
		if !ok || s.Sel.Name != "PeerCertificates" {
			return false
		}
		tv, ok := info.Types[ix.Index]
		return ok && tv.Value != nil && tv.Value.String() == "0"
	}
	// the two record lists
	var eeObj, taObj types.Object
	usageOf := map[types.Object]int64{}
	var recLoop *ast.RangeStmt
	ast.Inspect(r.FI.Decl.Body, func(n ast.Node) bool {
		cc, ok := n.(*ast.CaseClause)
		if !ok {
			return true
		}
		for _, st := range cc.Body {
			as, ok := st.(*ast.AssignStmt)
			if !ok || len(as.Lhs) != 1 || len(as.Rhs) != 1 {
				continue
			}
			if o, args := appendTarget(info, as.Lhs[0], as.Rhs[0]); o != nil && len(args) == 1 && len(cc.List) == 1 {
				if tv, ok := info.Types[cc.List[0]]; ok && tv.Value != nil {
					if v, ok := constant.Int64Val(tv.Value); ok {
						usageOf[o] = v
					}
				}
			}
		}
		return true
	})
	for o, u := range usageOf {
		if u == 3 {
			eeObj = o
		}
		if u == 2 {
			taObj = o
		}
	}
	// verification sites: which record list does rec range over?
	rangeVarList := map[types.Object]types.Object{} // range value var -> ranged list object
	ast.Inspect(r.FI.Decl.Body, func(n ast.Node) bool {
		if rs, ok := n.(*ast.RangeStmt); ok && rs.Value != nil {
			rangeVarList[objOf(info, rs.Value)] = objOf(info, rs.X)
			if prm := paramObjs(r.FI)["recs"]; prm != nil && objOf(info, rs.X) == prm {
				recLoop = rs
			}
		}
		return true
	})
	if recLoop == nil {
		for _, rs := range rangesIn(r.FI.Decl.Body, func(rs *ast.RangeStmt) bool { _, isP := objOf(info, rs.X).(*types.Var); return isP }) {
			for _, po := range paramObjs(r.FI) {
				if objOf(info, rs.X) == po {
					recLoop = rs
				}
			}
		}
	}
	// error variables assigned from x509 Verify in an if-init
	x509ErrVars := map[types.Object]*ast.CallExpr{}
	ast.Inspect(r.FI.Decl.Body, func(n ast.Node) bool {
		if as, ok := n.(*ast.AssignStmt); ok && len(as.Rhs) == 1 {
			if call, ok := ast.Unparen(as.Rhs[0]).(*ast.CallExpr); ok && isX509Verify(call) {
				if o := errVarAssigned(info, as, call); o != nil {
					x509ErrVars[o] = call
				}
			}
		}
		return true
	})
	// atoms establishing "a verification succeeded"
	verifyOK := func(atom ast.Expr) (bool, bool) {
		be, ok := ast.Unparen(atom).(*ast.BinaryExpr)
		if !ok || (be.Op != token.EQL && be.Op != token.NEQ) || !isNilIdent(info, be.Y) {
			return false, false
		}
		if call, ok := ast.Unparen(be.X).(*ast.CallExpr); ok && isTLSAVerify(call) {
			// EE verification: record from the usage-3 list against the server's own certificate
			rv := recvObj(info, call)
			if eeObj != nil && rangeVarList[rv] == eeObj && len(call.Args) == 1 && isPeer0(call.Args[0]) {
				return be.Op == token.EQL, true
			}
			return false, false
		}
		if o := objOf(info, be.X); o != nil {
			if call := x509ErrVars[o]; call != nil && isPeer0(callRecv(call)) {
				return be.Op == token.EQL, true
			}
		}
		return false, false
	}
	accept := func(pt Pt) bool {
		_, ret := r.F.Exit(pt)
		b, bk, en, ek := retBoolErr(info, ret)
		if ret == nil || len(ret.Results) != 2 {
			return false
		}
		if ek && !en {
			return false // error return
		}
		if o := objOf(info, ret.Results[1]); o != nil {
			def, n := localDef(info, r.FI.Decl.Body, o)
			if u, ok := ast.Unparen(def).(*ast.UnaryExpr); ok && n == 1 && u.Op == token.AND {
				return false // variable holding an error literal
			}
		}
		if bk && !b && ek && en {
			return false // (false, nil)
		}
		return true // (true, nil), or anything not provably harmless
	}
	avoid := r.F.AvoidImplying(verifyOK)
	path, f := r.F.Reach(Query{From: r.Entry(), Inclusive: true, Target: accept, AvoidEdge: avoid})
	c.Hold("R1", "verifyDANE:accept-needs-match", r.FI.Decl.Pos(), !f && eeObj != nil, "an accepting return is reachable without a successful verification of the server's own certificate (EE record from the usage-3 list, or X.509 chain verification of PeerCertificates[0]): "+r.F.Describe(path))
	// there must be both verification kinds
	nEE, nTA := 0, 0
	ast.Inspect(r.FI.Decl.Body, func(n ast.Node) bool {
		if call, ok := n.(*ast.CallExpr); ok {
			if isTLSAVerify(call) && rangeVarList[recvObj(info, call)] == eeObj && eeObj != nil {
				nEE++
			}
			if isX509Verify(call) {
				nTA++
			}
		}
		return true
	})
	c.Hold("R1", "verifyDANE:both-modes", r.FI.Decl.Pos(), nEE >= 1 && nTA >= 1, "DANE-EE or DANE-TA verification is missing")

	// R1b: Roots.AddCert guarded by IsCA && taRec.Verify(cert) == nil ; opts.DNSName = ServerName ; x509 Verify(opts) uses that opts
	var optsObj types.Object
	for o, call := range x509ErrVars {
		_ = o
		if len(call.Args) == 1 {
			optsObj = objOf(info, call.Args[0])
		}
	}
	okRoots, nRoots := true, 0
	why := ""
	ast.Inspect(r.FI.Decl.Body, func(n ast.Node) bool {
		call, ok := n.(*ast.CallExpr)
		if !ok || !isCall(info, call, "crypto/x509.CertPool.AddCert") {
			return true
		}
		sel, ok := ast.Unparen(callRecv(call)).(*ast.SelectorExpr)
		if !ok || sel.Sel.Name != "Roots" {
			return true
		}
		nRoots++
		if objOf(info, sel.X) != optsObj || optsObj == nil {
			okRoots, why = false, "the root pool that is filled is not the one used for verification"
			return true
		}
		certArg := objOf(info, call.Args[0])
		pt, found := r.F.PtOf(call.Pos())
		if !found {
			okRoots, why = false, "undecided"
			return true
		}
		// must be unreachable without (IsCA true) and without (taRec.Verify(cert) == nil)
		isCA := r.F.AvoidImplying(func(atom ast.Expr) (bool, bool) {
			if s, ok := ast.Unparen(atom).(*ast.SelectorExpr); ok && s.Sel.Name == "IsCA" && objOf(info, s.X) == certArg {
				return true, true
			}
			return false, false
		})
		matches := r.F.AvoidImplying(func(atom ast.Expr) (bool, bool) {
			be, ok := ast.Unparen(atom).(*ast.BinaryExpr)
			if !ok || (be.Op != token.EQL && be.Op != token.NEQ) || !isNilIdent(info, be.Y) {
				return false, false
			}
			if vc, ok := ast.Unparen(be.X).(*ast.CallExpr); ok && isTLSAVerify(vc) && len(vc.Args) == 1 && objOf(info, vc.Args[0]) == certArg &&
				taObj != nil && rangeVarList[recvObj(info, vc)] == taObj {
				return be.Op == token.EQL, true
			}
			return false, false
		})
		if _, f := r.F.Reach(Query{From: r.Entry(), Inclusive: true, Target: isPt([]Pt{pt}), AvoidEdge: isCA}); f {
			okRoots, why = false, "a certificate is made a trust anchor without the CA test (a usage-2 record matching the leaf would make the leaf its own root)"
		}
		if _, f := r.F.Reach(Query{From: r.Entry(), Inclusive: true, Target: isPt([]Pt{pt}), AvoidEdge: matches}); f {
			okRoots, why = false, "a certificate is made a trust anchor without matching a usage-2 (DANE-TA) record"
		}
		return true
	})
	c.Hold("R1b", "verifyDANE:trust-anchors", r.FI.Decl.Pos(), okRoots && nRoots >= 1, why)
	// opts literal: DNSName: connState.ServerName; Roots: x509.NewCertPool()
	okOpts := false
	if optsObj != nil {
		def, n := localDef(info, r.FI.Decl.Body, optsObj)
		if cl, ok := ast.Unparen(def).(*ast.CompositeLit); ok && n == 1 {
			dnsOK, rootsOK := false, false
			for _, el := range cl.Elts {
				if kv, ok := el.(*ast.KeyValueExpr); ok {
					if id, ok := kv.Key.(*ast.Ident); ok {
						if id.Name == "DNSName" {
							if s, ok := ast.Unparen(kv.Value).(*ast.SelectorExpr); ok && s.Sel.Name == "ServerName" {
								dnsOK = true
							}
						}
						if id.Name == "Roots" {
							if call, ok := ast.Unparen(kv.Value).(*ast.CallExpr); ok && isCall(info, call, "crypto/x509.NewCertPool") {
								rootsOK = true
							}
						}
					}
				}
			}
			okOpts = dnsOK && rootsOK
		}
	}
	c.Hold("R1b", "verifyDANE:verify-options", r.FI.Decl.Pos(), okOpts, "the chain is not verified for the connection's server name against an initially empty root pool (system roots or a missing name check would accept unrelated certificates)")
	// no other store to opts.Roots / opts.DNSName
	otherStore := false
	ast.Inspect(r.FI.Decl.Body, func(n ast.Node) bool {
		if as, ok := n.(*ast.AssignStmt); ok {
			for _, l := range as.Lhs {
				if s, ok := ast.Unparen(l).(*ast.SelectorExpr); ok && objOf(info, s.X) == optsObj && optsObj != nil && (s.Sel.Name == "Roots" || s.Sel.Name == "DNSName") {
					otherStore = true
				}
			}
		}
		return true
	})
	c.Hold("R1b", "verifyDANE:options-not-overwritten", r.FI.Decl.Pos(), !otherStore, "the verification options' roots or name are overwritten after construction")

	// ---- R2
	c.Hold("R2", "verifyDANE:usage-lists", r.FI.Decl.Pos(), eeObj != nil && taObj != nil && len(usageOf) == 2, "expected exactly two record lists: usage 3 (DANE-EE) and usage 2 (DANE-TA)")
	if recLoop != nil {
		// the filter switches
		allowed := map[string]map[int64]bool{"MatchingType": {0: true, 1: true, 2: true}, "Selector": {0: true, 1: true}}
		for field, set := range allowed {
			okF := false
			why := "no filter on " + field
			for _, st := range recLoop.Body.List {
				sw, ok := st.(*ast.SwitchStmt)
				if !ok || sw.Tag == nil {
					continue
				}
				sel, ok := ast.Unparen(sw.Tag).(*ast.SelectorExpr)
				if !ok || sel.Sel.Name != field || objOf(info, sel.X) != objOf(info, recLoop.Value) {
					continue
				}
				okF, why = true, ""
				hasDefaultContinue := false
				for _, cl := range sw.Body.List {
					cc := cl.(*ast.CaseClause)
					if cc.List == nil {
						for _, s := range cc.Body {
							if b, ok := s.(*ast.BranchStmt); ok && b.Tok == token.CONTINUE {
								hasDefaultContinue = true
							}
						}
						continue
					}
					for _, e := range cc.List {
						tv, ok := info.Types[e]
						v, ok2 := int64(0), false
						if ok && tv.Value != nil {
							v, ok2 = constant.Int64Val(tv.Value)
						}
						if !ok2 || !set[v] {
							okF, why = false, "value "+exprStr(e)+" of "+field+" is treated as usable"
						}
						// a case that does not fall out of the switch normally (continue/return) is fine too
					}
				}
				if !hasDefaultContinue {
					okF, why = false, "records with an out-of-range "+field+" are not skipped"
				}
			}
			// the appends must come after the filter in the loop body
			c.Hold("R2", "verifyDANE:filter:"+field, recLoop.Pos(), okF, why)
		}
		// appends only inside the usage switch, which is after the filters
		okOrder := false
		seenFilters := 0
		for _, st := range recLoop.Body.List {
			if sw, ok := st.(*ast.SwitchStmt); ok && sw.Tag != nil {
				if sel, ok := ast.Unparen(sw.Tag).(*ast.SelectorExpr); ok {
					switch sel.Sel.Name {
					case "MatchingType", "Selector":
						seenFilters++
					case "Usage":
						okOrder = seenFilters == 2
					}
				}
			}
		}
		c.Hold("R2", "verifyDANE:filters-before-classification", recLoop.Pos(), okOrder, "records are classified by usage before the selector / matching-type filters ran")
	} else {
		c.Fail("R2", "verifyDANE:record-loop", r.FI.Decl.Pos(), "undecided: no loop over the records parameter")
	}

	// ---- R3
	// (i) no use of PeerCertificates without HandshakeComplete
	usesPeer := func(pt Pt) bool {
		found := false
		inspectNoLit(pt.Node(), func(x ast.Node) bool {
			if s, ok := x.(*ast.SelectorExpr); ok && s.Sel.Name == "PeerCertificates" {
				found = true
			}
			return true
		})
		return found
	}
	hs := r.F.AvoidImplying(func(atom ast.Expr) (bool, bool) {
		if s, ok := ast.Unparen(atom).(*ast.SelectorExpr); ok && s.Sel.Name == "HandshakeComplete" {
			return true, true
		}
		return false, false
	})
	path, f = r.F.Reach(Query{From: r.Entry(), Inclusive: true, Target: usesPeer, AvoidEdge: hs})
	c.Hold("R3", "verifyDANE:no-tls-no-certs", r.FI.Decl.Pos(), !f, "the peer certificates are accessed on a path where the handshake is not known to be complete (index out of range / acceptance without TLS): "+r.F.Describe(path))
	// without handshake: every exit is an error unless no records at all
	noHS := r.F.AvoidImplying(func(atom ast.Expr) (bool, bool) {
		if s, ok := ast.Unparen(atom).(*ast.SelectorExpr); ok && s.Sel.Name == "HandshakeComplete" {
			return true, true // remove "handshake complete" edges: we are in the no-TLS world
		}
		// and we are in the "records exist" world: remove edges establishing len(recs) == 0
		if s, ok := lenZeroEdge(info, atom); ok && recLoop != nil && mentions(info, atom, objOf(info, recLoop.X)) {
			return s == 0, true
		}
		return false, false
	})
	nonErr := func(pt Pt) bool {
		k, ret := r.F.Exit(pt)
		if k == NotExit || k == ExitPanic {
			return false
		}
		_, _, en, ek := retBoolErr(info, ret)
		if ek && !en {
			return false
		}
		if ret != nil && len(ret.Results) == 2 {
			if o := objOf(info, ret.Results[1]); o != nil {
				def, n := localDef(info, r.FI.Decl.Body, o)
				if u, ok := ast.Unparen(def).(*ast.UnaryExpr); ok && n == 1 && u.Op == token.AND {
					return false // variable holding an error literal
				}
			}
		}
		return true
	}
	path, f = r.F.Reach(Query{From: r.Entry(), Inclusive: true, Target: nonErr, AvoidEdge: noHS})
	c.Hold("R3", "verifyDANE:records-without-tls-refused", r.FI.Decl.Pos(), !f, "with TLSA records present and no completed handshake the function can return without an error (delivery over plaintext despite DANE): "+r.F.Describe(path))
	// (ii) after the "usable records exist" point, returning (x, nil) needs a match: covered by R1 for true; (false, nil) must be unreachable
	usable := r.F.AvoidImplying(func(atom ast.Expr) (bool, bool) {
		// remove edges establishing len(eeRecs) == 0 or len(taRecs) == 0 only jointly: handled by evaluating the whole atom
		if s, ok := lenZeroEdge(info, atom); ok && (mentions(info, atom, eeObj) && eeObj != nil) {
			return s == 0, true
		}
		return false, false
	})
	falseNil := func(pt Pt) bool {
		_, ret := r.F.Exit(pt)
		b, bk, en, ek := retBoolErr(info, ret)
		return bk && !b && ek && en
	}
	// start after the record loop (RangeDone of recLoop)
	if recLoop != nil {
		var done []Pt
		for _, b := range r.F.G.Blocks {
			if b.Kind == kindRangeDone && b.Stmt == ast.Stmt(recLoop) {
				done = append(done, Pt{b, 0})
			}
		}
		path, f = r.F.Reach(Query{From: done, Inclusive: true, Target: falseNil, AvoidEdge: usable})
		c.Hold("R3", "verifyDANE:usable-no-match-refused", r.FI.Decl.Pos(), !f, "with a usable DANE-EE record and no match the function can return (false, nil): the connection is used unauthenticated instead of being refused: "+r.F.Describe(path))
		// (iii) no usable records ⇒ a (false, nil) return exists right after the loop
		hasNone := false
		ast.Inspect(r.FI.Decl.Body, func(n ast.Node) bool {
			is, ok := n.(*ast.IfStmt)
			if !ok || is.Pos() < recLoop.End() {
				return true
			}
			if mentions(info, is.Cond, eeObj) && mentions(info, is.Cond, taObj) {
				for _, s := range is.Body.List {
					if ret, ok := s.(*ast.ReturnStmt); ok {
						b, bk, en, ek := retBoolErr(info, ret)
						if bk && !b && ek && en {
							hasNone = true
						}
					}
				}
			}
			return true
		})
		c.Hold("R3", "verifyDANE:only-unusable-neutral", r.FI.Decl.Pos(), hasNone, "exclusively unusable records do not lead to the neutral result (false, nil): they would refuse or authenticate a TLS connection")
	}

	// ---- R4 CheckConn
	cc := c.need("R4", remoteRel, "daneDelivery", "CheckConn")
	if cc == nil {
		return
	}
	ci := cc.Info
	vcalls := cc.Calls(calling("~/" + remoteRel + ".verifyDANE"))
	if len(vcalls) != 1 {
		c.Fail("R4", "CheckConn:verify", cc.FI.Decl.Pos(), "undecided: expected exactly one verifyDANE call")
		return
	}
	vas, _ := vcalls[0].Node().(*ast.AssignStmt)
	var okVar, errVar types.Object
	if vas != nil && len(vas.Lhs) == 2 {
		okVar, errVar = objOf(ci, vas.Lhs[0]), objOf(ci, vas.Lhs[1])
	}
	grants := func(pt Pt) bool {
		_, ret := cc.F.Exit(pt)
		if ret == nil || len(ret.Results) != 2 {
			return false
		}
		s, ok := ast.Unparen(ret.Results[0]).(*ast.SelectorExpr)
		return ok && s.Sel.Name == "TLSAuthenticated"
	}
	// grants anywhere in the function must pass through the verify call
	okDom, w := cc.MustPass(cc.Entry(), true, grants, isPt(vcalls))
	msg := ""
	if !okDom {
		msg = "the authenticated level is granted on a path that never ran verifyDANE: " + w
	} else if okVar == nil || errVar == nil {
		msg = "the result of verifyDANE (match flag or error) is discarded"
	} else {
		if p1, f1 := cc.F.ReachRefined(vcalls[0], okVar, true, true, grants, nil); f1 {
			msg = "the authenticated level is granted although verifyDANE reported no match: " + cc.F.Describe(p1)
		}
		if p2, f2 := cc.F.ReachRefined(vcalls[0], errVar, false, false, grants, nil); f2 {
			msg = "the authenticated level is granted although verifyDANE returned an error: " + cc.F.Describe(p2)
		}
	}
	c.Hold("R4", "CheckConn:grant-only-on-match", cc.FI.Decl.Pos(), msg == "", msg)
	// error propagated
	msg = ""
	if errVar != nil {
		nilErrRet := func(pt Pt) bool {
			_, ret := cc.F.Exit(pt)
			return ret != nil && len(ret.Results) == 2 && isNilIdent(ci, ret.Results[1])
		}
		if p3, f3 := cc.F.ReachRefined(vcalls[0], errVar, false, false, nilErrRet, nil); f3 {
			msg = "an error of verifyDANE (no match / no TLS) is swallowed: the connection would be used: " + cc.F.Describe(p3)
		}
	}
	c.Hold("R4", "CheckConn:error-propagated", cc.FI.Decl.Pos(), msg == "" && errVar != nil, msg)
	// lookup failure defers (C05.R7): on the error edge of the TLSA future every return carries an error, except under IsNotFound
	fut := cc.Calls(func(info *types.Info, call *ast.CallExpr) bool {
		return methodName(call) == "GetContext" || methodName(call) == "Get"
	})
	msg = "the TLSA lookup result is not awaited"
	if len(fut) == 1 {
		msg = ""
		call := cc.CallAt(fut[0], func(info *types.Info, call *ast.CallExpr) bool {
			return methodName(call) == "GetContext" || methodName(call) == "Get"
		})
		eo := errVarAssigned(ci, fut[0].Node(), call)
		notFound := cc.F.AvoidImplying(func(atom ast.Expr) (bool, bool) {
			if ic, ok := ast.Unparen(atom).(*ast.CallExpr); ok && isCall(ci, ic, dnsPkg+".IsNotFound") {
				return true, true
			}
			return false, false
		})
		nilErrRet := func(pt Pt) bool {
			_, ret := cc.F.Exit(pt)
			return ret != nil && len(ret.Results) == 2 && isNilIdent(ci, ret.Results[1])
		}
		if eo == nil {
			msg = "the error of the TLSA lookup is dropped"
		} else if p4, f4 := cc.F.ReachRefined2(fut[0], eo, false, false, orPt(nilErrRet, isPt(vcalls)), nil, notFound); f4 {
			msg = "a failed TLSA lookup (SERVFAIL, bogus signature) is treated like 'no records': delivery proceeds unauthenticated instead of being deferred: " + cc.F.Describe(p4)
		}
		// the returned error is marked temporary
		tmp := false
		ast.Inspect(cc.FI.Decl.Body, func(n ast.Node) bool {
			if call, ok := n.(*ast.CallExpr); ok && isCall(ci, call, exterrPkg+".WithTemporary") && len(call.Args) == 2 && objOf(ci, call.Args[0]) == eo {
				if tv, ok := ci.Types[call.Args[1]]; ok && tv.Value != nil && tv.Value.String() == "true" {
					tmp = true
				}
			}
			return true
		})
		if msg == "" && !tmp {
			msg = "the lookup failure is not marked temporary (the message would bounce instead of being retried)"
		}
	}
	c.Hold("R4", "CheckConn:lookup-failure-defers", cc.FI.Decl.Pos(), msg == "", msg)
	// the discovery itself: an error of any resolver call that is not "not found" ends the discovery with that
	// error – it is never treated like an empty answer (no fall-through to another lookup, no nil-error return)
	c.Rule("R5", "discoverTLSA: a resolver error other than not-found is returned; it never falls through to a further lookup or to a 'no records' result", 3)
	if rd := c.need("R5", remoteRel, "daneDelivery", "discoverTLSA"); rd != nil {
		di := rd.Info
		isResolver := func(info *types.Info, call *ast.CallExpr) bool {
			switch methodName(call) {
			case "AuthLookupTLSA", "CheckCNAMEAD", "AuthLookupCNAME", "AuthLookupHost", "AuthLookupIPAddr":
				return true
			}
			return false
		}
		calls := rd.Calls(isResolver)
		if len(calls) < 3 {
			c.Fail("R5", "discoverTLSA:lookups", rd.FI.Decl.Pos(), "undecided: expected the CNAME/AD check and the TLSA lookups")
		}
		for i, cp := range calls {
			call := rd.CallAt(cp, isResolver)
			key := "discoverTLSA:" + methodName(call) + itoa(i+1)
			eo := errVarAssigned(di, cp.Node(), call)
			if eo == nil {
				c.Hold("R5", key, call.Pos(), false, "the error of "+methodName(call)+" is dropped")
				continue
			}
			// world: the error is not a not-found error
			world := rd.F.World(func(atom ast.Expr) (bool, bool) {
				if ic, ok := ast.Unparen(atom).(*ast.CallExpr); ok && isCall(di, ic, dnsPkg+".IsNotFound") && len(ic.Args) == 1 && objOf(di, ic.Args[0]) == eo {
					return false, true
				}
				if ns, ok := nilTest(di, atom, eo); ok {
					return ns == 1, true // the atom is true iff it says "non-nil"
				}
				return false, false
			})
			bad := func(pt Pt) bool {
				if pt == cp {
					return false
				}
				if rd.IsCallPt(isResolver)(pt) {
					return true
				}
				_, ret := rd.F.Exit(pt)
				return ret != nil && len(ret.Results) == 2 && isNilIdent(di, ret.Results[1])
			}
			path, f := rd.F.ReachRefined2(cp, eo, false, false, bad, nil, world)
			c.Hold("R5", key, call.Pos(), !f, "a failed "+methodName(call)+" (SERVFAIL, bogus signature, time-out) is treated like an empty answer: discovery goes on / reports 'no records' and the delivery proceeds without DANE instead of being deferred: "+rd.F.Describe(path))
		}
	}
	// R6: the TLSA result is bound to the connection it was looked up for. One daneDelivery serves every MX tried
	// for a message; the asynchronous lookup must complete the future created by its own PrepareConn call –
	// identified as a value (a local of that call), not re-read from the shared field when the lookup is done.
	c.Rule("R6", "PrepareConn: the lookup goroutine completes a future created by this very call (a captured local, not the shared field re-read later), and that future is what CheckConn reads; no other function installs a future", 3)
	if pc := c.need("R6", remoteRel, "daneDelivery", "PrepareConn"); pc != nil {
		pi := pc.Info
		const futPkg = modPath + "/framework/future"
		var goStmts []*ast.GoStmt
		ast.Inspect(pc.FI.Decl.Body, func(x ast.Node) bool {
			if g, ok := x.(*ast.GoStmt); ok {
				goStmts = append(goStmts, g)
			}
			return true
		})
		// the field CheckConn waits on
		var waitField *types.Var
		if cc := c.In(remoteRel, "daneDelivery", "CheckConn"); cc != nil {
			for _, call := range callsIn(cc.FI.Decl.Body) {
				if isCall(cc.Info, call, futPkg+".Future.GetContext", futPkg+".Future.Get") {
					waitField = fieldOf(cc.Info, callRecv(call))
				}
			}
		}
		if waitField == nil {
			c.Fail("R6", "CheckConn:waits-on-field", pc.FI.Decl.Pos(), "undecided: CheckConn does not wait on a future stored in a field of the delivery")
		}
		nset := 0
		for _, g := range goStmts {
			lit, ok := g.Call.Fun.(*ast.FuncLit)
			if !ok {
				continue
			}
			for _, call := range callsIn(lit.Body) {
				if !isCall(pi, call, futPkg+".Future.Set") {
					continue
				}
				nset++
				key := "PrepareConn:set" + itoa(nset)
				recv := callRecv(call)
				v, isVar := objOf(pi, recv).(*types.Var)
				if _, isIdent := ast.Unparen(recv).(*ast.Ident); !isIdent || !isVar || v.IsField() || !posIn(pc.FI.Decl.Body, v.Pos()) || posIn(lit, v.Pos()) {
					c.Hold("R6", key, call.Pos(), false, "the lookup goroutine completes `"+exprStr(recv)+"`, read when the lookup is done: if the connection attempt fails first, the next PrepareConn has replaced it and this MX's records decide the next MX's connection (and that MX's own result is dropped)")
					continue
				}
				def, n := localDef(pi, pc.FI.Decl.Body, v)
				dc, _ := def.(*ast.CallExpr)
				fresh := n == 1 && dc != nil && isCall(pi, dc, futPkg+".New")
				c.Hold("R6", key, call.Pos(), fresh, "the future completed by the lookup goroutine is not created (exactly once) by this PrepareConn call")
				if !fresh || waitField == nil {
					continue
				}
				// every path to the go statement installs exactly that future in the field CheckConn reads
				gp, okp := pc.F.PtOf(g.Pos())
				installs := func(pt Pt) bool {
					return nodeAssigns(pt.Node(), func(lhs, rhs ast.Expr) bool { return fieldOf(pi, lhs) == waitField && objOf(pi, rhs) == v })
				}
				if !okp {
					c.Fail("R6", "PrepareConn:installs"+itoa(nset), g.Pos(), "undecided: go statement not found in the flow graph")
					continue
				}
				okMust, w := pc.MustPass(pc.Entry(), true, func(pt Pt) bool { return pt == gp }, installs)
				c.Hold("R6", "PrepareConn:installs"+itoa(nset), g.Pos(), okMust, "the lookup is started without installing its future in ."+waitField.Name()+" (CheckConn would wait on another lookup's result): "+w)
			}
		}
		if nset == 0 {
			c.Fail("R6", "PrepareConn:set", pc.FI.Decl.Pos(), "undecided: no asynchronous lookup completing a future found in PrepareConn")
		}
		// who else writes the field
		if waitField != nil {
			bad := ""
			p.AllFuncs(p.ServerPkgs(), func(fi *FuncInfo) {
				if fi.Pkg.PkgPath != pc.FI.Pkg.PkgPath || fi.Obj == pc.FI.Obj || strings.HasSuffix(p.Fset.Position(fi.Decl.Pos()).Filename, "_test.go") {
					return
				}
				info := fi.Info()
				ast.Inspect(fi.Decl, func(x ast.Node) bool {
					switch s := x.(type) {
					case *ast.AssignStmt:
						for i, l := range s.Lhs {
							if fieldOf(info, l) == waitField && !(len(s.Rhs) == len(s.Lhs) && isNilIdent(info, s.Rhs[i])) {
								bad = fi.Name() + " (line " + itoa(p.Fset.Position(s.Pos()).Line) + ")"
							}
						}
					case *ast.KeyValueExpr:
						if id, ok := s.Key.(*ast.Ident); ok && info.Uses[id] == waitField && !isNilIdent(info, s.Value) {
							bad = fi.Name() + " (line " + itoa(p.Fset.Position(s.Pos()).Line) + ")"
						}
					}
					return true
				})
			})
			c.Hold("R6", "tlsaFut:single-writer", pc.FI.Decl.Pos(), bad == "", "a future is installed for the whole delivery by "+bad+": a future is single-assignment, so every connection after the first would be judged by the first MX's TLSA result")
		}
	}
}
