package main

import (
	"go/ast"
	"go/constant"
	"go/token"
	"go/types"
	"strings"
)

func init() { register("C13", checkC13) }

const dnsPkg = modPath + "/framework/dns"

// retIs: return statement with given shape: first result constant bool b (or any if anyBool), error nil / non-nil.
func retBoolErr(info *types.Info, ret *ast.ReturnStmt) (b, bKnown, errNil, errKnown bool) {
	if ret == nil || len(ret.Results) != 2 {
		return
	}
	if tv, ok := info.Types[ret.Results[0]]; ok && tv.Value != nil && tv.Value.Kind() == constant.Bool {
		b, bKnown = constant.BoolVal(tv.Value), true
	}
	if isNilIdent(info, ret.Results[1]) {
		errNil, errKnown = true, true
	} else if u, ok := ast.Unparen(ret.Results[1]).(*ast.UnaryExpr); ok && u.Op == token.AND {
		errNil, errKnown = false, true
	} else if o := objOf(info, ret.Results[1]); o != nil {
		// a variable: known non-nil if its single definition is an &literal
		errKnown = false
	}
	return
}

func checkC13(c *Check) {
	p := c.P
	c.explain = "C13 (DANE accepts only a matching record and fails closed), on verifyDANE and daneDelivery.CheckConn: every accepting return is reachable only over the success edge of a TLSA/X.509 verification of the server's own certificate; usage-3 records feed only the end-entity list, usage-2 only the trust-anchor list, unusable selectors/matching types feed neither; " +
		"trust anchors are added only for CA certificates that match a usage-2 record; the chain is verified for the server name; 'records exist but no TLS' and 'usable records, no match' return an error before/after anything else; the caller grants the authenticated level only on (true, nil) and propagates the error."
	c.notCover = "correctness of dns.TLSA.Verify and crypto/x509 themselves, DNSSEC validation."
	c.Assume("A2: (dns.TLSA).Verify and (*x509.Certificate).Verify return nil exactly on a match / valid chain")

	c.Rule("R1", "verifyDANE: an accepting return (true, nil) is reachable only over the success edge of a verification of PeerCertificates[0]", 2)
	c.Rule("R1b", "verifyDANE: trust anchors are only CA certificates of the presented chain matching a usage-2 record; the chain is verified for the server name against these roots only", 3)
	c.Rule("R2", "verifyDANE: usage 3 → end-entity list only, usage 2 → trust-anchor list only, selectors outside {0,1} and matching types outside {0,1,2} reach neither", 4)
	c.Rule("R3", "verifyDANE fails closed: records but no completed handshake ⇒ error before any certificate is touched; usable records and no match ⇒ error; no (usable) records ⇒ (false, nil)", 4)
	c.Rule("R4", "daneDelivery.CheckConn grants the authenticated level only on (true, nil) from verifyDANE and propagates its error", 3)

	r := c.need("R1", remoteRel, "", "verifyDANE")
	if r == nil {
		return
	}
	info := r.Info
	isTLSAVerify := func(call *ast.CallExpr) bool { return isCall(info, call, "github.com/miekg/dns.TLSA.Verify") }
	isX509Verify := func(call *ast.CallExpr) bool { return isCall(info, call, "crypto/x509.Certificate.Verify") }
	isPeer0 := func(e ast.Expr) bool {
		ix, ok := ast.Unparen(e).(*ast.IndexExpr)
		if !ok {
			return false
		}
		s, ok := ast.Unparen(ix.X).(*ast.SelectorExpr)
		if !ok || s.Sel.Name != "PeerCertificates" {
			return false
		}
		tv, ok := info.Types[ix.Index]
		return ok && tv.Value != nil && tv.Value.String() == "0"
	}
	// The record lists and what reaches them. Independent of the syntactic form of the filters (switch, if-chain,
	// continue-guards): the classification loop is evaluated in model worlds – every record has usage u, selector s
	// and matching type m – and an append site is "fed" in a world iff it is reachable there.
	var recsParam types.Object
	for _, po := range paramObjs(r.FI) {
		if sl, ok := po.Type().Underlying().(*types.Slice); ok && typeIs(sl.Elem(), "github.com/miekg/dns", "TLSA") {
			recsParam = po
		}
	}
	rangeVarList := map[types.Object]types.Object{} // range value var -> ranged list object
	ast.Inspect(r.FI.Decl.Body, func(n ast.Node) bool {
		if rs, ok := n.(*ast.RangeStmt); ok && rs.Value != nil {
			rangeVarList[objOf(info, rs.Value)] = objOf(info, rs.X)
		}
		return true
	})
	// elemListOf: the list an expression is an element of (range value, L[i], or a local defined once as L[i])
	elemListOf := func(e ast.Expr) types.Object {
		e = ast.Unparen(e)
		if ix, ok := e.(*ast.IndexExpr); ok {
			return objOf(info, ix.X)
		}
		o := objOf(info, e)
		if o == nil {
			return nil
		}
		if l := rangeVarList[o]; l != nil {
			return l
		}
		if def, n := localDef(info, r.FI.Decl.Body, o); n == 1 && def != nil {
			if ix, ok := ast.Unparen(def).(*ast.IndexExpr); ok {
				return objOf(info, ix.X)
			}
		}
		return nil
	}
	type appendSite struct {
		pt   Pt
		list types.Object
	}
	var appends []appendSite
	for _, pt := range r.F.Points() {
		as, ok := pt.Node().(*ast.AssignStmt)
		if !ok || len(as.Lhs) != 1 || len(as.Rhs) != 1 {
			continue
		}
		if o, args := appendTarget(info, as.Lhs[0], as.Rhs[0]); o != nil && len(args) == 1 && recsParam != nil && elemListOf(args[0]) == recsParam {
			appends = append(appends, appendSite{pt, o})
		}
	}
	recWorld := func(u, sel, mt int64) func(b *cfgBlock, i int) bool {
		return r.F.ValueWorld(func(e ast.Expr) (constant.Value, bool) {
			se, ok := ast.Unparen(e).(*ast.SelectorExpr)
			if !ok || fieldOf(info, se) == nil || elemListOf(se.X) != recsParam || recsParam == nil {
				return nil, false
			}
			switch se.Sel.Name {
			case "Usage":
				return constant.MakeInt64(u), true
			case "Selector":
				return constant.MakeInt64(sel), true
			case "MatchingType":
				return constant.MakeInt64(mt), true
			}
			return nil, false
		})
	}
	fed := func(list types.Object, u, sel, mt int64) bool {
		w := recWorld(u, sel, mt)
		for _, a := range appends {
			if a.list != list {
				continue
			}
			if _, f := r.F.Reach(Query{From: r.Entry(), Inclusive: true, Target: func(q Pt) bool { return q == a.pt }, AvoidEdge: w}); f {
				return true
			}
		}
		return false
	}
	lists := map[types.Object]bool{}
	for _, a := range appends {
		lists[a.list] = true
	}
	// usages feeding each list with a usable selector / matching type
	usageOf := map[types.Object][]int64{}
	for l := range lists {
		for u := int64(0); u <= 4; u++ {
			if fed(l, u, 0, 1) || fed(l, u, 1, 0) || fed(l, u, 1, 2) {
				usageOf[l] = append(usageOf[l], u)
			}
		}
	}
	var eeObj, taObj types.Object
	for l, us := range usageOf {
		if len(us) == 1 && us[0] == 3 {
			eeObj = l
		}
		if len(us) == 1 && us[0] == 2 {
			taObj = l
		}
	}
	// error variables assigned from x509 Verify in an if-init
	x509ErrVars := map[types.Object]*ast.CallExpr{}
	ast.Inspect(r.FI.Decl.Body, func(n ast.Node) bool {
		if as, ok := n.(*ast.AssignStmt); ok && len(as.Rhs) == 1 {
			if call, ok := ast.Unparen(as.Rhs[0]).(*ast.CallExpr); ok && isX509Verify(call) {
				if o := errVarAssigned(info, as, call); o != nil {
					x509ErrVars[o] = call
				}
			}
		}
		return true
	})
	// atoms establishing "a verification succeeded"
	verifyOK := func(atom ast.Expr) (bool, bool) {
		be, ok := ast.Unparen(atom).(*ast.BinaryExpr)
		if !ok || (be.Op != token.EQL && be.Op != token.NEQ) || !isNilIdent(info, be.Y) {
			return false, false
		}
		if call, ok := ast.Unparen(be.X).(*ast.CallExpr); ok && isTLSAVerify(call) {
			// EE verification: record from the usage-3 list against the server's own certificate
			rv := recvObj(info, call)
			if eeObj != nil && elemListOf(callRecv(call)) == eeObj && len(call.Args) == 1 && isPeer0(call.Args[0]) {
				_ = rv
				return be.Op == token.EQL, true
			}
			return false, false
		}
		if o := objOf(info, be.X); o != nil {
			if call := x509ErrVars[o]; call != nil && isPeer0(callRecv(call)) {
				return be.Op == token.EQL, true
			}
		}
		return false, false
	}
	accept := func(pt Pt) bool {
		_, ret := r.F.Exit(pt)
		b, bk, en, ek := retBoolErr(info, ret)
		if ret == nil || len(ret.Results) != 2 {
			return false
		}
		if ek && !en {
			return false // error return
		}
		if o := objOf(info, ret.Results[1]); o != nil {
			def, n := localDef(info, r.FI.Decl.Body, o)
			if u, ok := ast.Unparen(def).(*ast.UnaryExpr); ok && n == 1 && u.Op == token.AND {
				return false // variable holding an error literal
			}
		}
		if bk && !b && ek && en {
			return false // (false, nil)
		}
		return true // (true, nil), or anything not provably harmless
	}
	avoid := r.F.AvoidImplying(verifyOK)
	path, f := r.F.Reach(Query{From: r.Entry(), Inclusive: true, Target: accept, AvoidEdge: avoid})
	c.Hold("R1", "verifyDANE:accept-needs-match", r.FI.Decl.Pos(), !f && eeObj != nil, "an accepting return is reachable without a successful verification of the server's own certificate (EE record from the usage-3 list, or X.509 chain verification of PeerCertificates[0]): "+r.F.Describe(path))
	// there must be both verification kinds
	nEE, nTA := 0, 0
	ast.Inspect(r.FI.Decl.Body, func(n ast.Node) bool {
		if call, ok := n.(*ast.CallExpr); ok {
			if isTLSAVerify(call) && elemListOf(callRecv(call)) == eeObj && eeObj != nil {
				nEE++
			}
			if isX509Verify(call) {
				nTA++
			}
		}
		return true
	})
	c.Hold("R1", "verifyDANE:both-modes", r.FI.Decl.Pos(), nEE >= 1 && nTA >= 1, "DANE-EE or DANE-TA verification is missing")

	// R1b: Roots.AddCert guarded by IsCA && taRec.Verify(cert) == nil ; opts.DNSName = ServerName ; x509 Verify(opts) uses that opts
	var optsObj types.Object
	for o, call := range x509ErrVars {
		_ = o
		if len(call.Args) == 1 {
			optsObj = objOf(info, call.Args[0])
		}
	}
	okRoots, nRoots := true, 0
	why := ""
	ast.Inspect(r.FI.Decl.Body, func(n ast.Node) bool {
		call, ok := n.(*ast.CallExpr)
		if !ok || !isCall(info, call, "crypto/x509.CertPool.AddCert") {
			return true
		}
		sel, ok := ast.Unparen(callRecv(call)).(*ast.SelectorExpr)
		if !ok || sel.Sel.Name != "Roots" {
			return true
		}
		nRoots++
		if objOf(info, sel.X) != optsObj || optsObj == nil {
			okRoots, why = false, "the root pool that is filled is not the one used for verification"
			return true
		}
		certArg := objOf(info, call.Args[0])
		pt, found := r.F.PtOf(call.Pos())
		if !found {
			okRoots, why = false, "undecided"
			return true
		}
		// must be unreachable without (IsCA true) and without (taRec.Verify(cert) == nil)
		isCA := r.F.AvoidImplying(func(atom ast.Expr) (bool, bool) {
			if s, ok := ast.Unparen(atom).(*ast.SelectorExpr); ok && s.Sel.Name == "IsCA" && objOf(info, s.X) == certArg {
				return true, true
			}
			return false, false
		})
		matches := r.F.AvoidImplying(func(atom ast.Expr) (bool, bool) {
			be, ok := ast.Unparen(atom).(*ast.BinaryExpr)
			if !ok || (be.Op != token.EQL && be.Op != token.NEQ) || !isNilIdent(info, be.Y) {
				return false, false
			}
			if vc, ok := ast.Unparen(be.X).(*ast.CallExpr); ok && isTLSAVerify(vc) && len(vc.Args) == 1 && objOf(info, vc.Args[0]) == certArg &&
				taObj != nil && elemListOf(callRecv(vc)) == taObj {
				return be.Op == token.EQL, true
			}
			return false, false
		})
		if _, f := r.F.Reach(Query{From: r.Entry(), Inclusive: true, Target: isPt([]Pt{pt}), AvoidEdge: isCA}); f {
			okRoots, why = false, "a certificate is made a trust anchor without the CA test (a usage-2 record matching the leaf would make the leaf its own root)"
		}
		if _, f := r.F.Reach(Query{From: r.Entry(), Inclusive: true, Target: isPt([]Pt{pt}), AvoidEdge: matches}); f {
			okRoots, why = false, "a certificate is made a trust anchor without matching a usage-2 (DANE-TA) record"
		}
		return true
	})
	c.Hold("R1b", "verifyDANE:trust-anchors", r.FI.Decl.Pos(), okRoots && nRoots >= 1, why)
	// opts literal: DNSName: connState.ServerName; Roots: x509.NewCertPool()
	okOpts := false
	if optsObj != nil {
		def, n := localDef(info, r.FI.Decl.Body, optsObj)
		if cl, ok := ast.Unparen(def).(*ast.CompositeLit); ok && n == 1 {
			dnsOK, rootsOK := false, false
			for _, el := range cl.Elts {
				if kv, ok := el.(*ast.KeyValueExpr); ok {
					if id, ok := kv.Key.(*ast.Ident); ok {
						if id.Name == "DNSName" {
							if s, ok := ast.Unparen(kv.Value).(*ast.SelectorExpr); ok && s.Sel.Name == "ServerName" {
								dnsOK = true
							}
						}
						if id.Name == "Roots" {
							if call, ok := ast.Unparen(kv.Value).(*ast.CallExpr); ok && isCall(info, call, "crypto/x509.NewCertPool") {
								rootsOK = true
							}
						}
					}
				}
			}
			okOpts = dnsOK && rootsOK
		}
	}
	c.Hold("R1b", "verifyDANE:verify-options", r.FI.Decl.Pos(), okOpts, "the chain is not verified for the connection's server name against an initially empty root pool (system roots or a missing name check would accept unrelated certificates)")
	// no other store to opts.Roots / opts.DNSName
	otherStore := false
	ast.Inspect(r.FI.Decl.Body, func(n ast.Node) bool {
		if as, ok := n.(*ast.AssignStmt); ok {
			for _, l := range as.Lhs {
				if s, ok := ast.Unparen(l).(*ast.SelectorExpr); ok && objOf(info, s.X) == optsObj && optsObj != nil && (s.Sel.Name == "Roots" || s.Sel.Name == "DNSName") {
					otherStore = true
				}
			}
		}
		return true
	})
	c.Hold("R1b", "verifyDANE:options-not-overwritten", r.FI.Decl.Pos(), !otherStore, "the verification options' roots or name are overwritten after construction")

	// ---- R2
	{
		msg := ""
		for l, us := range usageOf {
			if l != eeObj && l != taObj {
				msg = "list " + l.Name() + " collects records of usages " + fmtInts(us) + " (expected exactly one list for usage 3 and one for usage 2)"
			}
		}
		if eeObj == nil || taObj == nil {
			msg = "expected exactly two record lists: usage 3 (DANE-EE) only and usage 2 (DANE-TA) only" + map[bool]string{true: "", false: "; " + msg}[msg == ""]
		}
		c.Hold("R2", "verifyDANE:usage-lists", r.FI.Decl.Pos(), msg == "" && len(lists) == 2, msg)
		// out-of-range selectors / matching types reach no list, whatever the usage
		for _, fld := range []struct {
			name    string
			sel, mt int64
		}{{"Selector", 2, 1}, {"Selector", 255, 0}, {"MatchingType", 0, 3}, {"MatchingType", 1, 255}} {
			bad := ""
			for l := range lists {
				for u := int64(0); u <= 4; u++ {
					if fed(l, u, fld.sel, fld.mt) {
						bad = "a record with usage " + itoa(int(u)) + ", selector " + itoa(int(fld.sel)) + ", matching type " + itoa(int(fld.mt)) + " reaches list " + l.Name() + ": an unusable record would count as usable (refusing the connection, or hiding that only unusable records exist)"
					}
				}
			}
			key := "verifyDANE:filter:" + fld.name
			if fld.sel == 255 || fld.mt == 255 {
				key += ":255"
			}
			c.Hold("R2", key, r.FI.Decl.Pos(), bad == "" && len(lists) > 0, bad)
		}
		// every usable combination of a usage-2/3 record does reach its list (nothing usable is dropped)
		miss := ""
		for _, u := range []int64{2, 3} {
			l := taObj
			if u == 3 {
				l = eeObj
			}
			for sel := int64(0); sel <= 1 && l != nil; sel++ {
				for mt := int64(0); mt <= 2; mt++ {
					if !fed(l, u, sel, mt) {
						miss = "a usable record (usage " + itoa(int(u)) + ", selector " + itoa(int(sel)) + ", matching type " + itoa(int(mt)) + ") is dropped"
					}
				}
			}
		}
		c.Hold("R2", "verifyDANE:usable-kept", r.FI.Decl.Pos(), miss == "" && eeObj != nil && taObj != nil, miss)
	}

	// ---- R3
	// (i) no use of PeerCertificates without HandshakeComplete
	usesPeer := func(pt Pt) bool {
		found := false
		inspectNoLit(pt.Node(), func(x ast.Node) bool {
			if s, ok := x.(*ast.SelectorExpr); ok && s.Sel.Name == "PeerCertificates" {
				found = true
			}
			return true
		})
		return found
	}
	hs := r.F.AvoidImplying(func(atom ast.Expr) (bool, bool) {
		if s, ok := ast.Unparen(atom).(*ast.SelectorExpr); ok && s.Sel.Name == "HandshakeComplete" {
			return true, true
		}
		return false, false
	})
	path, f = r.F.Reach(Query{From: r.Entry(), Inclusive: true, Target: usesPeer, AvoidEdge: hs})
	c.Hold("R3", "verifyDANE:no-tls-no-certs", r.FI.Decl.Pos(), !f, "the peer certificates are accessed on a path where the handshake is not known to be complete (index out of range / acceptance without TLS): "+r.F.Describe(path))
	// Worlds over the three facts the function branches on: records present, handshake complete, usable lists empty.
	lenAtom := func(atom ast.Expr, obj types.Object, zero bool) (bool, bool) {
		if s, ok := lenZeroEdge(info, atom); ok && obj != nil && mentions(info, atom, obj) {
			// successor s is taken when the length is zero; the atom is true on successor 0
			return (s == 0) == zero, true
		}
		return false, false
	}
	mkWorld := func(hasRecs, handshake bool, eeEmpty, taEmpty int) func(b *cfgBlock, i int) bool {
		return r.F.World(func(atom ast.Expr) (bool, bool) {
			if s, ok := ast.Unparen(atom).(*ast.SelectorExpr); ok && s.Sel.Name == "HandshakeComplete" {
				return handshake, true
			}
			// sums of lengths (`len(eeRecs)+len(taRecs) == 0`): evaluated with the model lengths 0 / 1
			if be, ok := ast.Unparen(atom).(*ast.BinaryExpr); ok {
				if _, isSum := ast.Unparen(be.X).(*ast.BinaryExpr); isSum {
					var ev func(e ast.Expr) (int64, bool)
					ev = func(e ast.Expr) (int64, bool) {
						e = ast.Unparen(e)
						if tv, has := info.Types[e]; has && tv.Value != nil && tv.Value.Kind() == constant.Int {
							v, exact := constant.Int64Val(tv.Value)
							return v, exact
						}
						switch x := e.(type) {
						case *ast.BinaryExpr:
							if x.Op == token.ADD {
								a, okA := ev(x.X)
								b, okB := ev(x.Y)
								return a + b, okA && okB
							}
						case *ast.CallExpr:
							if id, isID := x.Fun.(*ast.Ident); isID && id.Name == "len" && len(x.Args) == 1 {
								o := objOf(info, x.Args[0])
								switch {
								case o != nil && o == recsParam:
									if hasRecs {
										return 1, true
									}
									return 0, true
								case o != nil && o == eeObj && eeEmpty >= 0:
									return int64(1 - eeEmpty), true
								case o != nil && o == taObj && taEmpty >= 0:
									return int64(1 - taEmpty), true
								}
							}
						}
						return 0, false
					}
					if l, okL := ev(be.X); okL {
						if rv, okR := ev(be.Y); okR {
							switch be.Op {
							case token.EQL:
								return l == rv, true
							case token.NEQ:
								return l != rv, true
							case token.GTR:
								return l > rv, true
							case token.GEQ:
								return l >= rv, true
							case token.LSS:
								return l < rv, true
							case token.LEQ:
								return l <= rv, true
							}
						}
					}
				}
			}
			if v, k := lenAtom(atom, recsParam, !hasRecs); k {
				return v, k
			}
			if eeEmpty >= 0 {
				if v, k := lenAtom(atom, eeObj, eeEmpty == 1); k {
					return v, k
				}
			}
			if taEmpty >= 0 {
				if v, k := lenAtom(atom, taObj, taEmpty == 1); k {
					return v, k
				}
			}
			return false, false
		})
	}
	nonErr := func(pt Pt) bool {
		k, ret := r.F.Exit(pt)
		if k == NotExit || k == ExitPanic {
			return false
		}
		_, _, en, ek := retBoolErr(info, ret)
		if ek && !en {
			return false
		}
		if ret != nil && len(ret.Results) == 2 {
			if o := objOf(info, ret.Results[1]); o != nil {
				def, n := localDef(info, r.FI.Decl.Body, o)
				if u, ok := ast.Unparen(def).(*ast.UnaryExpr); ok && n == 1 && u.Op == token.AND {
					return false // variable holding an error literal
				}
			}
		}
		return true
	}
	falseNil := func(pt Pt) bool {
		_, ret := r.F.Exit(pt)
		b, bk, en, ek := retBoolErr(info, ret)
		return bk && !b && ek && en
	}
	// no records at all: the only outcome is the neutral (false, nil), with or without TLS (a host that publishes
	// nothing is never refused and never authenticated by DANE)
	msg0 := ""
	for _, hs := range []bool{false, true} {
		w := mkWorld(false, hs, -1, -1)
		if p0, f0 := r.F.Reach(Query{From: r.Entry(), Inclusive: true, Target: func(pt Pt) bool { return r.F.IsExitPt(pt) && !falseNil(pt) }, AvoidEdge: w}); f0 {
			msg0 = "without any TLSA record the function can refuse or authenticate (every delivery to a host without DANE records over such a connection would fail / be trusted): " + r.F.Describe(p0)
		}
	}
	c.Hold("R3", "verifyDANE:no-records-neutral", r.FI.Decl.Pos(), msg0 == "" && recsParam != nil, msg0)
	// records exist, no completed handshake: every exit is an error
	path, f = r.F.Reach(Query{From: r.Entry(), Inclusive: true, Target: nonErr, AvoidEdge: mkWorld(true, false, -1, -1)})
	c.Hold("R3", "verifyDANE:records-without-tls-refused", r.FI.Decl.Pos(), !f && recsParam != nil, "with TLSA records present and no completed handshake the function can return without an error (delivery over plaintext despite DANE): "+r.F.Describe(path))
	// (ii) usable records exist (either list non-empty): (false, nil) is unreachable – acceptance needs a match (R1), everything else is an error
	msg3 := ""
	for _, w := range [][2]int{{0, 1}, {1, 0}, {0, 0}} {
		if p3, f3 := r.F.Reach(Query{From: r.Entry(), Inclusive: true, Target: falseNil, AvoidEdge: mkWorld(true, true, w[0], w[1])}); f3 {
			msg3 = "with a usable record and no match the function can return (false, nil): the connection is used unauthenticated instead of being refused: " + r.F.Describe(p3)
		}
	}
	c.Hold("R3", "verifyDANE:usable-no-match-refused", r.FI.Decl.Pos(), msg3 == "" && eeObj != nil && taObj != nil, msg3)
	// (iii) records exist but none is usable (both lists empty), TLS up: the only outcome is the neutral (false, nil)
	notNeutral := func(pt Pt) bool { return r.F.IsExitPt(pt) && !falseNil(pt) }
	wNone := mkWorld(true, true, 1, 1)
	p4, f4 := r.F.Reach(Query{From: r.Entry(), Inclusive: true, Target: notNeutral, AvoidEdge: wNone})
	_, f5 := r.F.Reach(Query{From: r.Entry(), Inclusive: true, Target: falseNil, AvoidEdge: wNone})
	c.Hold("R3", "verifyDANE:only-unusable-neutral", r.FI.Decl.Pos(), !f4 && f5 && eeObj != nil && taObj != nil, "exclusively unusable records do not lead to the neutral result (false, nil): they would refuse or authenticate a TLS connection: "+r.F.Describe(p4))

	// ---- R4 CheckConn
	cc := c.need("R4", remoteRel, "daneDelivery", "CheckConn")
	if cc == nil {
		return
	}
	ci := cc.Info
	vcalls := cc.Calls(calling("~/" + remoteRel + ".verifyDANE"))
	if len(vcalls) != 1 {
		c.Fail("R4", "CheckConn:verify", cc.FI.Decl.Pos(), "undecided: expected exactly one verifyDANE call")
		return
	}
	vas, _ := vcalls[0].Node().(*ast.AssignStmt)
	var okVar, errVar types.Object
	if vas != nil && len(vas.Lhs) == 2 {
		okVar, errVar = objOf(ci, vas.Lhs[0]), objOf(ci, vas.Lhs[1])
	}
	grants := func(pt Pt) bool {
		_, ret := cc.F.Exit(pt)
		if ret == nil || len(ret.Results) != 2 {
			return false
		}
		s, ok := ast.Unparen(ret.Results[0]).(*ast.SelectorExpr)
		return ok && s.Sel.Name == "TLSAuthenticated"
	}
	// grants anywhere in the function must pass through the verify call
	okDom, w := cc.MustPass(cc.Entry(), true, grants, isPt(vcalls))
	msg := ""
	if !okDom {
		msg = "the authenticated level is granted on a path that never ran verifyDANE: " + w
	} else if okVar == nil || errVar == nil {
		msg = "the result of verifyDANE (match flag or error) is discarded"
	} else {
		if p1, f1 := cc.F.ReachRefined(vcalls[0], okVar, true, true, grants, nil); f1 {
			msg = "the authenticated level is granted although verifyDANE reported no match: " + cc.F.Describe(p1)
		}
		if p2, f2 := cc.F.ReachRefined(vcalls[0], errVar, false, false, grants, nil); f2 {
			msg = "the authenticated level is granted although verifyDANE returned an error: " + cc.F.Describe(p2)
		}
	}
	c.Hold("R4", "CheckConn:grant-only-on-match", cc.FI.Decl.Pos(), msg == "", msg)
	// error propagated
	msg = ""
	if errVar != nil {
		nilErrRet := func(pt Pt) bool {
			_, ret := cc.F.Exit(pt)
			return ret != nil && len(ret.Results) == 2 && isNilIdent(ci, ret.Results[1])
		}
		if p3, f3 := cc.F.ReachRefined(vcalls[0], errVar, false, false, nilErrRet, nil); f3 {
			msg = "an error of verifyDANE (no match / no TLS) is swallowed: the connection would be used: " + cc.F.Describe(p3)
		}
	}
	c.Hold("R4", "CheckConn:error-propagated", cc.FI.Decl.Pos(), msg == "" && errVar != nil, msg)
	// lookup failure defers (C05.R7): on the error edge of the TLSA future every return carries an error, except under IsNotFound
	fut := cc.Calls(func(info *types.Info, call *ast.CallExpr) bool {
		return methodName(call) == "GetContext" || methodName(call) == "Get"
	})
	msg = "the TLSA lookup result is not awaited"
	if len(fut) == 1 {
		msg = ""
		call := cc.CallAt(fut[0], func(info *types.Info, call *ast.CallExpr) bool {
			return methodName(call) == "GetContext" || methodName(call) == "Get"
		})
		eo := errVarAssigned(ci, fut[0].Node(), call)
		notFound := cc.F.AvoidImplying(func(atom ast.Expr) (bool, bool) {
			if ic, ok := ast.Unparen(atom).(*ast.CallExpr); ok && isCall(ci, ic, dnsPkg+".IsNotFound") {
				return true, true
			}
			return false, false
		})
		nilErrRet := func(pt Pt) bool {
			_, ret := cc.F.Exit(pt)
			return ret != nil && len(ret.Results) == 2 && isNilIdent(ci, ret.Results[1])
		}
		if eo == nil {
			msg = "the error of the TLSA lookup is dropped"
		} else if p4, f4 := cc.F.ReachRefined2(fut[0], eo, false, false, orPt(nilErrRet, isPt(vcalls)), nil, notFound); f4 {
			msg = "a failed TLSA lookup (SERVFAIL, bogus signature) is treated like 'no records': delivery proceeds unauthenticated instead of being deferred: " + cc.F.Describe(p4)
		}
		// the returned error is marked temporary
		tmp := false
		ast.Inspect(cc.FI.Decl.Body, func(n ast.Node) bool {
			if call, ok := n.(*ast.CallExpr); ok && isCall(ci, call, exterrPkg+".WithTemporary") && len(call.Args) == 2 && objOf(ci, call.Args[0]) == eo {
				if tv, ok := ci.Types[call.Args[1]]; ok && tv.Value != nil && tv.Value.String() == "true" {
					tmp = true
				}
			}
			return true
		})
		if msg == "" && !tmp {
			msg = "the lookup failure is not marked temporary (the message would bounce instead of being retried)"
		}
	}
	c.Hold("R4", "CheckConn:lookup-failure-defers", cc.FI.Decl.Pos(), msg == "", msg)
	// with a resolver configured the decision always waits for the lookup; a "not found" answer is the neutral
	// result, not a failure (hosts without TLSA records are delivered to)
	{
		isResolverNil := func(atom ast.Expr) (bool, bool) {
			if be, ok := ast.Unparen(atom).(*ast.BinaryExpr); ok && (be.Op == token.EQL || be.Op == token.NEQ) && isNilIdent(ci, be.Y) {
				if fv := fieldOf(ci, be.X); fv != nil && objName(fv) == "extResolver" {
					return be.Op == token.NEQ, true // a resolver is configured
				}
			}
			return false, false
		}
		m2 := ""
		wRes := cc.F.World(isResolverNil)
		if p5, f5 := cc.F.Reach(Query{From: cc.Entry(), Inclusive: true, Target: cc.F.IsExitPt, Avoid: isPt(fut), AvoidEdge: wRes}); f5 {
			m2 = "with a DNSSEC resolver configured CheckConn can return without consulting the TLSA lookup (DANE is never enforced): " + cc.F.Describe(p5)
		}
		if len(fut) == 1 && m2 == "" {
			call := cc.CallAt(fut[0], func(info *types.Info, call *ast.CallExpr) bool {
				return methodName(call) == "GetContext" || methodName(call) == "Get"
			})
			if eo := errVarAssigned(ci, fut[0].Node(), call); eo != nil {
				wNF := cc.F.World(func(atom ast.Expr) (bool, bool) {
					if ic, ok := ast.Unparen(atom).(*ast.CallExpr); ok && isCall(ci, ic, dnsPkg+".IsNotFound") && len(ic.Args) == 1 && objOf(ci, ic.Args[0]) == eo {
						return true, true
					}
					if ns, ok := nilTest(ci, atom, eo); ok {
						return ns == 1, true
					}
					return false, false
				})
				neutral := func(pt Pt) bool {
					_, ret := cc.F.Exit(pt)
					if ret == nil || len(ret.Results) != 2 || !isNilIdent(ci, ret.Results[1]) {
						return false
					}
					sx, ok := ast.Unparen(ret.Results[0]).(*ast.SelectorExpr)
					return ok && sx.Sel.Name == "TLSNone"
				}
				if p6, f6 := cc.F.Reach(Query{From: fut, Target: func(q Pt) bool { return cc.F.IsExitPt(q) && !neutral(q) }, AvoidEdge: wNF}); f6 {
					m2 = "a 'no such record' answer of the TLSA lookup does not give the neutral result: deliveries to every host without TLSA records are deferred or refused: " + cc.F.Describe(p6)
				}
			}
		}
		c.Hold("R4", "CheckConn:resolver-consulted-notfound-neutral", cc.FI.Decl.Pos(), m2 == "", m2)
		if pcx := c.In(remoteRel, "daneDelivery", "PrepareConn"); pcx != nil {
			pinfo := pcx.Info
			wP := pcx.F.World(func(atom ast.Expr) (bool, bool) {
				if be, ok := ast.Unparen(atom).(*ast.BinaryExpr); ok && (be.Op == token.EQL || be.Op == token.NEQ) && isNilIdent(pinfo, be.Y) {
					if fv := fieldOf(pinfo, be.X); fv != nil && objName(fv) == "extResolver" {
						return be.Op == token.NEQ, true
					}
				}
				return false, false
			})
			starts := pcx.F.Find(func(n ast.Node) bool { _, ok := n.(*ast.GoStmt); return ok })
			p7, f7 := pcx.F.Reach(Query{From: pcx.Entry(), Inclusive: true, Target: pcx.F.IsExitPt, Avoid: isPt(starts), AvoidEdge: wP})
			c.Hold("R4", "PrepareConn:lookup-started", pcx.FI.Decl.Pos(), !f7 && len(starts) > 0, "with a DNSSEC resolver configured PrepareConn can return without starting the TLSA lookup: "+pcx.F.Describe(p7))
		}
	}
	// the discovery itself: an error of any resolver call that is not "not found" ends the discovery with that
	// error – it is never treated like an empty answer (no fall-through to another lookup, no nil-error return)
	c.Rule("R5", "discoverTLSA: a resolver error other than not-found is returned; it never falls through to a further lookup or to a 'no records' result", 3)
	if rd0 := c.need("R5", remoteRel, "daneDelivery", "discoverTLSA"); rd0 != nil {
		isResolverName := func(call *ast.CallExpr) bool {
			switch methodName(call) {
			case "AuthLookupTLSA", "CheckCNAMEAD", "AuthLookupCNAME", "AuthLookupHost", "AuthLookupIPAddr":
				return true
			}
			return false
		}
		// the discovery cone: discoverTLSA and the functions of the package it calls that perform lookups themselves
		cone := []*RuleCtx{rd0}
		inCone := map[*types.Func]bool{rd0.FI.Obj: true}
		for qi := 0; qi < len(cone) && qi < 8; qi++ {
			g := cone[qi]
			for _, call := range callsIn(g.FI.Decl.Body) {
				fn := callee(g.Info, call)
				if fn == nil || fn.Pkg() != g.FI.Obj.Pkg() || inCone[fn] {
					continue
				}
				d := c.P.DeclOf(fn)
				if d == nil || d.Decl.Body == nil {
					continue
				}
				has := false
				for _, c2 := range callsIn(d.Decl.Body) {
					if isResolverName(c2) {
						has = true
					}
				}
				if has {
					inCone[fn] = true
					cone = append(cone, c.CtxOf(d))
				}
			}
		}
		total := 0
		for _, rd := range cone {
			di := rd.Info
			isResolver := func(info *types.Info, call *ast.CallExpr) bool {
				if isResolverName(call) {
					return true
				}
				fn := callee(info, call)
				return fn != nil && inCone[fn] && fn != rd.FI.Obj
			}
			calls := rd.Calls(isResolver)
			for i, cp := range calls {
				call := rd.CallAt(cp, isResolver)
				total++
				name := methodName(call)
				if name == "" {
					name = exprStr(call.Fun)
				}
				key := refName(rd.FI.Obj) + ":" + name + itoa(i+1)
				eo := errVarAssigned(di, cp.Node(), call)
				if eo == nil {
					c.Hold("R5", key, call.Pos(), false, "the error of "+name+" is dropped")
					continue
				}
				// world: the error is not a not-found error
				world := rd.F.World(func(atom ast.Expr) (bool, bool) {
					if ic, ok := ast.Unparen(atom).(*ast.CallExpr); ok && isCall(di, ic, dnsPkg+".IsNotFound") && len(ic.Args) == 1 && objOf(di, ic.Args[0]) == eo {
						return false, true
					}
					if ns, ok := nilTest(di, atom, eo); ok {
						return ns == 1, true // the atom is true iff it says "non-nil"
					}
					return false, false
				})
				bad := func(pt Pt) bool {
					if pt == cp {
						return false
					}
					if rd.IsCallPt(isResolver)(pt) {
						return true
					}
					_, ret := rd.F.Exit(pt)
					return ret != nil && len(ret.Results) >= 2 && isNilIdent(di, ret.Results[len(ret.Results)-1])
				}
				path, f := rd.F.ReachRefined2(cp, eo, false, false, bad, nil, world)
				c.Hold("R5", key, call.Pos(), !f, "a failed "+name+" (SERVFAIL, bogus signature, time-out) is treated like an empty answer: discovery goes on / reports 'no records' and the delivery proceeds without DANE instead of being deferred: "+rd.F.Describe(path))
			}
		}
		if total < 3 {
			c.Fail("R5", "discoverTLSA:lookups", rd0.FI.Decl.Pos(), "undecided: expected the CNAME/AD check and the TLSA lookups")
		}
		// R5b: only DNSSEC-authenticated answers count, and an authenticated, non-empty answer is never dropped
		c.Rule("R5b", "discoverTLSA: a TLSA RRset is returned only on the path where the AD flag of the lookup that produced it was tested true; an authenticated non-empty RRset is what the discovery returns", 2)
		di := rd0.Info
		isTLSALookup := func(info *types.Info, call *ast.CallExpr) bool {
			if methodName(call) == "AuthLookupTLSA" {
				return true
			}
			fn := callee(info, call)
			if fn == nil || !inCone[fn] || fn == rd0.FI.Obj {
				return false
			}
			// a cone helper that performs the TLSA lookup and hands (ad, recs, err) through
			if d := c.P.DeclOf(fn); d != nil {
				for _, c2 := range callsIn(d.Decl.Body) {
					if methodName(c2) == "AuthLookupTLSA" {
						return true
					}
				}
			}
			return false
		}
		lookups := rd0.Calls(isTLSALookup)
		for i, lp := range lookups {
			as, ok := lp.Node().(*ast.AssignStmt)
			key := "discoverTLSA:tlsa" + itoa(i+1)
			if !ok || len(as.Lhs) != 3 {
				c.Fail("R5b", key, rd0.Pos(lp), "undecided: the TLSA lookup does not keep (ad, records, error)")
				continue
			}
			adVar, recsVar, errVar := objOf(di, as.Lhs[0]), objOf(di, as.Lhs[1]), objOf(di, as.Lhs[2])
			others := func(q Pt) bool { return q != lp && isPt(lookups)(q) }
			returnsThem := func(q Pt) bool {
				_, ret := rd0.F.Exit(q)
				return ret != nil && len(ret.Results) == 2 && objOf(di, ret.Results[0]) == recsVar && recsVar != nil
			}
			msg := ""
			if adVar == nil || recsVar == nil {
				msg = "the AD flag or the records of the TLSA lookup are discarded"
			} else {
				if path, f := rd0.F.ReachRefined(lp, adVar, true, true, returnsThem, others); f {
					msg = "TLSA records whose answer was not DNSSEC-authenticated (AD flag false) are used: anybody who can spoof DNS can publish records that make DANE refuse – or, with a matching key, authenticate – a server: " + rd0.F.Describe(path)
				}
				world := rd0.F.World(func(atom ast.Expr) (bool, bool) {
					if id, ok := ast.Unparen(atom).(*ast.Ident); ok && objOf(di, id) == adVar {
						return true, true // … and was authenticated
					}
					if errVar != nil {
						if ns, ok := nilTest(di, atom, errVar); ok {
							return ns == 0, true // the lookup succeeded: the atom is true iff it says "nil"
						}
					}
					if sx, ok := lenZeroEdge(di, atom); ok && mentions(di, atom, recsVar) {
						return sx != 0, true // the answer is not empty
					}
					return false, false
				})
				dropped := func(q Pt) bool { return rd0.F.IsExitPt(q) && !returnsThem(q) }
				if path, f := rd0.F.ReachRefined2(lp, adVar, false, true, orPt(dropped, others), nil, world); f && msg == "" {
					msg = "an authenticated, non-empty TLSA RRset is not what the discovery returns (it is dropped or replaced by another lookup): the published records are not enforced: " + rd0.F.Describe(path)
				}
			}
			c.Hold("R5b", key, rd0.Pos(lp), msg == "", msg)
		}
		if len(lookups) < 2 {
			c.Fail("R5b", "discoverTLSA:tlsa-lookups", rd0.FI.Decl.Pos(), "undecided: expected the TLSA lookups for the canonical and for the original name")
		}
		// the shortcut "no TLSA lookup at all" is taken only for hosts whose address records are not authenticated
		for _, ap := range rd0.Calls(func(info *types.Info, call *ast.CallExpr) bool { return methodName(call) == "CheckCNAMEAD" }) {
			as, ok := ap.Node().(*ast.AssignStmt)
			if !ok || len(as.Lhs) != 3 {
				c.Fail("R5b", "discoverTLSA:address-ad", rd0.Pos(ap), "undecided: the address lookup does not keep (ad, name, error)")
				continue
			}
			adA, nameV, errA := objOf(di, as.Lhs[0]), objOf(di, as.Lhs[1]), objOf(di, as.Lhs[2])
			world := rd0.F.World(func(atom ast.Expr) (bool, bool) {
				if id, ok := ast.Unparen(atom).(*ast.Ident); ok && objOf(di, id) == adA && adA != nil {
					return true, true
				}
				if errA != nil {
					if ns, ok := nilTest(di, atom, errA); ok {
						return ns == 0, true
					}
				}
				// the host has an address: name != ""
				if be, ok := ast.Unparen(atom).(*ast.BinaryExpr); ok && (be.Op == token.EQL || be.Op == token.NEQ) && objOf(di, be.X) == nameV && nameV != nil {
					if sv, ok := constString(di, be.Y); ok && sv == "" {
						return be.Op == token.NEQ, true
					}
				}
				return false, false
			})
			skip := func(q Pt) bool {
				_, ret := rd0.F.Exit(q)
				return ret != nil && len(ret.Results) == 2 && isNilIdent(di, ret.Results[1])
			}
			path, f := rd0.F.Reach(Query{From: []Pt{ap}, Target: skip, Avoid: isPt(lookups), AvoidEdge: world})
			c.Hold("R5b", "discoverTLSA:address-ad", rd0.Pos(ap), !f && adA != nil, "for a host whose address records ARE DNSSEC-authenticated the discovery can end with 'no records' without any TLSA lookup: DANE is switched off exactly for the zones that can publish TLSA records: "+rd0.F.Describe(path))
		}
	}
	// R6: the TLSA result is bound to the connection it was looked up for. One daneDelivery serves every MX tried
	// for a message; the asynchronous lookup must complete the future created by its own PrepareConn call –
	// identified as a value (a local of that call), not re-read from the shared field when the lookup is done.
	c.Rule("R6", "PrepareConn: the lookup goroutine completes a future created by this very call (a captured local, not the shared field re-read later), and that future is what CheckConn reads; no other function installs a future", 3)
	if pc := c.need("R6", remoteRel, "daneDelivery", "PrepareConn"); pc != nil {
		pi := pc.Info
		const futPkg = modPath + "/framework/future"
		var goStmts []*ast.GoStmt
		ast.Inspect(pc.FI.Decl.Body, func(x ast.Node) bool {
			if g, ok := x.(*ast.GoStmt); ok {
				goStmts = append(goStmts, g)
			}
			return true
		})
		// the field CheckConn waits on
		var waitField *types.Var
		if cc := c.In(remoteRel, "daneDelivery", "CheckConn"); cc != nil {
			for _, call := range callsIn(cc.FI.Decl.Body) {
				if isCall(cc.Info, call, futPkg+".Future.GetContext", futPkg+".Future.Get") {
					waitField = fieldOf(cc.Info, callRecv(call))
				}
			}
		}
		if waitField == nil {
			c.Fail("R6", "CheckConn:waits-on-field", pc.FI.Decl.Pos(), "undecided: CheckConn does not wait on a future stored in a field of the delivery")
		}
		nset := 0
		for _, g := range goStmts {
			lit, ok := g.Call.Fun.(*ast.FuncLit)
			if !ok {
				continue
			}
			// completions anywhere in the goroutine, deferred functions included
			var setCalls []*ast.CallExpr
			deferred := map[*ast.CallExpr]bool{}
			var walk func(n ast.Node, inDefer bool)
			walk = func(n ast.Node, inDefer bool) {
				ast.Inspect(n, func(y ast.Node) bool {
					switch z := y.(type) {
					case *ast.DeferStmt:
						if dl, isLit := z.Call.Fun.(*ast.FuncLit); isLit {
							walk(dl.Body, true)
							return false
						}
						if isCall(pi, z.Call, futPkg+".Future.Set") {
							setCalls = append(setCalls, z.Call)
							deferred[z.Call] = true
							return false
						}
					case *ast.CallExpr:
						if isCall(pi, z, futPkg+".Future.Set") {
							setCalls = append(setCalls, z)
							deferred[z] = inDefer
						}
					}
					return true
				})
			}
			walk(lit.Body, false)
			for _, call := range setCalls {
				nset++
				key := "PrepareConn:set" + itoa(nset)
				recv := callRecv(call)
				if deferred[call] {
					c.Hold("R6", key, call.Pos(), false, "the lookup goroutine completes the future in a deferred function, i.e. also when the lookup panicked (the recover next to it exists for that): the future then carries 'no records, no error', which CheckConn reads as 'the MX publishes no TLSA records' – DANE fails open instead of deferring")
					continue
				}
				v, isVar := objOf(pi, recv).(*types.Var)
				if _, isIdent := ast.Unparen(recv).(*ast.Ident); !isIdent || !isVar || v.IsField() || !localIn(pc.FI.Decl.Body, v) || localIn(lit, v) {
					c.Hold("R6", key, call.Pos(), false, "the lookup goroutine completes `"+exprStr(recv)+"`, read when the lookup is done: if the connection attempt fails first, the next PrepareConn has replaced it and this MX's records decide the next MX's connection (and that MX's own result is dropped)")
					continue
				}
				def, n := localDef(pi, pc.FI.Decl.Body, v)
				dc, _ := def.(*ast.CallExpr)
				fresh := n == 1 && dc != nil && isCall(pi, dc, futPkg+".New")
				c.Hold("R6", key, call.Pos(), fresh, "the future completed by the lookup goroutine is not created (exactly once) by this PrepareConn call")
				if !fresh || waitField == nil {
					continue
				}
				// every path to the go statement installs exactly that future in the field CheckConn reads
				gp, okp := pc.F.PtOf(g.Pos())
				installs := func(pt Pt) bool {
					return nodeAssigns(pt.Node(), func(lhs, rhs ast.Expr) bool { return fieldOf(pi, lhs) == waitField && objOf(pi, rhs) == v })
				}
				if !okp {
					c.Fail("R6", "PrepareConn:installs"+itoa(nset), g.Pos(), "undecided: go statement not found in the flow graph")
					continue
				}
				okMust, w := pc.MustPass(pc.Entry(), true, func(pt Pt) bool { return pt == gp }, installs)
				c.Hold("R6", "PrepareConn:installs"+itoa(nset), g.Pos(), okMust, "the lookup is started without installing its future in ."+waitField.Name()+" (CheckConn would wait on another lookup's result): "+w)
			}
		}
		if nset == 0 {
			c.Fail("R6", "PrepareConn:set", pc.FI.Decl.Pos(), "undecided: no asynchronous lookup completing a future found in PrepareConn")
		}
		// who else writes the field
		if waitField != nil {
			bad := ""
			p.AllFuncs(p.ServerPkgs(), func(fi *FuncInfo) {
				if fi.Pkg.PkgPath != pc.FI.Pkg.PkgPath || fi.Obj == pc.FI.Obj || strings.HasSuffix(p.Fset.Position(fi.Decl.Pos()).Filename, "_test.go") {
					return
				}
				info := fi.Info()
				ast.Inspect(fi.Decl, func(x ast.Node) bool {
					switch s := x.(type) {
					case *ast.AssignStmt:
						for i, l := range s.Lhs {
							if fieldOf(info, l) == waitField && !(len(s.Rhs) == len(s.Lhs) && isNilIdent(info, s.Rhs[i])) {
								bad = fi.Name() + " (line " + itoa(p.Fset.Position(s.Pos()).Line) + ")"
							}
						}
					case *ast.KeyValueExpr:
						if id, ok := s.Key.(*ast.Ident); ok && info.Uses[id] == waitField && !isNilIdent(info, s.Value) {
							bad = fi.Name() + " (line " + itoa(p.Fset.Position(s.Pos()).Line) + ")"
						}
					}
					return true
				})
			})
			c.Hold("R6", "tlsaFut:single-writer", pc.FI.Decl.Pos(), bad == "", "a future is installed for the whole delivery by "+bad+": a future is single-assignment, so every connection after the first would be judged by the first MX's TLSA result")
		}
	}
	c13Surroundings(c)
}

// R7, R5c: what DANE relies on outside verifyDANE / CheckConn.
//
// R7 – "usable records exist and none matches ⇒ refused" is decided when a connection is opened. A connection opened
// under the TLS-Required override was opened without the policy list – DANE never judged it; if it could come back
// from the pool, the next ordinary message to that domain would be sent over it without any check. C05.R3 / R4.
//
// R5c – the "secure" bit the discovery trusts is the AD flag of the very answer it read: in the resolver's lookups an
// AuthenticatedData flag read inside a loop over the answers of a response is that response's flag (a second lookup
// – the AAAA fallback for IPv6-only hosts – brings its own response; the first one's flag says nothing about it).
func c13Surroundings(c *Check) {
	p := c.P
	c.Rule("R7", "a connection opened without the policy list (TLS-Required override) is never pooled, and the list is skipped only under the override (C05.R3, C05.R4)", 2)
	sub := newCheck("C05", c.P, c.Tier)
	c05Override(sub)
	for _, o := range sub.obs {
		if o.Rule == "R3" || o.Rule == "R4" {
			c.Hold("R7", o.Rule+":"+o.Key, o.posRaw, o.OK, o.Msg)
		}
	}
	for f := range sub.funcs {
		c.SawFunc(f)
	}
	c05ADPerServer(c, "R5d") // DANE believes TLSA / address answers exactly as far as their AD bit goes
	c13NoTruncatedAnswer(c, "R5e")
	c13WholeRRset(c, "R5f")
	c13RetryKeepsServerName(c, "R8")
	c.Rule("R9", "a connection refused by DANE is really gone: smtpconn.C.Close leaves no usable client behind, whatever QUIT was answered (attemptMX enforces the refusal by closing; newConn goes on with a connection that still has a client) (C05.R12)", 1)
	importRules(c, "C05", func(s *Check) { c05CloseCloses(s, "R12") }, map[string]bool{"R12": true}, "R9")
	c13FQDNKeepsEncoding(c, "R10")
	c13NoFrozenClock(c, "R11", []string{"internal/target/remote", "framework/dns"})
	c13NotFoundIsNXDomainOnly(c, "R12")
	c13PreparedInTheSameAttempt(c, "R13")
	c.Rule("R5c", "extended resolver: an AuthenticatedData flag read inside a loop over the answers of a response belongs to that same response", 2)
	pk := p.Pkg("framework/dns")
	if pk == nil {
		c.Fail("R5c", "package", token.NoPos, "anchor unresolved")
		return
	}
	info := pk.TypesInfo
	n := 0
	p.AllFuncs([]*packagesPkg{pk}, func(fi *FuncInfo) {
		if strings.HasSuffix(p.Fset.Position(fi.Decl.Pos()).Filename, "_test.go") {
			return
		}
		ast.Inspect(fi.Decl.Body, func(x ast.Node) bool {
			rs, ok := x.(*ast.RangeStmt)
			if !ok {
				return true
			}
			sel, ok := ast.Unparen(rs.X).(*ast.SelectorExpr)
			if !ok || sel.Sel.Name != "Answer" {
				return true
			}
			respObj := objOf(info, sel.X)
			if respObj == nil {
				return true
			}
			ast.Inspect(rs.Body, func(y ast.Node) bool {
				s2, ok := y.(*ast.SelectorExpr)
				if !ok || s2.Sel.Name != "AuthenticatedData" {
					return true
				}
				n++
				c.SawFunc(fi.Name())
				o := objOf(info, s2.X)
				c.Hold("R5c", refName(fi.Obj)+":ad"+itoa(n), s2.Pos(), o == respObj, "the AD flag is read from "+exprStr(s2.X)+" while the answers being read are those of "+exprStr(sel.X)+": the 'secure' verdict for this name comes from another lookup's response (for an IPv6-only MX the empty A answer's flag decides whether DANE is attempted at all)")
				return true
			})
			return true
		})
	})
	if n == 0 {
		c.Fail("R5c", "ad-reads", token.NoPos, "undecided: no AD flag is read next to the answers")
	}
}

func fmtInts(v []int64) string {
	s := "{"
	for i, x := range v {
		if i > 0 {
			s += ","
		}
		s += itoa(int(x))
	}
	return s + "}"
}


// c13NoTruncatedAnswer: a reply with the TC bit is not the RRset – its answer section may be empty or cut – and AD may
// still be set. "Authenticated, no TLSA records" is exactly what DANE reads as proof that the MX publishes none: the
// message goes out without TLS although records exist (four full-certificate records do not fit into 4096 bytes).
// In exchange(), in the world "the reply is truncated", no path hands that reply on.
func c13NoTruncatedAnswer(c *Check, rule string) {
	c.Rule(rule, "extended resolver: a truncated reply (TC bit) is never handed on as the answer – evaluated in the world `resp.Truncated`, every path from an exchange to a return of its response passes another exchange (a retry over TCP) or ends in an error", 1)
	r := c.need(rule, "framework/dns", "ExtResolver", "exchange")
	if r == nil {
		return
	}
	info := r.Info
	n := 0
	msg := ""
	for _, pt := range r.F.Points() {
		as, ok := pt.Node().(*ast.AssignStmt)
		if !ok || len(as.Rhs) != 1 || len(as.Lhs) < 2 {
			continue
		}
		call, ok := ast.Unparen(as.Rhs[0]).(*ast.CallExpr)
		if !ok || !containsFold(methodName(call), "exchange") {
			continue
		}
		resp := objOf(info, as.Lhs[0])
		if resp == nil {
			continue
		}
		n++
		errObj := errVarAssigned(info, as, call)
		world := r.F.World(func(atom ast.Expr) (bool, bool) {
			atom = ast.Unparen(atom)
			if sel, ok := atom.(*ast.SelectorExpr); ok && sel.Sel.Name == "Truncated" && objOf(info, sel.X) == resp {
				return true, true
			}
			if be, ok := atom.(*ast.BinaryExpr); ok && errObj != nil && (be.Op == token.EQL || be.Op == token.NEQ) && objOf(info, be.X) == errObj && isNilIdent(info, be.Y) {
				return be.Op == token.EQL, true
			}
			return false, false
		})
		redefined := func(q Pt) bool { return q != pt && q.Node() != nil && assignsObj(info, q.Node(), resp) }
		failsLater := func(q Pt) bool {
			a2, ok := q.Node().(*ast.AssignStmt)
			if !ok || q == pt || errObj == nil || len(a2.Lhs) != len(a2.Rhs) {
				return false
			}
			for i, lh := range a2.Lhs {
				if objOf(info, lh) == errObj && nonNilErrExpr(info, a2.Rhs[i]) {
					return true
				}
			}
			return false
		}
		handsOn := func(q Pt) bool {
			_, ret := r.F.Exit(q)
			return ret != nil && len(ret.Results) > 0 && objOf(info, ret.Results[0]) == resp
		}
		if path, f := r.F.Reach(Query{From: []Pt{pt}, Target: handsOn, Avoid: func(q Pt) bool { return redefined(q) || failsLater(q) }, AvoidEdge: world}); f {
			msg = "a reply with the TC bit set is returned as the answer: its answer section is empty or cut while AD can still be set – `authenticated, no TLSA records` is what DANE takes for proof of absence, so a message to an MX whose TLSA RRset does not fit into one datagram is sent without TLS / without a matching certificate: " + r.F.Describe(path)
		}
	}
	c.Hold(rule, "ExtResolver.exchange:truncated-not-used", r.FI.Decl.Pos(), msg == "" && n > 0, msg)
}
