package main

import (
	"fmt"
	"go/token"
	"go/types"
	"sort"
	"strings"

	"golang.org/x/tools/go/ssa"
)

// E-prov: value provenance over go/ssa def-use chains, through static maddy callees and struct fields.

type origin struct {
	Kind   string // param | cbparam | listelem | field | call | maplookup | const | global | other
	Detail string
	Pos    token.Pos
	Field  *types.Var
	Param  *ssa.Parameter
	Call   *ssa.Call
	Key    []origin // for maplookup: origins of the key
}

func (o origin) String() string {
	switch o.Kind {
	case "param":
		return "parameter " + o.Param.Name() + " of " + o.Param.Parent().String()
	case "cbparam":
		return "callback parameter " + o.Param.Name() + " (supplied by whoever invokes the callback: " + o.Detail + ")"
	case "listelem":
		return "element of field " + o.Field.Name()
	case "field":
		return "field " + o.Field.Name()
	case "call":
		return "result of " + o.Detail
	case "maplookup":
		return "lookup in " + o.Detail
	}
	return o.Kind + " " + o.Detail
}

type provCtx struct {
	p        *Prog
	maxDepth int
	seen     map[string]bool
}

func newProv(p *Prog) *provCtx { return &provCtx{p: p, maxDepth: 12} }

func dedupOrigins(in []origin) []origin {
	seen := map[string]bool{}
	var out []origin
	for _, o := range in {
		k := o.Kind + "|" + o.Detail + "|" + fmt.Sprint(o.Field, o.Param, o.Pos)
		if !seen[k] {
			seen[k] = true
			out = append(out, o)
		}
	}
	sort.Slice(out, func(i, j int) bool { return out[i].String() < out[j].String() })
	return out
}

func isMaddyFn(f *ssa.Function) bool {
	return f != nil && f.Pkg != nil && strings.HasPrefix(f.Pkg.Pkg.Path(), modPath)
}

// origins of a scalar (string) value at instruction `at` (for reaching definitions of local cells).
func (pc *provCtx) origins(v ssa.Value, at ssa.Instruction, depth int, seen map[ssa.Value]bool) []origin {
	if v == nil {
		return nil
	}
	if depth > pc.maxDepth || seen[v] {
		if seen[v] {
			return nil
		}
		return []origin{{Kind: "other", Detail: "depth limit", Pos: v.Pos()}}
	}
	seen[v] = true
	defer delete(seen, v)
	switch x := v.(type) {
	case *ssa.Const:
		return []origin{{Kind: "const", Detail: x.String(), Pos: x.Pos()}}
	case *ssa.Parameter:
		if x.Parent().Parent() != nil { // anonymous function: a callback parameter
			// a closure that is only ever called directly by its parent (`setAll := func(rcpts []string, …)`) is bound like a helper
			if args := pc.paramBindings(x); args != nil {
				var out []origin
				for _, a := range args {
					out = append(out, pc.origins(a.v, a.at, depth+2, seen)...)
				}
				return dedupOrigins(out)
			}
			return []origin{{Kind: "cbparam", Param: x, Detail: x.Parent().Parent().String(), Pos: x.Pos()}}
		}
		// parameter of an unexported helper: what its callers pass (extracted code keeps its provenance)
		if args := pc.paramBindings(x); args != nil {
			var out []origin
			for _, a := range args {
				out = append(out, pc.origins(a.v, a.at, depth+2, seen)...)
			}
			return dedupOrigins(out)
		}
		return []origin{{Kind: "param", Param: x, Pos: x.Pos()}}
	case *ssa.Phi:
		var out []origin
		for _, e := range x.Edges {
			out = append(out, pc.origins(e, x, depth+1, seen)...)
		}
		return dedupOrigins(out)
	case *ssa.ChangeType:
		return pc.origins(x.X, at, depth+1, seen)
	case *ssa.Convert:
		return pc.origins(x.X, at, depth+1, seen)
	case *ssa.MakeInterface:
		return pc.origins(x.X, at, depth+1, seen)
	case *ssa.TypeAssert:
		return pc.origins(x.X, at, depth+1, seen)
	case *ssa.Extract:
		switch t := x.Tuple.(type) {
		case *ssa.Next:
			// range over map/string: index 1 = key, 2 = value
			if rng, ok := t.Iter.(*ssa.Range); ok {
				if x.Index == 1 {
					return pc.keysOf(rng.X, t, depth+1, seen)
				}
				return pc.elemsOf(rng.X, t, depth+1, seen)
			}
		case *ssa.Call:
			return pc.callResult(t, x.Index, depth, seen)
		case *ssa.Lookup:
			if x.Index == 0 {
				return pc.origins(t, at, depth+1, seen)
			}
		}
	case *ssa.Call:
		return pc.callResult(x, 0, depth, seen)
	case *ssa.Lookup:
		if _, isMap := x.X.Type().Underlying().(*types.Map); isMap {
			return []origin{{Kind: "maplookup", Detail: pc.describe(x.X), Pos: x.Pos(), Key: pc.origins(x.Index, x, depth+1, seen), Field: pc.fieldOfValue(x.X)}}
		}
	case *ssa.UnOp:
		if x.Op == token.MUL {
			return pc.load(x.X, x, depth, seen)
		}
	case *ssa.BinOp:
		return []origin{{Kind: "other", Detail: "computed " + x.Op.String(), Pos: x.Pos()}}
	case *ssa.FreeVar:
		// captured by value? FreeVars are pointers to the captured cell; a direct use is the pointer itself
		return []origin{{Kind: "other", Detail: "free variable " + x.Name(), Pos: x.Pos()}}
	case *ssa.Field:
		if fv := fieldVarOfField(x); fv != nil {
			return []origin{{Kind: "field", Field: fv, Pos: x.Pos()}}
		}
	}
	return []origin{{Kind: "other", Detail: fmt.Sprintf("%T %s", v, v.String()), Pos: v.Pos()}}
}

func (pc *provCtx) describe(v ssa.Value) string {
	if fv := pc.fieldOfValue(v); fv != nil {
		return "field " + objName(fv)
	}
	return v.String()
}

func (pc *provCtx) fieldOfValue(v ssa.Value) *types.Var {
	switch x := v.(type) {
	case *ssa.UnOp:
		if fa, ok := x.X.(*ssa.FieldAddr); ok && x.Op == token.MUL {
			return fieldVarOf(fa)
		}
	case *ssa.Field:
		return fieldVarOfField(x)
	}
	return nil
}

// callResult: follow static maddy callees' return values; otherwise an opaque call result.
func (pc *provCtx) callResult(c *ssa.Call, idx int, depth int, seen map[ssa.Value]bool) []origin {
	callee := c.Call.StaticCallee()
	if callee != nil && isMaddyFn(callee) && len(callee.Blocks) > 0 && depth < pc.maxDepth {
		var out []origin
		for _, r := range returnsOf(callee) {
			if idx < len(r.Results) {
				out = append(out, pc.origins(r.Results[idx], r, depth+2, seen)...)
			}
		}
		// parameters of the callee map back to the arguments
		var mapped []origin
		for _, o := range out {
			if o.Kind == "param" && o.Param.Parent() == callee {
				for i, prm := range callee.Params {
					if prm == o.Param && i < len(c.Call.Args) {
						mapped = append(mapped, pc.origins(c.Call.Args[i], c, depth+2, seen)...)
					}
				}
				continue
			}
			mapped = append(mapped, o)
		}
		return dedupOrigins(mapped)
	}
	return []origin{{Kind: "call", Detail: ssaCalleeName(&c.Call), Call: c, Pos: c.Pos()}}
}

// load: origins of the value stored at address addr, as seen by the load instruction `at`.
func (pc *provCtx) load(addr ssa.Value, at ssa.Instruction, depth int, seen map[ssa.Value]bool) []origin {
	switch a := addr.(type) {
	case *ssa.IndexAddr:
		return pc.elemsOf(a.X, at, depth+1, seen)
	case *ssa.FieldAddr:
		if fv := fieldVarOf(a); fv != nil {
			return []origin{{Kind: "field", Field: fv, Pos: a.Pos()}}
		}
	case *ssa.Global:
		return []origin{{Kind: "global", Detail: a.Name(), Pos: a.Pos()}}
	case *ssa.Alloc:
		return pc.cell(a, at, depth, seen, false)
	case *ssa.FreeVar:
		// find the captured cell in the enclosing function
		fn := a.Parent()
		if parent := fn.Parent(); parent != nil {
			for _, b := range parent.Blocks {
				for _, ins := range b.Instrs {
					if mc, ok := ins.(*ssa.MakeClosure); ok && mc.Fn == ssa.Value(fn) {
						for i, fv := range fn.FreeVars {
							if fv == a && i < len(mc.Bindings) {
								if al, ok := mc.Bindings[i].(*ssa.Alloc); ok {
									return pc.cell(al, nil, depth, seen, false)
								}
								return pc.load(mc.Bindings[i], nil, depth+1, seen)
							}
						}
					}
				}
			}
		}
	}
	return []origin{{Kind: "other", Detail: fmt.Sprintf("load %T", addr), Pos: addr.Pos()}}
}

// cell: the stores to a local cell that reach `at` (all stores if at is nil or in another function, or if the
// cell is written from a closure).
func (pc *provCtx) cell(al *ssa.Alloc, at ssa.Instruction, depth int, seen map[ssa.Value]bool, elems bool) []origin {
	var stores []*ssa.Store
	writtenElsewhere := false
	var scan func(v ssa.Value, fn *ssa.Function)
	for _, r := range *al.Referrers() {
		switch x := r.(type) {
		case *ssa.Store:
			if x.Addr == ssa.Value(al) {
				stores = append(stores, x)
			}
		case *ssa.MakeClosure:
			// does the closure store through the captured pointer?
			fn := x.Fn.(*ssa.Function)
			for i, b := range x.Bindings {
				if b == ssa.Value(al) && i < len(fn.FreeVars) {
					for _, rr := range *fn.FreeVars[i].Referrers() {
						if st, ok := rr.(*ssa.Store); ok && st.Addr == ssa.Value(fn.FreeVars[i]) {
							writtenElsewhere = true
							stores = append(stores, st)
						}
					}
				}
			}
		}
	}
	_ = scan
	reaching := stores
	if at != nil && !writtenElsewhere && at.Parent() == al.Parent() {
		reaching = reachingStores(al, stores, at)
	}
	var out []origin
	for _, st := range reaching {
		if elems {
			out = append(out, pc.elemsOf(st.Val, st, depth+1, seen)...)
		} else {
			out = append(out, pc.origins(st.Val, st, depth+1, seen)...)
		}
	}
	if len(reaching) == 0 {
		out = append(out, origin{Kind: "const", Detail: "zero value", Pos: al.Pos()})
	}
	return dedupOrigins(out)
}

// reachingStores: intra-procedural reaching definitions of one cell at instruction `at`.
func reachingStores(al *ssa.Alloc, stores []*ssa.Store, at ssa.Instruction) []*ssa.Store {
	fn := al.Parent()
	isStore := map[ssa.Instruction]*ssa.Store{}
	for _, s := range stores {
		isStore[s] = s
	}
	type set map[*ssa.Store]bool
	in := make([]set, len(fn.Blocks))
	out := make([]set, len(fn.Blocks))
	for i := range in {
		in[i], out[i] = set{}, set{}
	}
	transfer := func(b *ssa.BasicBlock, s set, stopAt ssa.Instruction) (set, bool) {
		cur := set{}
		for k := range s {
			cur[k] = true
		}
		for _, ins := range b.Instrs {
			if ins == stopAt {
				return cur, true
			}
			if st, ok := isStore[ins]; ok {
				cur = set{st: true}
			}
		}
		return cur, false
	}
	changed := true
	for changed {
		changed = false
		for _, b := range fn.Blocks {
			ni := set{}
			for _, p := range b.Preds {
				for k := range out[p.Index] {
					ni[k] = true
				}
			}
			no, _ := transfer(b, ni, nil)
			if len(ni) != len(in[b.Index]) || len(no) != len(out[b.Index]) {
				changed = true
			} else {
				for k := range no {
					if !out[b.Index][k] {
						changed = true
					}
				}
			}
			in[b.Index], out[b.Index] = ni, no
		}
	}
	b := at.Block()
	res, _ := transfer(b, in[b.Index], at)
	var list []*ssa.Store
	for s := range res {
		list = append(list, s)
	}
	sort.Slice(list, func(i, j int) bool { return list[i].Pos() < list[j].Pos() })
	return list
}

// elemsOf: origins of the elements of a slice/array/map value.
func (pc *provCtx) elemsOf(v ssa.Value, at ssa.Instruction, depth int, seen map[ssa.Value]bool) []origin {
	if v == nil || depth > pc.maxDepth {
		return []origin{{Kind: "other", Detail: "depth limit"}}
	}
	switch x := v.(type) {
	case *ssa.Const:
		return nil // nil slice
	case *ssa.UnOp:
		if x.Op == token.MUL {
			switch a := x.X.(type) {
			case *ssa.FieldAddr:
				if fv := fieldVarOf(a); fv != nil {
					return []origin{{Kind: "listelem", Field: fv, Pos: a.Pos()}}
				}
			case *ssa.Alloc:
				return pc.cell(a, x, depth, seen, true)
			case *ssa.FreeVar:
				fn := a.Parent()
				if parent := fn.Parent(); parent != nil {
					for _, b := range parent.Blocks {
						for _, ins := range b.Instrs {
							if mc, ok := ins.(*ssa.MakeClosure); ok && mc.Fn == ssa.Value(fn) {
								for i, fv := range fn.FreeVars {
									if fv == a && i < len(mc.Bindings) {
										if al, ok := mc.Bindings[i].(*ssa.Alloc); ok {
											return pc.cell(al, nil, depth, seen, true)
										}
									}
								}
							}
						}
					}
				}
			}
		}
	case *ssa.Field:
		if fv := fieldVarOfField(x); fv != nil {
			return []origin{{Kind: "listelem", Field: fv, Pos: x.Pos()}}
		}
	case *ssa.Slice:
		// slicing an array allocated for varargs: elements are the stores into it
		if al, ok := x.X.(*ssa.Alloc); ok {
			var out []origin
			for _, r := range *al.Referrers() {
				if ia, ok := r.(*ssa.IndexAddr); ok {
					for _, rr := range *ia.Referrers() {
						if st, ok := rr.(*ssa.Store); ok {
							out = append(out, pc.origins(st.Val, st, depth+1, seen)...)
						}
					}
				}
			}
			return dedupOrigins(out)
		}
		return pc.elemsOf(x.X, at, depth+1, seen)
	case *ssa.Phi:
		var out []origin
		if seen[v] {
			return nil
		}
		seen[v] = true
		defer delete(seen, v)
		for _, e := range x.Edges {
			out = append(out, pc.elemsOf(e, x, depth+1, seen)...)
		}
		return dedupOrigins(out)
	case *ssa.Call:
		if b, ok := x.Call.Value.(*ssa.Builtin); ok && objName(b) == "append" {
			var out []origin
			for _, a := range x.Call.Args {
				out = append(out, pc.elemsOf(a, x, depth+1, seen)...)
			}
			return dedupOrigins(out)
		}
		callee := x.Call.StaticCallee()
		if callee != nil && isMaddyFn(callee) && len(callee.Blocks) > 0 {
			var out []origin
			for _, r := range returnsOf(callee) {
				if len(r.Results) > 0 {
					out = append(out, pc.elemsOf(r.Results[0], r, depth+2, seen)...)
				}
			}
			return dedupOrigins(out)
		}
		return []origin{{Kind: "call", Detail: ssaCalleeName(&x.Call), Call: x, Pos: x.Pos()}}
	case *ssa.Parameter:
		if args := pc.paramBindings(x); args != nil {
			var out []origin
			for _, a := range args {
				out = append(out, pc.elemsOf(a.v, a.at, depth+2, seen)...)
			}
			return dedupOrigins(out)
		}
		return []origin{{Kind: "param", Param: x, Detail: "elements", Pos: x.Pos()}}
	case *ssa.MakeSlice, *ssa.MakeMap:
		return nil
	case *ssa.Extract:
		if c, ok := x.Tuple.(*ssa.Call); ok {
			return []origin{{Kind: "call", Detail: ssaCalleeName(&c.Call), Call: c, Pos: x.Pos()}}
		}
	case *ssa.ChangeType:
		return pc.elemsOf(x.X, at, depth+1, seen)
	case *ssa.Convert:
		return pc.elemsOf(x.X, at, depth+1, seen)
	}
	return []origin{{Kind: "other", Detail: fmt.Sprintf("elements of %T %s", v, v.String()), Pos: v.Pos()}}
}

// keysOf: origins of the keys of a map value (only field maps are resolved).
func (pc *provCtx) keysOf(v ssa.Value, at ssa.Instruction, depth int, seen map[ssa.Value]bool) []origin {
	if fv := pc.fieldOfValue(v); fv != nil {
		return []origin{{Kind: "mapkey", Field: fv, Detail: "key of field " + objName(fv), Pos: v.Pos()}}
	}
	return []origin{{Kind: "other", Detail: "map key of " + v.String(), Pos: v.Pos()}}
}

type boundArg struct {
	v  ssa.Value
	at ssa.Instruction
}

// paramBindings: for a parameter of an unexported maddy function (or of a closure) that is only called statically –
// never stored, passed or started as a goroutine with unknown arguments – the arguments at all its call sites.
// nil if the function can be called from places the analysis does not see (exported, method of an interface, used
// as a value).
func (pc *provCtx) paramBindings(prm *ssa.Parameter) []boundArg {
	fn := prm.Parent()
	if fn == nil || !isMaddyFn(fn) {
		return nil
	}
	idx := -1
	for i, q := range fn.Params {
		if q == prm {
			idx = i
		}
	}
	if idx < 0 {
		return nil
	}
	isClosure := fn.Parent() != nil
	if !isClosure {
		obj, _ := fn.Object().(*types.Func)
		if obj == nil || obj.Exported() {
			return nil
		}
		// a method that may implement an interface is reachable dynamically: only bind receivers' helpers whose name
		// is not part of any interface in the module – approximated by "unexported"
	}
	var out []boundArg
	var scan []*ssa.Function
	if isClosure {
		scan = []*ssa.Function{fn.Parent()}
		scan = append(scan, fn.Parent().AnonFuncs...)
	} else {
		for _, f := range pc.p.MaddyFuncs() {
			if f.Pkg == fn.Pkg {
				scan = append(scan, f)
			}
		}
	}
	escapes := false
	for _, f := range scan {
		for _, b := range f.Blocks {
			for _, ins := range b.Instrs {
				// direct calls
				if ci, ok := ins.(ssa.CallInstruction); ok {
					cc := ci.Common()
					target := cc.StaticCallee()
					if target == nil && isClosure {
						// call through the local variable holding the closure: the value is the MakeClosure / function itself
						if mc, ok := cc.Value.(*ssa.MakeClosure); ok && mc.Fn == fn {
							target = fn
						}
					}
					if target == fn {
						if _, isGo := ins.(*ssa.Go); isGo {
							// started as a goroutine: the arguments are still the ones written at the go statement
						}
						if idx < len(cc.Args) {
							out = append(out, boundArg{cc.Args[idx], ins})
						}
						continue
					}
					// passed as an argument
					for _, a := range cc.Args {
						if usesFn(a, fn) {
							escapes = true
						}
					}
				}
				if st, ok := ins.(*ssa.Store); ok && usesFn(st.Val, fn) {
					// stored into a local cell and called from there is common for closures: resolve the loads
					if isClosure {
						if al, ok := st.Addr.(*ssa.Alloc); ok {
							for _, ref := range *al.Referrers() {
								if ld, ok := ref.(*ssa.UnOp); ok && ld.Op == token.MUL {
									for _, r2 := range *ld.Referrers() {
										if ci, ok := r2.(ssa.CallInstruction); ok && ci.Common().Value == ld {
											if idx < len(ci.Common().Args) {
												out = append(out, boundArg{ci.Common().Args[idx], r2})
											}
										} else {
											escapes = true
										}
									}
								} else if ref != ins {
									escapes = true
								}
							}
							continue
						}
					}
					escapes = true
				}
			}
		}
	}
	if escapes || len(out) == 0 {
		return nil
	}
	return out
}

func usesFn(v ssa.Value, fn *ssa.Function) bool {
	switch x := v.(type) {
	case *ssa.Function:
		return x == fn
	case *ssa.MakeClosure:
		return x.Fn == fn
	}
	return false
}
