package main

import (
	"go/ast"
	"go/token"
	"go/types"
	"strings"
)

// Rules added after the sixth round of independently seeded changes (DESIGN.md §R.15). Each is a necessary
// condition of the property it is registered under, read off the code.

// importRules evaluates another property's whole check in a sub-check and copies the obligations of the given rules.
func importRules(c *Check, from string, check func(*Check), rules map[string]bool, as string) {
	sub := newCheck(from, c.P, c.Tier)
	func() {
		defer func() {
			if r := recover(); r != nil {
				c.Fail(as, from+":import", token.NoPos, "undecided: the imported rules could not be evaluated")
			}
		}()
		check(sub)
	}()
	for _, o := range sub.obs {
		if rules[o.Rule] {
			c.Hold(as, o.Rule+":"+o.Key, o.posRaw, o.OK, o.Msg)
		}
	}
	for f := range sub.funcs {
		c.SawFunc(f)
	}
}

// c02CommitNeverFails: the message is in the spool when Body has returned; Commit only schedules the first attempt.
// An error from Commit tells the client "not accepted" while the spool – which is what survives a stop – says the
// opposite: the message is delivered after the restart although the transaction failed, or (for a failure report
// routed into the queue) removed by the caller's deferred Abort although nothing else will ever report the failure.
func c02CommitNeverFails(c *Check, rule string) {
	c.Rule(rule, "queueDelivery.Commit cannot fail: every return is the constant nil (acceptance was decided when Body stored the message; the spool, not the scheduler, carries it across a stop)", 1)
	r := c.need(rule, queueRel, "queueDelivery", "Commit")
	if r == nil {
		return
	}
	msg := ""
	n := 0
	inspectNoLit(r.FI.Decl.Body, func(x ast.Node) bool {
		ret, ok := x.(*ast.ReturnStmt)
		if !ok {
			return true
		}
		n++
		if len(ret.Results) != 1 || !isNilIdent(r.Info, ret.Results[0]) {
			msg = "Commit can return " + exprStr(ret.Results[0]) + " (line " + itoa(c.P.Fset.Position(ret.Pos()).Line) + ") after the message was stored by Body: the client is told the message was not accepted, yet it is in the spool and is delivered after the next start (and a failure report whose Commit fails is removed by emitDSN's deferred Abort: the failure is never reported)"
		}
		return true
	})
	c.Hold(rule, "queueDelivery.Commit:always-nil", r.FI.Decl.Pos(), msg == "" && n > 0, msg)
}

// c02ReportID: the spool files of a message are named by its ID. A failure report stored in the same queue needs an
// ID of its own – freshly generated – or a second report for the same original (another recipient failing in a later
// attempt) overwrites the first one that is still waiting for delivery.
func c02ReportID(c *Check, rule string) {
	c.Rule(rule, "emitDSN: the ID of the report's metadata (its spool key when the bounce pipeline ends in a queue) is the result of module.GenerateMsgID(), not derived from the failed message's ID", 1)
	r := c.need(rule, queueRel, "Queue", "emitDSN")
	if r == nil {
		return
	}
	info := r.Info
	msg := "undecided: no metadata literal with an ID in emitDSN"
	ast.Inspect(r.FI.Decl.Body, func(x ast.Node) bool {
		cl, ok := x.(*ast.CompositeLit)
		if !ok {
			return true
		}
		tn := namedOf(info.TypeOf(cl))
		if tn == nil || objName(tn.Obj()) != "MsgMetadata" {
			return true
		}
		for _, el := range cl.Elts {
			kv, ok := el.(*ast.KeyValueExpr)
			if !ok {
				continue
			}
			if id, ok := kv.Key.(*ast.Ident); !ok || id.Name != "ID" {
				continue
			}
			msg = ""
			def := resolveLocal(info, r.FI.Decl.Body, kv.Value)
			call, isCall2 := ast.Unparen(def).(*ast.CallExpr)
			if !isCall2 || !isCall(info, call, "~/framework/module.GenerateMsgID") {
				msg = "the failure report is given the ID " + exprStr(kv.Value) + ", which is not a freshly generated one: two reports for one message (recipients failing in different attempts) get the same spool files when the bounce pipeline ends in a queue – the second overwrites the first, which is never delivered"
			}
		}
		return true
	})
	c.Hold(rule, "emitDSN:fresh-id", r.FI.Decl.Pos(), msg == "", msg)
}

// c03BodyFailedWriters: a target delivery is aborted at Commit when its bodyFailed flag is up. The flag belongs to the
// failure of an ATOMIC Body call (all of the target's recipients fail together). A per-recipient status of a partial
// target must not raise it: the other recipients of that target would be aborted after they were reported as
// accepted (LMTP answers them 250 – the mail is lost).
func c03BodyFailedWriters(c *Check, rule string) {
	c.Rule(rule, "pipeline: the per-target bodyFailed flag is written only by msgpipelineDelivery.Body / BodyNonAtomic themselves (the failure of a whole-target step), never from a per-recipient status callback", 2)
	p := c.P
	n := 0
	for _, fi := range funcsOfPkgs(p, pipelineRel) {
		info := fi.Info()
		ast.Inspect(fi.Decl.Body, func(x ast.Node) bool {
			as, ok := x.(*ast.AssignStmt)
			if !ok {
				return true
			}
			for _, l := range as.Lhs {
				fv := fieldOf(info, l)
				if fv == nil || objName(fv) != "bodyFailed" {
					continue
				}
				n++
				nm := refName(fi.Obj)
				recv := recvTypeNameRef(fi)
				ok := recv == "msgpipelineDelivery" && (nm == "Body" || nm == "BodyNonAtomic")
				c.Hold(rule, fi.Name()+":bodyFailed", as.Pos(), ok, "the bodyFailed flag of a target delivery is raised in "+fi.Name()+": a failure reported for ONE recipient of a partial target makes Commit abort the whole target delivery – recipients of that target that were reported as accepted are never delivered")
			}
			return true
		})
	}
	if n < 2 {
		c.Fail(rule, "bodyFailed:writers", token.NoPos, "undecided: fewer than two writers of the bodyFailed flag found")
	}
}

// c04EveryTargetKept: every `deliver_to` directive of a block contributes its target. Targets defined in place have no
// instance name; any notion of "the same target twice" based on names drops the second in-place target of a module.
func c04EveryTargetKept(c *Check, rule string) {
	c.Rule(rule, "parseMsgPipelineRcptCfg: a deliver_to directive whose target was created successfully always adds that target to the block (no path from the successful constructor to the next directive skips the append)", 1)
	r := c.need(rule, pipelineRel, "", "parseMsgPipelineRcptCfg")
	if r == nil {
		return
	}
	info := r.Info
	mk := calling("~/framework/config/module.DeliveryTarget")
	sites := r.Calls(mk)
	appends := r.Assigns(func(l, rhs ast.Expr) bool {
		fv := fieldOf(info, l)
		if fv == nil || objName(fv) != "targets" {
			return false
		}
		call, ok := ast.Unparen(rhs).(*ast.CallExpr)
		if !ok {
			return false
		}
		id, isID := call.Fun.(*ast.Ident)
		return isID && id.Name == "append"
	})
	msg := ""
	if len(sites) == 0 || len(appends) == 0 {
		msg = "undecided: no deliver_to target construction / no append to the block's targets"
	}
	for _, pt := range sites {
		call := r.CallAt(pt, mk)
		// where the handling of this directive ends: the next iteration of the loop over the nodes, or an exit
		end := func(q Pt) bool {
			if r.F.IsExitPt(q) {
				return r.IsSuccessReturn(q)
			}
			return q.I == 0 && (q.B.Kind == kindRangeLoop || q.B.Kind == kindForLoop)
		}
		found, w, decided := r.OnErr(pt, call, true, end, isPt(appends))
		if !decided {
			msg = "undecided: the error of the target constructor is not assigned"
		} else if found {
			msg = "a deliver_to directive can be accepted without its target being added to the block (a duplicate test by module / instance name treats two targets defined in place as one): the recipient is not handed to every configured target: " + w
		}
	}
	c.Hold(rule, "parseMsgPipelineRcptCfg:deliver_to-appends", r.FI.Decl.Pos(), msg == "", msg)
}

// c05CloseCloses: attemptMX abandons a connection that failed a policy check by calling Close() on it, and newConn
// decides "not connected" by Client() == nil. After Close has returned, the connection must not be usable: every
// return of smtpconn.C.Close has closed the client or forgotten it.
func c05CloseCloses(c *Check, rule string) {
	c.Rule(rule, "smtpconn.C.Close: every return is preceded by closing the client (cl.Close()) or by forgetting it (cl = nil), whatever QUIT was answered – a connection abandoned after a failed policy check cannot carry the message", 1)
	r := c.need(rule, "internal/smtpconn", "C", "Close")
	if r == nil {
		return
	}
	info := r.Info
	closes := func(q Pt) bool {
		nd := q.Node()
		if nd == nil {
			return false
		}
		hit := false
		inspectNoLit(nd, func(x ast.Node) bool {
			switch y := x.(type) {
			case *ast.CallExpr:
				if methodName(y) == "Close" && isField(info, callRecv(y), "C", "cl") {
					hit = true
				}
			case *ast.AssignStmt:
				for i, l := range y.Lhs {
					if isField(info, l, "C", "cl") && i < len(y.Rhs) && isNilIdent(info, y.Rhs[i]) {
						hit = true
					}
				}
			}
			return true
		})
		return hit
	}
	// a `return c.cl.Close()` closes in the return statement itself: the exit point's return node
	exitOpen := func(q Pt) bool {
		if !r.F.IsNormalExit(q) {
			return false
		}
		_, ret := r.F.Exit(q)
		if ret != nil {
			hit := false
			ast.Inspect(ret, func(x ast.Node) bool {
				if call, ok := x.(*ast.CallExpr); ok && methodName(call) == "Close" && isField(info, callRecv(call), "C", "cl") {
					hit = true
				}
				return true
			})
			if hit {
				return false
			}
		}
		return true
	}
	path, f := r.F.Reach(Query{From: r.Entry(), Inclusive: true, Target: exitOpen, Avoid: closes})
	c.Hold(rule, "C.Close:client-closed", r.FI.Decl.Pos(), !f, "Close can return with the client neither closed nor forgotten (a 421 answer to QUIT that the peer does not follow by hanging up): attemptMX has just refused this connection on a policy check, newConn sees Client() != nil and hands it on as established – MAIL, RCPT and DATA go over the connection the policy rejected: "+r.F.Describe(path))
}

// c05WaitsWithCallersContext: a policy verdict waits for its lookup with the context of the delivery. A derived
// context with its own, shorter deadline turns "the lookup is slow" into the same error path as "no policy": the
// check answers neutral and the policy is not applied (fail open by timeout; the policy host can be tarpitted).
func c05WaitsWithCallersContext(c *Check, rule string) {
	c.Rule(rule, "policy verdicts wait for their lookup with the caller's context itself: the context handed to Future.GetContext in CheckMX / CheckConn is the method's context parameter (a private shorter deadline would turn a slow lookup into 'no policy')", 3)
	p := c.P
	const futPkg = modPath + "/framework/future"
	n := 0
	for _, fi := range funcsOfPkgs(p, remoteRel) {
		nm := refName(fi.Obj)
		if nm != "CheckMX" && nm != "CheckConn" {
			continue
		}
		info := fi.Info()
		sig := fi.Obj.Type().(*types.Signature)
		var ctxP types.Object
		for i := 0; i < sig.Params().Len(); i++ {
			if typeIs(sig.Params().At(i).Type(), "context", "Context") {
				ctxP = sig.Params().At(i)
				break
			}
		}
		for _, call := range callsIn(fi.Decl.Body) {
			if !isCall(info, call, futPkg+".Future.GetContext") || len(call.Args) != 1 {
				continue
			}
			n++
			c.SawFunc(fi.Name())
			ok := ctxP != nil && objOf(info, call.Args[0]) == ctxP && !assignedAnywhere(info, fi.Decl.Body, ctxP)
			c.Hold(rule, fi.Name()+":wait-context", call.Pos(), ok, "the verdict waits for the policy lookup with "+exprStr(call.Args[0])+", not with the context it was called with: when that context ends first (a private timeout) the method takes the 'no policy' path and answers neutral – an enforced MTA-STS policy or published TLSA records are not applied because the lookup was slow")
		}
	}
	if n < 3 {
		c.Fail(rule, "waits", token.NoPos, "undecided: fewer than three policy verdicts that wait for a lookup found")
	}
}

// c06DeepCopyComplete: the queue hands every attempt, and writes to the spool, a DeepCopy of the message metadata.
// Whatever DeepCopy leaves out is lost behind a queue – the Quarantine flag first of all. The copy starts from the
// whole struct (`cpy := *m`), or its literal names every field of the type.
func c06DeepCopyComplete(c *Check, rule string) {
	c.Rule(rule, "MsgMetadata.DeepCopy carries every field of the struct: it starts from a copy of the whole value, or its composite literal names every field (the Quarantine flag and the envelope options reach the targets behind a queue)", 1)
	r := c.need(rule, "framework/module", "MsgMetadata", "DeepCopy")
	if r == nil {
		return
	}
	info := r.Info
	var recv types.Object
	if r.FI.Decl.Recv != nil && len(r.FI.Decl.Recv.List) == 1 && len(r.FI.Decl.Recv.List[0].Names) == 1 {
		recv = info.Defs[r.FI.Decl.Recv.List[0].Names[0]]
	}
	whole := false
	var lits []*ast.CompositeLit
	ast.Inspect(r.FI.Decl.Body, func(x ast.Node) bool {
		switch y := x.(type) {
		case *ast.StarExpr:
			if recv != nil && objOf(info, y.X) == recv {
				if tv, ok := info.Types[y]; ok && !tv.IsType() {
					whole = true
				}
			}
		case *ast.CompositeLit:
			if tn := namedOf(info.TypeOf(y)); tn != nil && objName(tn.Obj()) == "MsgMetadata" {
				lits = append(lits, y)
			}
		}
		return true
	})
	msg := ""
	if !whole {
		if len(lits) == 0 {
			msg = "undecided: DeepCopy neither copies the whole value nor builds a literal"
		}
		st, _ := r.FI.Obj.Type().(*types.Signature).Recv().Type().(*types.Pointer)
		var fields []string
		if st != nil {
			if s, ok := st.Elem().Underlying().(*types.Struct); ok {
				for i := 0; i < s.NumFields(); i++ {
					fields = append(fields, s.Field(i).Name())
				}
			}
		}
		for _, cl := range lits {
			have := map[string]bool{}
			for _, el := range cl.Elts {
				if kv, ok := el.(*ast.KeyValueExpr); ok {
					if id, ok := kv.Key.(*ast.Ident); ok {
						have[id.Name] = true
					}
				}
			}
			// fields assigned afterwards on the copy
			ast.Inspect(r.FI.Decl.Body, func(x ast.Node) bool {
				if as, ok := x.(*ast.AssignStmt); ok {
					for _, l := range as.Lhs {
						if sel, ok := ast.Unparen(l).(*ast.SelectorExpr); ok && fieldOf(info, sel) != nil {
							have[sel.Sel.Name] = true
						}
					}
				}
				return true
			})
			var missing []string
			for _, f := range fields {
				if !have[f] {
					missing = append(missing, f)
				}
			}
			if len(missing) > 0 {
				msg = "DeepCopy builds the copy field by field and leaves out " + strings.Join(missing, ", ") + ": every attempt of a queue and the spool get the copy – a message quarantined by the pipeline reaches the targets behind a queue unflagged (the remote target relays it, a storage target files it into the inbox)"
			}
		}
	}
	c.Hold(rule, "MsgMetadata.DeepCopy:every-field", r.FI.Decl.Pos(), msg == "", msg)
}

// c07AuthResultsAccumulate: the SPF and DKIM results DMARC evaluates may come from different groups of checks
// (global / source / destination block) and different stages (SPF with enforce_early at the connection stage, DKIM
// at the body stage) – i.e. from different calls of runAndMergeResults. The merged list only ever grows.
func c07AuthResultsAccumulate(c *Check, rule string) {
	c.Rule(rule, "check runner: the merged authentication results only grow – every assignment to the merged result's AuthResult is an append to itself (results of an earlier group or stage are never replaced)", 1)
	p := c.P
	n := 0
	for _, fi := range funcsOfPkgs(p, pipelineRel) {
		info := fi.Info()
		ast.Inspect(fi.Decl.Body, func(x ast.Node) bool {
			as, ok := x.(*ast.AssignStmt)
			if !ok || len(as.Lhs) != len(as.Rhs) {
				return true
			}
			for i, l := range as.Lhs {
				sel, ok := ast.Unparen(l).(*ast.SelectorExpr)
				if !ok || sel.Sel.Name != "AuthResult" || fieldOf(info, sel) == nil {
					continue
				}
				// the merged result: a field of the check runner
				if inner, ok := ast.Unparen(sel.X).(*ast.SelectorExpr); !ok || fieldOf(info, inner) == nil || !strings.Contains(strings.ToLower(inner.Sel.Name), "merged") {
					continue
				}
				n++
				c.SawFunc(fi.Name())
				okApp := false
				if call, ok := ast.Unparen(as.Rhs[i]).(*ast.CallExpr); ok && len(call.Args) >= 2 {
					if id, isID := call.Fun.(*ast.Ident); isID && id.Name == "append" && exprStr(call.Args[0]) == exprStr(l) {
						okApp = true
					}
				}
				c.Hold(rule, fi.Name()+":AuthResult", as.Pos(), okApp, "the merged authentication results are replaced ("+exprStr(as.Rhs[i])+"), not appended to: when SPF and DKIM report in different groups or stages only the later result reaches the DMARC evaluation, which then answers 'none – not enough information' and the published reject / quarantine policy is not applied")
			}
			return true
		})
	}
	if n == 0 {
		c.Fail(rule, "AuthResult:merges", token.NoPos, "undecided: no assignment to the merged authentication results found")
	}
}

// c10EnvelopeReadOnly: the queue stores and replays the envelope it accepted. It never edits it: every store into a
// MsgMetadata inside the queue package goes to a private copy (the result of DeepCopy()).
func c10EnvelopeReadOnly(c *Check, rule string) {
	c.Rule(rule, "queue: the accepted message metadata is read-only – every store into a field of a MsgMetadata inside the queue package targets a private copy (a DeepCopy() result), never the object accepted from the source (REQUIRETLS, SMTPUTF8, the sender as received stay what the client asked for)", 2)
	p := c.P
	n := 0
	for _, fi := range funcsOfPkgs(p, queueRel) {
		info := fi.Info()
		var r *RuleCtx
		inspectNoLit(fi.Decl.Body, func(x ast.Node) bool {
			as, ok := x.(*ast.AssignStmt)
			if !ok {
				return true
			}
			for _, l := range as.Lhs {
				// the chain l = base.F1.F2… with some prefix of type (*)MsgMetadata
				var base ast.Expr
				e := ast.Unparen(l)
				for {
					sel, ok := e.(*ast.SelectorExpr)
					if !ok {
						break
					}
					if fieldOf(info, sel) == nil {
						break
					}
					t := info.TypeOf(sel.X)
					if pt, isP := t.(*types.Pointer); isP {
						t = pt.Elem()
					}
					if tn := namedOf(t); tn != nil && objName(tn.Obj()) == "MsgMetadata" && tn.Obj().Pkg() != nil && strings.HasSuffix(tn.Obj().Pkg().Path(), "/framework/module") {
						base = sel.X
						break
					}
					e = ast.Unparen(sel.X)
				}
				if base == nil {
					continue
				}
				n++
				c.SawFunc(fi.Name())
				if r == nil {
					r = c.CtxOf(fi)
				}
				at, found := r.F.PtOfNode(as)
				fresh := false
				isDeepCopy := func(e ast.Expr) bool {
					call, ok := ast.Unparen(e).(*ast.CallExpr)
					return ok && methodName(call) == "DeepCopy"
				}
				if v, isVar := objOf(info, base).(*types.Var); isVar && !v.IsField() {
					if def, nd := localDef(info, fi.Decl.Body, v); nd == 1 && def != nil && isDeepCopy(def) {
						fresh = true
					}
				} else if found {
					// a field path (metaCopy.MsgMeta): assigned from DeepCopy() on every path to this store
					want := exprStr(base)
					sets := r.Assigns(func(l2, rhs ast.Expr) bool { return exprStr(l2) == want && rhs != nil && isDeepCopy(rhs) })
					if len(sets) > 0 {
						if okMP, _ := r.MustPass(r.Entry(), true, func(q Pt) bool { return q == at }, isPt(sets)); okMP {
							fresh = true
						}
					}
				}
				c.Hold(rule, fi.Name()+":store:"+exprStr(l), as.Pos(), fresh, "the queue writes "+exprStr(l)+" on the metadata object it accepted (not on a private copy): the envelope that is stored, replayed on retries and after a restart, and handed to the target is no longer the one the client gave (a message accepted with REQUIRETLS can leave without it)")
			}
			return true
		})
	}
	if n < 2 {
		c.Fail(rule, "stores", token.NoPos, "undecided: fewer than two stores into message metadata found in the queue package (the Conn strip and the per-attempt ID)")
	}
}
