package main

import (
	"fmt"
	"go/ast"
	"go/token"
	"go/types"
	"strings"
)

// Rules added after the sixth round of independently seeded changes (DESIGN.md §R.15). Each is a necessary
// condition of the property it is registered under, read off the code.

// importRules evaluates another property's whole check in a sub-check and copies the obligations of the given rules.
func importRules(c *Check, from string, check func(*Check), rules map[string]bool, as string) {
	sub := newCheck(from, c.P, c.Tier)
	func() {
		defer func() {
			if r := recover(); r != nil {
				c.Fail(as, from+":import", token.NoPos, fmt.Sprint("undecided: the imported rules could not be evaluated: ", r))
			}
		}()
		check(sub)
	}()
	for _, o := range sub.obs {
		if rules[o.Rule] {
			c.Hold(as, o.Rule+":"+o.Key, o.posRaw, o.OK, o.Msg)
		}
	}
	for f := range sub.funcs {
		c.SawFunc(f)
	}
}

// c02CommitNeverFails: the message is in the spool when Body has returned; Commit only schedules the first attempt.
// An error from Commit tells the client "not accepted" while the spool – which is what survives a stop – says the
// opposite: the message is delivered after the restart although the transaction failed, or (for a failure report
// routed into the queue) removed by the caller's deferred Abort although nothing else will ever report the failure.
func c02CommitNeverFails(c *Check, rule string) {
	c.Rule(rule, "queueDelivery.Commit cannot fail: every return is the constant nil (acceptance was decided when Body stored the message; the spool, not the scheduler, carries it across a stop)", 1)
	r := c.need(rule, queueRel, "queueDelivery", "Commit")
	if r == nil {
		return
	}
	msg := ""
	n := 0
	inspectNoLit(r.FI.Decl.Body, func(x ast.Node) bool {
		ret, ok := x.(*ast.ReturnStmt)
		if !ok {
			return true
		}
		n++
		if len(ret.Results) != 1 || !isNilIdent(r.Info, ret.Results[0]) {
			msg = "Commit can return " + exprStr(ret.Results[0]) + " (line " + itoa(c.P.Fset.Position(ret.Pos()).Line) + ") after the message was stored by Body: the client is told the message was not accepted, yet it is in the spool and is delivered after the next start (and a failure report whose Commit fails is removed by emitDSN's deferred Abort: the failure is never reported)"
		}
		return true
	})
	c.Hold(rule, "queueDelivery.Commit:always-nil", r.FI.Decl.Pos(), msg == "" && n > 0, msg)
}

// c02ReportID: the spool files of a message are named by its ID. A failure report stored in the same queue needs an
// ID of its own – freshly generated – or a second report for the same original (another recipient failing in a later
// attempt) overwrites the first one that is still waiting for delivery.
func c02ReportID(c *Check, rule string) {
	c.Rule(rule, "emitDSN: the ID of the report's metadata (its spool key when the bounce pipeline ends in a queue) is the result of module.GenerateMsgID(), not derived from the failed message's ID", 1)
	r := c.need(rule, queueRel, "Queue", "emitDSN")
	if r == nil {
		return
	}
	info := r.Info
	msg := "undecided: no metadata literal with an ID in emitDSN"
	ast.Inspect(r.FI.Decl.Body, func(x ast.Node) bool {
		cl, ok := x.(*ast.CompositeLit)
		if !ok {
			return true
		}
		tn := namedOf(info.TypeOf(cl))
		if tn == nil || objName(tn.Obj()) != "MsgMetadata" {
			return true
		}
		for _, el := range cl.Elts {
			kv, ok := el.(*ast.KeyValueExpr)
			if !ok {
				continue
			}
			if id, ok := kv.Key.(*ast.Ident); !ok || id.Name != "ID" {
				continue
			}
			msg = ""
			def := resolveLocal(info, r.FI.Decl.Body, kv.Value)
			call, isCall2 := ast.Unparen(def).(*ast.CallExpr)
			if !isCall2 || !isCall(info, call, "~/framework/module.GenerateMsgID") {
				msg = "the failure report is given the ID " + exprStr(kv.Value) + ", which is not a freshly generated one: two reports for one message (recipients failing in different attempts) get the same spool files when the bounce pipeline ends in a queue – the second overwrites the first, which is never delivered"
			}
		}
		return true
	})
	c.Hold(rule, "emitDSN:fresh-id", r.FI.Decl.Pos(), msg == "", msg)
}

// c03BodyFailedWriters: a target delivery is aborted at Commit when its bodyFailed flag is up. The flag belongs to the
// failure of an ATOMIC Body call (all of the target's recipients fail together). A per-recipient status of a partial
// target must not raise it: the other recipients of that target would be aborted after they were reported as
// accepted (LMTP answers them 250 – the mail is lost).
func c03BodyFailedWriters(c *Check, rule string) {
	c.Rule(rule, "pipeline: the per-target bodyFailed flag is written only by msgpipelineDelivery.Body / BodyNonAtomic themselves (the failure of a whole-target step), never from a per-recipient status callback", 2)
	p := c.P
	n := 0
	for _, fi := range funcsOfPkgs(p, pipelineRel) {
		info := fi.Info()
		ast.Inspect(fi.Decl.Body, func(x ast.Node) bool {
			as, ok := x.(*ast.AssignStmt)
			if !ok {
				return true
			}
			for _, l := range as.Lhs {
				fv := fieldOf(info, l)
				if fv == nil || objName(fv) != "bodyFailed" {
					continue
				}
				n++
				nm := refName(fi.Obj)
				recv := recvTypeNameRef(fi)
				ok := recv == "msgpipelineDelivery" && (nm == "Body" || nm == "BodyNonAtomic")
				c.Hold(rule, fi.Name()+":bodyFailed", as.Pos(), ok, "the bodyFailed flag of a target delivery is raised in "+fi.Name()+": a failure reported for ONE recipient of a partial target makes Commit abort the whole target delivery – recipients of that target that were reported as accepted are never delivered")
			}
			return true
		})
	}
	if n < 2 {
		c.Fail(rule, "bodyFailed:writers", token.NoPos, "undecided: fewer than two writers of the bodyFailed flag found")
	}
}

// c04EveryTargetKept: every `deliver_to` directive of a block contributes its target. Targets defined in place have no
// instance name; any notion of "the same target twice" based on names drops the second in-place target of a module.
func c04EveryTargetKept(c *Check, rule string) {
	c.Rule(rule, "parseMsgPipelineRcptCfg: a deliver_to directive whose target was created successfully always adds that target to the block (no path from the successful constructor to the next directive skips the append)", 1)
	r := c.need(rule, pipelineRel, "", "parseMsgPipelineRcptCfg")
	if r == nil {
		return
	}
	info := r.Info
	mk := calling("~/framework/config/module.DeliveryTarget")
	sites := r.Calls(mk)
	appends := r.Assigns(func(l, rhs ast.Expr) bool {
		fv := fieldOf(info, l)
		if fv == nil || objName(fv) != "targets" {
			return false
		}
		call, ok := ast.Unparen(rhs).(*ast.CallExpr)
		if !ok {
			return false
		}
		id, isID := call.Fun.(*ast.Ident)
		return isID && id.Name == "append"
	})
	msg := ""
	if len(sites) == 0 || len(appends) == 0 {
		msg = "undecided: no deliver_to target construction / no append to the block's targets"
	}
	for _, pt := range sites {
		call := r.CallAt(pt, mk)
		// where the handling of this directive ends: the next iteration of the loop over the nodes, or an exit
		end := func(q Pt) bool {
			if r.F.IsExitPt(q) {
				return r.IsSuccessReturn(q)
			}
			return q.I == 0 && (q.B.Kind == kindRangeLoop || q.B.Kind == kindForLoop)
		}
		found, w, decided := r.OnErr(pt, call, true, end, isPt(appends))
		if !decided {
			msg = "undecided: the error of the target constructor is not assigned"
		} else if found {
			msg = "a deliver_to directive can be accepted without its target being added to the block (a duplicate test by module / instance name treats two targets defined in place as one): the recipient is not handed to every configured target: " + w
		}
	}
	c.Hold(rule, "parseMsgPipelineRcptCfg:deliver_to-appends", r.FI.Decl.Pos(), msg == "", msg)
}

// c05CloseCloses: attemptMX abandons a connection that failed a policy check by calling Close() on it, and newConn
// decides "not connected" by Client() == nil. After Close has returned, the connection must not be usable: every
// return of smtpconn.C.Close has closed the client or forgotten it.
func c05CloseCloses(c *Check, rule string) {
	c.Rule(rule, "smtpconn.C.Close: every return is preceded by closing the client (cl.Close()) or by forgetting it (cl = nil), whatever QUIT was answered – a connection abandoned after a failed policy check cannot carry the message", 1)
	r := c.need(rule, "internal/smtpconn", "C", "Close")
	if r == nil {
		return
	}
	info := r.Info
	closes := func(q Pt) bool {
		nd := q.Node()
		if nd == nil {
			return false
		}
		hit := false
		inspectNoLit(nd, func(x ast.Node) bool {
			switch y := x.(type) {
			case *ast.CallExpr:
				if methodName(y) == "Close" && isField(info, callRecv(y), "C", "cl") {
					hit = true
				}
			case *ast.AssignStmt:
				for i, l := range y.Lhs {
					if isField(info, l, "C", "cl") && i < len(y.Rhs) && isNilIdent(info, y.Rhs[i]) {
						hit = true
					}
				}
			}
			return true
		})
		return hit
	}
	// a `return c.cl.Close()` closes in the return statement itself: the exit point's return node
	exitOpen := func(q Pt) bool {
		if !r.F.IsNormalExit(q) {
			return false
		}
		_, ret := r.F.Exit(q)
		if ret != nil {
			hit := false
			ast.Inspect(ret, func(x ast.Node) bool {
				if call, ok := x.(*ast.CallExpr); ok && methodName(call) == "Close" && isField(info, callRecv(call), "C", "cl") {
					hit = true
				}
				return true
			})
			if hit {
				return false
			}
		}
		return true
	}
	path, f := r.F.Reach(Query{From: r.Entry(), Inclusive: true, Target: exitOpen, Avoid: closes})
	c.Hold(rule, "C.Close:client-closed", r.FI.Decl.Pos(), !f, "Close can return with the client neither closed nor forgotten (a 421 answer to QUIT that the peer does not follow by hanging up): attemptMX has just refused this connection on a policy check, newConn sees Client() != nil and hands it on as established – MAIL, RCPT and DATA go over the connection the policy rejected: "+r.F.Describe(path))
}

// c05WaitsWithCallersContext: a policy verdict waits for its lookup with the context of the delivery. A derived
// context with its own, shorter deadline turns "the lookup is slow" into the same error path as "no policy": the
// check answers neutral and the policy is not applied (fail open by timeout; the policy host can be tarpitted).
func c05WaitsWithCallersContext(c *Check, rule string) {
	c.Rule(rule, "policy verdicts wait for their lookup with the caller's context itself: the context handed to Future.GetContext in CheckMX / CheckConn is the method's context parameter (a private shorter deadline would turn a slow lookup into 'no policy')", 3)
	p := c.P
	const futPkg = modPath + "/framework/future"
	n := 0
	for _, fi := range funcsOfPkgs(p, remoteRel) {
		nm := refName(fi.Obj)
		if nm != "CheckMX" && nm != "CheckConn" {
			continue
		}
		info := fi.Info()
		sig := fi.Obj.Type().(*types.Signature)
		var ctxP types.Object
		for i := 0; i < sig.Params().Len(); i++ {
			if typeIs(sig.Params().At(i).Type(), "context", "Context") {
				ctxP = sig.Params().At(i)
				break
			}
		}
		for _, call := range callsIn(fi.Decl.Body) {
			if !isCall(info, call, futPkg+".Future.GetContext") || len(call.Args) != 1 {
				continue
			}
			n++
			c.SawFunc(fi.Name())
			ok := ctxP != nil && objOf(info, call.Args[0]) == ctxP && !assignedAnywhere(info, fi.Decl.Body, ctxP)
			c.Hold(rule, fi.Name()+":wait-context", call.Pos(), ok, "the verdict waits for the policy lookup with "+exprStr(call.Args[0])+", not with the context it was called with: when that context ends first (a private timeout) the method takes the 'no policy' path and answers neutral – an enforced MTA-STS policy or published TLSA records are not applied because the lookup was slow")
		}
	}
	if n < 3 {
		c.Fail(rule, "waits", token.NoPos, "undecided: fewer than three policy verdicts that wait for a lookup found")
	}
}

// c06DeepCopyComplete: the queue hands every attempt, and writes to the spool, a DeepCopy of the message metadata.
// Whatever DeepCopy leaves out is lost behind a queue – the Quarantine flag first of all. The copy starts from the
// whole struct (`cpy := *m`), or its literal names every field of the type.
func c06DeepCopyComplete(c *Check, rule string) {
	c.Rule(rule, "MsgMetadata.DeepCopy carries every field of the struct: it starts from a copy of the whole value, or its composite literal names every field (the Quarantine flag and the envelope options reach the targets behind a queue)", 1)
	r := c.need(rule, "framework/module", "MsgMetadata", "DeepCopy")
	if r == nil {
		return
	}
	info := r.Info
	var recv types.Object
	if r.FI.Decl.Recv != nil && len(r.FI.Decl.Recv.List) == 1 && len(r.FI.Decl.Recv.List[0].Names) == 1 {
		recv = info.Defs[r.FI.Decl.Recv.List[0].Names[0]]
	}
	whole := false
	var lits []*ast.CompositeLit
	ast.Inspect(r.FI.Decl.Body, func(x ast.Node) bool {
		switch y := x.(type) {
		case *ast.StarExpr:
			if recv != nil && objOf(info, y.X) == recv {
				if tv, ok := info.Types[y]; ok && !tv.IsType() {
					whole = true
				}
			}
		case *ast.CompositeLit:
			if tn := namedOf(info.TypeOf(y)); tn != nil && objName(tn.Obj()) == "MsgMetadata" {
				lits = append(lits, y)
			}
		}
		return true
	})
	msg := ""
	if !whole {
		if len(lits) == 0 {
			msg = "undecided: DeepCopy neither copies the whole value nor builds a literal"
		}
		st, _ := r.FI.Obj.Type().(*types.Signature).Recv().Type().(*types.Pointer)
		var fields []string
		if st != nil {
			if s, ok := st.Elem().Underlying().(*types.Struct); ok {
				for i := 0; i < s.NumFields(); i++ {
					fields = append(fields, s.Field(i).Name())
				}
			}
		}
		for _, cl := range lits {
			have := map[string]bool{}
			for _, el := range cl.Elts {
				if kv, ok := el.(*ast.KeyValueExpr); ok {
					if id, ok := kv.Key.(*ast.Ident); ok {
						have[id.Name] = true
					}
				}
			}
			// fields assigned afterwards on the copy
			ast.Inspect(r.FI.Decl.Body, func(x ast.Node) bool {
				if as, ok := x.(*ast.AssignStmt); ok {
					for _, l := range as.Lhs {
						if sel, ok := ast.Unparen(l).(*ast.SelectorExpr); ok && fieldOf(info, sel) != nil {
							have[sel.Sel.Name] = true
						}
					}
				}
				return true
			})
			var missing []string
			for _, f := range fields {
				if !have[f] {
					missing = append(missing, f)
				}
			}
			if len(missing) > 0 {
				msg = "DeepCopy builds the copy field by field and leaves out " + strings.Join(missing, ", ") + ": every attempt of a queue and the spool get the copy – a message quarantined by the pipeline reaches the targets behind a queue unflagged (the remote target relays it, a storage target files it into the inbox)"
			}
		}
	}
	c.Hold(rule, "MsgMetadata.DeepCopy:every-field", r.FI.Decl.Pos(), msg == "", msg)
}

// c07AuthResultsAccumulate: the SPF and DKIM results DMARC evaluates may come from different groups of checks
// (global / source / destination block) and different stages (SPF with enforce_early at the connection stage, DKIM
// at the body stage) – i.e. from different calls of runAndMergeResults. The merged list only ever grows.
func c07AuthResultsAccumulate(c *Check, rule string) {
	c.Rule(rule, "check runner: the merged authentication results only grow – every assignment to the merged result's AuthResult is an append to itself (results of an earlier group or stage are never replaced)", 1)
	p := c.P
	n := 0
	for _, fi := range funcsOfPkgs(p, pipelineRel) {
		info := fi.Info()
		ast.Inspect(fi.Decl.Body, func(x ast.Node) bool {
			as, ok := x.(*ast.AssignStmt)
			if !ok || len(as.Lhs) != len(as.Rhs) {
				return true
			}
			for i, l := range as.Lhs {
				sel, ok := ast.Unparen(l).(*ast.SelectorExpr)
				if !ok || sel.Sel.Name != "AuthResult" || fieldOf(info, sel) == nil {
					continue
				}
				// the merged result: a field of the check runner
				if inner, ok := ast.Unparen(sel.X).(*ast.SelectorExpr); !ok || fieldOf(info, inner) == nil || !strings.Contains(strings.ToLower(inner.Sel.Name), "merged") {
					continue
				}
				n++
				c.SawFunc(fi.Name())
				okApp := false
				if call, ok := ast.Unparen(as.Rhs[i]).(*ast.CallExpr); ok && len(call.Args) >= 2 {
					if id, isID := call.Fun.(*ast.Ident); isID && id.Name == "append" && exprStr(call.Args[0]) == exprStr(l) {
						okApp = true
					}
				}
				c.Hold(rule, fi.Name()+":AuthResult", as.Pos(), okApp, "the merged authentication results are replaced ("+exprStr(as.Rhs[i])+"), not appended to: when SPF and DKIM report in different groups or stages only the later result reaches the DMARC evaluation, which then answers 'none – not enough information' and the published reject / quarantine policy is not applied")
			}
			return true
		})
	}
	if n == 0 {
		c.Fail(rule, "AuthResult:merges", token.NoPos, "undecided: no assignment to the merged authentication results found")
	}
}

// c10EnvelopeReadOnly: the queue stores and replays the envelope it accepted. It never edits it: every store into a
// MsgMetadata inside the queue package goes to a private copy (the result of DeepCopy()).
func c10EnvelopeReadOnly(c *Check, rule string) {
	c.Rule(rule, "queue: the accepted message metadata is read-only – every store into a field of a MsgMetadata inside the queue package targets a private copy (a DeepCopy() result), never the object accepted from the source (REQUIRETLS, SMTPUTF8, the sender as received stay what the client asked for)", 2)
	p := c.P
	n := 0
	for _, fi := range funcsOfPkgs(p, queueRel) {
		info := fi.Info()
		var r *RuleCtx
		inspectNoLit(fi.Decl.Body, func(x ast.Node) bool {
			as, ok := x.(*ast.AssignStmt)
			if !ok {
				return true
			}
			for _, l := range as.Lhs {
				// the chain l = base.F1.F2… with some prefix of type (*)MsgMetadata
				var base ast.Expr
				e := ast.Unparen(l)
				for {
					sel, ok := e.(*ast.SelectorExpr)
					if !ok {
						break
					}
					if fieldOf(info, sel) == nil {
						break
					}
					t := info.TypeOf(sel.X)
					if pt, isP := t.(*types.Pointer); isP {
						t = pt.Elem()
					}
					if tn := namedOf(t); tn != nil && objName(tn.Obj()) == "MsgMetadata" && tn.Obj().Pkg() != nil && strings.HasSuffix(tn.Obj().Pkg().Path(), "/framework/module") {
						base = sel.X
						break
					}
					e = ast.Unparen(sel.X)
				}
				if base == nil {
					continue
				}
				n++
				c.SawFunc(fi.Name())
				if r == nil {
					r = c.CtxOf(fi)
				}
				at, found := r.F.PtOfNode(as)
				fresh := false
				isDeepCopy := func(e ast.Expr) bool {
					call, ok := ast.Unparen(e).(*ast.CallExpr)
					return ok && methodName(call) == "DeepCopy"
				}
				if v, isVar := objOf(info, base).(*types.Var); isVar && !v.IsField() {
					if def, nd := localDef(info, fi.Decl.Body, v); nd == 1 && def != nil && isDeepCopy(def) {
						fresh = true
					}
				} else if found {
					// a field path (metaCopy.MsgMeta): assigned from DeepCopy() on every path to this store
					want := exprStr(base)
					sets := r.Assigns(func(l2, rhs ast.Expr) bool { return exprStr(l2) == want && rhs != nil && isDeepCopy(rhs) })
					if len(sets) > 0 {
						if okMP, _ := r.MustPass(r.Entry(), true, func(q Pt) bool { return q == at }, isPt(sets)); okMP {
							fresh = true
						}
					}
				}
				c.Hold(rule, fi.Name()+":store:"+exprStr(l), as.Pos(), fresh, "the queue writes "+exprStr(l)+" on the metadata object it accepted (not on a private copy): the envelope that is stored, replayed on retries and after a restart, and handed to the target is no longer the one the client gave (a message accepted with REQUIRETLS can leave without it)")
			}
			return true
		})
	}
	if n < 2 {
		c.Fail(rule, "stores", token.NoPos, "undecided: fewer than two stores into message metadata found in the queue package (the Conn strip and the per-attempt ID)")
	}
}

// c11DestKeyIsTakeKey: the destination permit is taken under the recipient domain as connectionForDomain received it
// and released (in remoteDelivery.Close) under mxConn.domain. The two are the same string only if the connection
// object is labelled with that very parameter: the parameter is never assigned on its way into the `domain` field.
func c11DestKeyIsTakeKey(c *Check, rule string) {
	c.Rule(rule, "remote target: the key a destination permit is released under (mxConn.domain) is the string it was taken under – the domain parameter reaches the connection's domain field without being assigned in between (an A-label conversion on the way releases a key that holds no permit)", 2)
	p := c.P
	n := 0
	for _, nm := range []string{"newConn", "connectionForDomain"} {
		fi := p.Func(remoteRel, "remoteDelivery", nm)
		if fi == nil {
			continue
		}
		info := fi.Info()
		sig := fi.Obj.Type().(*types.Signature)
		var dom *types.Var
		for i := 0; i < sig.Params().Len(); i++ {
			if isStringType(sig.Params().At(i).Type()) {
				dom = sig.Params().At(i)
			}
		}
		if dom == nil {
			continue
		}
		c.SawFunc(fi.Name())
		// uses of the parameter as the permit key or as the label of a connection
		uses := 0
		ast.Inspect(fi.Decl.Body, func(x ast.Node) bool {
			switch y := x.(type) {
			case *ast.KeyValueExpr:
				if id, ok := y.Key.(*ast.Ident); ok && id.Name == "domain" && objOf(info, y.Value) == types.Object(dom) {
					uses++
				}
			case *ast.CallExpr:
				if (methodName(y) == "TakeDest" || methodName(y) == "ReleaseDest") && len(y.Args) >= 1 && objOf(info, y.Args[len(y.Args)-1]) == types.Object(dom) {
					uses++
				}
			case *ast.AssignStmt:
				for i, l := range y.Lhs {
					if sel, ok := ast.Unparen(l).(*ast.SelectorExpr); ok && sel.Sel.Name == "domain" && i < len(y.Rhs) && objOf(info, y.Rhs[i]) == types.Object(dom) {
						uses++
					}
				}
			}
			return true
		})
		if uses == 0 {
			continue
		}
		n++
		reassigned := assignedAnywhere(info, fi.Decl.Body, dom)
		c.Hold(rule, nm+":domain-key-unchanged", fi.Decl.Pos(), !reassigned, "the recipient-domain parameter of "+nm+" is assigned a new value inside the function and then used as the connection's label / permit key: the permit was taken under the string the caller passed (U-labels) and is released under the new one (A-labels) – the release finds no such bucket, the permit of an internationalized domain is never returned and after N deliveries the domain is refused for good")
	}
	if n < 2 {
		c.Fail(rule, "domain-key", token.NoPos, "undecided: the take / label sites of the destination permit were not found")
	}
}

// c13RetryKeepsServerName: DANE-TA ("the chain is anchored in this CA") still verifies the certificate for the MX host
// name; verifyDANE takes the name from the connection state. The unauthenticated retry after a PKIX failure must
// therefore keep the ServerName of the first attempt: it modifies the configuration it already has, it does not start
// again from the target's template (whose ServerName is empty).
func c13RetryKeepsServerName(c *Check, rule string) {
	c.Rule(rule, "remoteDelivery.connect: the TLS configuration used for a connection is assigned once, with its ServerName, before the retry label – no path of the retry replaces it (the DANE-TA host-name check needs the name on the insecure retry as well)", 1)
	r := c.need(rule, remoteRel, "remoteDelivery", "connect")
	if r == nil {
		return
	}
	info := r.Info
	// the local holding the *tls.Config
	var cfg types.Object
	ast.Inspect(r.FI.Decl.Body, func(x ast.Node) bool {
		if as, ok := x.(*ast.AssignStmt); ok {
			for i, l := range as.Lhs {
				if sel, ok := ast.Unparen(l).(*ast.SelectorExpr); ok && sel.Sel.Name == "ServerName" && i < len(as.Rhs) {
					if o := objOf(info, sel.X); o != nil {
						cfg = o
					}
				}
			}
		}
		return true
	})
	if cfg == nil {
		c.Fail(rule, "connect:server-name", r.FI.Decl.Pos(), "undecided: no TLS configuration with a ServerName assignment in connect")
		return
	}
	var names, defs []Pt
	for _, pt := range r.F.Points() {
		as, ok := pt.Node().(*ast.AssignStmt)
		if !ok {
			continue
		}
		for _, l := range as.Lhs {
			if sel, ok := ast.Unparen(l).(*ast.SelectorExpr); ok && sel.Sel.Name == "ServerName" && objOf(info, sel.X) == cfg {
				names = append(names, pt)
			}
			if objOf(info, l) == cfg {
				// `cfg = nil` switches TLS off for the plaintext retry (the handshake is guarded by cfg != nil)
				if len(as.Rhs) == len(as.Lhs) {
					isNil := false
					for i2, l2 := range as.Lhs {
						if l2 == l && isNilIdent(info, as.Rhs[i2]) {
							isNil = true
						}
					}
					if isNil {
						continue
					}
				}
				defs = append(defs, pt)
			}
		}
	}
	// a (re)definition of the configuration that can reach a handshake without passing a ServerName assignment
	msg := ""
	shakes := r.F.PtCalls(func(info *types.Info, call *ast.CallExpr) bool {
		if methodName(call) != "Connect" && methodName(call) != "ConnectLMTP" && methodName(call) != "StartTLS" {
			return false
		}
		for _, a := range call.Args {
			if objOf(info, a) == cfg {
				return true
			}
		}
		return false
	})
	for _, d := range defs {
		if path, f := r.F.Reach(Query{From: []Pt{d}, Target: shakes, Avoid: isPt(names)}); f {
			msg = "the TLS configuration is replaced (line " + itoa(c.P.Fset.Position(d.Node().Pos()).Line) + ") and used for a handshake without its ServerName being set again: on the unauthenticated retry the connection state carries no server name, verifyDANE checks the DANE-TA chain for the empty name – a certificate issued by the pinned CA for ANY host authenticates the MX: " + r.F.Describe(path)
		}
	}
	c.Hold(rule, "connect:server-name-kept", r.FI.Decl.Pos(), msg == "" && len(defs) > 0 && len(names) > 0, msg)
}

// c13WholeRRset: "if any TLSA record exists and TLS was not negotiated, the connection is refused" is decided by
// verifyDANE on the RRset as published; it is verifyDANE that sets unusable records aside, after that decision. The
// lookup must hand over every TLSA record of the answer: a filter in the resolver makes an RRset of out-of-range
// records look absent and the message goes out in plain text.
func c13WholeRRset(c *Check, rule string) {
	c.Rule(rule, "AuthLookupTLSA returns every TLSA record of the answer: inside the loop over the answer section nothing but the type assertion skips a record (usability is judged by verifyDANE, after the 'records exist' decision)", 1)
	r := c.need(rule, "framework/dns", "ExtResolver", "AuthLookupTLSA")
	if r == nil {
		return
	}
	info := r.Info
	msg := "undecided: no loop over the answer section that collects TLSA records"
	ast.Inspect(r.FI.Decl.Body, func(x ast.Node) bool {
		rs, ok := x.(*ast.RangeStmt)
		if !ok {
			return true
		}
		var appendPt *ast.AssignStmt
		ast.Inspect(rs.Body, func(y ast.Node) bool {
			if as, ok := y.(*ast.AssignStmt); ok && len(as.Lhs) == 1 && len(as.Rhs) == 1 {
				if o, _ := appendTarget(info, as.Lhs[0], as.Rhs[0]); o != nil {
					appendPt = as
				}
			}
			return true
		})
		if appendPt == nil {
			return true
		}
		msg = ""
		// conditions inside the loop body: only the comma-ok flag of the type assertion may lead to `continue`
		var okObj types.Object
		ast.Inspect(rs.Body, func(y ast.Node) bool {
			if as, ok := y.(*ast.AssignStmt); ok && len(as.Lhs) == 2 && len(as.Rhs) == 1 {
				if _, isTA := ast.Unparen(as.Rhs[0]).(*ast.TypeAssertExpr); isTA {
					okObj = objOf(info, as.Lhs[1])
				}
			}
			return true
		})
		ast.Inspect(rs.Body, func(y ast.Node) bool {
			is, ok := y.(*ast.IfStmt)
			if !ok {
				return true
			}
			skips := false
			ast.Inspect(is.Body, func(z ast.Node) bool {
				if b, ok := z.(*ast.BranchStmt); ok && (b.Tok == token.CONTINUE || b.Tok == token.BREAK) {
					skips = true
				}
				return true
			})
			if !skips {
				return true
			}
			onlyOK := false
			if u, isNot := ast.Unparen(is.Cond).(*ast.UnaryExpr); isNot && u.Op == token.NOT && okObj != nil && objOf(info, u.X) == okObj {
				onlyOK = true
			}
			if !onlyOK {
				msg = "a TLSA record of the answer is skipped by the resolver when `" + exprStr(is.Cond) + "`: an RRset that consists of such records only arrives empty, verifyDANE sees 'no TLSA records' and the message is sent without TLS although records are published (stripping STARTTLS is enough)"
			}
			return true
		})
		return false
	})
	c.Hold(rule, "AuthLookupTLSA:whole-rrset", r.FI.Decl.Pos(), msg == "", msg)
}

// c14SameStatementArgs: a mutable SQL table sets a key by "INSERT, else UPDATE". Both statements are written by the
// administrator against one argument list (key, value – by name or by number): the two Exec calls get the very same
// arguments. A second list in "the order the placeholders are written" binds numbered placeholders ($1 / ?1) the wrong
// way round: the UPDATE matches no row and reports no error – a password change "succeeds" and the old password
// stays valid.
func c14SameStatementArgs(c *Check, rule string) {
	c.Rule(rule, "table.sql_query SetKey: the update statement is executed with the same argument list as the insert statement (one variable, not redefined in between)", 1)
	r := c.need(rule, "internal/table", "SQL", "SetKey")
	if r == nil {
		return
	}
	info := r.Info
	var execs []*ast.CallExpr
	for _, call := range callsIn(r.FI.Decl.Body) {
		if methodName(call) == "Exec" && call.Ellipsis.IsValid() && len(call.Args) == 1 {
			execs = append(execs, call)
		}
	}
	msg := ""
	if len(execs) < 2 {
		msg = "undecided: fewer than two statements executed with a spread argument list"
	} else {
		first := objOf(info, execs[0].Args[0])
		for _, e := range execs[1:] {
			if o := objOf(info, e.Args[0]); o == nil || o != first {
				msg = "the update statement is executed with " + exprStr(e.Args[0]) + ", the insert statement with " + exprStr(execs[0].Args[0]) + ": statements with numbered or named placeholders are written against one argument order – with another one the UPDATE matches no row, SetUserPassword reports success and the previous password keeps authenticating"
			}
		}
		if first != nil && msg == "" {
			// and the list is not redefined between the two executions
			p1, ok1 := r.F.PtOfNode(execs[0])
			if ok1 {
				for _, e := range execs[1:] {
					p2, ok2 := r.F.PtOfNode(e)
					if !ok2 {
						continue
					}
					if _, f := r.F.Reach(Query{From: []Pt{p1}, Target: func(q Pt) bool { return q == p2 }, Avoid: func(q Pt) bool { return q != p1 && q != p2 && q.Node() != nil && assignsObj(info, q.Node(), first) }}); !f {
						msg = "the argument list is redefined between the insert and the update statement"
					}
				}
			}
		}
	}
	c.Hold(rule, "SQL.SetKey:same-arguments", r.FI.Decl.Pos(), msg == "", msg)
}

// c15FileStampIsMTime: table.file reloads its content when the file's modification time is not before the stamp it
// keeps. The stamp must itself be a modification time (of the file that was loaded). The time of the reload is later
// than the mtime of any file that is then moved or copied into place with its times preserved (mv, cp -p, rsync -t,
// configuration management): such a replacement – a revoked entitlement, a removed alias – is ignored until restart.
func c15FileStampIsMTime(c *Check, rule string) {
	c.Rule(rule, "table.file: the stamp the reload decision compares the file's modification time with is a modification time – every store to it comes from a ModTime() call (not the wall clock)", 1)
	p := c.P
	n := 0
	for _, fi := range funcsOfPkgs(p, "internal/table") {
		info := fi.Info()
		ast.Inspect(fi.Decl.Body, func(x ast.Node) bool {
			as, ok := x.(*ast.AssignStmt)
			if !ok || len(as.Lhs) != len(as.Rhs) {
				return true
			}
			for i, l := range as.Lhs {
				if !isField(info, l, "File", "mStamp") {
					continue
				}
				n++
				c.SawFunc(fi.Name())
				call, isCall2 := ast.Unparen(as.Rhs[i]).(*ast.CallExpr)
				ok := isCall2 && methodName(call) == "ModTime"
				c.Hold(rule, fi.Name()+":mStamp", as.Pos(), ok, "the reload stamp of table.file is set to "+exprStr(as.Rhs[i])+", not to the modification time of the file that was read: a replacement file whose own mtime is older than the last reload (moved or copied into place with its times) is never loaded – an entitlement revoked in it stays in force")
			}
			return true
		})
	}
	if n == 0 {
		c.Fail(rule, "mStamp", token.NoPos, "undecided: no store to the reload stamp of table.file found")
	}
}

// c16LimitErrorsKeepIdentity: the endpoint answers a limiter time-out with 451 4.4.5 because it recognises
// context.DeadlineExceeded in the error chain. An error of the limits package that embeds another error with %v / %s
// instead of %w cuts the chain: the time-out becomes "554 5.0.0 Internal server error" while the same value is still
// "temporary or unspecified" for a queue – the two classifications of one failure disagree.
func c16LimitErrorsKeepIdentity(c *Check, rule string) {
	c.Rule(rule, "limits: an error built from another error keeps it in its chain – every fmt.Errorf in internal/limits and internal/limits/limiters with an error-typed argument formats that argument with %w", 0)
	p := c.P
	n := 0
	for _, rel := range []string{"internal/limits", "internal/limits/limiters"} {
		for _, fi := range funcsOfPkgs(p, rel) {
			info := fi.Info()
			for _, call := range callsIn(fi.Decl.Body) {
				if !isCall(info, call, "fmt.Errorf") || len(call.Args) < 2 {
					continue
				}
				format, ok := constString(info, call.Args[0])
				if !ok {
					continue
				}
				// verbs in order
				var verbs []byte
				for i := 0; i+1 < len(format); i++ {
					if format[i] != '%' {
						continue
					}
					j := i + 1
					for j < len(format) && strings.ContainsRune("+-# 0123456789.", rune(format[j])) {
						j++
					}
					if j < len(format) {
						if format[j] != '%' {
							verbs = append(verbs, format[j])
						}
						i = j
					}
				}
				for ai, a := range call.Args[1:] {
					if tv, has := info.Types[a]; !has || !isErrorType(tv.Type) {
						continue
					}
					n++
					c.SawFunc(fi.Name())
					okW := ai < len(verbs) && verbs[ai] == 'w'
					c.Hold(rule, fi.Name()+":Errorf:"+exprStr(a), call.Pos(), okW, "the limits package wraps "+exprStr(a)+" without %w: the endpoint no longer recognises the limiter's time-out (context.DeadlineExceeded) and answers `554 5.0.0 Internal server error` instead of `451 4.4.5`, while a queue treats the same error as temporary")
				}
			}
		}
	}
	if n == 0 {
		c.HoldConst(rule, "limits:no-wrapping", token.NoPos, true, "")
	}
}

// c20LineBreaksAgree: the dispenser decides "same line / next line" for a token by adding the line breaks INSIDE the
// previous (quoted) token to the line the lexer recorded for it. The lexer advances its line counter on '\n' only.
// numLineBreaks must count exactly that: a lone CR counted here but not there moves the expected line of the next
// token, and the directive on the following line is taken for arguments of the current one.
func c20LineBreaksAgree(c *Check, rule string) {
	c.Rule(rule, "Dispenser.numLineBreaks counts exactly the character the lexer advances its line counter on: its result is a single strings.Count of \"\\n\" (no other pattern, no arithmetic)", 1)
	r := c.need(rule, lexerRel, "Dispenser", "numLineBreaks")
	if r == nil {
		return
	}
	info := r.Info
	msg := ""
	n := 0
	for _, call := range callsIn(r.FI.Decl.Body) {
		if !isCall(info, call, "strings.Count", "bytes.Count") || len(call.Args) != 2 {
			continue
		}
		n++
		if pat, ok := constString(info, call.Args[1]); !ok || pat != "\n" {
			msg = "numLineBreaks counts " + exprStr(call.Args[1]) + " as a line break, the lexer advances its line counter on '\\n' only: for a quoted token with such a character the dispenser expects the next token one line further down – the directive that really is on the next line is swallowed as arguments of the current one, and the printed tree does not parse back to the same tree"
		}
	}
	if n != 1 && msg == "" {
		msg = "undecided: numLineBreaks is not a single count of the line feed character"
	}
	c.Hold(rule, "Dispenser.numLineBreaks:agrees-with-lexer", r.FI.Decl.Pos(), msg == "", msg)
}

// c19CloseClosesSocket: the pool closes a connection by calling Close() on it once. go-smtp's Quit closes the socket
// only when the server answered QUIT positively; on every other outcome the socket is still open and Close must close
// it itself. A return on the QUIT-failed edge without cl.Close() leaks the descriptor and the MX session.
func c19CloseClosesSocket(c *Check, rule string) {
	c.Rule(rule, "smtpconn.C.Close: on the edge on which QUIT failed, every return is preceded by (or is) cl.Close() – whatever the error was, 421 included (the pool relies on one Close() to really close)", 1)
	r := c.need(rule, "internal/smtpconn", "C", "Close")
	if r == nil {
		return
	}
	info := r.Info
	quit := calling("github.com/emersion/go-smtp.Client.Quit")
	sites := r.Calls(func(i *types.Info, call *ast.CallExpr) bool { return quit(i, call) || methodName(call) == "Quit" })
	msg := ""
	if len(sites) == 0 {
		msg = "undecided: Close does not send QUIT"
	}
	closesSock := func(n ast.Node) bool {
		hit := false
		if n == nil {
			return false
		}
		inspectNoLit(n, func(x ast.Node) bool {
			if call, ok := x.(*ast.CallExpr); ok && methodName(call) == "Close" && isField(info, callRecv(call), "C", "cl") {
				hit = true
			}
			return true
		})
		return hit
	}
	for _, pt := range sites {
		var call *ast.CallExpr
		for _, cc := range callsAt(pt.Node()) {
			if methodName(cc) == "Quit" {
				call = cc
			}
		}
		openExit := func(q Pt) bool {
			if !r.F.IsNormalExit(q) {
				return false
			}
			_, ret := r.F.Exit(q)
			return ret == nil || !closesSock(ret)
		}
		found, w, decided := r.OnErr(pt, call, false, openExit, func(q Pt) bool { return closesSock(q.Node()) })
		if !decided {
			msg = "undecided: the error of QUIT is not assigned"
		} else if found {
			msg = "Close can return after a failed QUIT without closing the client's socket: go-smtp closes it only after a positive reply – a server that answers QUIT with 421 (shutting down, idle time-out) leaves the descriptor and its own session slot open for every pooled connection: " + w
		}
	}
	c.Hold(rule, "C.Close:socket-closed-on-failed-quit", r.FI.Decl.Pos(), msg == "", msg)
}

// c19StampIsOwnEnd: the idle lifetime of a pooled connection is measured from ITS last use. Each connection's
// lastUseAt is stamped where its own transaction ends – inside the per-connection goroutine of BodyNonAtomic / in
// Body – not after the wait for all connections of the message (the slowest destination's end time would make a
// connection that has been idle for minutes look fresh, and it is handed out past its lifetime).
func c19StampIsOwnEnd(c *Check, rule string) {
	c.Rule(rule, "remote target: a connection's lastUseAt is never stamped after the WaitGroup.Wait that joins the per-connection transactions of a message (each connection is stamped when its own transaction ends)", 1)
	p := c.P
	n := 0
	for _, fi := range funcsOfPkgs(p, remoteRel) {
		info := fi.Info()
		has := false
		ast.Inspect(fi.Decl.Body, func(x ast.Node) bool {
			if sel, ok := x.(*ast.SelectorExpr); ok && sel.Sel.Name == "lastUseAt" {
				has = true
			}
			return !has
		})
		if !has {
			continue
		}
		r := &RuleCtx{C: c, FI: fi, F: p.FlowOfFunc(fi), Info: info}
		for _, pt := range r.F.Points() {
			as, ok := pt.Node().(*ast.AssignStmt)
			if !ok {
				continue
			}
			for _, l := range as.Lhs {
				sel, ok := ast.Unparen(l).(*ast.SelectorExpr)
				if !ok || sel.Sel.Name != "lastUseAt" || fieldOf(info, sel) == nil {
					continue
				}
				n++
				c.SawFunc(fi.Name())
				waits := r.F.PtCalls(func(i *types.Info, call *ast.CallExpr) bool { return isCall(i, call, "sync.WaitGroup.Wait") })
				_, after := r.F.Reach(Query{From: r.Entry(), Inclusive: true, Target: func(q Pt) bool { return q == pt }, Avoid: func(q Pt) bool { return false }})
				passesWait := false
				if after {
					if okMP, _ := r.MustPass(r.Entry(), true, func(q Pt) bool { return q == pt }, waits); okMP && len(r.Calls(func(i *types.Info, call *ast.CallExpr) bool { return isCall(i, call, "sync.WaitGroup.Wait") })) > 0 {
						passesWait = true
					}
				}
				c.Hold(rule, fi.Name()+":lastUseAt", as.Pos(), !passesWait, "lastUseAt is stamped after the wait for ALL connections of the message: a connection whose own transaction ended long before the slowest destination finished enters the pool with a fresh stamp and is handed out although it has been idle for longer than conn_max_idle_time")
			}
		}
	}
	// stamps inside goroutine literals are not points of the enclosing flow: count them as sites
	for _, fi := range funcsOfPkgs(p, remoteRel) {
		info := fi.Info()
		ast.Inspect(fi.Decl.Body, func(x ast.Node) bool {
			if fl, ok := x.(*ast.FuncLit); ok {
				ast.Inspect(fl.Body, func(y ast.Node) bool {
					if as, ok := y.(*ast.AssignStmt); ok {
						for _, l := range as.Lhs {
							if sel, ok := ast.Unparen(l).(*ast.SelectorExpr); ok && sel.Sel.Name == "lastUseAt" && fieldOf(info, sel) != nil {
								n++
							}
						}
					}
					return true
				})
				return false
			}
			return true
		})
	}
	if n == 0 {
		c.Fail(rule, "lastUseAt:stamps", token.NoPos, "undecided: no store to lastUseAt found in the remote target")
	}
}


// c16StatusAsStored: a failure report prints the stored reply of the recipient twice – `Status:` (the enhanced code)
// and `Diagnostic-Code:` (basic code, enhanced code, text). Both come from the same stored value, unmodified: a
// writer that "corrects" the class of one of them makes the two disagree (Status: 5.4.2 next to 451 4.4.2).
func c16StatusAsStored(c *Check, rule string) {
	c.Rule(rule, "dsn.RecipientInfo.WriteTo prints the Status field from the stored status as it is: the three numbers are the elements of the receiver's Status, not of a modified copy", 1)
	r := c.need(rule, "internal/dsn", "RecipientInfo", "WriteTo")
	if r == nil {
		return
	}
	info := r.Info
	var recv types.Object
	if r.FI.Decl.Recv != nil && len(r.FI.Decl.Recv.List) == 1 && len(r.FI.Decl.Recv.List[0].Names) == 1 {
		recv = info.Defs[r.FI.Decl.Recv.List[0].Names[0]]
	}
	msg := "undecided: no Status field written"
	for _, call := range callsIn(r.FI.Decl.Body) {
		if methodName(call) != "Add" || len(call.Args) != 2 {
			continue
		}
		if k, ok := constString(info, call.Args[0]); !ok || k != "Status" {
			continue
		}
		msg = ""
		ast.Inspect(call.Args[1], func(x ast.Node) bool {
			ix, ok := x.(*ast.IndexExpr)
			if !ok {
				return true
			}
			sel, isSel := ast.Unparen(ix.X).(*ast.SelectorExpr)
			if !isSel || sel.Sel.Name != "Status" || recv == nil || objOf(info, sel.X) != recv {
				msg = "the Status field is printed from " + exprStr(ix.X) + ", not from the stored status of the recipient: a class rewritten for the Status line disagrees with the Diagnostic-Code line printed from the stored reply (Status: 5.4.2 / Diagnostic-Code: smtp; 451 4.4.2) and with how the failure was treated"
			}
			return true
		})
	}
	// no store into the receiver's Status either
	ast.Inspect(r.FI.Decl.Body, func(x ast.Node) bool {
		if as, ok := x.(*ast.AssignStmt); ok {
			for _, l := range as.Lhs {
				if ix, ok := ast.Unparen(l).(*ast.IndexExpr); ok {
					if sel, ok := ast.Unparen(ix.X).(*ast.SelectorExpr); ok && sel.Sel.Name == "Status" && recv != nil && objOf(info, sel.X) == recv {
						msg = "the writer modifies the stored status before printing it"
					}
				}
			}
		}
		return true
	})
	c.Hold(rule, "RecipientInfo.WriteTo:status-as-stored", r.FI.Decl.Pos(), msg == "", msg)
}

// c20EnvLast: environment placeholders are substituted in the tree as it will be returned: after the imports of the
// root file were spliced in (snippet bodies and imported files enter the tree there; placeholders in them, or carried
// into them by macros, exist only then). Read applies expandEnvironment to what readTree returned, on every path.
func c20EnvLast(c *Check, rule string) {
	c.Rule(rule, "Read substitutes environment placeholders in the tree readTree returned – after import expansion – on every path to its return (content that enters through `import` carries placeholders too)", 1)
	r := c.need(rule, cfgparserRel, "", "Read")
	if r == nil {
		return
	}
	trees := r.Calls(calling("~/" + cfgparserRel + ".readTree"))
	envs := r.Calls(calling("~/" + cfgparserRel + ".expandEnvironment"))
	msg := ""
	if len(trees) == 0 {
		msg = "undecided: Read does not call readTree"
	} else if len(envs) == 0 {
		msg = "Read returns the tree without substituting environment placeholders after the imports were expanded: `{env:NAME}` inside a snippet or an imported file (or carried there by a macro) reaches the modules as the literal text, and printing and parsing the tree again expands it (the round trip changes the tree)"
	} else if ok, w := r.MustPass(trees, false, r.F.IsNormalExit, isPt(envs)); !ok {
		msg = "a path from readTree to Read's return skips the substitution of environment placeholders: " + w
	}
	c.Hold(rule, "Read:environment-after-imports", r.FI.Decl.Pos(), msg == "", msg)
}
