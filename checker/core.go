package main

import (
	"encoding/json"
	"fmt"
	"go/ast"
	"go/token"
	"go/types"
	"os"
	"path/filepath"
	"sort"
	"strings"
	"time"

	"golang.org/x/tools/go/packages"
)

const modPath = "github.com/foxcpp/maddy"

// Prog is the loaded, type-checked program (current working tree of -repo).
type Prog struct {
	Repo    string
	Tags    string
	Fset    *token.FileSet
	Pkgs    []*packages.Package          // packages of module maddy, sorted by path
	ByPath  map[string]*packages.Package // every package incl. dependencies
	LoadS   float64
	Overlay map[string][]byte // in-memory file replacements (self-test variants only)

	ssa *ssaState // lazily built (ssautil.go)

	declCache map[types.Object]*FuncInfo
	flowCache map[ast.Node]*Flow
	errWrap   map[*types.Func]int
	ren       *renameState

	funcValues  map[types.Object]*types.Func // locals bound once to a function / method value (anchors.go)
	inlineNotes []string // new helper functions read as part of their callers (inline.go)
	inlinedAway map[*types.Func]bool
	newHelpers  map[*types.Func]bool // functions the reference tree did not have (inline.go)
	inlinedN    map[*types.Func]int // number of calls of a new helper that were read in place
	inlinedAt   map[string]bool      // file:line of every call the inliner replaced by the helper's body
	origBody    map[*types.Func]*ast.BlockStmt // bodies as written, of functions that call new helpers
	newCallees  map[*types.Func][]*types.Func  // the new helpers each of them calls
}

// the one package that is allowed to fail to load (cgo header missing in the sandbox)
const pamHelper = modPath + "/cmd/maddy-pam-helper"

func loadProg(repo, tags string, overlay map[string][]byte) (*Prog, []string) {
	t0 := time.Now()
	fset := token.NewFileSet()
	env := append(os.Environ(), "GOFLAGS=-mod=mod", "GOPROXY=off", "GOSUMDB=off", "GOWORK=off", "GOTOOLCHAIN=local")
	cfg := &packages.Config{
		Mode:  packages.LoadAllSyntax | packages.NeedModule,
		Dir:   repo,
		Fset:  fset,
		Env:   env,
		Tests: false,
	}
	if overlay != nil {
		cfg.Overlay = overlay
	}
	if tags != "" {
		cfg.BuildFlags = []string{"-tags=" + tags}
	}
	pkgs, err := packages.Load(cfg, "./...")
	var problems []string
	if err != nil {
		return nil, []string{"load: " + err.Error()}
	}
	p := &Prog{Repo: repo, Tags: tags, Fset: fset, Overlay: overlay, ByPath: map[string]*packages.Package{},
		declCache: map[types.Object]*FuncInfo{}, flowCache: map[ast.Node]*Flow{}}
	packages.Visit(pkgs, nil, func(pk *packages.Package) {
		p.ByPath[pk.PkgPath] = pk
	})
	for _, pk := range pkgs {
		if !strings.HasPrefix(pk.PkgPath, modPath) {
			continue
		}
		if pk.PkgPath == pamHelper {
			// named exception: must not import any maddy package that is an anchor; it imports none of maddy at all
			for imp := range pk.Imports {
				if strings.HasPrefix(imp, modPath) {
					problems = append(problems, "load: "+pamHelper+" imports "+imp+" (exception side-condition void)")
				}
			}
			continue
		}
		for _, e := range pk.Errors {
			problems = append(problems, "load: "+pk.PkgPath+": "+e.Error())
		}
		if pk.Types == nil || pk.TypesInfo == nil || len(pk.Syntax) == 0 {
			problems = append(problems, "load: "+pk.PkgPath+": no syntax/types")
			continue
		}
		for _, f := range pk.GoFiles {
			if !strings.HasPrefix(f, repo+"/") {
				problems = append(problems, "load: "+pk.PkgPath+": file outside repo: "+f)
			}
		}
		p.Pkgs = append(p.Pkgs, pk)
	}
	sort.Slice(p.Pkgs, func(i, j int) bool { return p.Pkgs[i].PkgPath < p.Pkgs[j].PkgPath })
	if len(p.Pkgs) < 70 {
		problems = append(problems, fmt.Sprintf("load: only %d maddy packages loaded (floor 70)", len(p.Pkgs)))
	}
	// errors in dependencies would make type information unreliable
	for path, pk := range p.ByPath {
		if strings.HasPrefix(path, modPath) {
			continue
		}
		for _, e := range pk.Errors {
			problems = append(problems, "load: dependency "+path+": "+e.Error())
		}
	}
	sort.Strings(problems)
	theProg = p
	p.applyRenames()
	p.applyInlining()
	p.LoadS = time.Since(t0).Seconds()
	return p, problems
}

// Pkg returns a maddy package by path relative to the module root ("internal/target/queue").
func (p *Prog) Pkg(rel string) *packages.Package {
	path := modPath
	if rel != "" && rel != "." {
		path = modPath + "/" + rel
	}
	return p.ByPath[path]
}

func (p *Prog) Pos(pos token.Pos) string {
	if !pos.IsValid() {
		return "-"
	}
	ps := p.Fset.Position(pos)
	f := ps.Filename
	if r, err := filepath.Rel(p.Repo, f); err == nil && !strings.HasPrefix(r, "..") {
		f = r
	}
	return fmt.Sprintf("%s:%d", f, ps.Line)
}

// isServerCode reports whether a maddy package is part of the server (not a test double).
func isServerPkg(path string) bool {
	if !strings.HasPrefix(path, modPath) {
		return false
	}
	rel := strings.TrimPrefix(strings.TrimPrefix(path, modPath), "/")
	if rel == "internal/testutils" || strings.HasPrefix(rel, "tests") || strings.HasPrefix(rel, "internal/testutils/") {
		return false
	}
	return true
}

// ---------------------------------------------------------------------------
// obligations

type Ob struct {
	Rule    string `json:"rule"`
	Key     string `json:"key"`
	Pos     string `json:"pos"`
	OK      bool   `json:"ok"`
	Msg     string `json:"msg,omitempty"`
	Path    bool   `json:"-"` // needed a path/provenance argument
	Known   bool   `json:"known_finding,omitempty"`
	posRaw  token.Pos
	Verdict string `json:"verdict"`
}

type RuleInfo struct {
	ID        string `json:"id"`
	Statement string `json:"statement"`
	Floor     int    `json:"floor"`
	Instances int    `json:"instances"`
	Violated  int    `json:"violated"`
}

type Check struct {
	ID    string
	P     *Prog
	Tier  string
	Depth int

	obs      []*Ob
	rules    map[string]*RuleInfo
	order    []string
	funcs    map[string]bool
	paths    int
	sites    int
	excepts  []string
	assume   []string
	explain  string
	notCover string
	selftest map[string]interface{}
}

func newCheck(id string, p *Prog, tier string) *Check {
	d := 3
	if tier == "thorough" {
		d = 6
	}
	theProg = p
	return &Check{ID: id, P: p, Tier: tier, Depth: d, rules: map[string]*RuleInfo{}, funcs: map[string]bool{}}
}

// Rule declares a rule with its statement and instance floor.
func (c *Check) Rule(id, statement string, floor int) {
	if _, ok := c.rules[id]; ok {
		return
	}
	c.rules[id] = &RuleInfo{ID: id, Statement: statement, Floor: floor}
	c.order = append(c.order, id)
}

func (c *Check) ob(rule, key string, pos token.Pos, ok bool, pathArg bool, msg string) *Ob {
	r := c.rules[rule]
	if r == nil {
		panic("undeclared rule " + rule)
	}
	// de-duplicate keys: same rule+key twice gets an ordinal
	full := key
	n := 0
	for _, o := range c.obs {
		if o.Rule == rule && (o.Key == full) {
			n++
			full = fmt.Sprintf("%s#%d", key, n+1)
		}
	}
	o := &Ob{Rule: rule, Key: full, Pos: c.P.Pos(pos), OK: ok, Msg: msg, Path: pathArg, posRaw: pos}
	c.obs = append(c.obs, o)
	r.Instances++
	if !ok {
		r.Violated++
	}
	return o
}

// Hold records a decided obligation.
func (c *Check) Hold(rule, key string, pos token.Pos, ok bool, msg string) bool {
	if ok {
		c.ob(rule, key, pos, true, true, "")
	} else {
		c.ob(rule, key, pos, false, true, msg)
	}
	return ok
}

// HoldConst records an obligation that is decided by a constant comparison / presence only.
func (c *Check) HoldConst(rule, key string, pos token.Pos, ok bool, msg string) bool {
	if ok {
		c.ob(rule, key, pos, true, false, "")
	} else {
		c.ob(rule, key, pos, false, false, msg)
	}
	return ok
}

// Fail records an unconditional violation (unresolved anchor, undecided shape…).
func (c *Check) Fail(rule, key string, pos token.Pos, msg string) {
	c.ob(rule, key, pos, false, false, msg)
}

func (c *Check) Except(s string)  { c.excepts = append(c.excepts, s) }
func (c *Check) Assume(s string)  { c.assume = append(c.assume, s) }
func (c *Check) SawFunc(s string) {
	c.funcs[s] = true
	// names taken from the SSA form ("(*import/path.T).M", "import/path.F") are also recorded in the short form the
	// per-function discipline rules select by ("pkgname.(*T).M")
	if n := c.shortFromSSAName(s); n != "" && n != s {
		c.funcs[n] = true
	}
}

func (c *Check) shortFromSSAName(s string) string {
	if c.P == nil || !strings.Contains(s, "/") {
		return ""
	}
	s = strings.TrimSuffix(s, "$bound")
	if i := strings.Index(s, "$"); i > 0 {
		s = s[:i] // function literals belong to their enclosing function
	}
	recvOpen, ptr, rest := "", "", s
	if strings.HasPrefix(s, "(") {
		j := strings.Index(s, ")")
		if j < 0 {
			return ""
		}
		inner := s[1:j]
		rest = s[j+1:] // ".Method"
		if strings.HasPrefix(inner, "*") {
			ptr = "*"
			inner = inner[1:]
		}
		k := strings.LastIndex(inner, ".")
		if k < 0 {
			return ""
		}
		path, typ := inner[:k], inner[k+1:]
		pk := c.P.ByPath[path]
		if pk == nil || pk.Types == nil {
			return ""
		}
		recvOpen = pk.Types.Name() + ".(" + ptr + typ + ")"
		return recvOpen + rest
	}
	k := strings.LastIndex(rest, ".")
	if k < 0 {
		return ""
	}
	pk := c.P.ByPath[rest[:k]]
	if pk == nil || pk.Types == nil {
		return ""
	}
	return pk.Types.Name() + rest[k:]
}

// ---------------------------------------------------------------------------
// known findings

type Finding struct {
	Property string `json:"property"`
	Key      string `json:"key"` // rule|construct key
	What     string `json:"what"`
	Status   string `json:"status"` // known | fixed
	Commit   string `json:"commit,omitempty"`
}

func loadFindings(path string) ([]Finding, error) {
	b, err := os.ReadFile(path)
	if err != nil {
		return nil, err
	}
	var f struct {
		Findings []Finding `json:"findings"`
	}
	if err := json.Unmarshal(b, &f); err != nil {
		return nil, err
	}
	return f.Findings, nil
}

// ---------------------------------------------------------------------------
// finishing a check: report + evidence

type evidence struct {
	PropertyID  string                 `json:"property_id"`
	Tier        string                 `json:"tier"`
	Seed        int                    `json:"seed"`
	Level       string                 `json:"level"`
	Coverage    map[string]interface{} `json:"coverage"`
	Assumptions []string               `json:"assumptions"`
	WallS       float64                `json:"wall_s"`
	Violations  int                    `json:"violations"`
}

func (c *Check) finish(verifDir string, findings []Finding, seed int, t0 time.Time, loadProblems []string, configs []string, only string) int {
	c.Rule("load", "the whole program (all maddy packages except the named cgo exception) loads and type-checks from the current working tree", 1)
	if len(loadProblems) == 0 {
		c.HoldConst("load", "packages", token.NoPos, true, "")
	}
	for _, lp := range loadProblems {
		c.Fail("load", lp, token.NoPos, lp)
	}
	if c.P != nil && len(c.P.inlineNotes) > 0 {
		n := len(c.P.inlineNotes)
		c.Except(itoa(n) + " call site(s) of functions the reference tree did not have were read as part of their callers (helper inlining, DESIGN.md §R.10); first: " + c.P.inlineNotes[0])
	}
	// anchors that were resolved through the rename index are listed with the exceptions
	if c.P != nil && c.P.ren != nil {
		for _, n := range c.P.ren.notes {
			dup := false
			for _, e := range c.excepts {
				dup = dup || e == n
			}
			if !dup {
				c.Except(n)
			}
		}
	}
	// floors
	c.Rule("floor", "every rule matched at least its confirmed number of instances (a rule matching nothing passes vacuously)", 0)
	for _, id := range c.order {
		r := c.rules[id]
		if id == "floor" || id == "load" {
			continue
		}
		if r.Instances < r.Floor {
			c.Fail("floor", id, token.NoPos, fmt.Sprintf("rule %s matched %d instances, floor is %d", id, r.Instances, r.Floor))
		} else {
			c.HoldConst("floor", id, token.NoPos, true, "")
		}
	}

	known := map[string]*Finding{}
	for i := range findings {
		f := &findings[i]
		if f.Property == c.ID && f.Status == "known" {
			known[f.Key] = f
		}
	}
	sort.SliceStable(c.obs, func(i, j int) bool {
		a, b := c.obs[i], c.obs[j]
		if a.Rule != b.Rule {
			return a.Rule < b.Rule
		}
		pa, pb := c.P.Fset.Position(a.posRaw), c.P.Fset.Position(b.posRaw)
		if pa.Filename != pb.Filename {
			return pa.Filename < pb.Filename
		}
		if pa.Line != pb.Line {
			return pa.Line < pb.Line
		}
		return a.Key < b.Key
	})
	nviol, nknown, ndis, npath := 0, 0, 0, 0
	var report []string
	var samples []interface{}
	perRuleSample := map[string]int{}
	for _, o := range c.obs {
		if only != "" && o.Rule+"|"+o.Key != only {
			continue
		}
		if o.Path {
			npath++
		}
		switch {
		case o.OK:
			o.Verdict = "holds"
			ndis++
		case known[o.Rule+"|"+o.Key] != nil:
			o.Verdict = "known-finding"
			o.Known = true
			nknown++
			f := known[o.Rule+"|"+o.Key]
			fmt.Printf("%s: %s.%s %s: %s\n", o.Pos, c.ID, o.Rule, o.Key, o.Msg)
			fmt.Printf("KNOWN-FINDING: property=%s key=%s|%s %s\n", c.ID, o.Rule, o.Key, f.What)
		default:
			o.Verdict = "VIOLATED"
			nviol++
			line := fmt.Sprintf("%s: %s.%s %s: %s", o.Pos, c.ID, o.Rule, o.Key, o.Msg)
			fmt.Println(line)
			report = append(report, line)
		}
		if !o.OK || perRuleSample[o.Rule] < 3 {
			if len(samples) < 120 {
				samples = append(samples, o)
			}
			perRuleSample[o.Rule]++
		}
	}
	// known findings that no longer fire are reported informally (not an error)
	for k, f := range known {
		hit := false
		for _, o := range c.obs {
			if o.Rule+"|"+o.Key == k && !o.OK {
				hit = true
			}
		}
		if !hit && only == "" {
			fmt.Printf("note: known finding %s (%s) did not fire on this tree\n", k, f.What)
		}
	}

	evDir := filepath.Join(verifDir, "evidence")
	if len(c.ID) != 3 || c.ID[0] != 'C' {
		evDir = os.TempDir() // debug pseudo-properties (DUMP, ANCHORS, …) leave nothing in the evidence directory
	}
	os.MkdirAll(evDir, 0o755)
	repPath := filepath.Join(evDir, c.ID+".report.txt")
	if nviol > 0 {
		os.WriteFile(repPath, []byte(strings.Join(report, "\n")+"\n"), 0o644)
		fmt.Printf("VIOLATION property=%s replay=%s\n", c.ID, repPath)
	} else {
		os.Remove(repPath)
	}

	var rules []*RuleInfo
	for _, id := range c.order {
		rules = append(rules, c.rules[id])
	}
	fl := make([]string, 0, len(c.funcs))
	for f := range c.funcs {
		fl = append(fl, f)
	}
	sort.Strings(fl)
	if len(fl) > 60 {
		fl = append(fl[:60], fmt.Sprintf("… %d more", len(c.funcs)-60))
	}
	total := len(c.obs)
	cov := map[string]interface{}{
		"explanation": c.explain + " DOES NOT COVER: " + c.notCover +
			" Every obligation is one construct of the current source tree (call site, literal, CFG exit, field, loop, SCC) decided by a named rule; " +
			"a shape the engine does not recognise is reported as violated (undecided), never assumed safe.",
		"packages":            len(c.P.Pkgs),
		"build_configs":       configs,
		"functions_analysed":  len(c.funcs),
		"functions":           fl,
		"cfg_paths_queries":   c.paths,
		"call_sites":          c.sites,
		"obligations":         total,
		"discharged":          ndis,
		"violated":            nviol,
		"known_findings":      nknown,
		"evaluations":         total,
		"distinct_nontrivial": npath,
		"rule":                "one obligation per construct the rules instantiate on; non-trivial = the decision needed a control-flow path, dominance, provenance or type-graph argument rather than a constant comparison; keys are rule+function+construct so they are distinct",
		"rules":               rules,
		"samples":             samples,
		"exceptions_applied":  c.excepts,
		"checker_cmd":         "bin/maddyverif -repo /repo -property " + c.ID + " -tier " + c.Tier,
		"exhaustive":          false,
	}
	if c.selftest != nil {
		cov["selftest"] = c.selftest
	}
	ev := evidence{PropertyID: c.ID, Tier: c.Tier, Seed: seed, Level: "other", Coverage: cov,
		Assumptions: append([]string{
			"Go type checker, go/cfg, go/ssa and the VTA call graph of golang.org/x/tools v0.29.0 are correct",
			"no execution: verdicts are necessary structural conditions of the property, not the behaviour itself",
		}, c.assume...),
		WallS: time.Since(t0).Seconds(), Violations: nviol}
	b, _ := json.MarshalIndent(ev, "", " ")
	if only == "" {
		if err := os.WriteFile(filepath.Join(evDir, c.ID+".json"), b, 0o644); err != nil {
			fmt.Println("cannot write evidence:", err)
			return 1
		}
	}
	fmt.Printf("%s %s: %d obligations, %d hold, %d known findings, %d violations (%d rules, %d functions) in %.1fs\n",
		c.ID, c.Tier, total, ndis, nknown, nviol, len(c.order), len(c.funcs), time.Since(t0).Seconds())
	if nviol > 0 {
		return 1
	}
	return 0
}

// violatedKeys returns rule|key of the obligations that do not hold (used by the self-test).
func (c *Check) violatedKeys() map[string]bool {
	out := map[string]bool{}
	for _, o := range c.obs {
		if !o.OK {
			out[o.Rule+"|"+o.Key] = true
		}
	}
	return out
}
