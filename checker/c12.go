package main

import (
	"go/ast"
	"go/token"
	"go/types"
)

func init() { register("C12", checkC12) }

// chanOps classifies channel operations at a node.
type chanOp struct {
	kind   string // send | recv | close | make
	field  *types.Var
	pos    token.Pos
	node   ast.Node
	capArg ast.Expr
}

func chanOpsIn(info *types.Info, n ast.Node, intoLits bool) []chanOp {
	var out []chanOp
	walk := inspectNoLit
	if intoLits {
		walk = func(n ast.Node, f func(ast.Node) bool) {
			ast.Inspect(n, func(x ast.Node) bool { return x == nil || f(x) })
		}
	}
	walk(n, func(x ast.Node) bool {
		switch s := x.(type) {
		case *ast.SendStmt:
			out = append(out, chanOp{"send", fieldOf(info, s.Chan), s.Pos(), s, nil})
		case *ast.UnaryExpr:
			if s.Op == token.ARROW {
				out = append(out, chanOp{"recv", fieldOf(info, s.X), s.Pos(), s, nil})
			}
		case *ast.CallExpr:
			if id, ok := s.Fun.(*ast.Ident); ok {
				if b, ok := info.Uses[id].(*types.Builtin); ok && objName(b) == "close" && len(s.Args) == 1 {
					out = append(out, chanOp{"close", fieldOf(info, s.Args[0]), s.Pos(), s, nil})
				}
			}
		case *ast.RangeStmt:
			if _, ok := info.TypeOf(s.X).Underlying().(*types.Chan); ok {
				out = append(out, chanOp{"recv", fieldOf(info, s.X), s.Pos(), s, nil})
			}
		}
		return true
	})
	return out
}

func checkC12(c *Check) {
	p := c.P
	c.explain = "C12 (queue scheduler), discipline part: the shapes that make 'dispatched exactly once, not before its time' and 'shutdown never crashes or loses a message' possible are checked structurally: " +
		"sends on a channel that is closed somewhere are synchronised with that close; request/acknowledge channels are unbuffered; the dispatch callback has one call site (timer branch, after removing that very entry under the lock) and one scheduler goroutine; " +
		"every access to the slot list holds the lock; the synchronous part of the queue's dispatch callback never blocks; the queue closes the wheel before waiting for attempts; the panic handler only renames."
	c.notCover = "the interleaving space itself (no schedule exploration): a race without one of these structural footprints is not seen."

	c.Rule("L1", "scheduler locks: every mutex the package's functions take is released on every path to a return, and nothing unlocks a mutex it does not hold (immediate or deferred; function literals separately)", 2)
	lockBalance(c, "L1", []string{queueRel}, nil)

	qpk := p.Pkg(queueRel)
	if qpk == nil {
		c.Rule("R1", "send vs close", 1)
		c.Fail("R1", "package", token.NoPos, "anchor unresolved")
		return
	}
	info := qpk.TypesInfo
	var twType *types.Named
	if o := qpk.Types.Scope().Lookup("TimeWheel"); o != nil {
		twType, _ = o.Type().(*types.Named)
	}
	if twType == nil {
		c.Rule("R1", "send vs close", 1)
		c.Fail("R1", "TimeWheel", token.NoPos, "anchor unresolved")
		return
	}
	var twFuncs []*FuncInfo
	p.AllFuncs([]*packagesPkg{qpk}, func(fi *FuncInfo) {
		sig := fi.Obj.Type().(*types.Signature)
		if sig.Recv() != nil && namedOf(sig.Recv().Type()) == twType || refName(fi.Obj) == "NewTimeWheel" {
			twFuncs = append(twFuncs, fi)
			c.SawFunc(fi.Name())
		}
	})

	// ---- R1 send vs close on every channel field of the wheel
	c.Rule("R1", "every send on a channel that has a close() site is synchronised with that close (common mutex, or the channel is never closed and the send has a shutdown alternative)", 1)
	type site struct {
		fi *FuncInfo
		op chanOp
	}
	ops := map[*types.Var][]site{}
	for _, fi := range twFuncs {
		for _, op := range chanOpsIn(info, fi.Decl.Body, true) {
			if op.field != nil {
				ops[op.field] = append(ops[op.field], site{fi, op})
			}
		}
	}
	nChecked := 0
	for field, ss := range ops {
		var closes, sends []site
		for _, s := range ss {
			switch s.op.kind {
			case "close":
				closes = append(closes, s)
			case "send":
				sends = append(sends, s)
			}
		}
		if len(closes) == 0 {
			continue
		}
		for _, s := range sends {
			nChecked++
			key := s.fi.Name() + ":send:" + field.Name()
			// (a) common mutex: the send and every close are inside a region locked by the same mutex field
			held := locksHeldAt(p, s.fi, s.op.pos)
			common := false
			for m := range held {
				all := true
				for _, cl := range closes {
					if !locksHeldAt(p, cl.fi, cl.op.pos)[m] {
						all = false
					}
				}
				if all {
					common = true
				}
			}
			// (b) same function as the only close, sequenced before it
			same := len(closes) == 1 && closes[0].fi == s.fi
			c.Hold("R1", key, s.op.pos, common || same, "send on channel "+field.Name()+" is not synchronised with close("+field.Name()+") in "+closes[0].fi.Name()+
				": a sender that passed the stopped-flag test can send on the closed channel (panic in a delivery goroutine → the message is marked broken) or block forever")
		}
	}
	if nChecked == 0 {
		c.HoldConst("R1", "timewheel:no-closed-channel-is-sent-on", token.NoPos, true, "")
	}

	// ---- R1b: request/ack channels are unbuffered
	c.Rule("R1b", "a channel used for a request/acknowledge handshake (one goroutine sends and then receives on it) is unbuffered", 1)
	handshake := map[*types.Var]bool{}
	for _, fi := range twFuncs {
		var seq []chanOp
		for _, op := range chanOpsIn(info, fi.Decl.Body, false) {
			if op.field != nil {
				seq = append(seq, op)
			}
		}
		for i := 0; i+1 < len(seq); i++ {
			if seq[i].kind == "send" && seq[i+1].kind == "recv" && seq[i].field == seq[i+1].field {
				handshake[seq[i].field] = true
			}
		}
	}
	for field := range handshake {
		// every make() stored into the field must be unbuffered
		okU, n := true, 0
		var pos token.Pos
		for _, fi := range twFuncs {
			ast.Inspect(fi.Decl.Body, func(x ast.Node) bool {
				var mk *ast.CallExpr
				switch s := x.(type) {
				case *ast.KeyValueExpr:
					if id, ok := s.Key.(*ast.Ident); ok && info.Uses[id] == types.Object(field) {
						mk, _ = ast.Unparen(s.Value).(*ast.CallExpr)
					}
				case *ast.AssignStmt:
					for i, l := range s.Lhs {
						if fieldOf(info, l) == field && i < len(s.Rhs) {
							mk, _ = ast.Unparen(s.Rhs[i]).(*ast.CallExpr)
						}
					}
				}
				if mk != nil {
					if id, ok := mk.Fun.(*ast.Ident); ok && id.Name == "make" {
						n++
						pos = mk.Pos()
						if len(mk.Args) >= 2 {
							if tv, ok := info.Types[mk.Args[1]]; !ok || tv.Value == nil || tv.Value.String() != "0" {
								okU = false
							}
						}
					}
				}
				return true
			})
		}
		c.Hold("R1b", "timewheel:handshake:"+field.Name(), pos, okU && n > 0, "the request/acknowledge channel "+field.Name()+" is buffered: the requester can read back its own token, Close returns while the scheduler goroutine is still running and dispatching")
	}

	// ---- R2 single dispatcher
	c.Rule("R2", "the dispatch callback has exactly one call site: in the scheduler loop, on the timer branch, after removing that same entry from the list; the scheduler goroutine is started exactly once", 4)
	var dispatchField, slotsField, lockField *types.Var
	if st, ok := twType.Underlying().(*types.Struct); ok {
		for i := 0; i < st.NumFields(); i++ {
			f := st.Field(i)
			switch {
			case objName(f) == "dispatch":
				dispatchField = f
			case typeIs(f.Type(), "container/list", "List"):
				slotsField = f
			case typeIs(f.Type(), "sync", "Mutex") || typeIs(f.Type(), "sync", "RWMutex"):
				lockField = f
			}
		}
	}
	if dispatchField == nil || slotsField == nil || lockField == nil {
		c.Fail("R2", "TimeWheel:fields", token.NoPos, "undecided: expected a dispatch callback, a list and a mutex field")
		return
	}
	type callSite struct {
		fi   *FuncInfo
		call *ast.CallExpr
	}
	var dcalls, removes, gos []callSite
	for _, fi := range twFuncs {
		ast.Inspect(fi.Decl.Body, func(x ast.Node) bool {
			switch s := x.(type) {
			case *ast.CallExpr:
				if fieldOf(info, s.Fun) == dispatchField {
					dcalls = append(dcalls, callSite{fi, s})
				}
				if isCall(info, s, "container/list.List.Remove") && fieldOf(info, callRecv(s)) == slotsField {
					removes = append(removes, callSite{fi, s})
				}
			case *ast.GoStmt:
				gos = append(gos, callSite{fi, s.Call})
			}
			return true
		})
	}
	okOne := len(dcalls) == 1 && len(removes) == 1 && dcalls[0].fi == removes[0].fi
	c.Hold("R2", "timewheel:one-dispatch-site", token.NoPos, okOne, "expected exactly one call of the dispatch callback and one removal from the slot list, in the same function (found "+itoa(len(dcalls))+" / "+itoa(len(removes))+"): an entry could be dispatched twice or never")
	if okOne {
		fi := dcalls[0].fi
		r := &RuleCtx{C: c, FI: fi, F: p.FlowOfFunc(fi), Info: info}
		dpt, _ := r.F.PtOf(dcalls[0].call.Pos())
		rpt, _ := r.F.PtOf(removes[0].call.Pos())
		// removal dominates dispatch
		ok, w := r.MustPass(r.Entry(), true, isPt([]Pt{dpt}), isPt([]Pt{rpt}))
		c.Hold("R2", "timewheel:remove-before-dispatch", dcalls[0].call.Pos(), ok, "the entry is dispatched without having been removed from the list first (it would be dispatched again): "+w)
		// the dispatched slot and the removed element are selected together
		okPair := false
		if len(dcalls[0].call.Args) == 1 && len(removes[0].call.Args) == 1 {
			so, eo := objOf(info, dcalls[0].call.Args[0]), objOf(info, removes[0].call.Args[0])
			// both assigned in the same block statement
			ast.Inspect(fi.Decl.Body, func(x ast.Node) bool {
				if bs, ok := x.(*ast.BlockStmt); ok {
					a, b := false, false
					for _, st := range bs.List {
						if nodeAssigns(st, func(l, _ ast.Expr) bool { return objOf(info, l) == so }) {
							a = true
						}
						if nodeAssigns(st, func(l, _ ast.Expr) bool { return objOf(info, l) == eo }) {
							b = true
						}
					}
					if a && b && so != nil && eo != nil {
						okPair = true
					}
				}
				return true
			})
		}
		c.Hold("R2", "timewheel:dispatches-the-removed-entry", dcalls[0].call.Pos(), okPair, "the dispatched value and the removed list element are not selected together")
		// on the timer branch: the dispatch is inside a CommClause receiving from a time.Timer's channel whose duration is <slot>.Time.Sub(now)
		okTimer := false
		ast.Inspect(fi.Decl.Body, func(x ast.Node) bool {
			cc, ok := x.(*ast.CommClause)
			if !ok || cc.Comm == nil || !posIn(cc, dcalls[0].call.Pos()) {
				return true
			}
			var rx ast.Expr
			switch s := cc.Comm.(type) {
			case *ast.ExprStmt:
				if u, ok := ast.Unparen(s.X).(*ast.UnaryExpr); ok && u.Op == token.ARROW {
					rx = u.X
				}
			case *ast.AssignStmt:
				if u, ok := ast.Unparen(s.Rhs[0]).(*ast.UnaryExpr); ok && u.Op == token.ARROW {
					rx = u.X
				}
			}
			if sel, ok := ast.Unparen(rx).(*ast.SelectorExpr); ok && sel.Sel.Name == "C" {
				if to := objOf(info, sel.X); to != nil {
					def, n := localDef(info, fi.Decl.Body, to)
					if call, ok := ast.Unparen(def).(*ast.CallExpr); ok && n == 1 && isCall(info, call, "time.NewTimer") && len(call.Args) == 1 {
						// duration: X.Time.Sub(now) with X the dispatched slot
						if sub, ok := ast.Unparen(resolveLocal(info, fi.Decl.Body, call.Args[0])).(*ast.CallExpr); ok && isCall(info, sub, "time.Time.Sub") {
							if len(dcalls[0].call.Args) == 1 && mentions(info, callRecv(sub), objOf(info, dcalls[0].call.Args[0])) {
								okTimer = true
							}
						}
					}
				}
			}
			return true
		})
		c.Hold("R2", "timewheel:dispatch-on-timer-expiry", dcalls[0].call.Pos(), okTimer, "the dispatch is not on the branch of a timer armed with the selected entry's remaining time (an entry could be dispatched before its scheduled time)")
		// the entry that will be dispatched is chosen only by the scan over the whole list (the earliest of all entries),
		// and the timer is never re-armed with another entry's time: an entry picked by position (`Back()` – Add's
		// append and its notification are not atomic, another producer's later entry may be the last one) under a timer
		// set for the notified time is dispatched before it is due
		if len(dcalls[0].call.Args) == 1 {
			so := objOf(info, dcalls[0].call.Args[0])
			msgSel := ""
			var scanLoops []*ast.ForStmt
			ast.Inspect(fi.Decl.Body, func(x ast.Node) bool {
				if fs, ok := x.(*ast.ForStmt); ok && fs.Init != nil {
					front := false
					ast.Inspect(fs.Init, func(y ast.Node) bool {
						if call, ok := y.(*ast.CallExpr); ok && isCall(info, call, "container/list.List.Front") {
							front = true
						}
						return true
					})
					if front {
						scanLoops = append(scanLoops, fs)
					}
				}
				return true
			})
			ast.Inspect(fi.Decl.Body, func(x ast.Node) bool {
				as, ok := x.(*ast.AssignStmt)
				if !ok {
					return true
				}
				for _, l := range as.Lhs {
					if so == nil || objOf(info, l) != so {
						continue
					}
					inScan := false
					for _, fs := range scanLoops {
						if posIn(fs.Body, as.Pos()) {
							inScan = true
						}
					}
					if !inScan {
						msgSel = "line " + itoa(p.Fset.Position(as.Pos()).Line) + ": the entry to dispatch is chosen outside the scan over the whole list (" + exprStr(as.Rhs[0]) + "): it need not be the earliest one, nor the one the timer was armed for"
					}
				}
				return true
			})
			ast.Inspect(fi.Decl.Body, func(x ast.Node) bool {
				call, ok := x.(*ast.CallExpr)
				if !ok || !isCall(info, call, "time.Timer.Reset", "time.AfterFunc", "time.After") || len(call.Args) < 1 {
					return true
				}
				d := resolveLocal(info, fi.Decl.Body, call.Args[0])
				okD := false
				if sub, ok := ast.Unparen(d).(*ast.CallExpr); ok && (isCall(info, sub, "time.Time.Sub") && mentions(info, callRecv(sub), so) || isCall(info, sub, "time.Until") && len(sub.Args) == 1 && mentions(info, sub.Args[0], so)) {
					okD = true
				}
				if !okD {
					msgSel = "line " + itoa(p.Fset.Position(call.Pos()).Line) + ": a timer is armed with " + exprStr(call.Args[0]) + ", which is not the remaining time of the entry that will be dispatched when it fires"
				}
				return true
			})
			if len(scanLoops) == 0 {
				msgSel = "undecided: no scan over the slot list found"
			}
			c.Hold("R2", "timewheel:entry-chosen-by-scan", dcalls[0].call.Pos(), msgSel == "", msgSel)
		}
	}
	nTick := 0
	for _, g := range gos {
		if fn := callee(info, g.call); fn != nil && okOne && fn == dcalls[0].fi.Obj {
			nTick++
			if refName(g.fi.Obj) != "NewTimeWheel" {
				nTick += 10
			}
		}
	}
	c.Hold("R2", "timewheel:one-scheduler-goroutine", token.NoPos, nTick == 1, "the scheduler loop is not started exactly once, in the constructor (two schedulers would each dispatch)")

	// ---- R3 lock discipline
	c.Rule("R3", "every access to the slot list holds the list's mutex", 3)
	for _, fi := range twFuncs {
		if refName(fi.Obj) == "NewTimeWheel" {
			continue
		}
		ast.Inspect(fi.Decl.Body, func(x ast.Node) bool {
			sel, ok := x.(*ast.SelectorExpr)
			if !ok || fieldOf(info, sel) != slotsField {
				return true
			}
			held := locksHeldAt(p, fi, sel.Pos())
			c.Hold("R3", fi.Name()+":slots", sel.Pos(), held[lockField], "the slot list is accessed without holding "+lockField.Name())
			return true
		})
	}

	// ---- R4 / R5 / R6 on the queue side
	c.Rule("R4", "Queue.Close stops the wheel before waiting for in-flight attempts; attempts are only registered from the dispatch callback", 2)
	if r := c.need("R4", queueRel, "Queue", "Close"); r != nil {
		wc := r.Calls(calling("~/" + queueRel + ".TimeWheel.Close"))
		ww := r.Calls(calling("sync.WaitGroup.Wait"))
		ok := len(wc) > 0 && len(ww) > 0
		if ok {
			ok, _ = r.MustPass(r.Entry(), true, isPt(ww), isPt(wc))
		}
		c.Hold("R4", "Queue.Close:order", r.FI.Decl.Pos(), ok, "the queue waits for in-flight attempts before the scheduler is stopped (an attempt can be registered after Wait began)")
	}
	addSites := 0
	okAdd := true
	p.AllFuncs([]*packagesPkg{qpk}, func(fi *FuncInfo) {
		ast.Inspect(fi.Decl.Body, func(x ast.Node) bool {
			if call, ok := x.(*ast.CallExpr); ok && isCall(info, call, "sync.WaitGroup.Add") && isField(info, callRecv(call), "Queue", "deliveryWg") {
				addSites++
				if refName(fi.Obj) != "dispatch" {
					okAdd = false
				}
				// must be in the synchronous part (not inside the goroutine literal)
				inLit := false
				ast.Inspect(fi.Decl.Body, func(y ast.Node) bool {
					if fl, ok := y.(*ast.FuncLit); ok && posIn(fl, call.Pos()) {
						inLit = true
					}
					return true
				})
				if inLit {
					okAdd = false
				}
			}
			return true
		})
	})
	c.Hold("R4", "Queue.deliveryWg.Add", token.NoPos, okAdd && addSites == 1, "in-flight attempts are registered outside the synchronous part of the dispatch callback (Wait can miss them)")

	// R4b: who reads the shutdown flag. Close stops the scheduler first and then waits for the attempts in flight; an
	// attempt that ends in a permanent failure during that wait enqueues its failure report through Queue.Start /
	// Body / Commit and removes the original. The accept path therefore keeps spooling while the queue shuts down
	// (the next start picks the report up); if it looked at the scheduler's stopped flag and refused, the report
	// would be dropped and the original removed – a message gone without a terminal outcome.
	c.Rule("R4b", "the scheduler's stopped flag is read and written only by the scheduler's own methods: the queue's accept path (Start, AddRcpt, Body, Commit) does not depend on it and keeps spooling during shutdown", 2)
	nStopped := 0
	p.AllFuncs([]*packagesPkg{qpk}, func(fi *FuncInfo) {
		fi2 := fi
		ast.Inspect(fi.Decl.Body, func(x ast.Node) bool {
			sel, ok := x.(*ast.SelectorExpr)
			if !ok {
				return true
			}
			fv := fieldOf(info, sel)
			if fv == nil || objName(fv) != "stopped" {
				return true
			}
			if owner := fieldOwner(p, fv); owner == nil || objName(owner.Obj()) != "TimeWheel" {
				return true
			}
			nStopped++
			c.SawFunc(fi2.Name())
			okSite := recvTypeName(fi2.Decl) == "TimeWheel" || refName(fi2.Obj) == "NewTimeWheel"
			c.Hold("R4b", refName(fi2.Obj)+":stopped"+itoa(nStopped), sel.Pos(), okSite, "the scheduler's shutdown flag is consulted outside the scheduler ("+fi2.Name()+"): a part of the queue that refuses work while the wheel is stopped drops what an in-flight attempt hands it during Close – e.g. the failure report of a message that is then removed from the spool")
			return true
		})
	})
	if nStopped == 0 {
		c.Fail("R4b", "TimeWheel.stopped", token.NoPos, "undecided: the shutdown flag of the scheduler was not found")
	}

	// R7b: the wake-up carries the new entry's time and the scheduler decides by that value whether to rescan. A wake-up
	// that can be dropped (a `default` branch next to the send, a buffered channel that coalesces) may be the one for the
	// earliest entry: it then waits for an unrelated event – a freshly committed message is not attempted for hours.
	c.Rule("R7b", "TimeWheel.Add: the notification of the scheduler cannot be dropped – the channel is unbuffered and the select that sends on it has no default branch (its only alternative is shutdown)", 2)
	if r := c.need("R7b", queueRel, "TimeWheel", "Add"); r != nil {
		var notify *types.Var
		msg := "undecided: Add does not send a notification"
		ast.Inspect(r.FI.Decl.Body, func(x ast.Node) bool {
			sel, ok := x.(*ast.SelectStmt)
			if !ok {
				return true
			}
			hasSend, hasDefault := false, false
			for _, cl := range sel.Body.List {
				cc := cl.(*ast.CommClause)
				if cc.Comm == nil {
					hasDefault = true
				}
				if ss, isSend := cc.Comm.(*ast.SendStmt); isSend {
					if fv := fieldOf(info, ss.Chan); fv != nil {
						notify = fv
						hasSend = true
					}
				}
			}
			if hasSend {
				msg = ""
				if hasDefault {
					msg = "the select that notifies the scheduler has a default branch: when the scheduler is busy the wake-up for this entry is dropped – if it is the earliest entry it waits for the next unrelated event"
				}
			}
			return true
		})
		if notify == nil {
			// a plain send
			ast.Inspect(r.FI.Decl.Body, func(x ast.Node) bool {
				if ss, ok := x.(*ast.SendStmt); ok {
					if fv := fieldOf(info, ss.Chan); fv != nil {
						notify = fv
						msg = ""
					}
				}
				return true
			})
		}
		c.Hold("R7b", "TimeWheel.Add:notification-not-dropped", r.FI.Decl.Pos(), msg == "", msg)
		if notify != nil {
			bad := ""
			p.AllFuncs([]*packagesPkg{qpk}, func(fi *FuncInfo) {
				ast.Inspect(fi.Decl.Body, func(x ast.Node) bool {
					var val ast.Expr
					switch s := x.(type) {
					case *ast.KeyValueExpr:
						if id, ok := s.Key.(*ast.Ident); ok && info.Uses[id] == notify {
							val = s.Value
						}
					case *ast.AssignStmt:
						for i, l := range s.Lhs {
							if fieldOf(info, l) == notify && i < len(s.Rhs) {
								val = s.Rhs[i]
							}
						}
					}
					if mk, ok := ast.Unparen(val).(*ast.CallExpr); val != nil && ok {
						if id, isID := mk.Fun.(*ast.Ident); isID && id.Name == "make" && len(mk.Args) >= 2 {
							if tv, has := info.Types[mk.Args[1]]; !has || tv.Value == nil || tv.Value.String() != "0" {
								bad = "the notification channel is buffered (" + exprStr(mk) + "): wake-ups coalesce, the value that survives need not be the earliest entry's time"
							}
						}
					}
					return true
				})
			})
			c.Hold("R7b", "TimeWheel."+objName(notify)+":unbuffered", r.FI.Decl.Pos(), bad == "", bad)
		}
	}

	// R10: after a restart every stored message is put back on the wheel, at a time computed from ITS OWN record. The
	// time handed to wheel.Add for a loaded record depends only on values that are (re)computed for that record inside
	// the loop over the spool – nothing declared outside the loop (a minimum carried over from the previous record makes
	// a message with four failed attempts retry at the pace of a fresh one, burning max_tries ahead of its schedule).
	c.Rule("R10", "recovery: every loaded record is re-scheduled (wheel.Add inside the loop over the spool), and the time it is scheduled for depends only on that record – every variable it is computed from is declared inside the loop or is configuration", 1)
	if r := c.need("R10", queueRel, "Queue", "readDiskQueue"); r != nil {
		msg := "undecided: no re-scheduling of loaded records found"
		ast.Inspect(r.FI.Decl.Body, func(x ast.Node) bool {
			// the loop over the spool, in whatever form (range, index loop)
			var rs ast.Stmt
			var rsBody *ast.BlockStmt
			switch l := x.(type) {
			case *ast.RangeStmt:
				rs, rsBody = l, l.Body
			case *ast.ForStmt:
				rs, rsBody = l, l.Body
			default:
				return true
			}
			for _, call := range callsIn(rsBody) {
				if !isCall(info, call, "~/"+queueRel+".TimeWheel.Add") || len(call.Args) < 1 {
					continue
				}
				msg = ""
				// backward closure of the time argument over the assignments in the loop body
				deps := map[types.Object]bool{}
				var work []types.Object
				addIdents := func(e ast.Node) {
					ast.Inspect(e, func(y ast.Node) bool {
						if id, ok := y.(*ast.Ident); ok {
							if v, isVar := info.Uses[id].(*types.Var); isVar && !v.IsField() && !deps[v] {
								deps[v] = true
								work = append(work, v)
							}
						}
						return true
					})
				}
				addIdents(call.Args[0])
				for len(work) > 0 {
					v := work[0]
					work = work[1:]
					ast.Inspect(rsBody, func(y ast.Node) bool {
						switch a := y.(type) {
						case *ast.AssignStmt:
							for i, l := range a.Lhs {
								if objOf(info, l) == v {
									if len(a.Rhs) == len(a.Lhs) {
										addIdents(a.Rhs[i])
									} else if len(a.Rhs) == 1 {
										addIdents(a.Rhs[0])
									}
								}
							}
						case *ast.RangeStmt:
							if (a.Key != nil && objOf(info, a.Key) == v) || (a.Value != nil && objOf(info, a.Value) == v) {
								addIdents(a.X)
							}
						}
						return true
					})
				}
				declaredIn := map[types.Object]bool{}
				ast.Inspect(rs, func(y ast.Node) bool {
					if id, ok := y.(*ast.Ident); ok {
						if o := info.Defs[id]; o != nil {
							declaredIn[o] = true
						}
					}
					return true
				})
				for v := range deps {
					inLoop := declaredIn[v] || (v.Pos() >= rs.Pos() && v.Pos() < rs.End())
					isRecv := false
					if rl := r.FI.Decl.Recv; rl != nil && len(rl.List) == 1 && len(rl.List[0].Names) == 1 && info.Defs[rl.List[0].Names[0]] == types.Object(v) {
						isRecv = true
					}
					if !inLoop && !isRecv && assignedAnywhere(info, rsBody, v) {
						msg = "the time a loaded record is re-scheduled for depends on " + v.Name() + ", which is declared outside the loop over the spool and updated inside it: what the previous record left there decides this record's retry time (a message that already failed several times is retried at the pace of the least-tried message before it – max_tries is burnt ahead of schedule)"
					}
				}
			}
			return true
		})
		c.Hold("R10", "readDiskQueue:per-record-schedule", r.FI.Decl.Pos(), msg == "", msg)
	}

	// R11: the retry entry put on the wheel carries only the message id; the next attempt – and a restart – read the
	// record back from the spool. Whatever tryDelivery changes in the record must be on disk before the entry is
	// scheduled: a field stored after the last updateMetadataOnDisk (LastAttempt "merged" with the schedule's
	// timestamp) is right in memory for this attempt only; the spool keeps the old value forever and recovery computes
	// the retry time from it (the message is retried immediately after every restart, burning max_tries).
	c.Rule("R11", "tryDelivery: every store into the record is followed by updateMetadataOnDisk on every path to the re-scheduling (wheel.Add): the spool copy, which is all the next attempt and a restart see, is never older than the schedule", 3)
	if r := c.need("R11", queueRel, "Queue", "tryDelivery"); r != nil {
		var meta types.Object
		if sig, ok := r.FI.Obj.Type().(*types.Signature); ok {
			for i := 0; i < sig.Params().Len(); i++ {
				if pt, isPtr := sig.Params().At(i).Type().(*types.Pointer); isPtr && namedOf(pt.Elem()) != nil && objName(namedOf(pt.Elem()).Obj()) == "QueueMetadata" {
					meta = sig.Params().At(i)
				}
			}
		}
		rootIsMeta := func(e ast.Expr) bool {
			for {
				switch x := ast.Unparen(e).(type) {
				case *ast.SelectorExpr:
					e = x.X
				case *ast.IndexExpr:
					e = x.X
				case *ast.StarExpr:
					e = x.X
				case *ast.Ident:
					return meta != nil && info.Uses[x] == meta
				default:
					return false
				}
			}
		}
		persists := r.F.PtCalls(calling("~/" + queueRel + ".Queue.updateMetadataOnDisk"))
		schedules := r.F.PtCalls(calling("~/" + queueRel + ".TimeWheel.Add"))
		nStores := 0
		for _, pt := range r.F.Points() {
			var lhs []ast.Expr
			switch st := pt.Node().(type) {
			case *ast.AssignStmt:
				lhs = st.Lhs
			case *ast.IncDecStmt:
				lhs = []ast.Expr{st.X}
			}
			for _, l := range lhs {
				if _, isID := ast.Unparen(l).(*ast.Ident); isID || !rootIsMeta(l) {
					continue
				}
				nStores++
				path, f := r.F.Reach(Query{From: []Pt{pt}, Target: schedules, Avoid: persists})
				c.Hold("R11", "tryDelivery:store:"+exprStr(l), pt.Node().Pos(), !f, "the record is changed in memory ("+exprStr(l)+") and the retry is scheduled without writing the record again: the spool keeps the old value – the next attempt and every restart compute from it (a stale LastAttempt makes recovery retry at once after each restart): "+r.F.Describe(path))
			}
		}
		if nStores < 3 {
			c.Fail("R11", "tryDelivery:stores", r.FI.Decl.Pos(), "undecided: fewer than three stores into the record found in tryDelivery")
		}
	}

	// R12: a record read back from the spool must be usable by the first attempt after a restart: a nil map in it makes
	// the attempt panic, and the panic handler files the message as broken – no retry, no failure report (C02.R7)
	c.Rule("R12", "a record that is read back after a restart carries no nil map that tryDelivery writes to (initialised when first persisted and not dropped by an omitempty tag, or made on demand): the first attempt after a restart cannot panic into the 'broken' state (C02.R7)", 2)
	{
		sub := newCheck("C02", c.P, c.Tier)
		c02RecordMaps(sub)
		for _, o := range sub.obs {
			if o.Rule == "R7" {
				c.Hold("R12", o.Key, o.posRaw, o.OK, o.Msg)
			}
		}
		for f := range sub.funcs {
			c.SawFunc(f)
		}
	}

	// R14: recovery computes a record's retry time from the smallest attempt counter in it (R10); in the running
	// process tryDelivery computes it from the recipients that are still pending. The two agree only if the record
	// holds counters of pending recipients alone: a recipient that leaves the list – delivered or given up – takes its
	// counter with it. A counter left behind by a recipient delivered at its second attempt (value 1) makes a restart
	// retry the others at the pace of a fresh message: before the time the running process had scheduled.
	c.Rule("R14", "tryDelivery: on every way round the loop over the recipients on which the recipient is not re-queued, its attempt counter is deleted from the record (recovery minimises over the counters left – R10)", 1)
	if r := c.need("R14", queueRel, "Queue", "tryDelivery"); r != nil {
		msg := "undecided: no loop over the record's recipients with a re-queue found in tryDelivery"
		for _, l := range elemLoops(info, r.FI.Decl.Body, func(e ast.Expr) bool { return isField(info, e, "QueueMetadata", "To") }) {
			l := l
			var requeue, deletes []Pt
			for _, pt := range r.F.Points() {
				nd := pt.Node()
				if nd == nil || !posIn(l.Body, nd.Pos()) {
					continue
				}
				if as, ok := nd.(*ast.AssignStmt); ok && len(as.Lhs) == 1 && len(as.Rhs) == 1 {
					if o, args := appendTarget(info, as.Lhs[0], as.Rhs[0]); o != nil && len(args) == 1 && l.IsElem(args[0]) {
						// the list that becomes the record's new recipient list
						requeue = append(requeue, pt)
					}
				}
				for _, call := range callsAt(nd) {
					if id, isID := call.Fun.(*ast.Ident); isID && id.Name == "delete" && len(call.Args) == 2 && isField(info, call.Args[0], "QueueMetadata", "TriesCount") && l.IsElem(call.Args[1]) {
						deletes = append(deletes, pt)
					}
				}
			}
			if len(requeue) == 0 {
				continue
			}
			msg = ""
			// which append is the re-queue? the one whose list is assigned to meta.To afterwards; with two candidate
			// lists (retry / failed) every path avoiding ALL deletes must pass an append of the retry list: approximate
			// by requiring: a path that passes no append at all passes a delete, and a path through an append that is
			// followed by a delete is fine
			start := r.F.LoopBodyStart(l)
			end := r.F.IterEnd(l)
			if path, f := r.F.Reach(Query{From: start, Inclusive: true, Target: func(q Pt) bool { return end(q) && !r.F.IsExitPt(q) }, Avoid: func(q Pt) bool { return isPt(requeue)(q) || isPt(deletes)(q) }}); f {
				msg = "a recipient can leave the loop neither re-queued nor with its attempt counter deleted (a delivered recipient keeps the count of its earlier temporary failures): after a restart the retry time of the remaining recipients is computed from that stale, smaller counter – the retry is dispatched before the time it was scheduled for: " + r.F.Describe(path)
			}
		}
		c.Hold("R14", "tryDelivery:counter-leaves-with-recipient", r.FI.Decl.Pos(), msg == "", msg)
	}

	c.Rule("R13", "dispatching a retry never removes an intact message: loading removes spool files only on the edge where a sibling file does not exist – a descriptor shortage or an I/O error while opening leaves everything in place for the next attempt or restart (C02.R9)", 2)
	importRules(c, "C02", c02CleanupOnlyWhenGone, map[string]bool{"R9": true}, "R13")
	c12HookAfterInit(c, "R15")
	c19NilMapGuard(c, "R16", poolRel)
	c12GoroutinesCounted(c, "R17")
	c12NoLockAcrossWait(c, "R18")
	c12StagingFilePerMessage(c, "R19")
	c.Rule("R20", "every queue instance has a spool directory of its own: the default location is built from the instance name (C10.R7) – a shared directory is read by every instance after a restart and each message is dispatched once per instance", 1)
	importRules(c, "C10", c10Location, map[string]bool{"R7": true}, "R20")
	c12SemaphoreHasRoom(c, "R21")
	c12AttemptsCountedOut(c, "R22")

	c.Rule("R5", "the panic handler of an attempt renames the metadata (quarantine) and never removes spool files", 1)
	c.Rule("R6", "the synchronous part of the dispatch callback (it runs on the scheduler goroutine) performs no blocking operation", 1)
	if r := c.need("R6", queueRel, "Queue", "dispatch"); r != nil {
		// R6
		blocking := ""
		for _, op := range chanOpsIn(info, r.FI.Decl.Body, false) {
			if op.kind == "send" || op.kind == "recv" {
				blocking = "channel " + op.kind + " at " + p.Pos(op.pos)
			}
		}
		inspectNoLit(r.FI.Decl.Body, func(x ast.Node) bool {
			switch s := x.(type) {
			case *ast.SelectStmt:
				blocking = "select at " + p.Pos(s.Pos())
			case *ast.CallExpr:
				if isCall(info, s, "sync.WaitGroup.Wait", "sync.Mutex.Lock", "sync.RWMutex.Lock", "sync.Cond.Wait", "time.Sleep") ||
					isCall(info, s, "~/"+queueRel+".TimeWheel.Add", "~/"+queueRel+".Queue.tryDelivery", "~/"+queueRel+".Queue.deliver") {
					blocking = exprStr(s.Fun) + " at " + p.Pos(s.Pos())
				}
			}
			return true
		})
		c.Hold("R6", "Queue.dispatch:non-blocking", r.FI.Decl.Pos(), blocking == "", "the scheduler goroutine can block in the dispatch callback ("+blocking+"): a retry scheduled by an in-flight attempt then waits for the scheduler while holding what the scheduler waits for (deadlock, shutdown never ends)")
		// R5: deferred closure with recover – in the attempt goroutine, written as a closure of dispatch or as a
		// method started with `go`
		okRec, found := true, false
		attemptBodies := []ast.Node{r.FI.Decl.Body}
		ast.Inspect(r.FI.Decl.Body, func(x ast.Node) bool {
			if g, ok := x.(*ast.GoStmt); ok {
				if _, isLit := g.Call.Fun.(*ast.FuncLit); !isLit {
					if d := p.DeclOf(callee(info, g.Call)); d != nil && d.Decl.Body != nil && d.Pkg == r.FI.Pkg {
						attemptBodies = append(attemptBodies, d.Decl.Body)
					}
				}
			}
			return true
		})
		for _, ab := range attemptBodies {
			ast.Inspect(ab, func(x ast.Node) bool {
				d, ok := x.(*ast.DeferStmt)
				if !ok {
					return true
				}
				fl, ok := d.Call.Fun.(*ast.FuncLit)
				if !ok {
					return true
				}
				hasRecover := false
				ast.Inspect(fl.Body, func(y ast.Node) bool {
					if call, ok := y.(*ast.CallExpr); ok {
						if id, ok := call.Fun.(*ast.Ident); ok && id.Name == "recover" {
							hasRecover = true
						}
					}
					return true
				})
				if !hasRecover {
					return true
				}
				found = true
				rm := func(info *types.Info, call *ast.CallExpr) bool {
					return isCall(info, call, "os.Remove", "os.RemoveAll", "~/"+queueRel+".Queue.removeFromDisk", "~/"+queueRel+".Queue.tryRemoveDanglingFile")
				}
				ast.Inspect(fl.Body, func(y ast.Node) bool {
					if call, ok := y.(*ast.CallExpr); ok {
						if rm(info, call) {
							okRec = false
						}
						if cf := p.DeclOf(callee(info, call)); cf != nil && p.MayCall(cf, rm, 2, nil) {
							okRec = false
						}
					}
					return true
				})
				return true
			})
		}
		c.Hold("R5", "Queue.dispatch:recover", r.FI.Decl.Pos(), found && okRec, "the panic handler of a delivery attempt can remove spool files (a crashing attempt must leave the message for inspection/restart)")
	}
	// R8: the parallelism semaphore is released only by a goroutine that acquired it: the acquire precedes the
	// registration of the deferred release on every path
	c.Rule("R8", "attempt goroutine: the delivery semaphore is acquired before the deferred release is registered (no exit can release a slot that was not taken)", 1)
	if r := c.In(queueRel, "Queue", "dispatch"); r != nil {
		okAll, n := true, 0
		why := ""
		ast.Inspect(r.FI.Decl.Body, func(x ast.Node) bool {
			g, ok := x.(*ast.GoStmt)
			if !ok {
				return true
			}
			var abody *ast.BlockStmt
			if fl, ok := g.Call.Fun.(*ast.FuncLit); ok {
				abody = fl.Body
			} else if d := p.DeclOf(callee(info, g.Call)); d != nil && d.Decl.Body != nil && d.Pkg == r.FI.Pkg {
				abody = d.Decl.Body // the attempt written as a method: `go q.deliverSlot(slot)`
			}
			if abody == nil {
				return true
			}
			lf := p.FlowOf(info, abody, "dispatch$attempt")
			semField := func(e ast.Expr) bool { fv := fieldOf(info, e); return fv != nil && objName(fv) == "deliverySemaphore" }
			var acquires, defers []Pt
			for _, pt := range lf.Points() {
				nd := pt.Node()
				if d, isD := nd.(*ast.DeferStmt); isD {
					rel := false
					ast.Inspect(d, func(y ast.Node) bool {
						if u, ok := y.(*ast.UnaryExpr); ok && u.Op == token.ARROW && semField(u.X) {
							rel = true
						}
						return true
					})
					if rel {
						defers = append(defers, pt)
					}
					continue
				}
				inspectNoLit(nd, func(y ast.Node) bool {
					if s, ok := y.(*ast.SendStmt); ok && semField(s.Chan) {
						acquires = append(acquires, pt)
					}
					return true
				})
			}
			if len(defers) == 0 && len(acquires) == 0 {
				return true
			}
			n++
			if len(acquires) == 0 || len(defers) == 0 {
				okAll, why = false, "the semaphore is not acquired and released by the same goroutine"
				return true
			}
			if path, f := lf.Reach(Query{From: []Pt{lf.Entry()}, Inclusive: true, Target: isPt(defers), Avoid: isPt(acquires)}); f {
				okAll, why = false, "the deferred release is registered before the semaphore was acquired: an early return (e.g. the message cannot be read from the spool) releases a slot that was never taken – the goroutine blocks forever in its defer, never calls Done, and Queue.Close hangs: "+lf.Describe(path)
			}
			// and no exit between acquire and the defer registration
			if path, f := lf.Reach(Query{From: acquires, Target: lf.IsExitPt, Avoid: isPt(defers)}); f && okAll {
				okAll, why = false, "the goroutine can exit after acquiring the semaphore without a registered release: "+lf.Describe(path)
			}
			return true
		})
		c.Hold("R8", "Queue.dispatch:semaphore-pairing", r.FI.Decl.Pos(), okAll && n == 1, why)
	}
	// R3b: what Add touches after its stopped check is never invalidated by Close
	c.Rule("R3b", "Close does not reassign or close anything that a concurrent Add, already past its stopped check, still uses (other than the channel Add selects on for shutdown)", 1)
	{
		var addFI, closeFI *FuncInfo
		for _, fi := range twFuncs {
			if refName(fi.Obj) == "Add" {
				addFI = fi
			}
			if refName(fi.Obj) == "Close" {
				closeFI = fi
			}
		}
		msg := ""
		if addFI == nil || closeFI == nil {
			msg = "undecided: Add/Close not found"
		} else {
			used := map[*types.Var]bool{}
			selectRecv := map[*types.Var]bool{}
			ast.Inspect(addFI.Decl.Body, func(x ast.Node) bool {
				if s, ok := x.(*ast.SelectorExpr); ok {
					if fv := fieldOf(info, s); fv != nil {
						used[fv] = true
					}
				}
				if cc, ok := x.(*ast.CommClause); ok && cc.Comm != nil {
					ast.Inspect(cc.Comm, func(y ast.Node) bool {
						if u, ok := y.(*ast.UnaryExpr); ok && u.Op == token.ARROW {
							if fv := fieldOf(info, u.X); fv != nil {
								selectRecv[fv] = true
							}
						}
						return true
					})
				}
				return true
			})
			ast.Inspect(closeFI.Decl.Body, func(x ast.Node) bool {
				switch st := x.(type) {
				case *ast.AssignStmt:
					for _, l := range st.Lhs {
						if fv := fieldOf(info, l); fv != nil && used[fv] {
							msg = "Close assigns " + objName(fv) + ", which a concurrent Add that already passed the stopped check still uses (nil dereference / send on nil channel in a delivery goroutine: the message is marked broken)"
						}
					}
				case *ast.CallExpr:
					if id, ok := st.Fun.(*ast.Ident); ok && id.Name == "close" && len(st.Args) == 1 {
						if fv := fieldOf(info, st.Args[0]); fv != nil && used[fv] && !selectRecv[fv] {
							msg = "Close closes channel " + objName(fv) + " which Add sends on"
						}
					}
				}
				return true
			})
		}
		c.Hold("R3b", "TimeWheel.Close-vs-Add", token.NoPos, msg == "", msg)
	}
	// R7: Add publishes the entry before waking the scheduler
	c.Rule("R7", "Add inserts the entry into the list before it notifies the scheduler", 1)
	if r := c.need("R7", queueRel, "TimeWheel", "Add"); r != nil {
		push := r.Calls(calling("container/list.List.PushBack", "container/list.List.PushFront", "container/list.List.InsertBefore", "container/list.List.InsertAfter"))
		var sends []Pt
		for _, pt := range r.F.Points() {
			for _, op := range chanOpsIn(info, pt.Node(), false) {
				if op.kind == "send" {
					sends = append(sends, pt)
				}
			}
		}
		ok := len(push) > 0 && len(sends) > 0
		if ok {
			ok, _ = r.MustPass(r.Entry(), true, isPt(sends), isPt(push))
		}
		c.Hold("R7", "TimeWheel.Add:insert-before-notify", r.FI.Decl.Pos(), ok, "the scheduler can be woken before the entry is in the list (the wake-up is lost and the entry waits for the next event)")
	}
	// R9: shutdown releases a producer that is blocked in Add, and the stop handshake runs exactly when there is a scheduler to stop
	c.Rule("R9", "Close: the channel Add waits on as the alternative to its notification is closed on every path that completes the stop handshake; the handshake runs when the scheduler exists (its channel is non-nil) and is skipped when it does not", 2)
	ra := c.In(queueRel, "TimeWheel", "Add")
	rc := c.In(queueRel, "TimeWheel", "Close")
	if ra == nil || rc == nil {
		c.Fail("R9", "TimeWheel", token.NoPos, "undecided: Add/Close not found")
	} else {
		// escape channels of Add: received from in a select that also sends
		escape := map[*types.Var]bool{}
		ast.Inspect(ra.FI.Decl.Body, func(x ast.Node) bool {
			sel, ok := x.(*ast.SelectStmt)
			if !ok {
				return true
			}
			hasSend := false
			var recvs []*types.Var
			for _, cl := range sel.Body.List {
				cc, ok := cl.(*ast.CommClause)
				if !ok || cc.Comm == nil {
					continue
				}
				for _, op := range chanOpsIn(info, cc.Comm, false) {
					if op.kind == "send" {
						hasSend = true
					}
					if op.kind == "recv" && op.field != nil {
						recvs = append(recvs, op.field)
					}
				}
			}
			if hasSend {
				for _, v := range recvs {
					escape[v] = true
				}
			}
			return true
		})
		var sends []Pt
		var handshake *types.Var
		for _, pt := range rc.F.Points() {
			if _, isSend := pt.Node().(*ast.SendStmt); isSend {
				for _, op := range chanOpsIn(info, pt.Node(), false) {
					if op.kind == "send" && op.field != nil {
						sends = append(sends, pt)
						handshake = op.field
					}
				}
			}
		}
		msg := ""
		if len(escape) == 0 {
			msg = "Add has no shutdown alternative to its notification (a producer blocks for ever once the scheduler is gone)"
		} else if len(sends) == 0 {
			msg = "undecided: Close performs no stop handshake"
		}
		for ch := range escape {
			ch := ch
			closes := func(pt Pt) bool {
				for _, op := range chanOpsIn(info, pt.Node(), false) {
					if op.kind == "close" && op.field == ch {
						return true
					}
				}
				return false
			}
			if msg == "" {
				if ok, w := rc.MustPass(sends, false, rc.F.IsNormalExit, closes); !ok {
					msg = "Close can finish the stop handshake without closing " + objName(ch) + ": a concurrent Add stays blocked for ever (" + w + ")"
				}
			}
		}
		c.Hold("R9", "TimeWheel.Close:releases-blocked-Add", rc.FI.Decl.Pos(), msg == "", msg)
		msg = ""
		if handshake == nil {
			msg = "undecided: no handshake channel"
		} else {
			world := func(isNil bool) func(b *cfgBlock, i int) bool {
				return rc.F.World(func(atom ast.Expr) (bool, bool) {
					be, ok := ast.Unparen(atom).(*ast.BinaryExpr)
					if !ok || (be.Op != token.EQL && be.Op != token.NEQ) {
						return false, false
					}
					var other ast.Expr
					if fieldOf(info, be.X) == handshake {
						other = be.Y
					} else if fieldOf(info, be.Y) == handshake {
						other = be.X
					} else {
						return false, false
					}
					if !isNilIdent(info, other) {
						return false, false
					}
					return (be.Op == token.EQL) == isNil, true
				})
			}
			if _, f := rc.F.Reach(Query{From: rc.Entry(), Inclusive: true, Target: isPt(sends), AvoidEdge: world(true)}); f {
				msg = "the stop handshake is attempted on a nil channel (Close blocks for ever when called twice / without a scheduler)"
			} else if _, f := rc.F.Reach(Query{From: rc.Entry(), Inclusive: true, Target: isPt(sends), AvoidEdge: world(false)}); !f {
				msg = "with a running scheduler Close never performs the stop handshake (the scheduler goroutine keeps dispatching after Close returned)"
			}
		}
		c.Hold("R9", "TimeWheel.Close:handshake-iff-scheduler", rc.FI.Decl.Pos(), msg == "", msg)
	}
}

// locksHeldAt computes which mutex fields are held at pos inside fi: the last lock operation on the mutex on
// every path from the function entry (or from the entry of the enclosing function literal) to pos is Lock.
func locksHeldAt(p *Prog, fi *FuncInfo, pos token.Pos) map[*types.Var]bool {
	info := fi.Info()
	// innermost function literal containing pos (by node identity when the caller named the node: inlined copies of
	// helper bodies keep the positions of the helper)
	var body *ast.BlockStmt = fi.Decl.Body
	if lockAtNode != nil {
		if fl := innermostLit(fi.Decl.Body, lockAtNode); fl != nil {
			body = fl.Body
		}
	} else {
		ast.Inspect(fi.Decl.Body, func(x ast.Node) bool {
			if fl, ok := x.(*ast.FuncLit); ok && posIn(fl.Body, pos) {
				body = fl.Body
			}
			return true
		})
	}
	f := p.FlowOf(info, body, fi.Name())
	var target Pt
	ok := false
	if lockAtNode != nil {
		target, ok = f.PtOfNode(lockAtNode)
	} else {
		target, ok = f.PtOf(pos)
	}
	held := map[*types.Var]bool{}
	if !ok {
		return held
	}
	// candidate mutexes: fields with a Lock call in this body
	mutexes := map[*types.Var]bool{}
	ast.Inspect(body, func(x ast.Node) bool {
		if call, ok := x.(*ast.CallExpr); ok && isCall(info, call, "sync.Mutex.Lock", "sync.RWMutex.Lock", "sync.RWMutex.RLock") {
			if fv := fieldOf(info, callRecv(call)); fv != nil {
				mutexes[fv] = true
			}
		}
		return true
	})
	for m := range mutexes {
		isLock := func(pt Pt) bool {
			for _, call := range callsAt(pt.Node()) {
				if isCall(info, call, "sync.Mutex.Lock", "sync.RWMutex.Lock", "sync.RWMutex.RLock") && fieldOf(info, callRecv(call)) == m {
					return true
				}
			}
			return false
		}
		isUnlock := func(pt Pt) bool {
			for _, call := range callsAt(pt.Node()) {
				if isCall(info, call, "sync.Mutex.Unlock", "sync.RWMutex.Unlock", "sync.RWMutex.RUnlock") && fieldOf(info, callRecv(call)) == m {
					return true
				}
			}
			return false
		}
		isT := isPt([]Pt{target})
		// reachable from entry without a Lock → not held
		if _, f1 := f.Reach(Query{From: []Pt{f.Entry()}, Inclusive: true, Target: isT, Avoid: isLock}); f1 {
			if !isLock(target) || true {
				continue
			}
		}
		// reachable from an Unlock without re-Lock → not held
		unl := f.Find(func(n ast.Node) bool { return isUnlock(ptOfNode(f, n)) })
		bad := false
		for _, u := range unl {
			if _, f2 := f.Reach(Query{From: []Pt{u}, Target: isT, Avoid: isLock}); f2 {
				bad = true
			}
		}
		if !bad {
			held[m] = true
		}
	}
	return held
}

// locksHeldAtIP is locksHeldAt plus the locks every caller holds: for a function of the package that does not lock
// or unlock mutex m itself, m counts as held throughout if it is held at every call site inside the package (and
// the function is not exported, not started with `go`, not used as a value). Bounded recursion over callers.
func locksHeldAtIP(p *Prog, fi *FuncInfo, pos token.Pos) map[*types.Var]bool {
	return locksHeldAtIPd(p, fi, pos, 0)
}

func locksHeldAtIPd(p *Prog, fi *FuncInfo, pos token.Pos, depth int) map[*types.Var]bool {
	held := locksHeldAt(p, fi, pos)
	if depth >= 4 {
		return held
	}
	// inside a function literal: a goroutine body inherits nothing; a deferred closure inherits what is still held
	// when the function exits; a closure bound to a local name that is only ever called inherits what every one of
	// its call sites holds
	var lit *ast.FuncLit
	if lockAtNode != nil {
		lit = innermostLit(fi.Decl.Body, lockAtNode)
	} else {
		ast.Inspect(fi.Decl.Body, func(x ast.Node) bool {
			if fl, ok := x.(*ast.FuncLit); ok && posIn(fl.Body, pos) {
				lit = fl
			}
			return true
		})
	}
	if lit != nil {
		for m := range litInherited(p, fi, lit, depth) {
			if !touchesMutex(fi.Info(), lit.Body, m) {
				held[m] = true
			}
		}
		return held
	}
	if fi.Obj.Exported() {
		return held
	}
	var entry map[*types.Var]bool
	sites, uses := 0, 0
	escapes := false
	p.AllFuncs([]*packagesPkg{fi.Pkg}, func(caller *FuncInfo) {
		info := caller.Info()
		ast.Inspect(caller.Decl.Body, func(x ast.Node) bool {
			switch n := x.(type) {
			case *ast.GoStmt:
				if callee(info, n.Call) == fi.Obj {
					escapes = true
				}
			case *ast.CallExpr:
				if callee(info, n) == fi.Obj {
					sites++
					h := withLockNode(n, func() map[*types.Var]bool { return locksHeldAtIPd(p, caller, n.Pos(), depth+1) })
					if entry == nil {
						entry = map[*types.Var]bool{}
						for m := range h {
							entry[m] = true
						}
					} else {
						for m := range entry {
							if !h[m] {
								delete(entry, m)
							}
						}
					}
				}
			case *ast.Ident:
				// a use that is not the callee of a call (method value / function value) escapes: counted
				if info.Uses[n] == fi.Obj {
					uses++
				}
			}
			return true
		})
	})
	if escapes || sites == 0 || uses > sites {
		return held
	}
	info := fi.Info()
	for m := range entry {
		if !touchesMutex(info, fi.Decl.Body, m) {
			held[m] = true
		}
	}
	return held
}

func touchesMutex(info *types.Info, body ast.Node, m *types.Var) bool {
	touches := false
	ast.Inspect(body, func(x ast.Node) bool {
		if call, ok := x.(*ast.CallExpr); ok && (isLockCall(info, call) || isUnlockCall(info, call)) && fieldOf(info, callRecv(call)) == m {
			touches = true
		}
		return true
	})
	return touches
}

// litInherited: the mutexes held whenever function literal lit (inside fi) runs, as far as the way it is used shows.
func litInherited(p *Prog, fi *FuncInfo, lit *ast.FuncLit, depth int) map[*types.Var]bool {
	info := fi.Info()
	out := map[*types.Var]bool{}
	var deferOf *ast.DeferStmt
	var boundTo types.Object
	isGo := false
	ast.Inspect(fi.Decl.Body, func(x ast.Node) bool {
		switch n := x.(type) {
		case *ast.DeferStmt:
			if ast.Unparen(n.Call.Fun) == ast.Expr(lit) {
				deferOf = n
			}
		case *ast.GoStmt:
			if ast.Unparen(n.Call.Fun) == ast.Expr(lit) {
				isGo = true
			}
		case *ast.AssignStmt:
			if len(n.Lhs) == len(n.Rhs) {
				for i, r := range n.Rhs {
					if ast.Unparen(r) == ast.Expr(lit) {
						boundTo = objOf(info, n.Lhs[i])
					}
				}
			}
		case *ast.ValueSpec:
			for i, r := range n.Values {
				if ast.Unparen(r) == ast.Expr(lit) && i < len(n.Names) {
					boundTo = info.Defs[n.Names[i]]
				}
			}
		}
		return true
	})
	if isGo {
		return out
	}
	atExit := func(d *ast.DeferStmt) map[*types.Var]bool {
		h := withLockNode(d, func() map[*types.Var]bool { return locksHeldAtIPd(p, fi, d.Pos(), depth+1) })
		// the body the defer statement belongs to
		var body *ast.BlockStmt = fi.Decl.Body
		ast.Inspect(fi.Decl.Body, func(x ast.Node) bool {
			if fl, ok := x.(*ast.FuncLit); ok && within(fl.Body, d) {
				body = fl.Body
			}
			return true
		})
		f := p.FlowOf(info, body, fi.Name())
		dpt, ok := f.PtOf(d.Pos())
		res := map[*types.Var]bool{}
		if !ok {
			return res
		}
		for m := range h {
			m := m
			unl := func(pt Pt) bool {
				for _, call := range append(callsAt(pt.Node()), deferredCalls(pt.Node())...) {
					if isUnlockCall(info, call) && fieldOf(info, callRecv(call)) == m {
						return true
					}
				}
				return false
			}
			// released explicitly later, or by a defer registered later (which runs earlier): not held at exit
			if _, found := f.Reach(Query{From: []Pt{dpt}, Target: unl}); !found {
				res[m] = true
			}
		}
		return res
	}
	if deferOf != nil {
		return atExit(deferOf)
	}
	if boundTo == nil {
		return out
	}
	// every use of the name must be the callee of a call (or of a defer)
	first := true
	ok := true
	var stack []ast.Node
	ast.Inspect(fi.Decl.Body, func(x ast.Node) bool {
		if x == nil {
			stack = stack[:len(stack)-1]
			return true
		}
		stack = append(stack, x)
		id, isID := x.(*ast.Ident)
		if !isID || info.Uses[id] != boundTo {
			return true
		}
		var h map[*types.Var]bool
		if len(stack) >= 2 {
			if call, isCall := stack[len(stack)-2].(*ast.CallExpr); isCall && ast.Unparen(call.Fun) == ast.Expr(id) {
				if len(stack) >= 3 {
					switch par := stack[len(stack)-3].(type) {
					case *ast.GoStmt:
						if par.Call == call {
							ok = false
							return true
						}
					case *ast.DeferStmt:
						if par.Call == call {
							h = atExit(par)
						}
					}
				}
				if h == nil {
					h = withLockNode(call, func() map[*types.Var]bool { return locksHeldAtIPd(p, fi, call.Pos(), depth+1) })
				}
			}
		}
		if h == nil {
			ok = false
			return true
		}
		if first {
			first = false
			for m := range h {
				out[m] = true
			}
		} else {
			for m := range out {
				if !h[m] {
					delete(out, m)
				}
			}
		}
		return true
	})
	if !ok || first {
		return map[*types.Var]bool{}
	}
	return out
}

// lockAtNode: when set, the lock queries locate their point by this node's identity instead of by position.
var lockAtNode ast.Node

func withLockNode(n ast.Node, f func() map[*types.Var]bool) map[*types.Var]bool {
	old := lockAtNode
	lockAtNode = n
	defer func() { lockAtNode = old }()
	return f()
}

// locksHeldAtNode: locksHeldAtIP for a syntax node.
func locksHeldAtNode(p *Prog, fi *FuncInfo, n ast.Node) map[*types.Var]bool {
	return withLockNode(n, func() map[*types.Var]bool { return locksHeldAtIP(p, fi, n.Pos()) })
}

// innermostLit: the innermost function literal of root whose body contains node n (identity).
func innermostLit(root ast.Node, n ast.Node) *ast.FuncLit {
	var res *ast.FuncLit
	var stack []*ast.FuncLit
	found := false
	var walk func(x ast.Node)
	walk = func(x ast.Node) {
		ast.Inspect(x, func(y ast.Node) bool {
			if found || y == nil {
				return false
			}
			if y == n {
				found = true
				if len(stack) > 0 {
					res = stack[len(stack)-1]
				}
				return false
			}
			if fl, ok := y.(*ast.FuncLit); ok && y != x {
				stack = append(stack, fl)
				walk(fl.Body)
				stack = stack[:len(stack)-1]
				return false
			}
			return true
		})
	}
	walk(root)
	return res
}
