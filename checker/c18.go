package main

import (
	"strings"
	"sort"
	"strconv"
	"go/ast"
	"go/token"
	"go/types"
)

func init() { register("C18", checkC18) }

func checkC18(c *Check) {
	c.explain = "C18 (failure reports), structural part on emitDSN/tryDelivery/toSMTPErr: recipients are reported under the client's spelling (lookup in the original-recipient map keyed by the failed recipient, fall back to the recipient only on a miss); " +
		"the report lists exactly the failed list it is given; status and diagnostic come from the stored last error of that recipient; the bounce transaction uses the null return path and the failed message's sender as its only recipient; " +
		"the report's own metadata carries no original sender (so a failing report hits the null-sender guard); the guard dominates the bounce Start; the original header parameter reaches the generator; a stored status is never the unset 0.x.x."
	c.notCover = "MIME well-formedness of the generated report, handling of non-ASCII diagnostic text (value-level, library)."
	c18Alias(c)
	c18Format(c)
	c18SingleLine(c)
	c18Bounce(c)
	// the status a report gives for a recipient is the one recorded for THAT recipient in the attempt: a failure of a
	// message-wide step (DATA, commit) is recorded for the recipients that were accepted, and only for them – recorded
	// for the whole list it overwrites the refusal another recipient got at RCPT TO (the report then shows the DATA
	// status for it, or, if the DATA failure was temporary, omits it) (C01.R2)
	c.Rule("R13", "tryDelivery: the status the report shows for a recipient is the conversion of the error of the attempt in which it was given up (stored before the retry / give-up decision on every path) (C16.R3c)", 1)
	{
		sub := newCheck("C16", c.P, c.Tier)
		sub.Rule("R3c", "", 0)
		c16StatusFromThisAttempt(sub)
		for _, o := range sub.obs {
			if o.Rule == "R3c" {
				c.Hold("R13", o.Key, o.posRaw, o.OK, o.Msg)
			}
		}
	}
	c.Rule("R14", "the report lists the recipients that failed with their own status: a next hop's per-recipient answers are matched against the recipients it accepted, nothing else (C09.K12)", 1)
	importRules(c, "C09", func(s *Check) { c09AcceptedListAfterAccept(s, "K12") }, map[string]bool{"K12": true}, "R14")
	c18NoByteCut(c, "R15")
	c18NullSenderNotConverted(c, "R16")
	c.Rule("R17", "the queue keeps a recipient under the very string it was given: the report looks the sender's spelling up in the original-recipient table with the stored recipient as the key, and the pipeline keyed that table with the string it handed to AddRcpt (C10.R5)", 1)
	importRules(c, "C10", c10Recipients, map[string]bool{"R5": true}, "R17")
	c.Rule("R18", "the queue and the pipeline keep the metadata object they were given: the original-recipient entries the pipeline records for the second and later recipients of a transaction (after the queue's delivery was started) are in the record the report is built from (C10.R3e)", 1)
	importRules(c, "C10", checkC10, map[string]bool{"R3e": true}, "R18")
	c18RequiredRecipientFields(c, "R19")
	c.Rule("R12", "deliver: the error of Body / Commit is recorded for exactly the accepted recipients, the error of AddRcpt for exactly its recipient (a recipient's own refusal is what the report shows) (C01.R2)", 3)
	{
		sub := newCheck("C01", c.P, c.Tier)
		c01Deliver(sub)
		for _, o := range sub.obs {
			if o.Rule == "R2" {
				c.Hold("R12", o.Key, o.posRaw, o.OK, o.Msg)
			}
		}
		for f := range sub.funcs {
			c.SawFunc(f)
		}
	}
	r := c.need("R1", queueRel, "Queue", "emitDSN")
	c.Rule("R1", "FinalRecipient is the original-recipient-map entry of the failed recipient, or the recipient itself on a miss", 1)
	c.Rule("R2", "the report lists exactly the failed recipients it was given, with the stored last error of each", 2)
	c.Rule("R3", "bounce envelope: null return path, the failed message's sender as recipient, no original sender on the report's metadata", 3)
	c.Rule("R4", "a null-sender test dominates the start of the bounce transaction", 1)
	c.Rule("R6", "the original header parameter is handed to the report generator unchanged", 2)
	c.Rule("R7", "the status stored for a failed recipient is never the unset 0.x.x (the report writer refuses it and the whole report would be lost)", 1)
	if r == nil {
		return
	}
	info := r.Info
	params := paramObjs(r.FI)
	var metaP, hdrP, failedP types.Object
	for _, o := range params {
		switch {
		case typeIs(o.Type(), modPath+"/"+queueRel, "QueueMetadata"):
			metaP = o
		case typeIs(o.Type(), "github.com/emersion/go-message/textproto", "Header"):
			hdrP = o
		default:
			if sl, ok := o.Type().Underlying().(*types.Slice); ok && isStringType(sl.Elem()) {
				failedP = o
			}
		}
	}
	if metaP == nil || hdrP == nil || failedP == nil {
		c.Fail("R2", "emitDSN:params", r.FI.Decl.Pos(), "undecided: unexpected parameters")
		return
	}
	// The loop that builds the per-recipient part of the report: in emitDSN itself or in a function of the package it
	// hands its metadata and failed list to (`failedRcptInfo(meta, failedRcpts)`). Any loop form.
	var lit *ast.CompositeLit
	var loop *ElemLoop
	rbld := r          // the function that contains the loop
	bFailed := failedP // … and its view of the failed list
	findLoop := func(g *RuleCtx) (*ast.CompositeLit, *ElemLoop) {
		var fl *ast.CompositeLit
		var floop *ElemLoop
		for _, l := range elemLoops(g.Info, g.FI.Decl.Body, func(e ast.Expr) bool {
			sl, ok := g.Info.TypeOf(e).Underlying().(*types.Slice)
			return ok && isStringType(sl.Elem())
		}) {
			l := l
			ast.Inspect(l.Body, func(n ast.Node) bool {
				if cl, ok := n.(*ast.CompositeLit); ok && typeIs(g.Info.TypeOf(cl), modPath+"/internal/dsn", "RecipientInfo") {
					fl, floop = cl, l
				}
				return true
			})
		}
		return fl, floop
	}
	lit, loop = findLoop(r)
	if lit == nil {
		for _, call := range callsIn(r.FI.Decl.Body) {
			fn := callee(info, call)
			if fn == nil || fn.Pkg() != r.FI.Obj.Pkg() || fn == r.FI.Obj {
				continue
			}
			d := c.P.DeclOf(fn)
			if d == nil || d.Decl.Body == nil {
				continue
			}
			g := c.CtxOf(d)
			if l2, lp2 := findLoop(g); l2 != nil {
				// bind: which parameter of the builder receives emitDSN's failed list?
				pi := 0
				var bound types.Object
				for _, f := range d.Decl.Type.Params.List {
					for _, nm := range f.Names {
						if pi < len(call.Args) && objOf(info, call.Args[pi]) == failedP {
							bound = g.Info.Defs[nm]
						}
						pi++
					}
				}
				lit, loop, rbld, bFailed = l2, lp2, g, bound
			}
		}
	}
	if lit == nil {
		c.Fail("R2", "emitDSN:recipient-info", r.FI.Decl.Pos(), "undecided: no RecipientInfo literal inside a loop")
		return
	}
	bi := rbld.Info
	// R2: the loop visits the failed-list parameter, completely
	c.Hold("R2", "emitDSN:loop-over-failed", loop.Stmt.Pos(), bFailed != nil && objOf(bi, loop.List) == bFailed && loop.Whole, "the report's recipient loop does not range over the failed-recipient list it was given (it would list other recipients)")
	field := func(name string) ast.Expr {
		for _, el := range lit.Elts {
			if kv, ok := el.(*ast.KeyValueExpr); ok {
				if id, ok := kv.Key.(*ast.Ident); ok && id.Name == name {
					return kv.Value
				}
			}
		}
		return nil
	}
	elemVar := loop.ElemObj() // may be reassigned inside the body (rcpt = originalRcpt)
	litPt, _ := rbld.F.PtOf(lit.Pos())
	// a lookup `x := <map>[k]` (or `x, ok := …`) whose key is the loop's element as it came from the failed list:
	// k is an element expression and no reassignment of the element variable can precede the lookup in the iteration
	keyedByElem := func(mapField, owner string) (res types.Object, okVar types.Object, at Pt, found bool) {
		for _, pt := range rbld.F.Points() {
			as, ok := pt.Node().(*ast.AssignStmt)
			if !ok || len(as.Rhs) != 1 || len(as.Lhs) < 1 || !within(loop.Body, as) {
				continue
			}
			ix, ok := ast.Unparen(as.Rhs[0]).(*ast.IndexExpr)
			if !ok || !isField(bi, ix.X, owner, mapField) {
				continue
			}
			if !loop.IsElem(ix.Index) {
				// a local that – at this point – can only hold the element (`finalRcpt := failed[i]` before it is replaced)
				kv, isVar := objOf(bi, ix.Index).(*types.Var)
				if !isVar || kv.IsField() {
					continue
				}
				defs, okD := rbld.ReachingDefs(kv, pt, nil)
				allElem := okD && len(defs) > 0
				for _, d := range defs {
					if !loop.IsElem(d) {
						allElem = false
					}
				}
				if !allElem {
					continue
				}
			}
			fresh := true
			if elemVar != nil {
				for _, q := range rbld.F.Points() {
					if q.Node() == nil || !posIn(loop.Body, q.Node().Pos()) {
						continue
					}
					if _, isAs := q.Node().(*ast.AssignStmt); isAs && nodeAssigns(q.Node(), func(l, rhs ast.Expr) bool {
						return objOf(bi, l) == elemVar && !(rhs != nil && loop.IsElem(rhs)) // (re)loading the element itself is harmless
					}) {
						if _, f := rbld.F.Reach(Query{From: []Pt{q}, Target: func(x Pt) bool { return x == pt }, Avoid: rbld.F.IterEnd(loop)}); f {
							fresh = false
						}
					}
				}
			}
			if !fresh {
				continue
			}
			res, at, found = objOf(bi, as.Lhs[0]), pt, true
			if len(as.Lhs) == 2 {
				okVar = objOf(bi, as.Lhs[1])
			}
		}
		return
	}
	// status / diagnostic from meta.RcptErrs[<element>]
	statusOK := false
	if errVar, _, _, ok := keyedByElem("RcptErrs", "QueueMetadata"); ok && errVar != nil {
		st, dg := field("Status"), field("DiagnosticCode")
		if st != nil && dg != nil && mentions(bi, st, errVar) && objOf(bi, dg) == errVar {
			statusOK = true
		}
	}
	c.Hold("R2", "emitDSN:status-from-stored-error", lit.Pos(), statusOK, "Status/DiagnosticCode are not taken from the stored last error of the failed recipient (keyed by the effective address)")
	// R2c: the list handed to emitDSN is the per-attempt list of tryDelivery (a local created in that call), not
	// something that persists across attempts
	if td := c.In(queueRel, "Queue", "tryDelivery"); td != nil {
		msg := "tryDelivery does not call emitDSN"
		for _, pt := range td.Calls(isEmitDSN) {
			call := td.CallAt(pt, isEmitDSN)
			msg = ""
			if len(call.Args) != 3 {
				msg = "undecided: unexpected arguments"
				continue
			}
			o := objOf(td.Info, call.Args[2])
			v, isVar := o.(*types.Var)
			if !isVar || v.IsField() || v.Parent() == nil || v.Pkg() == nil || v.Parent() == v.Pkg().Scope() {
				msg = "the report is given " + exprStr(call.Args[2]) + ", which outlives the attempt (recipients reported in an earlier attempt are listed again)"
				continue
			}
			// parameters are not per-attempt lists either
			for _, po := range paramObjs(td.FI) {
				if po == o {
					msg = "the report is given a parameter, not the per-attempt failed list"
				}
			}
		}
		c.Hold("R2", "tryDelivery:per-attempt-list", td.FI.Decl.Pos(), msg == "", msg)
	}
	// R1: FinalRecipient provenance. The value reported is a variable whose definitions reaching the literal are, in
	// the world "the original-recipient map has an entry", only that entry – and in the world "no entry" only the
	// element of the failed list.
	fr := field("FinalRecipient")
	msgFR := ""
	origVar, origOK, _, haveOrig := keyedByElem("OriginalRcpts", "MsgMetadata")
	tv, isVar := objOf(bi, fr).(*types.Var)
	switch {
	case fr == nil:
		msgFR = "the report does not name the recipient"
	case !haveOrig || origVar == nil:
		msgFR = "the original-recipient map is not consulted with the failed recipient as the key"
	case !isVar || tv.IsField():
		msgFR = "undecided: FinalRecipient is not a local variable (" + exprStr(fr) + ")"
	default:
		world := func(present bool) func(b *cfgBlock, i int) bool {
			return rbld.F.World(func(atom ast.Expr) (bool, bool) {
				atom = ast.Unparen(atom)
				if be, ok := atom.(*ast.BinaryExpr); ok && (be.Op == token.NEQ || be.Op == token.EQL) && objOf(bi, be.X) == origVar {
					if sv, ok := constString(bi, be.Y); ok && sv == "" {
						return (be.Op == token.NEQ) == present, true
					}
				}
				if origOK != nil && objOf(bi, atom) == origOK {
					return present, true
				}
				return false, false
			})
		}
		classify := func(present bool) (fromOrig, fromElem, other bool) {
			w := world(present)
			isDef := func(q Pt) bool {
				if q.Node() == nil {
					return false
				}
				if id, ok := q.Node().(*ast.Ident); ok {
					return rbld.F.RangeVarOf(id) != nil && objOf(bi, id) == tv // key/value of a range head
				}
				return assignsObj(bi, q.Node(), tv)
			}
			for _, dp := range rbld.F.Points() {
				n := dp.Node()
				if n == nil || !isDef(dp) {
					continue
				}
				if _, f := rbld.F.Reach(Query{From: []Pt{dp}, Target: func(q Pt) bool { return q == litPt }, Avoid: func(q Pt) bool { return q != litPt && isDef(q) }, AvoidEdge: w}); !f {
					continue
				}
				if _, f := rbld.F.Reach(Query{From: rbld.F.LoopBodyStart(loop), Inclusive: true, Target: func(q Pt) bool { return q == dp }, Avoid: rbld.F.IterEnd(loop), AvoidEdge: w}); !f {
					// the loop head's own (re)definition of the value variable is reached from the head, not the body
					if _, isId := n.(*ast.Ident); !isId {
						continue
					}
				}
				switch x := n.(type) {
				case *ast.Ident: // range value variable (re)defined by the loop head
					if loop.Val != nil && objOf(bi, x) == loop.Val {
						fromElem = true
					} else {
						other = true
					}
				case *ast.AssignStmt:
					for k, l := range x.Lhs {
						if objOf(bi, l) != tv {
							continue
						}
						if len(x.Rhs) != len(x.Lhs) {
							other = true
							continue
						}
						switch {
						case objOf(bi, x.Rhs[k]) == origVar:
							fromOrig = true
						case loop.IsElem(x.Rhs[k]):
							fromElem = true
						default:
							other = true
						}
					}
				default:
					other = true
				}
			}
			return
		}
		o1, e1, x1 := classify(true)
		o2, e2, x2 := classify(false)
		switch {
		case x1 || x2:
			msgFR = "the reported recipient can be something other than the map entry or the failed recipient itself"
		case !o1 || e1:
			msgFR = "a recipient that has an entry in the original-recipient map is still reported under the address it was rewritten to"
		case o2 || !e2:
			msgFR = "without an entry in the original-recipient map the report does not name the failed recipient itself (an empty or foreign address is reported)"
		}
	}
	c.Hold("R1", "emitDSN:final-recipient", lit.Pos(), msgFR == "", "the reported recipient is not the client's original spelling (OriginalRcpts[rcpt], falling back to rcpt only when absent): "+msgFR)

	// R3
	isStart := func(info *types.Info, call *ast.CallExpr) bool {
		return qname(callee(info, call)) == modulePkg+".DeliveryTarget.Start"
	}
	starts := r.Calls(isStart)
	okNull := len(starts) == 1
	var dsnMetaObj types.Object
	if okNull {
		call := r.CallAt(starts[0], isStart)
		s, ok := constString(info, call.Args[2])
		okNull = ok && s == "" && isField(info, callRecv(call), "Queue", "dsnPipeline")
		dsnMetaObj = objOf(info, call.Args[1])
	}
	c.Hold("R3", "emitDSN:null-return-path", r.FI.Decl.Pos(), okNull, "the bounce transaction is not started on the bounce pipeline with the constant null return path")
	okRcpt := false
	nAdd := 0
	ast.Inspect(r.FI.Decl.Body, func(n ast.Node) bool {
		if call, ok := n.(*ast.CallExpr); ok && qname(callee(info, call)) == modulePkg+".Delivery.AddRcpt" {
			nAdd++
			if len(call.Args) >= 2 && isField(info, call.Args[1], "QueueMetadata", "From") {
				okRcpt = true
			}
		}
		return true
	})
	c.Hold("R3", "emitDSN:to-sender", r.FI.Decl.Pos(), okRcpt && nAdd == 1, "the report is not addressed to exactly the sender of the failed message")
	okMeta := false
	if dsnMetaObj != nil {
		def, n := localDef(info, r.FI.Decl.Body, dsnMetaObj)
		if n == 1 && def != nil {
			okMeta = true
			ast.Inspect(def, func(x ast.Node) bool {
				if kv, ok := x.(*ast.KeyValueExpr); ok {
					if id, ok := kv.Key.(*ast.Ident); ok && (id.Name == "OriginalFrom" || id.Name == "Conn") {
						okMeta = false
					}
				}
				return true
			})
			// and no later store of OriginalFrom
			ast.Inspect(r.FI.Decl.Body, func(x ast.Node) bool {
				if as, ok := x.(*ast.AssignStmt); ok {
					for _, l := range as.Lhs {
						if s, ok := ast.Unparen(l).(*ast.SelectorExpr); ok && objOf(info, s.X) == dsnMetaObj && s.Sel.Name == "OriginalFrom" {
							okMeta = false
						}
					}
				}
				return true
			})
		}
	}
	c.Hold("R3", "emitDSN:report-has-no-original-sender", r.FI.Decl.Pos(), okMeta, "the report's own metadata names an original sender: a failing report would itself be reported (loop)")
	// R4
	avoidNull := r.F.AvoidImplying(func(atom ast.Expr) (bool, bool) {
		if be, ok := ast.Unparen(atom).(*ast.BinaryExpr); ok && (be.Op == token.EQL || be.Op == token.NEQ) {
			if s, ok := constString(info, be.Y); ok && s == "" && (isField(info, be.X, "MsgMetadata", "OriginalFrom") || isField(info, be.X, "QueueMetadata", "From")) {
				return be.Op == token.NEQ, true
			}
		}
		return false, false
	})
	p, f := r.F.Reach(Query{From: r.Entry(), Inclusive: true, Target: isPt(starts), AvoidEdge: avoidNull})
	c.Hold("R4", "emitDSN:null-sender-guard", r.FI.Decl.Pos(), !f && len(starts) > 0, "a report can be generated for a message whose sender is null: "+r.F.Describe(p))
	// R6
	gen := r.Calls(calling("~/internal/dsn.GenerateDSN"))
	okHdr := len(gen) == 1
	if okHdr {
		call := r.CallAt(gen[0], calling("~/internal/dsn.GenerateDSN"))
		okHdr = len(call.Args) == 6 && objOf(info, call.Args[4]) == hdrP
		if len(r.F.Find(func(n ast.Node) bool { return mutates(info, n, hdrP) })) > 0 {
			okHdr = false
		}
	}
	c.Hold("R6", "emitDSN:original-header", r.FI.Decl.Pos(), okHdr, "the report generator does not receive the original header parameter unmodified")
	if td := c.In(queueRel, "Queue", "tryDelivery"); td != nil {
		okPass := false
		tp := paramObjs(td.FI)
		var thdr types.Object
		for _, o := range tp {
			if typeIs(o.Type(), "github.com/emersion/go-message/textproto", "Header") {
				thdr = o
			}
		}
		for _, pt := range td.Calls(isEmitDSN) {
			call := td.CallAt(pt, isEmitDSN)
			if len(call.Args) == 3 && objOf(td.Info, call.Args[1]) == thdr && thdr != nil {
				okPass = true
			}
		}
		if thdr != nil && len(td.F.Find(func(n ast.Node) bool { return mutates(td.Info, n, thdr) })) > 0 {
			okPass = false
		}
		c.Hold("R6", "tryDelivery:passes-header", td.FI.Decl.Pos(), okPass, "tryDelivery does not pass the message header it was given to emitDSN")
	}
	// R7: toSMTPErr's EnhancedCode[0] never zero: defaults are non-zero constants and any override from the field map is guarded by a non-zero test
	if ts := c.need("R7", queueRel, "", "toSMTPErr"); ts != nil {
		ti := ts.Info
		bad := ""
		n := 0
		ast.Inspect(ts.FI.Decl.Body, func(x ast.Node) bool {
			switch s := x.(type) {
			case *ast.KeyValueExpr:
				if id, ok := s.Key.(*ast.Ident); ok && id.Name == "EnhancedCode" {
					n++
					// the default may be chosen into a local first: every value that local is ever given
					vals := []ast.Expr{s.Value}
					if lv, ok := objOf(ti, s.Value).(*types.Var); ok && !lv.IsField() && localIn(ts.FI.Decl.Body, lv) {
						vals = nil
						ast.Inspect(ts.FI.Decl.Body, func(y ast.Node) bool {
							if as, ok := y.(*ast.AssignStmt); ok && len(as.Lhs) == len(as.Rhs) {
								for k, l := range as.Lhs {
									if objOf(ti, l) == lv {
										vals = append(vals, as.Rhs[k])
									}
								}
							}
							return true
						})
					}
					if len(vals) == 0 {
						bad = "default enhanced status is unset or not constant"
					}
					for _, ve := range vals {
						v := c16Evaluator(c.P, ti)(ve, nil)
						if v.K != absConst || v.N == 0 {
							bad = "default enhanced status is unset or not constant"
						}
					}
				}
			case *ast.AssignStmt:
				for i, l := range s.Lhs {
					sel, ok := ast.Unparen(l).(*ast.SelectorExpr)
					if !ok || sel.Sel.Name != "EnhancedCode" || i >= len(s.Rhs) {
						continue
					}
					n++
					v := c16Evaluator(c.P, ti)(s.Rhs[i], nil)
					if v.K == absConst && v.N != 0 {
						continue
					}
					// must be guarded by `<src>[0] != 0` on the value being stored, or come from a typed SMTP error
					if v.K != absConst {
						pt, found := ts.F.PtOf(s.Pos())
						if !found {
							bad = "undecided"
							continue
						}
						guard := ts.F.AvoidImplying(func(atom ast.Expr) (bool, bool) {
							if be, ok := ast.Unparen(atom).(*ast.BinaryExpr); ok && (be.Op == token.NEQ || be.Op == token.EQL || be.Op == token.GTR) {
								if ix, ok := ast.Unparen(be.X).(*ast.IndexExpr); ok {
									if tv, ok := ti.Types[be.Y]; ok && tv.Value != nil && tv.Value.String() == "0" && mentionsName(s.Rhs[i], ix.X) {
										return be.Op != token.EQL, true
									}
								}
							}
							return false, false
						})
						if _, f := ts.F.Reach(Query{From: ts.Entry(), Inclusive: true, Target: isPt([]Pt{pt}), AvoidEdge: guard}); f {
							// typed SMTP error copy (smtpErr.EnhancedCode) is accepted: it was built by R1-checked literals or a remote reply
							if !isSMTPErrorType(ti.TypeOf(rootExpr(s.Rhs[i]))) {
								bad = "the enhanced status can be overwritten by an unset (0.x.x) value from the error's field map"
							}
						}
					}
				}
			}
			return true
		})
		c.Hold("R7", "toSMTPErr:status-never-unset", ts.FI.Decl.Pos(), bad == "" && n >= 2, bad)
	}
}

// mentionsName: expression e mentions the same identifier chain as x (by text).
func mentionsName(e ast.Expr, x ast.Expr) bool {
	want := exprStr(x)
	found := false
	ast.Inspect(e, func(n ast.Node) bool {
		if ex, ok := n.(ast.Expr); ok && exprStr(ex) == want {
			found = true
		}
		return !found
	})
	return found
}

func rootExpr(e ast.Expr) ast.Expr {
	for {
		switch x := ast.Unparen(e).(type) {
		case *ast.SelectorExpr:
			e = x.X
		case *ast.CallExpr:
			if len(x.Args) == 1 {
				e = x.Args[0]
			} else {
				return x
			}
		case *ast.IndexExpr:
			e = x.X
		default:
			return x
		}
	}
}

// R8: where the original-recipient map is filled
func c18Alias(c *Check) {
	c.Rule("R8", "pipeline AddRcpt: whenever the address handed to a target differs from what the client sent, it is recorded in OriginalRcpts: the key is the very variable passed to the target's AddRcpt, the value the copy of the parameter taken before any modifier ran, and the only guard is their inequality", 2)
	r := c.need("R8", "internal/msgpipeline", "msgpipelineDelivery", "AddRcpt")
	if r == nil {
		return
	}
	info := r.Info
	isTgt := calling("~/framework/module.Delivery.AddRcpt")
	tgtPts := r.Calls(isTgt)
	var stores []Pt
	var storeKey, storeVal []ast.Expr
	for _, pt := range r.F.Points() {
		as, ok := pt.Node().(*ast.AssignStmt)
		if !ok || len(as.Lhs) != 1 || len(as.Rhs) != 1 {
			continue
		}
		if ix, ok := ast.Unparen(as.Lhs[0]).(*ast.IndexExpr); ok {
			if fv := fieldOf(info, ix.X); fv != nil && objName(fv) == "OriginalRcpts" {
				stores = append(stores, pt)
				storeKey = append(storeKey, ix.Index)
				storeVal = append(storeVal, as.Rhs[0])
			}
		}
	}
	if len(tgtPts) == 0 || len(stores) == 0 {
		c.Fail("R8", "AddRcpt:alias-record", r.FI.Decl.Pos(), "undecided: expected a target AddRcpt call and a store to OriginalRcpts")
		return
	}
	var rcptParam types.Object
	if ps := r.FI.Decl.Type.Params.List; len(ps) >= 2 && len(ps[1].Names) == 1 {
		rcptParam = info.Defs[ps[1].Names[0]]
	}
	firstRewrite := token.Pos(0)
	for _, call := range callsIn(r.FI.Decl.Body) {
		if methodName(call) == "RewriteRcpt" && (firstRewrite == 0 || call.Pos() < firstRewrite) {
			firstRewrite = call.Pos()
		}
	}
	rangeVals := map[token.Pos]bool{}
	for _, rs := range rangesIn(r.FI.Decl.Body, func(*ast.RangeStmt) bool { return true }) {
		if rs.Value != nil {
			rangeVals[rs.Value.Pos()] = true
		}
	}
	for i, tp := range tgtPts {
		call := r.CallAt(tp, isTgt)
		key := "AddRcpt:target" + itoa(i+1)
		if len(call.Args) < 2 {
			c.Fail("R8", key, call.Pos(), "undecided: unexpected arguments")
			continue
		}
		vx := objOf(info, call.Args[1])
		if vx == nil {
			c.Hold("R8", key, call.Pos(), false, "the address handed to the target is not a plain variable: "+exprStr(call.Args[1]))
			continue
		}
		msg := ""
		var orig types.Object
		var okStores []Pt
		for j, sp := range stores {
			if objOf(info, storeKey[j]) != vx {
				continue
			}
			o := objOf(info, storeVal[j])
			def, n := localDef(info, r.FI.Decl.Body, o)
			if o == nil || n != 1 || objOf(info, def) != rcptParam || rcptParam == nil || (firstRewrite != 0 && def.Pos() > firstRewrite) {
				msg = "the value recorded in OriginalRcpts (" + exprStr(storeVal[j]) + ") is not the copy of the recipient parameter taken before the first modifier ran"
				continue
			}
			if assignedBetween(info, r.FI.Decl.Body, rcptParam, r.FI.Decl.Body.Pos(), def.Pos()) {
				msg = "the recipient parameter is overwritten before its original value is saved"
				continue
			}
			orig = o
			okStores = append(okStores, sp)
		}
		if len(okStores) == 0 && msg == "" {
			msg = "no OriginalRcpts entry is keyed by the address handed to the target (" + vx.Name() + "): the report would name the rewritten address"
		}
		if msg == "" {
			world := r.F.World(func(atom ast.Expr) (bool, bool) {
				be, ok := ast.Unparen(atom).(*ast.BinaryExpr)
				if !ok || (be.Op != token.NEQ && be.Op != token.EQL) {
					return false, false
				}
				a, b := objOf(info, be.X), objOf(info, be.Y)
				if (a == orig && b == vx) || (a == vx && b == orig) {
					return be.Op == token.NEQ, true
				}
				return false, false
			})
			from := r.Entry()
			for _, pt := range r.F.Points() {
				if id, ok := pt.Node().(*ast.Ident); ok && rangeVals[id.Pos()] && objOf(info, id) == vx {
					from = append(from, pt)
				} else if pt.Node() != nil && assignsObj(info, pt.Node(), vx) {
					from = append(from, pt)
				}
			}
			if path, f := r.F.Reach(Query{From: from, Target: func(q Pt) bool { return q == tp }, Avoid: isPt(okStores), AvoidEdge: world}); f {
				msg = "a rewritten recipient (" + vx.Name() + " differs from " + orig.Name() + ") can reach the target without being recorded in OriginalRcpts – the failure report would name the alias target instead of the address the sender used: " + r.F.Describe(path)
			}
		}
		c.Hold("R8", key, call.Pos(), msg == "", msg)
	}
	c.Hold("R8", "AddRcpt:single-record-site", r.FI.Decl.Pos(), len(stores) >= 1, "")

	// the table is shared by everything that handles the message – a nested pipeline is started from the outer
	// pipeline's AddRcpt with the same metadata, right after the outer one recorded its entry: the table is created
	// where there is none and never replaced (a `= map[string]string{}` without the nil test wipes the entries of the
	// enclosing pipeline; results and failure reports for those recipients then carry the rewritten address)
	p := c.P
	nNew := 0
	p.AllFuncs(p.ServerPkgs(), func(fi *FuncInfo) {
		fInfo := fi.Info()
		var sites []*ast.AssignStmt
		ast.Inspect(fi.Decl.Body, func(x ast.Node) bool {
			if as, ok := x.(*ast.AssignStmt); ok {
				for _, l := range as.Lhs {
					if fv := fieldOf(fInfo, l); fv != nil && objName(fv) == "OriginalRcpts" {
						if o := fieldOwner(p, fv); o != nil && objName(o.Obj()) == "MsgMetadata" {
							sites = append(sites, as)
						}
					}
				}
			}
			return true
		})
		if len(sites) == 0 {
			return
		}
		rc := c.CtxOf(fi)
		for _, as := range sites {
			// a store into the field of a local VALUE copy of the structure (`cpy := *msgMeta; cpy.OriginalRcpts = …` in
			// DeepCopy) gives the copy a table of its own; the message's table is not touched
			private := false
			for _, l := range as.Lhs {
				if sel, isSel := ast.Unparen(l).(*ast.SelectorExpr); isSel {
					if v, isVar := objOf(fInfo, sel.X).(*types.Var); isVar && !v.IsField() && v.Parent() != nil && v.Pkg() != nil && v.Parent() != v.Pkg().Scope() {
						if _, isStruct := v.Type().Underlying().(*types.Struct); isStruct {
							private = true
						}
					}
				}
			}
			if private {
				continue
			}
			nNew++
			pt, ok := rc.F.PtOfNode(as)
			if !ok {
				c.Hold("R8", refName(fi.Obj)+":table-created"+itoa(nNew), as.Pos(), false, "undecided: the store was not found in the flow graph")
				continue
			}
			avoid := rc.F.AvoidImplying(func(atom ast.Expr) (bool, bool) {
				if be, isBE := ast.Unparen(atom).(*ast.BinaryExpr); isBE && (be.Op == token.EQL || be.Op == token.NEQ) && isNilIdent(fInfo, be.Y) {
					if fv := fieldOf(fInfo, be.X); fv != nil && objName(fv) == "OriginalRcpts" {
						return be.Op == token.EQL, true // remove the edges on which the table is known to be missing
					}
				}
				return false, false
			})
			path, found := rc.F.Reach(Query{From: rc.Entry(), Inclusive: true, Target: func(q Pt) bool { return q == pt }, AvoidEdge: avoid})
			c.Hold("R8", refName(fi.Obj)+":table-created"+itoa(nNew), as.Pos(), !found, "the original-recipient table is replaced although one exists (the store is not under `== nil`): entries recorded by an enclosing pipeline or an earlier stage for this message are lost, per-recipient results and failure reports carry the rewritten address: "+rc.F.Describe(path))
		}
	})
}

// R9: the report's format and the way it is submitted agree
func c18Format(c *Check) {
	c.Rule("R9", "the internationalised-format flag given to the report generator is the flag the report is submitted with (SMTPOpts.UTF8 of the bounce), both the failed message's own SMTPUTF8 option: an RFC 6533 report is never submitted as a plain one", 1)
	r := c.need("R9", queueRel, "Queue", "emitDSN")
	if r == nil {
		return
	}
	info := r.Info
	var gen *ast.CallExpr
	var sub ast.Expr
	ast.Inspect(r.FI.Decl.Body, func(n ast.Node) bool {
		switch x := n.(type) {
		case *ast.CallExpr:
			if isCall(info, x, "~/internal/dsn.GenerateDSN") {
				gen = x
			}
		case *ast.CompositeLit:
			if typeIs(info.TypeOf(x), "github.com/emersion/go-smtp", "MailOptions") {
				for _, el := range x.Elts {
					if kv, ok := el.(*ast.KeyValueExpr); ok {
						if id, ok := kv.Key.(*ast.Ident); ok && id.Name == "UTF8" {
							sub = kv.Value
						}
					}
				}
			}
		}
		return true
	})
	if gen == nil || len(gen.Args) < 1 {
		c.Fail("R9", "emitDSN:format-flag", r.FI.Decl.Pos(), "undecided: no call of the report generator")
		return
	}
	resolve := func(e ast.Expr) (string, types.Object) {
		e = ast.Unparen(e)
		if o, ok := objOf(info, e).(*types.Var); ok && !o.IsField() && localIn(r.FI.Decl.Body, o) {
			if def, n := localDef(info, r.FI.Decl.Body, o); n == 1 && def != nil {
				return exprStr(def), nil
			}
			return "", o
		}
		return exprStr(e), nil
	}
	msg := ""
	ga, go_ := resolve(gen.Args[0])
	isMsgFlag := func(s string) bool {
		return len(s) > len(".SMTPOpts.UTF8") && s[len(s)-len(".SMTPOpts.UTF8"):] == ".SMTPOpts.UTF8"
	}
	switch {
	case sub == nil:
		msg = "the bounce is submitted without the SMTPUTF8 option of the failed message (an RFC 6533 report would be submitted as a plain message)"
	default:
		sa, so := resolve(sub)
		switch {
		case go_ != nil || so != nil:
			if go_ != so || assignedBetween(info, r.FI.Decl.Body, go_, gen.Pos(), sub.Pos()) {
				msg = "the format flag (" + exprStr(gen.Args[0]) + ") is computed separately from the flag the report is submitted with (" + exprStr(sub) + "): the report can be generated in RFC 6533 form and submitted as a plain message (or the reverse)"
			}
		case ga != sa:
			msg = "the report is generated with " + ga + " but submitted with " + sa
		case !isMsgFlag(ga):
			msg = "the format flag is not the failed message's SMTPUTF8 option: " + ga
		}
	}
	c.Hold("R9", "emitDSN:format-flag", gen.Pos(), msg == "", msg)
}

// R10: the bounce transaction itself
func c18Bounce(c *Check) {
	c.Rule("R10", "emitDSN runs the bounce as a proper transaction: the pipeline is used only when configured; a failure to generate the id or the report stops it; after a successful Start the delivery is closed exactly once on every path – committed only after AddRcpt and Body succeeded, aborted otherwise – and never used after a failed Start", 5)
	r := c.need("R10", queueRel, "Queue", "emitDSN")
	if r == nil {
		return
	}
	info := r.Info
	isStart := func(info *types.Info, call *ast.CallExpr) bool {
		return qname(callee(info, call)) == modulePkg+".DeliveryTarget.Start"
	}
	starts := r.Calls(isStart)
	if len(starts) != 1 {
		c.Fail("R10", "emitDSN:start", r.FI.Decl.Pos(), "undecided: expected exactly one Start of the bounce pipeline")
		return
	}
	startPt := starts[0]
	startCall := r.CallAt(startPt, isStart)
	// (1) nil pipeline
	wNil := r.F.World(func(atom ast.Expr) (bool, bool) {
		if be, ok := ast.Unparen(atom).(*ast.BinaryExpr); ok && (be.Op == token.EQL || be.Op == token.NEQ) && isNilIdent(info, be.Y) && isField(info, be.X, "Queue", "dsnPipeline") {
			return be.Op == token.EQL, true
		}
		return false, false
	})
	p1, f1 := r.F.Reach(Query{From: r.Entry(), Inclusive: true, Target: isPt(starts), AvoidEdge: wNil})
	c.Hold("R10", "emitDSN:pipeline-configured", r.Pos(startPt), !f1, "the bounce pipeline is used although none is configured (nil dereference in the delivery goroutine): "+r.F.Describe(p1))
	// (2) generation errors stop the bounce
	gen := r.Calls(calling("~/framework/module.GenerateMsgID", "~/internal/dsn.GenerateDSN"))
	msg := ""
	if len(gen) < 2 {
		msg = "undecided: expected the generation of the message id and of the report"
	}
	for _, gp := range gen {
		call := r.CallAt(gp, calling("~/framework/module.GenerateMsgID", "~/internal/dsn.GenerateDSN"))
		if found, w, decided := r.OnErr(gp, call, false, isPt(starts), nil); !decided {
			msg = "the error of " + exprStr(call.Fun) + " is dropped"
		} else if found {
			msg = "after " + exprStr(call.Fun) + " failed the bounce is still submitted (without a valid id / with a truncated report): " + w
		}
	}
	c.Hold("R10", "emitDSN:generation-errors-stop", r.FI.Decl.Pos(), msg == "", msg)
	// (3) typestate of the bounce delivery
	objs := map[types.Object]bool{}
	if as, ok := startPt.Node().(*ast.AssignStmt); ok && len(as.Lhs) == 2 {
		if o := objOf(info, as.Lhs[0]); o != nil {
			objs[o] = true
		}
	}
	errObj := errVarAssigned(info, startPt.Node(), startCall)
	if len(objs) == 0 || errObj == nil {
		c.Fail("R10", "emitDSN:delivery", r.Pos(startPt), "undecided: the result of Start is not kept")
		return
	}
	on := func(names ...string) func(Pt) bool {
		return func(pt Pt) bool {
			for _, call := range callsAt(pt.Node()) {
				m := callOn(info, call, objs)
				for _, n := range names {
					if m == n {
						return true
					}
				}
			}
			// deferred closures run at exit: a defer statement is not the call
			return false
		}
	}
	anyOn := func(pt Pt) bool {
		if _, isDefer := pt.Node().(*ast.DeferStmt); isDefer {
			return false
		}
		for _, call := range callsAt(pt.Node()) {
			if callOn(info, call, objs) != "" {
				return true
			}
		}
		return false
	}
	p2, f2 := r.F.ReachRefined(startPt, errObj, false, false, anyOn, nil)
	c.Hold("R10", "emitDSN:no-use-after-failed-start", r.Pos(startPt), !f2, "the bounce delivery is used although Start failed (nil dereference): "+r.F.Describe(p2))
	// Commit only after successful AddRcpt and Body: on the error edge of either, Commit is unreachable
	commits := r.F.Find(func(n ast.Node) bool {
		if _, isDefer := n.(*ast.DeferStmt); isDefer {
			return false
		}
		return on("Commit")(ptOfNode(r.F, n))
	})
	msg = ""
	if len(commits) == 0 {
		msg = "the bounce is never committed (no failure report is ever delivered)"
	}
	for _, stage := range []string{"AddRcpt", "Body"} {
		pts := r.F.Find(func(n ast.Node) bool {
			if _, isDefer := n.(*ast.DeferStmt); isDefer {
				return false
			}
			return on(stage)(ptOfNode(r.F, n))
		})
		if len(pts) == 0 {
			msg = "the bounce transaction has no " + stage + " stage"
		}
		for _, sp := range pts {
			var call *ast.CallExpr
			for _, cc := range callsAt(sp.Node()) {
				if callOn(info, cc, objs) == stage {
					call = cc
				}
			}
			eo := errVarAssigned(info, sp.Node(), call)
			if eo == nil {
				msg = "the error of the bounce's " + stage + " is dropped"
				continue
			}
			if path, f := r.F.ReachRefined(sp, eo, false, false, isPt(commits), nil); f {
				msg = "the bounce is committed although its " + stage + " failed: " + r.F.Describe(path)
			}
			// and on success the transaction goes on to the next stage (it is not given up)
			next, nextName := commits, "Commit"
			if stage == "AddRcpt" {
				nextName = "Body"
				next = r.F.Find(func(n ast.Node) bool {
					if _, isDefer := n.(*ast.DeferStmt); isDefer {
						return false
					}
					return on("Body")(ptOfNode(r.F, n))
				})
			}
			if path, f := r.F.ReachRefined(sp, eo, true, false, r.F.IsExitPt, isPt(next)); f {
				msg = "after a successful " + stage + " the bounce can end without reaching " + nextName + " (the failure report is silently dropped): " + r.F.Describe(path)
			}
		}
	}
	c.Hold("R10", "emitDSN:commit-after-success-only", r.FI.Decl.Pos(), msg == "", msg)
	// every failure after Start ends in Abort: directly, or through the deferred clean-up that tests the shared error
	// variable (the defer is registered after Start succeeded and aborts when err != nil)
	aborts := 0
	ast.Inspect(r.FI.Decl.Body, func(n ast.Node) bool {
		if call, ok := n.(*ast.CallExpr); ok && callOn(info, call, objs) == "Abort" {
			aborts++
		}
		return true
	})
	c.Hold("R10", "emitDSN:abort-exists", r.FI.Decl.Pos(), aborts >= 1, "a bounce transaction that fails after Start is never aborted (the downstream delivery stays open)")
	// Commit ends the delivery whatever its outcome (the pipeline's Commit commits or aborts every target delivery; the
	// SMTP session does not abort after a Commit attempt either): the error of Commit is not the variable whose non-nil
	// value makes the deferred clean-up call Abort – a second close of a target.remote delivery returns its connections
	// to the pool a second time and releases its permits twice
	{
		var cleanupVars []types.Object
		ast.Inspect(r.FI.Decl.Body, func(n ast.Node) bool {
			d, ok := n.(*ast.DeferStmt)
			if !ok {
				return true
			}
			lit, ok := d.Call.Fun.(*ast.FuncLit)
			if !ok {
				return true
			}
			hasAbort := false
			for _, call := range callsIn(lit.Body) {
				if callOn(info, call, objs) == "Abort" {
					hasAbort = true
				}
			}
			if !hasAbort {
				return true
			}
			ast.Inspect(lit.Body, func(x ast.Node) bool {
				if is, isIf := x.(*ast.IfStmt); isIf {
					ast.Inspect(is.Cond, func(y ast.Node) bool {
						if id, isID := y.(*ast.Ident); isID {
							if v, isVar := info.Uses[id].(*types.Var); isVar && isErrorType(v.Type()) && !posIn(lit, v.Pos()) {
								cleanupVars = append(cleanupVars, v)
							}
						}
						return true
					})
				}
				return true
			})
			return true
		})
		msgC := ""
		for _, cp := range commits {
			var call *ast.CallExpr
			for _, cc := range callsAt(cp.Node()) {
				if callOn(info, cc, objs) == "Commit" {
					call = cc
				}
			}
			eo := errVarAssigned(info, cp.Node(), call)
			for _, v := range cleanupVars {
				if eo != nil && eo == v {
					// unless the variable is cleared again before the function returns on that edge
					if path, f := r.F.ReachRefined(cp, eo, false, false, r.F.IsExitPt, func(q Pt) bool { return q.Node() != nil && q != cp && assignsObj(info, q.Node(), eo) }); f {
						msgC = "the error of the bounce's Commit is kept in " + v.Name() + ", the variable the deferred clean-up tests before it calls Abort (" + r.F.Describe(path) + "): a delivery whose Commit failed is aborted as well – the pipeline's Commit has already committed or aborted every target delivery, a second close of a target.remote delivery returns its connections to the pool twice (two later deliveries share one SMTP session) and gives its permits back twice"
					}
				}
			}
		}
		c.Hold("R10", "emitDSN:no-abort-after-commit", r.FI.Decl.Pos(), msgC == "", msgC)
	}
	// the deferred clean-up aborts exactly when the shared error variable is set: never after a successful Commit,
	// always after a failed stage
	ast.Inspect(r.FI.Decl.Body, func(n ast.Node) bool {
		d, ok := n.(*ast.DeferStmt)
		if !ok {
			return true
		}
		fl, ok := d.Call.Fun.(*ast.FuncLit)
		if !ok {
			return true
		}
		hasAbort := false
		for _, call := range callsIn(fl.Body) {
			if callOn(info, call, objs) == "Abort" {
				hasAbort = true
			}
		}
		if !hasAbort {
			return true
		}
		lf := c.P.FlowOf(info, fl.Body, "emitDSN$cleanup")
		abortPts := lf.Find(func(x ast.Node) bool {
			for _, call := range callsAt(x) {
				if callOn(info, call, objs) == "Abort" {
					return true
				}
			}
			return false
		})
		w := func(failed bool) func(b *cfgBlock, i int) bool {
			return lf.World(func(atom ast.Expr) (bool, bool) {
				if ns, ok := nilTest(info, atom, errObj); ok {
					return (ns == 1) == failed, true
				}
				return false, false
			})
		}
		m := ""
		if pth, f := lf.Reach(Query{From: []Pt{lf.Entry()}, Inclusive: true, Target: isPt(abortPts), AvoidEdge: w(false)}); f {
			m = "the clean-up aborts the bounce although no stage failed (a committed report is aborted): " + lf.Describe(pth)
		} else if pth, f := lf.Reach(Query{From: []Pt{lf.Entry()}, Inclusive: true, Target: lf.IsExitPt, Avoid: isPt(abortPts), AvoidEdge: w(true)}); f {
			m = "after a failed stage the clean-up does not abort the bounce (the downstream delivery stays open): " + lf.Describe(pth)
		}
		c.Hold("R10", "emitDSN:cleanup-aborts-iff-failed", d.Pos(), m == "", m)
		return false
	})
}

// R11: a failure report is only produced if it can be serialised. The Diagnostic-Code field carries the text of the
// last error – text a remote server supplied. A header field value may contain neither CR nor LF (textproto.WriteHeader
// refuses it, GenerateDSN fails, emitDSN logs and the original is removed: no report at all for any of the failed
// recipients). The text therefore passes a replacement that covers the two characters individually: a replacer that
// knows "\r\n" and "\n" lets a lone CR through – `550 5.1.1 foo\rbar` from a remote MX suppresses the bounce.
func c18SingleLine(c *Check) {
	c.Rule("R11", "dsn.RecipientInfo.WriteTo: every text that goes into Diagnostic-Code passes a replacement whose patterns include the single characters CR and LF", 2)
	r := c.need("R11", "internal/dsn", "RecipientInfo", "WriteTo")
	if r == nil {
		return
	}
	p := c.P
	info := r.Info
	// replacement patterns applied by an expression (ReplaceAll nesting, or a strings.Replacer resolved to its NewReplacer call)
	var patterns func(e ast.Expr, depth int) map[string]bool
	patterns = func(e ast.Expr, depth int) map[string]bool {
		out := map[string]bool{}
		if depth > 4 {
			return out
		}
		ast.Inspect(e, func(x ast.Node) bool {
			call, ok := x.(*ast.CallExpr)
			if !ok {
				return true
			}
			if isCall(info, call, "strings.ReplaceAll", "strings.Replace") && len(call.Args) >= 3 {
				if sv, ok := constString(info, call.Args[1]); ok {
					out[sv] = true
				}
			}
			if isCall(info, call, "strings.Replacer.Replace") {
				// the replacer: a package-level or local variable initialised with NewReplacer
				if o := objOf(info, callRecv(call)); o != nil {
					for _, f := range r.FI.Pkg.Syntax {
						ast.Inspect(f, func(y ast.Node) bool {
							var vals []ast.Expr
							switch d := y.(type) {
							case *ast.ValueSpec:
								for i, nm := range d.Names {
									if info.Defs[nm] == o && i < len(d.Values) {
										vals = append(vals, d.Values[i])
									}
								}
							case *ast.AssignStmt:
								for i, l := range d.Lhs {
									if objOf(info, l) == o && i < len(d.Rhs) {
										vals = append(vals, d.Rhs[i])
									}
								}
							}
							for _, v := range vals {
								if nc, ok := ast.Unparen(v).(*ast.CallExpr); ok && isCall(info, nc, "strings.NewReplacer") {
									for i := 0; i+1 < len(nc.Args); i += 2 {
										if sv, ok := constString(info, nc.Args[i]); ok {
											out[sv] = true
										}
									}
								}
							}
							return true
						})
					}
				}
			}
			return true
		})
		return out
	}
	n := 0
	ast.Inspect(r.FI.Decl.Body, func(x ast.Node) bool {
		call, ok := x.(*ast.CallExpr)
		if !ok || methodName(call) != "Add" || len(call.Args) != 2 {
			return true
		}
		if k, ok := constString(info, call.Args[0]); !ok || k != "Diagnostic-Code" {
			return true
		}
		n++
		val := call.Args[1]
		pats := patterns(val, 0)
		// locals used in the value: their definitions count too
		ast.Inspect(val, func(y ast.Node) bool {
			if id, ok := y.(*ast.Ident); ok {
				if v, isVar := info.Uses[id].(*types.Var); isVar && !v.IsField() {
					ast.Inspect(r.FI.Decl.Body, func(z ast.Node) bool {
						if as, ok := z.(*ast.AssignStmt); ok {
							for i, l := range as.Lhs {
								if objOf(info, l) == types.Object(v) && i < len(as.Rhs) {
									for k := range patterns(as.Rhs[i], 1) {
										pats[k] = true
									}
								}
							}
						}
						return true
					})
				}
			}
			return true
		})
		msg := ""
		if !pats["\r"] || !pats["\n"] {
			var have []string
			for k := range pats {
				have = append(have, strconv.Quote(k))
			}
			sort.Strings(have)
			msg = "the text put into Diagnostic-Code is not cleared of every CR and every LF (patterns replaced: " + strings.Join(have, ", ") + "): a reply text with a lone CR or LF makes the header writer refuse the field, the report is not generated and the sender is never told"
		}
		c.Hold("R11", "RecipientInfo.WriteTo:diagnostic"+itoa(n), call.Pos(), msg == "", msg)
		return true
	})
	if n == 0 {
		c.Fail("R11", "RecipientInfo.WriteTo:diagnostic", r.FI.Decl.Pos(), "undecided: no Diagnostic-Code field is written")
	}
	_ = p
}
