package main

import (
	"go/ast"
	"go/token"
	"go/types"
	"sort"
	"strings"
)

// Lock discipline shared by the properties whose state lives behind a mutex (C03 session, C06 check runner,
// C11 limiters, C12 queue, C19 pool).
//
// lockBalance decides, for every function body (and every function literal separately) of the given packages and
// every mutex FIELD m that body locks or unlocks:
//
//	held-on-exit  a path from m.Lock() to a normal exit passes m.Unlock(), or a `defer m.Unlock()` statement, or the
//	              defer statement dominates the Lock; otherwise the next command on the session / the next delivery
//	              blocks forever on m.
//	unlock-unheld every m.Unlock() – immediate or deferred – is preceded by m.Lock() on every path from the entry, and
//	              no second Unlock is reachable from a first one without a Lock in between (sync: "unlock of unlocked
//	              mutex" is a fatal error, not a panic that the delivery goroutine's recover could absorb).
//
// A function may legitimately return holding a lock or release a lock its caller took; none does in the packages in
// scope today. Such a function would have to be listed in lockHandOver with a reason.
var lockHandOver = map[string]string{}

type lockSite struct {
	fn   string
	m    *types.Var
	body *ast.BlockStmt
}

func isLockCall(info *types.Info, call *ast.CallExpr) bool {
	return isCall(info, call, "sync.Mutex.Lock", "sync.RWMutex.Lock", "sync.RWMutex.RLock")
}
func isUnlockCall(info *types.Info, call *ast.CallExpr) bool {
	return isCall(info, call, "sync.Mutex.Unlock", "sync.RWMutex.Unlock", "sync.RWMutex.RUnlock")
}

// lockBalance returns the number of (body, mutex) pairs examined.
func lockBalance(c *Check, rule string, rels []string, only func(m *types.Var) bool) int {
	p := c.P
	n := 0
	for _, rel := range rels {
		pk := p.Pkg(rel)
		if pk == nil {
			c.Hold(rule, "pkg:"+rel, token.NoPos, false, "package not found")
			continue
		}
		info := pk.TypesInfo
		p.AllFuncs([]*packagesPkg{pk}, func(fi *FuncInfo) {
			if fi.Decl.Body == nil {
				return
			}
			bodies := []*ast.BlockStmt{fi.Decl.Body}
			ast.Inspect(fi.Decl.Body, func(x ast.Node) bool {
				if fl, ok := x.(*ast.FuncLit); ok {
					bodies = append(bodies, fl.Body)
				}
				return true
			})
			for bi, body := range bodies {
				// mutex fields this body (not nested literals, except deferred ones) operates on
				ms := map[*types.Var]bool{}
				f := p.FlowOf(info, body, fi.Name())
				for _, pt := range f.Points() {
					nd := pt.Node()
					for _, call := range append(callsAt(nd), deferredCalls(nd)...) {
						if isLockCall(info, call) || isUnlockCall(info, call) {
							if fv := fieldOf(info, callRecv(call)); fv != nil && (only == nil || only(fv)) {
								ms[fv] = true
							}
						}
					}
				}
				var mlist []*types.Var
				for m := range ms {
					mlist = append(mlist, m)
				}
				sort.Slice(mlist, func(i, j int) bool { return objName(mlist[i]) < objName(mlist[j]) })
				for _, m := range mlist {
					n++
					key := refName(fi.Obj)
					if bi > 0 {
						key += "$lit" + itoa(bi)
					}
					key += ":" + objName(m)
					c.SawFunc(fi.Name())
					if why, ok := lockHandOver[key]; ok {
						c.Except(key + ": " + why)
						continue
					}
					msg := lockBalanceOne(f, info, m)
					c.Hold(rule, key, body.Pos(), msg == "", msg)
				}
			}
		})
	}
	return n
}

func lockBalanceOne(f *Flow, info *types.Info, m *types.Var) string {
	on := func(pred func(*types.Info, *ast.CallExpr) bool, calls []*ast.CallExpr) bool {
		for _, call := range calls {
			if pred(info, call) && fieldOf(info, callRecv(call)) == m {
				return true
			}
		}
		return false
	}
	isLock := func(pt Pt) bool { return on(isLockCall, callsAt(pt.Node())) }
	isUnlock := func(pt Pt) bool { return on(isUnlockCall, callsAt(pt.Node())) }
	isDeferUnlock := func(pt Pt) bool { return on(isUnlockCall, deferredCalls(pt.Node())) }
	isDeferLock := func(pt Pt) bool { return on(isLockCall, deferredCalls(pt.Node())) }
	var locks, unlocks, dunlocks []Pt
	for _, pt := range f.Points() {
		switch {
		case isLock(pt):
			locks = append(locks, pt)
		case isUnlock(pt):
			unlocks = append(unlocks, pt)
		case isDeferUnlock(pt) && !isDeferLock(pt):
			dunlocks = append(dunlocks, pt)
		}
	}
	entry := []Pt{f.Entry()}
	// `if m.TryLock() { … }`: the lock is held exactly on the edge on which the call answered true
	isTry := func(atom ast.Expr) bool {
		call, ok := ast.Unparen(atom).(*ast.CallExpr)
		return ok && methodName(call) == "TryLock" && fieldOf(info, callRecv(call)) == m
	}
	tryTaken := f.AvoidImplying(func(atom ast.Expr) (bool, bool) {
		if isTry(atom) {
			return true, true
		}
		return false, false
	})
	nTry := 0
	for _, b := range f.G.Blocks {
		cond, isCase := f.Cond(b)
		if cond == nil || isCase || len(b.Succs) != 2 {
			continue
		}
		for si := 0; si < 2; si++ {
			if !tryTaken(b, si) {
				continue
			}
			nTry++
			start := Pt{b.Succs[si], 0}
			released := orPt(isUnlock, isDeferUnlock)
			if path, found := f.Reach(Query{From: []Pt{start}, Inclusive: true, Target: f.IsNormalExit, Avoid: released}); found {
				return "the function can return with " + objName(m) + " still locked after a successful TryLock: " + f.Describe(path)
			}
		}
	}
	// held-on-exit
	for _, l := range locks {
		released := orPt(isUnlock, isDeferUnlock)
		if path, found := f.Reach(Query{From: []Pt{l}, Target: f.IsNormalExit, Avoid: released}); found {
			// a defer registered before the lock on every path?
			dominated := false
			if len(dunlocks) > 0 {
				if _, f2 := f.Reach(Query{From: entry, Inclusive: true, Target: isPt([]Pt{l}), Avoid: isDeferUnlock}); !f2 {
					dominated = true
				}
			}
			if !dominated {
				return "the function can return with " + objName(m) + " still locked (everything that needs it next blocks forever): " + f.Describe(path)
			}
		}
	}
	// unlock-unheld
	for _, u := range append(append([]Pt{}, unlocks...), dunlocks...) {
		if path, found := f.Reach(Query{From: entry, Inclusive: true, Target: isPt([]Pt{u}), Avoid: isLock, AvoidEdge: tryTaken}); found {
			deferred := isDeferUnlock(u)
			if deferred {
				// `defer m.Unlock()` before `m.Lock()`: fine if the Lock follows on every path to an exit
				if _, f2 := f.Reach(Query{From: []Pt{u}, Target: f.IsExitPt, Avoid: isLock}); !f2 {
					continue
				}
			}
			return objName(m) + " is unlocked without having been locked (fatal error: unlock of unlocked mutex): " + f.Describe(path)
		}
	}
	for _, u := range unlocks {
		if path, found := f.Reach(Query{From: []Pt{u}, Target: isUnlock, Avoid: isLock, AvoidEdge: tryTaken}); found {
			return objName(m) + " can be unlocked twice in a row: " + f.Describe(path)
		}
		if len(dunlocks) > 0 {
			// an explicit unlock followed by an exit while a deferred unlock is pending
			for _, d := range dunlocks {
				if _, before := f.Reach(Query{From: []Pt{d}, Target: isPt([]Pt{u})}); before {
					if path, found := f.Reach(Query{From: []Pt{u}, Target: f.IsExitPt, Avoid: isLock}); found {
						return objName(m) + " is unlocked explicitly and again by the pending defer: " + f.Describe(path)
					}
				}
			}
		}
	}
	if len(locks) == 0 && nTry == 0 && len(unlocks)+len(dunlocks) > 0 {
		return objName(m) + " is unlocked here but never locked"
	}
	return ""
}

// locksetRule: every access (read or write, through a selector) to one of the protected fields inside the package's
// non-test functions happens while `lock` is held – by the function itself or by every caller of an unexported
// helper (locksHeldAtIP). exempt names functions (reference names) with the reason they may touch the fields
// without the lock. One obligation per function and field. Returns the number of accesses seen.
func locksetRule(c *Check, rule string, rel string, structName, lockName string, protected []string, exempt map[string]string) int {
	p := c.P
	pk := p.Pkg(rel)
	if pk == nil {
		c.Hold(rule, "pkg:"+rel, token.NoPos, false, "package not found")
		return 0
	}
	info := pk.TypesInfo
	var lockF *types.Var
	prot := map[*types.Var]bool{}
	for _, tn := range pk.Types.Scope().Names() {
		o, isT := pk.Types.Scope().Lookup(tn).(*types.TypeName)
		if !isT || objName(o) != structName {
			continue
		}
		if st, ok := o.Type().Underlying().(*types.Struct); ok {
			for i := 0; i < st.NumFields(); i++ {
				f := st.Field(i)
				if objName(f) == lockName {
					lockF = f
				}
				for _, pn := range protected {
					if objName(f) == pn {
						prot[f] = true
					}
				}
			}
		}
	}
	if lockF == nil || len(prot) != len(protected) {
		c.Hold(rule, structName+":fields", token.NoPos, false, "undecided: the mutex or a protected field of "+structName+" was not found")
		return 0
	}
	n := 0
	p.AllFuncs([]*packagesPkg{pk}, func(fi *FuncInfo) {
		if fi.Decl.Body == nil || strings.HasSuffix(p.Fset.Position(fi.Decl.Pos()).Filename, "_test.go") {
			return
		}
		bad := map[*types.Var]token.Pos{}
		seen := map[*types.Var]bool{}
		ast.Inspect(fi.Decl.Body, func(x ast.Node) bool {
			sel, ok := x.(*ast.SelectorExpr)
			if !ok {
				return true
			}
			fv := fieldOf(info, sel)
			if fv == nil || !prot[fv] {
				return true
			}
			n++
			seen[fv] = true
			if !locksHeldAtNode(p, fi, sel)[lockF] {
				if _, has := bad[fv]; !has {
					bad[fv] = sel.Pos()
				}
			}
			return true
		})
		var fl []*types.Var
		for fv := range seen {
			fl = append(fl, fv)
		}
		sort.Slice(fl, func(i, j int) bool { return objName(fl[i]) < objName(fl[j]) })
		for _, fv := range fl {
			key := refName(fi.Obj) + ":" + objName(fv)
			c.SawFunc(fi.Name())
			if why, ok := exempt[refName(fi.Obj)]; ok {
				if strings.HasPrefix(why, "callback:") {
					// a synchronous callback object: every value of the receiver type is built as a call argument at a
					// point where the lock is held, so its methods run inside that critical section
					msg := callbackBuiltUnderLock(p, pk, fi, lockF)
					c.Hold(rule, key, fi.Decl.Pos(), msg == "", msg)
					continue
				}
				c.Except(rule + " " + key + ": " + why)
				continue
			}
			pos, isBad := bad[fv]
			if !isBad {
				pos = fi.Decl.Pos()
			}
			c.Hold(rule, key, pos, !isBad, objName(fv)+" is accessed without holding "+lockName+" (a concurrent command / delivery sees or makes a torn update)")
		}
	})
	return n
}

func callbackBuiltUnderLock(p *Prog, pk *packagesPkg, fi *FuncInfo, lockF *types.Var) string {
	sig := fi.Obj.Type().(*types.Signature)
	if sig.Recv() == nil || namedOf(sig.Recv().Type()) == nil {
		return "undecided: not a method"
	}
	T := namedOf(sig.Recv().Type())
	info := pk.TypesInfo
	n := 0
	msg := ""
	p.AllFuncs([]*packagesPkg{pk}, func(g *FuncInfo) {
		if g.Decl.Body == nil || strings.HasSuffix(p.Fset.Position(g.Decl.Pos()).Filename, "_test.go") {
			return
		}
		var stack []ast.Node
		ast.Inspect(g.Decl.Body, func(x ast.Node) bool {
			if x == nil {
				stack = stack[:len(stack)-1]
				return true
			}
			stack = append(stack, x)
			cl, ok := x.(*ast.CompositeLit)
			if !ok || namedOf(info.TypeOf(cl)) != T {
				return true
			}
			n++
			isArg := false
			if len(stack) >= 2 {
				if call, ok := stack[len(stack)-2].(*ast.CallExpr); ok {
					for _, a := range call.Args {
						if a == ast.Expr(cl) {
							isArg = true
						}
					}
				}
			}
			if !isArg {
				// … or kept in a local that is only ever handed to calls made under the lock
				if as, isAs := stack[len(stack)-2].(*ast.AssignStmt); len(stack) >= 2 && isAs && len(as.Lhs) == 1 && len(as.Rhs) == 1 {
					if lv, isVar := objOf(info, as.Lhs[0]).(*types.Var); isVar && !lv.IsField() {
						okUses := locksHeldAtNode(p, g, cl)[lockF]
						var st2 []ast.Node
						ast.Inspect(g.Decl.Body, func(y ast.Node) bool {
							if y == nil {
								st2 = st2[:len(st2)-1]
								return true
							}
							st2 = append(st2, y)
							id, isID := y.(*ast.Ident)
							if !isID || info.Uses[id] != types.Object(lv) {
								return true
							}
							argOK := false
							if len(st2) >= 2 {
								if call, isCall := st2[len(st2)-2].(*ast.CallExpr); isCall {
									for _, a := range call.Args {
										if a == ast.Expr(id) {
											argOK = locksHeldAtNode(p, g, call)[lockF]
										}
									}
								}
							}
							okUses = okUses && argOK
							return true
						})
						if okUses {
							return true
						}
					}
				}
				msg = "a " + T.Obj().Name() + " is built at " + p.Pos(cl.Pos()) + " other than as a call argument (its callbacks may run outside the critical section)"
			} else if !locksHeldAtNode(p, g, cl)[lockF] {
				msg = "a " + T.Obj().Name() + " is handed out at " + p.Pos(cl.Pos()) + " without " + objName(lockF) + " held; its callback touches the protected state"
			}
			return true
		})
	})
	if n == 0 && msg == "" {
		msg = "undecided: no value of " + T.Obj().Name() + " is built in the package"
	}
	return msg
}
