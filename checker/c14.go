package main

import (
	"go/ast"
	"go/constant"
	"go/token"
	"go/types"
	"sort"
	"strings"

	"golang.org/x/tools/go/ssa"
)

func init() { register("C14", checkC14) }

const (
	authRel      = "internal/auth"
	passTableRel = "internal/auth/pass_table"
)

func checkC14(c *Check) {
	p := c.P
	c.explain = "C14 (password authentication), structural part: every key the credential table is read, written or deleted under is the result of one normaliser applied to the caller-supplied name; a stored hash tag always has a verifier and equals the key that selected the hash function; the provider reports success only as the result of the selected verifier; " +
		"the user-name mapping is applied exactly once on every way into a provider (PLAIN, LOGIN, direct AUTH PLAIN of the endpoints) and both mechanisms report the same identity class; a name the configured map does not translate is refused; a differing authorization identity is refused before authentication; the submission gate dominates the start of a transaction and the authenticated user is recorded only after success."
	c.notCover = "'most recently set password' over histories (table backend semantics), hash function correctness, PRECIS behaviour on specific strings."

	c14Keys(c)
	c14Hashes(c)
	c14Verify(c)
	c14StoredHash(c)
	c14WholePassword(c)
	c14Surroundings(c)
	c14SchemeSiblings(c)
	c14SameStatementArgs(c, "R3g")
	c.Rule("R3h", "a credentials file is re-read whenever the file on disk is not the one loaded: table.file's reload stamp is the modification time of the file it read (C15.R12)", 1)
	importRules(c, "C15", func(s *Check) { c15FileStampIsMTime(s, "R12") }, map[string]bool{"R12": true}, "R3h")
	c14RegexpNoNewGroup(c, "R5b")
	c14FullMatchAnchorsWhole(c, "R5c")
	c14KeyColumnUnique(c, "R8")
	c14PasswordHashedWhole(c, "R9")
	c14AccountMapInheritedEverywhere(c, "R10")
	c14BcryptLengthChecked(c, "R11")
	c14Providers(c)
	c14Mapping(c)
	c14Gate(c)
	_ = p
}

// R1
func c14Keys(c *Check) {
	p := c.P
	c.Rule("R1", "pass_table: every key passed to the table (Lookup / SetKey / RemoveKey) is the first result of one and the same normaliser applied to the user-name parameter", 5)
	pk := p.Pkg(passTableRel)
	if pk == nil {
		c.Fail("R1", "package", token.NoPos, "anchor unresolved")
		return
	}
	normalisers := map[string]bool{}
	pc := newProv(p)
	n := 0
	for _, f := range p.MaddyFuncs() {
		if f.Pkg == nil || f.Pkg.Pkg.Path() != pk.PkgPath {
			continue
		}
		for _, b := range f.Blocks {
			for _, ins := range b.Instrs {
				ci, ok := ins.(ssa.CallInstruction)
				if !ok || !ci.Common().IsInvoke() {
					continue
				}
				m := ci.Common().Method
				var key ssa.Value
				switch m.Name() {
				case "Lookup":
					if len(ci.Common().Args) == 2 {
						key = ci.Common().Args[1]
					}
				case "SetKey", "RemoveKey":
					if len(ci.Common().Args) >= 1 {
						key = ci.Common().Args[0]
					}
				}
				if key == nil || !isStringType(key.Type()) {
					continue
				}
				if !typeIsIface(ci.Common().Value.Type(), modulePkg, "Table", "MutableTable") {
					continue
				}
				n++
				c.SawFunc(f.String())
				name := f.Name() + ":" + m.Name()
				msg := c14JudgeKey(p, pc, key, normalisers, 0)
				c.Hold("R1", name, ins.Pos(), msg == "", msg+" (account management and authentication would address different rows: a password changed through another spelling of the name leaves the old one valid)")
			}
		}
	}
	if n < 5 {
		c.Fail("R1", "pass_table:table-uses", token.NoPos, "undecided: expected at least five table operations")
	}
	var ns []string
	for k := range normalisers {
		ns = append(ns, k)
	}
	sort.Strings(ns)
	c.Hold("R1", "pass_table:one-normaliser", token.NoPos, len(ns) == 1, "different operations normalise the user name with different functions: "+strings.Join(ns, ", "))
	// … and a normaliser written in the package itself normalises on every path: what it returns as the key is the
	// result of a PRECIS profile applied to its parameter, never the parameter as given (a fast path for names "with
	// nothing to case-map" skips width mapping, NFC and the rejection of invalid names: the same account gets two keys)
	for _, nm := range pk.Types.Scope().Names() {
		fo, isFn := pk.Types.Scope().Lookup(nm).(*types.Func)
		if !isFn || !normalisers[qname(fo)] {
			continue
		}
		fi := p.DeclOf(fo) // also a helper the reference tree did not have (read in place elsewhere)
		if fi == nil || fi.Decl.Body == nil {
			continue
		}
		info := fi.Info()
		sig := fi.Obj.Type().(*types.Signature)
		if sig.Params().Len() < 1 || sig.Results().Len() != 2 {
			continue
		}
		c.SawFunc(fi.Name())
		prm := sig.Params().At(0)
		r := c.CtxOf(fi)
		isProfile := func(e ast.Expr) bool {
			call, ok := ast.Unparen(e).(*ast.CallExpr)
			if !ok {
				return false
			}
			fn := callee(info, call)
			return fn != nil && fn.Pkg() != nil && strings.HasSuffix(fn.Pkg().Path(), "text/secure/precis")
		}
		bad := ""
		for _, b := range r.F.G.Blocks {
			q := Pt{b, len(b.Nodes)}
			_, ret := r.F.Exit(q)
			if ret == nil || len(ret.Results) == 0 {
				continue
			}
			if len(ret.Results) == 1 {
				if !isProfile(ret.Results[0]) {
					bad = "returns " + exprStr(ret.Results[0])
				}
				continue
			}
			if !isNilIdent(info, ret.Results[1]) {
				if v, isVar := objOf(info, ret.Results[1]).(*types.Var); !isVar || v.IsField() {
					continue // an error literal: a refusal
				}
			}
			res := ast.Unparen(ret.Results[0])
			if objOf(info, res) == types.Object(prm) {
				bad = "returns its parameter unchanged (line " + itoa(p.Fset.Position(ret.Pos()).Line) + ")"
				continue
			}
			if v, isVar := objOf(info, res).(*types.Var); isVar && !v.IsField() {
				defs, _ := r.ReachingDefs(v, q, nil)
				for _, d := range defs {
					if objOf(info, d) == types.Object(prm) {
						bad = "returns its parameter unchanged through " + v.Name()
					}
				}
			}
		}
		c.Hold("R1", "pass_table:"+refName(fi.Obj)+":always-normalises", fi.Decl.Pos(), bad == "", "the user-name normaliser "+refName(fi.Obj)+" "+bad+": names it considers already normal skip the PRECIS profile (width mapping, NFC, rejection of invalid names) – account management under a full-width or NFD spelling addresses another row than the login, which the endpoint has normalised: a changed password leaves the old one valid, a deleted account still authenticates")
	}
}

// c14JudgeKey: the key is the first result of a normaliser applied to a string parameter; a key that is itself a
// parameter of an unexported helper is judged at every call site of that helper.
func c14JudgeKey(p *Prog, pc *provCtx, key ssa.Value, normalisers map[string]bool, depth int) string {
	if prm, isP := key.(*ssa.Parameter); isP && depth < 3 {
		if bs := pc.paramBindings(prm); len(bs) > 0 {
			for _, b := range bs {
				if m := c14JudgeKey(p, pc, b.v, normalisers, depth+1); m != "" {
					return m
				}
			}
			return ""
		}
	}
	ex, ok := key.(*ssa.Extract)
	if !ok || ex.Index != 0 {
		return "the table key is not the result of the normaliser: " + describeVal(key)
	}
	call, ok := ex.Tuple.(*ssa.Call)
	if !ok {
		return "the table key is not the result of the normaliser"
	}
	fn := ssaCalleeName(&call.Call)
	normalisers[fn] = true
	// its string argument must be a parameter of the enclosing method
	for _, a := range call.Call.Args {
		if prm, isP := a.(*ssa.Parameter); isP && isStringType(prm.Type()) {
			return ""
		}
	}
	return "the normaliser is not applied to the caller-supplied user name"
}

func typeIsIface(t types.Type, pkg string, names ...string) bool {
	nt := namedOf(t)
	if nt == nil || nt.Obj().Pkg() == nil || nt.Obj().Pkg().Path() != pkg {
		return false
	}
	for _, n := range names {
		if objName(nt.Obj()) == n {
			return true
		}
	}
	return false
}

func describeVal(v ssa.Value) string {
	if prm, ok := v.(*ssa.Parameter); ok {
		return "raw parameter " + prm.Name()
	}
	return v.String()
}

// R2
func c14Hashes(c *Check) {
	p := c.P
	c.Rule("R2", "every hash algorithm that can be stored has a verifier; the tag written in front of a hash is the key that selected the hash function", 3)
	pk := p.Pkg(passTableRel)
	if pk == nil {
		return
	}
	info := pk.TypesInfo
	keysOf := func(name string) map[string]bool {
		out := map[string]bool{}
		obj := pk.Types.Scope().Lookup(name)
		if obj == nil {
			return out
		}
		for _, f := range pk.Syntax {
			ast.Inspect(f, func(n ast.Node) bool {
				switch x := n.(type) {
				case *ast.ValueSpec:
					for i, nm := range x.Names {
						if info.Defs[nm] == obj && i < len(x.Values) {
							if cl, ok := x.Values[i].(*ast.CompositeLit); ok {
								for _, el := range cl.Elts {
									if kv, ok := el.(*ast.KeyValueExpr); ok {
										if s, ok := constString(info, kv.Key); ok {
											out[s] = true
										}
									}
								}
							}
						}
					}
				case *ast.AssignStmt:
					for _, l := range x.Lhs {
						if ix, ok := l.(*ast.IndexExpr); ok && objOf(info, ix.X) == obj {
							if s, ok := constString(info, ix.Index); ok {
								out[s] = true
							}
						}
					}
				}
				return true
			})
		}
		return out
	}
	comp, ver := keysOf("HashCompute"), keysOf("HashVerify")
	missing := []string{}
	for k := range comp {
		if !ver[k] {
			missing = append(missing, k)
		}
	}
	sort.Strings(missing)
	c.HoldConst("R2", "HashCompute⊆HashVerify", token.NoPos, len(missing) == 0 && len(comp) >= 2, "hash algorithm(s) that can be stored but never verified: "+strings.Join(missing, ", "))
	// tag agreement in the two writers
	for _, fn := range []string{"CreateUserHash", "SetUserPassword"} {
		r := c.need("R2", passTableRel, "Auth", fn)
		if r == nil {
			continue
		}
		ri := r.Info
		msg := "no SetKey found"
		ast.Inspect(r.FI.Decl.Body, func(n ast.Node) bool {
			call, ok := n.(*ast.CallExpr)
			if !ok || methodName(call) != "SetKey" || len(call.Args) != 2 {
				return true
			}
			msg = ""
			// value = tag + ":" + hash  (tag expression, possibly folded into a constant "bcrypt:")
			parts := flattenConcat(call.Args[1])
			tag := ""
			var tagObj types.Object
			if len(parts) >= 2 {
				if s, ok := constString(ri, parts[0]); ok {
					tag = strings.TrimSuffix(s, ":")
				} else {
					tagObj = objOf(ri, parts[0])
				}
			}
			// the compute selector: HashCompute[X]
			var selConst string
			var selObj types.Object
			ast.Inspect(r.FI.Decl.Body, func(x ast.Node) bool {
				if ix, ok := x.(*ast.IndexExpr); ok {
					if o := objOf(ri, ix.X); o != nil && objName(o) == "HashCompute" {
						if s, ok := constString(ri, ix.Index); ok {
							selConst = s
						} else {
							selObj = objOf(ri, ix.Index)
						}
					}
				}
				return true
			})
			switch {
			case tagObj != nil && tagObj == selObj:
			case tag != "" && tag == selConst:
			default:
				msg = "the tag stored in front of the hash (" + tag + exprStrObj(tagObj) + ") is not the key that selected the hash function (" + selConst + exprStrObj(selObj) + "): the stored password can never be verified"
			}
			if tag != "" && !ver[tag] {
				msg = "the stored tag " + tag + " has no verifier"
			}
			return true
		})
		c.Hold("R2", fn+":tag", r.FI.Decl.Pos(), msg == "", msg)
	}
}

func exprStrObj(o types.Object) string {
	if o == nil {
		return ""
	}
	return o.Name()
}

func flattenConcat(e ast.Expr) []ast.Expr {
	if be, ok := ast.Unparen(e).(*ast.BinaryExpr); ok && be.Op == token.ADD {
		return append(flattenConcat(be.X), flattenConcat(be.Y)...)
	}
	return []ast.Expr{e}
}

// R3
func c14Verify(c *Check) {
	c.Rule("R3", "pass_table.AuthPlain reports success only as the result of the verifier selected by the stored tag, applied to the supplied password", 1)
	r := c.need("R3", passTableRel, "Auth", "AuthPlain")
	if r == nil {
		return
	}
	info := r.Info
	pw := paramObjs(r.FI)["password"]
	msg := ""
	nVerify := 0
	ast.Inspect(r.FI.Decl.Body, func(n ast.Node) bool {
		ret, ok := n.(*ast.ReturnStmt)
		if !ok || len(ret.Results) != 1 {
			return true
		}
		e := ast.Unparen(ret.Results[0])
		if isNilIdent(info, e) {
			msg = "authentication can succeed without any verification (return nil)"
			return true
		}
		if call, ok := e.(*ast.CallExpr); ok {
			// call of a function value taken from HashVerify[...]
			fo := objOf(info, call.Fun)
			if fo != nil {
				def, n := localDef(info, r.FI.Decl.Body, fo)
				if ix, ok := ast.Unparen(def).(*ast.IndexExpr); ok && n == 1 {
					if o := objOf(info, ix.X); o != nil && objName(o) == "HashVerify" {
						nVerify++
						if len(call.Args) < 1 || objOf(info, call.Args[0]) != pw || pw == nil {
							msg = "the verifier is not applied to the supplied password"
						}
						return true
					}
				}
			}
			if tv, ok := info.Types[e]; ok && isErrorType(tv.Type) {
				// error constructors (fmt.Errorf …) are fine: they are non-nil
				if isCall(info, call, "fmt.Errorf", "errors.New") {
					return true
				}
				msg = "a return value of AuthPlain comes from " + exprStr(call.Fun) + ", not from the selected verifier"
			}
		}
		return true
	})
	if nVerify == 0 && msg == "" {
		msg = "no return of the selected verifier's result"
	}
	// a nil verifier (unknown tag) is refused before the call
	c.Hold("R3", "Auth.AuthPlain", r.FI.Decl.Pos(), msg == "", msg)
}

// R3c: what is verified / stored
func c14StoredHash(c *Check) {
	c.Rule("R3c", "pass_table: AuthPlain verifies the second part of the hash it looked up, with the verifier selected by the first part of the same value; "+
		"CreateUserHash / SetUserPassword report success only after the table accepted the new value, the stored value is computed from the supplied password, and CreateUserHash cannot replace existing credentials", 5)
	// chase a local variable to its single definition
	if r := c.need("R3c", passTableRel, "Auth", "AuthPlain"); r != nil {
		info := r.Info
		body := r.FI.Decl.Body
		msg := "undecided: the verifier call was not found"
		ast.Inspect(body, func(n ast.Node) bool {
			ret, ok := n.(*ast.ReturnStmt)
			if !ok || len(ret.Results) != 1 {
				return true
			}
			call, ok := ast.Unparen(ret.Results[0]).(*ast.CallExpr)
			if !ok || len(call.Args) != 2 {
				return true
			}
			fo := objOf(info, call.Fun)
			if fo == nil {
				return true
			}
			def, nd := localDef(info, body, fo)
			sel, ok := ast.Unparen(def).(*ast.IndexExpr)
			if !ok || nd != 1 {
				return true
			}
			if o := objOf(info, sel.X); o == nil || objName(o) != "HashVerify" {
				return true
			}
			msg = ""
			// both indexes: parts[0] selects, parts[1] is verified (possibly through single-definition locals)
			at, _ := r.F.PtOfNode(ret)
			selIx, ok1 := ast.Unparen(r.resolveLocalAt(sel.Index, at)).(*ast.IndexExpr)
			argIx, ok2 := ast.Unparen(r.resolveLocalAt(call.Args[1], at)).(*ast.IndexExpr)
			if !ok1 || !ok2 || objOf(info, selIx.X) == nil || objOf(info, selIx.X) != objOf(info, argIx.X) {
				msg = "the verifier is not selected by, and applied to, the two parts of one and the same value"
				return false
			}
			i0, okA := constInt(info.Types[selIx.Index])
			i1, okB := constInt(info.Types[argIx.Index])
			if !okA || !okB || i0 != 0 || i1 != 1 {
				msg = "the tag must be part 0 and the verified hash part 1 of the stored value"
				return false
			}
			parts := objOf(info, argIx.X)
			pdef, np := localDef(info, body, parts)
			pc, ok := ast.Unparen(pdef).(*ast.CallExpr)
			if !ok || np != 1 || !isCall(info, pc, "strings.SplitN", "strings.Split", "strings.Cut") || len(pc.Args) < 2 {
				msg = "the verified value is not a split of the stored value"
				return false
			}
			hc, ok := ast.Unparen(resolveLocal(info, body, pc.Args[0])).(*ast.CallExpr)
			if !ok || methodName(hc) != "Lookup" || !isField(info, callRecv(hc), "Auth", "table") {
				msg = "the verified value is not the result of looking the key up in the credentials table"
				return false
			}
			return false
		})
		c.Hold("R3c", "Auth.AuthPlain:verifies-stored-hash", r.FI.Decl.Pos(), msg == "", msg)
	}
	for _, m := range []string{"CreateUserHash", "SetUserPassword"} {
		r := c.need("R3c", passTableRel, "Auth", m)
		if r == nil {
			continue
		}
		info := r.Info
		body := r.FI.Decl.Body
		setKey := func(info *types.Info, call *ast.CallExpr) bool {
			return isCall(info, call, "~/framework/module.MutableTable.SetKey")
		}
		msgs, n := r.SuccessOnlyFrom(setKey)
		msg := ""
		if n == 0 {
			msg = "undecided: no SetKey call"
		}
		for _, mm := range msgs {
			if mm != "" {
				msg = mm
			}
		}
		c.Hold("R3c", "Auth."+m+":success-only-after-SetKey", r.FI.Decl.Pos(), msg == "", msg)
		// the password parameter: second parameter
		sig := r.FI.Obj.Type().(*types.Signature)
		var pw types.Object
		if sig.Params().Len() >= 2 {
			pw = sig.Params().At(1)
		}
		msg = ""
		for _, pt := range r.Calls(setKey) {
			call := r.CallAt(pt, setKey)
			if len(call.Args) != 2 {
				msg = "undecided: SetKey shape"
				continue
			}
			// some identifier of the value expression is defined as HashCompute[...](…, password)
			fromPw := false
			ast.Inspect(call.Args[1], func(x ast.Node) bool {
				id, ok := x.(*ast.Ident)
				if !ok {
					return true
				}
				o := info.Uses[id]
				if o == nil {
					return true
				}
				def, nd := localDef(info, body, o)
				hc, ok := ast.Unparen(def).(*ast.CallExpr)
				if !ok || nd != 1 {
					return true
				}
				ix, ok := ast.Unparen(hc.Fun).(*ast.IndexExpr)
				if !ok {
					return true
				}
				if ho := objOf(info, ix.X); ho == nil || objName(ho) != "HashCompute" {
					return true
				}
				for _, a := range hc.Args {
					if pw != nil && objOf(info, a) == pw {
						fromPw = true
					}
				}
				return true
			})
			if !fromPw {
				msg = "the value stored for the account is not the hash of the supplied password"
			}
		}
		c.Hold("R3c", "Auth."+m+":stores-hash-of-password", r.FI.Decl.Pos(), msg == "", msg)
		if m == "CreateUserHash" {
			// existing credentials are not replaced
			look := func(info *types.Info, call *ast.CallExpr) bool {
				return methodName(call) == "Lookup" && len(call.Args) == 2
			}
			msg := "undecided: no lookup of the key before storing"
			for _, pt := range r.Calls(look) {
				as, ok := pt.Node().(*ast.AssignStmt)
				if !ok || len(as.Lhs) != 3 {
					continue
				}
				okObj := objOf(info, as.Lhs[1])
				if okObj == nil {
					continue
				}
				msg = ""
				if path, f := r.F.ReachRefined(pt, okObj, false, true, r.IsCallPt(setKey), nil); f {
					msg = "credentials that already exist can be replaced by 'create': " + r.F.Describe(path)
				}
			}
			c.Hold("R3c", "Auth."+m+":existing-not-replaced", r.FI.Decl.Pos(), msg == "", msg)
		}
	}
}

// R3b: the provider loop
func c14Providers(c *Check) {
	c.Rule("R3b", "SASLAuth.AuthPlain reports success only as the nil result of a configured credential provider's AuthPlain (never by default, e.g. when every provider answered 'unknown user')", 3)
	r := c.need("R3b", "internal/auth", "SASLAuth", "AuthPlain")
	if r == nil {
		return
	}
	msgs, n := r.SuccessOnlyFrom(calling("~/framework/module.PlainAuth.AuthPlain"))
	if n == 0 {
		c.Fail("R3b", "SASLAuth.AuthPlain:providers", r.FI.Decl.Pos(), "undecided: no call of a provider's AuthPlain found")
	}
	for i, m := range msgs {
		c.Hold("R3b", "SASLAuth.AuthPlain:return"+itoa(i+1), r.FI.Decl.Pos(), m == "", m)
	}
	// the same for every other provider of the server that decides by asking further providers (auth.plain_separate):
	// with an empty provider list a loop "remember the last error, return it" returns the zero value – success – for
	// any password
	prov := calling("~/framework/module.PlainAuth.AuthPlain")
	c.P.AllFuncs(c.P.ServerPkgs(), func(fi *FuncInfo) {
		if fi.Obj == r.FI.Obj || refName(fi.Obj) != "AuthPlain" || fi.Decl.Body == nil || strings.HasSuffix(c.P.Fset.Position(fi.Decl.Pos()).Filename, "_test.go") {
			return
		}
		sig := fi.Obj.Type().(*types.Signature)
		if sig.Recv() == nil || sig.Params().Len() != 2 || sig.Results().Len() != 1 || !isErrorType(sig.Results().At(0).Type()) {
			return
		}
		delegates := false
		for _, call := range callsIn(fi.Decl.Body) {
			if prov(fi.Info(), call) {
				delegates = true
			}
		}
		if !delegates {
			return
		}
		c.SawFunc(fi.Name())
		ms, _ := c.CtxOf(fi).SuccessOnlyFrom(prov)
		for i, m := range ms {
			c.Hold("R3b", fi.Name()+":return"+itoa(i+1), fi.Decl.Pos(), m == "", m)
		}
	})
}

// R4, R5, R6
func c14Mapping(c *Check) {
	p := c.P
	c.Rule("R4", "the user-name mapping (usernameForAuth) is applied exactly once on every way into a credential provider", 4)
	c.Rule("R4b", "with a user-name map configured, a name the map does not translate is refused", 1)
	c.Rule("R5", "PLAIN and LOGIN hand the same class of identity (the client's name, not the mapped one) to the success callback", 1)
	c.Rule("R6", "PLAIN: an authorization identity different from the authentication identity is refused before any authentication", 1)
	ufa := c.need("R4", authRel, "SASLAuth", "usernameForAuth")
	ap := c.need("R4", authRel, "SASLAuth", "AuthPlain")
	if ufa == nil || ap == nil {
		return
	}
	ufaFn, apFn := p.SSAFunc(ufa.FI.Obj), p.SSAFunc(ap.FI.Obj)
	pcBind = newProv(p)
	mappedOnce := func(v ssa.Value) (int, bool) { // number of usernameForAuth applications on the way from a raw value; ok=false if unknown
		return mappedOnceRec(v, ufaFn, 0)
	}
	// (a) inside SASLAuth.AuthPlain: the provider receives usernameForAuth(param)
	nProv := 0
	for _, cf := range p.ssaCone(apFn) {
		for _, b := range cf.Blocks {
			for _, ins := range b.Instrs {
				ci, ok := ins.(ssa.CallInstruction)
				if !ok || !ci.Common().IsInvoke() || objName(ci.Common().Method) != "AuthPlain" {
					continue
				}
				nProv++
				k, okk := mappedOnce(ci.Common().Args[0])
				c.Hold("R4", "SASLAuth.AuthPlain:provider", ins.Pos(), okk && k == 1, "the credential provider receives a user name that passed the mapping "+itoa(k)+" time(s) (expected exactly once)")
			}
		}
	}
	if nProv == 0 {
		c.Fail("R4", "SASLAuth.AuthPlain:provider", ap.FI.Decl.Pos(), "undecided: no provider call")
	}
	// (b) every caller of SASLAuth.AuthPlain passes an unmapped name
	nCallers := 0
	for _, f := range p.MaddyFuncs() {
		for _, b := range f.Blocks {
			for _, ins := range b.Instrs {
				ci, ok := ins.(ssa.CallInstruction)
				if !ok || ci.Common().StaticCallee() != apFn {
					continue
				}
				nCallers++
				c.SawFunc(topFunc(f).String())
				k, okk := mappedOnce(ci.Common().Args[1])
				name := topFunc(f).Name()
				if f.Parent() != nil {
					name += ":closure"
				}
				c.Hold("R4", "caller:"+topFunc(f).Pkg.Pkg.Name()+"."+name, ins.Pos(), okk && k == 0, "the user name is mapped before SASLAuth.AuthPlain maps it again (mapped "+itoa(k+1)+" times): with a non-idempotent auth_map the wrong account is checked, and the mechanism behaves differently from the others")
			}
		}
	}
	if nCallers < 3 {
		c.Fail("R4", "callers", token.NoPos, "undecided: expected the PLAIN and LOGIN mechanisms and the endpoints as callers")
	}
	// R4b: unmapped name refused
	info := ufa.Info
	var lookupPt Pt
	var okObj types.Object
	for _, pt := range ufa.F.Points() {
		if as, ok := pt.Node().(*ast.AssignStmt); ok && len(as.Rhs) == 1 && len(as.Lhs) == 3 {
			if call, ok := ast.Unparen(as.Rhs[0]).(*ast.CallExpr); ok && methodName(call) == "Lookup" && isField(info, callRecv(call), "SASLAuth", "AuthMap") {
				lookupPt, okObj = pt, objOf(info, as.Lhs[1])
			}
		}
	}
	if okObj == nil {
		c.Hold("R4b", "usernameForAuth:unmapped", ufa.FI.Decl.Pos(), false, "undecided: no lookup in the user-name map")
	} else {
		path, f := ufa.F.ReachRefined(lookupPt, okObj, true, true, ufa.IsSuccessReturn, nil)
		// exclude the lookup-error path (err != nil returns an error anyway): handled since it is not a success return
		c.Hold("R4b", "usernameForAuth:unmapped", ufa.FI.Decl.Pos(), !f, "a user name without an entry in the configured auth_map is passed through to the credential table instead of being refused: "+ufa.F.Describe(path))
	}
	// R5 / R6 on CreateSASL closures
	cs := c.need("R5", authRel, "SASLAuth", "CreateSASL")
	if cs == nil {
		return
	}
	csFn := p.SSAFunc(cs.FI.Obj)
	classes := map[string]string{}
	var anons []*ssa.Function
	for _, cf := range p.ssaCone(csFn) {
		if cf.Parent() != nil {
			anons = append(anons, cf)
		}
	}
	for _, anon := range anons {
		mech := "?"
		switch len(anon.Params) {
		case 3:
			mech = "PLAIN"
		case 2:
			mech = "LOGIN"
		}
		for _, b := range anon.Blocks {
			for _, ins := range b.Instrs {
				call, ok := ins.(*ssa.Call)
				if !ok || call.Call.IsInvoke() || call.Call.StaticCallee() != nil {
					continue
				}
				// dynamic call of the captured success callback: first arg is the identity
				if len(call.Call.Args) != 2 || !isStringType(call.Call.Args[0].Type()) {
					continue
				}
				k, okk := mappedOnceRec(call.Call.Args[0], ufaFn, 0)
				cl := "raw"
				if !okk {
					cl = "unknown"
				} else if k > 0 {
					cl = "mapped"
				}
				classes[mech] = cl
			}
		}
	}
	c.Hold("R5", "CreateSASL:identity-class", cs.FI.Decl.Pos(), classes["PLAIN"] == "raw" && classes["LOGIN"] == "raw", "PLAIN reports the "+classes["PLAIN"]+" name and LOGIN the "+classes["LOGIN"]+" name as the authenticated identity: the same credentials yield different identities depending on the mechanism")
	// R6: in the PLAIN closure AuthPlain is dominated by the false edge of identity != username
	ci := cs.Info
	okR6 := false
	ast.Inspect(cs.FI.Decl.Body, func(n ast.Node) bool {
		fl, ok := n.(*ast.FuncLit)
		if !ok || fl.Type.Params == nil || fl.Type.Params.NumFields() != 3 {
			return true
		}
		lf := p.FlowOf(ci, fl.Body, "CreateSASL$plain")
		var idObj, userObj types.Object
		names := fl.Type.Params.List[0].Names
		if len(names) == 3 {
			idObj, userObj = ci.Defs[names[0]], ci.Defs[names[1]]
		}
		authCalls := lf.Find(func(n ast.Node) bool {
			for _, call := range callsAt(n) {
				if c14IsAuth(c, ci, call) {
					return true
				}
			}
			return false
		})
		avoid := lf.AvoidImplying(func(atom ast.Expr) (bool, bool) {
			if be, ok := ast.Unparen(atom).(*ast.BinaryExpr); ok && (be.Op == token.NEQ || be.Op == token.EQL) {
				x, y := objOf(ci, be.X), objOf(ci, be.Y)
				if (x == idObj && y == userObj) || (x == userObj && y == idObj) {
					return be.Op == token.EQL, true // remove "identities equal" edges
				}
			}
			return false, false
		})
		_, f := lf.Reach(Query{From: []Pt{lf.Entry()}, Inclusive: true, Target: isPt(authCalls), AvoidEdge: avoid})
		// the same in a model world – identity "a", user name "b" – which also reads `switch identity { case "", username: }`
		vw := lf.ValueWorld(func(e ast.Expr) (constant.Value, bool) {
			switch objOf(ci, e) {
			case nil:
				return nil, false
			case idObj:
				return constant.MakeString("a"), true
			case userObj:
				return constant.MakeString("b"), true
			}
			return nil, false
		})
		_, f2 := lf.Reach(Query{From: []Pt{lf.Entry()}, Inclusive: true, Target: isPt(authCalls), AvoidEdge: vw})
		okR6 = (!f || !f2) && len(authCalls) > 0 && idObj != nil
		return false
	})
	c.Hold("R6", "CreateSASL:authz-identity", cs.FI.Decl.Pos(), okR6, "PLAIN authenticates although the authorization identity differs from the authentication identity (or the comparison is missing)")
}

// pcBind: parameter bindings for mappedOnceRec (set by c14Mapping)
var pcBind *provCtx

func mappedOnceRec(v ssa.Value, ufa *ssa.Function, depth int) (int, bool) {
	if depth > 8 {
		return 0, false
	}
	switch x := v.(type) {
	case *ssa.Parameter:
		// a parameter of a helper the reference tree did not have stands for the arguments at its call sites
		if fo, isFn := x.Parent().Object().(*types.Func); isFn && pcBind != nil && pcBind.p.newHelpers[fo] {
			if bs := pcBind.paramBindings(x); len(bs) > 0 {
				best, okAll := 0, true
				for _, b := range bs {
					k, ok := mappedOnceRec(b.v, ufa, depth+1)
					okAll = okAll && ok
					if k > best {
						best = k
					}
				}
				return best, okAll
			}
		}
		return 0, true
	case *ssa.FreeVar:
		// a captured variable of a function literal: the value bound where the literal is made
		if fn := x.Parent(); fn != nil && fn.Parent() != nil {
			idx := -1
			for i, fv := range fn.FreeVars {
				if fv == x {
					idx = i
				}
			}
			for _, b := range fn.Parent().Blocks {
				for _, ins := range b.Instrs {
					if mc, isMC := ins.(*ssa.MakeClosure); isMC && mc.Fn == ssa.Value(fn) && idx >= 0 && idx < len(mc.Bindings) {
						return mappedOnceRec(mc.Bindings[idx], ufa, depth+1)
					}
				}
			}
		}
		return 0, false
	case *ssa.Extract:
		if call, ok := x.Tuple.(*ssa.Call); ok && call.Call.StaticCallee() == ufa && x.Index == 0 {
			k, ok := mappedOnceRec(call.Call.Args[len(call.Call.Args)-1], ufa, depth+1)
			return k + 1, ok
		}
	case *ssa.Phi:
		best, okAll := 0, true
		for _, e := range x.Edges {
			k, ok := mappedOnceRec(e, ufa, depth+1)
			if !ok {
				okAll = false
			}
			if k > best {
				best = k
			}
		}
		return best, okAll
	case *ssa.UnOp:
		if al, ok := x.X.(*ssa.Alloc); ok {
			best, okAll, n := 0, true, 0
			for _, r := range *al.Referrers() {
				if st, ok := r.(*ssa.Store); ok && st.Addr == ssa.Value(al) {
					n++
					k, ok := mappedOnceRec(st.Val, ufa, depth+1)
					if !ok {
						okAll = false
					}
					if k > best {
						best = k
					}
				}
			}
			return best, okAll && n > 0
		}
	}
	return 0, false
}

// R7
func c14Gate(c *Check) {
	c.Rule("R7", "submission: the authentication gate dominates the start of a transaction and every store to the session's transaction state; the gate is armed for submission endpoints; the authenticated user is recorded only after a successful authentication", 4)
	r := c.need("R7", smtpEndpRel, "Session", "Mail")
	if r != nil {
		info := r.Info
		// the world in which authentication is required and nobody is authenticated
		avoid := r.F.World(func(atom ast.Expr) (bool, bool) {
			if be, ok := ast.Unparen(atom).(*ast.BinaryExpr); ok && (be.Op == token.EQL || be.Op == token.NEQ) {
				if s, ok := constString(info, be.Y); ok && s == "" && isField(info, be.X, "ConnState", "AuthUser") {
					return be.Op == token.EQL, true
				}
			}
			if fv := fieldOf(info, atom); fv != nil && objName(fv) == "authAlwaysRequired" {
				return true, true
			}
			return false, false
		})
		protected := func(pt Pt) bool {
			for _, call := range callsAt(pt.Node()) {
				if isCall(info, call, "~/"+smtpEndpRel+".Session.startDelivery") {
					return true
				}
			}
			return nodeAssigns(pt.Node(), func(l, _ ast.Expr) bool {
				fv := fieldOf(info, l)
				return fv != nil && (objName(fv) == "mailFrom" || objName(fv) == "opts" || objName(fv) == "delivery" || objName(fv) == "msgMeta")
			}) || r.IsSuccessReturn(pt)
		}
		path, f := r.F.Reach(Query{From: r.Entry(), Inclusive: true, Target: protected, AvoidEdge: avoid})
		c.Hold("R7", "Session.Mail:gate", r.FI.Decl.Pos(), !f, "with authentication required and no authenticated user, MAIL can still start a transaction or succeed: "+r.F.Describe(path))
	}
	// armed for submission
	if ri := c.need("R7", smtpEndpRel, "Endpoint", "setConfig"); ri != nil {
		info := ri.Info
		set := ri.Assigns(func(l, rhs ast.Expr) bool {
			fv := fieldOf(info, l)
			if fv == nil || objName(fv) != "authAlwaysRequired" || rhs == nil {
				return false
			}
			tv, ok := info.Types[rhs]
			return ok && tv.Value != nil && tv.Value.Kind() == constant.Bool && constant.BoolVal(tv.Value)
		})
		world := ri.F.AvoidImplying(func(atom ast.Expr) (bool, bool) {
			if fv := fieldOf(info, atom); fv != nil && objName(fv) == "submission" {
				return false, true // remove "not a submission endpoint" edges
			}
			return false, false
		})
		path, f := ri.F.Reach(Query{From: ri.Entry(), Inclusive: true, Target: ri.IsSuccessReturn, Avoid: isPt(set), AvoidEdge: world})
		c.Hold("R7", "Endpoint:gate-armed-for-submission", ri.FI.Decl.Pos(), !f && len(set) > 0, "a submission endpoint can be configured without the authentication gate being armed: "+ri.F.Describe(path))
	}
	// AuthUser recorded only after success
	for _, m := range []string{"AuthPlain"} {
		ra := c.need("R7", smtpEndpRel, "Session", m)
		if ra == nil {
			continue
		}
		info := ra.Info
		stores := ra.Assigns(func(l, _ ast.Expr) bool { return isField(info, l, "ConnState", "AuthUser") })
		authCalls := ra.Calls(calling("~/" + authRel + ".SASLAuth.AuthPlain"))
		msg := ""
		if len(stores) == 0 || len(authCalls) != 1 {
			msg = "undecided: expected one authentication call and a store of the authenticated user"
		} else {
			if ok, w := ra.MustPass(ra.Entry(), true, isPt(stores), isPt(authCalls)); !ok {
				msg = "the authenticated user is recorded without authentication: " + w
			}
			call := ra.CallAt(authCalls[0], calling("~/"+authRel+".SASLAuth.AuthPlain"))
			if found, w, decided := ra.OnErr(authCalls[0], call, false, isPt(stores), nil); !decided {
				msg = "the result of the authentication is dropped"
			} else if found {
				msg = "the authenticated user is recorded although authentication failed: " + w
			}
		}
		c.Hold("R7", "Session."+m+":user-after-success", ra.FI.Decl.Pos(), msg == "", msg)
	}
	// the SASL path: Session.Auth's success callback is the only other writer; it is invoked by CreateSASL closures only after a nil AuthPlain
	if cs := c.In(authRel, "SASLAuth", "CreateSASL"); cs != nil {
		ci := cs.Info
		okAll, n := true, 0
		ast.Inspect(cs.FI.Decl.Body, func(x ast.Node) bool {
			fl, ok := x.(*ast.FuncLit)
			if !ok {
				return true
			}
			lf := c.P.FlowOf(ci, fl.Body, "CreateSASL$mech")
			var cbs, auths []Pt
			for _, pt := range lf.Points() {
				for _, call := range callsAt(pt.Node()) {
					if id, ok := call.Fun.(*ast.Ident); ok && id.Name == "successCb" {
						cbs = append(cbs, pt)
					}
					if c14IsAuth(c, ci, call) {
						auths = append(auths, pt)
					}
				}
			}
			if len(cbs) == 0 {
				return false
			}
			n++
			if w, f := lf.Reach(Query{From: []Pt{lf.Entry()}, Inclusive: true, Target: isPt(cbs), Avoid: isPt(auths)}); f || len(auths) != 1 {
				dbgf("C14.R7 reach-avoid found=%v auths=%d %s", f, len(auths), lf.Describe(w))
				okAll = false
				return false
			}
			for _, call := range callsAt(auths[0].Node()) {
				if c14IsAuth(c, ci, call) {
					eo := errVarAssigned(ci, auths[0].Node(), call)
					if eo == nil {
						okAll = false
					} else if w, f := lf.ReachRefined(auths[0], eo, false, false, isPt(cbs), nil); f {
						dbgf("C14.R7 refined path %s", lf.Describe(w))
						okAll = false
					}
				}
			}
			return false
		})
		c.Hold("R7", "CreateSASL:callback-after-success", cs.FI.Decl.Pos(), okAll && n >= 2, "a SASL mechanism can invoke the success callback (which records the authenticated user) without a successful authentication")
	}
}

// c14IsAuth: the call authenticates – SASLAuth.AuthPlain itself, or a function of the auth package that returns nil
// only as the nil result of SASLAuth.AuthPlain (`checkCreds`).
func c14IsAuth(c *Check, info *types.Info, call *ast.CallExpr) bool {
	base := calling("~/" + authRel + ".SASLAuth.AuthPlain")
	if base(info, call) {
		return true
	}
	fn := callee(info, call)
	if fn == nil || fn.Pkg() == nil || !strings.HasSuffix(fn.Pkg().Path(), "/"+authRel) {
		return false
	}
	d := c.P.DeclOf(fn)
	if d == nil || d.Decl.Body == nil {
		return false
	}
	sig := fn.Type().(*types.Signature)
	if sig.Results().Len() != 1 || !isErrorType(sig.Results().At(0).Type()) {
		return false
	}
	msgs, n := c.CtxOf(d).SuccessOnlyFrom(base)
	if n == 0 {
		return false
	}
	for _, m := range msgs {
		if m != "" {
			return false
		}
	}
	return true
}

// R3d: "succeeds only with the password last set" is lost when the hash is computed over less than the password: a
// compute function that cuts, trims or folds its input stores a hash that other passwords also verify against.
// Decided on the functions whose signature is that of the two hash registries (FuncHashCompute / FuncHashVerify): the
// password parameter is never assigned, sliced, indexed or passed through a string-transforming function.
func c14WholePassword(c *Check) {
	p := c.P
	c.Rule("R3d", "pass_table hash functions hash the whole password: in every function with the signature of the compute / verify registries the password parameter is never assigned, re-sliced, indexed or handed to a strings.* / bytes.* transformation", 4)
	pk := p.Pkg(passTableRel)
	if pk == nil {
		c.Fail("R3d", "package", token.NoPos, "anchor unresolved")
		return
	}
	var tc, tv types.Type
	if o := pk.Types.Scope().Lookup("FuncHashCompute"); o != nil {
		tc = o.Type().Underlying()
	}
	if o := pk.Types.Scope().Lookup("FuncHashVerify"); o != nil {
		tv = o.Type().Underlying()
	}
	if tc == nil || tv == nil {
		c.Fail("R3d", "registries", token.NoPos, "anchor unresolved: FuncHashCompute / FuncHashVerify")
		return
	}
	p.AllFuncs([]*packagesPkg{pk}, func(fi *FuncInfo) {
		if fi.Decl.Recv != nil || strings.HasSuffix(p.Fset.Position(fi.Decl.Pos()).Filename, "_test.go") {
			return
		}
		sig := fi.Obj.Type().(*types.Signature)
		var pw *types.Var
		switch {
		case types.Identical(sig, tc):
			pw = sig.Params().At(1)
		case types.Identical(sig, tv):
			pw = sig.Params().At(0)
		default:
			return
		}
		if pw.Name() == "_" {
			return
		}
		info := fi.Info()
		c.SawFunc(fi.Name())
		msg := ""
		var stack []ast.Node
		ast.Inspect(fi.Decl.Body, func(y ast.Node) bool {
			if y == nil {
				stack = stack[:len(stack)-1]
				return true
			}
			stack = append(stack, y)
			id, isID := y.(*ast.Ident)
			if !isID || (info.Uses[id] != pw && info.Defs[id] != pw) || len(stack) < 2 {
				return true
			}
			line := itoa(p.Fset.Position(id.Pos()).Line)
			switch pn := stack[len(stack)-2].(type) {
			case *ast.AssignStmt:
				for _, l := range pn.Lhs {
					if l == ast.Expr(id) {
						msg = "line " + line + ": the password parameter is assigned a new value before it is hashed"
					}
				}
			case *ast.SliceExpr:
				if pn.X == ast.Expr(id) {
					msg = "line " + line + ": only a part of the password is used (" + exprStr(pn) + "): every password with the same part verifies against the stored hash"
				}
			case *ast.IndexExpr:
				if pn.X == ast.Expr(id) {
					msg = "line " + line + ": single bytes of the password are picked (" + exprStr(pn) + ")"
				}
			case *ast.CallExpr:
				if fn := callee(info, pn); fn != nil && fn.Pkg() != nil && (fn.Pkg().Path() == "strings" || fn.Pkg().Path() == "bytes" || fn.Pkg().Path() == "unicode/utf8") {
					switch fn.Name() {
					case "EqualFold", "Compare", "Contains", "HasPrefix", "HasSuffix", "RuneCountInString", "ValidString":
					default:
						msg = "line " + line + ": the password is transformed by " + fn.Pkg().Path() + "." + fn.Name() + " before it is hashed: different passwords give the same hash"
					}
				}
			}
			return true
		})
		c.Hold("R3d", refName(fi.Obj)+":whole-password", fi.Decl.Pos(), msg == "", msg)
	})
}

// R3e, R1b: the parts of password authentication outside pass_table and SASLAuth.
//
// R3e – the LOGIN mechanism hands the authenticator exactly what the client sent: in internal/auth/sasllogin the
// responses are converted to strings and nothing else (a TrimSpace "for legacy clients" accepts `hunter2 ` for
// `hunter2` and locks out an account whose password ends in a blank – and PLAIN decides the opposite in both cases).
//
// R1b – the default user-name normalisation (authz.NormalizeAuto) and the credential table's key function are of one
// kind: both PRECIS profiles (width mapping, case mapping, NFC). A lookup-key function of another kind in one of the
// two places (address.ForLookup does no width mapping) makes `ａｌｉｃｅ@…` miss the auth_map although pass_table
// would have found the account.
func c14Surroundings(c *Check) {
	p := c.P
	c.Rule("R3e", "sasllogin: the user name and the password reach the authenticator as the client sent them – the package applies no string transformation (trim, case, replace) to the responses", 1)
	if pk := p.Pkg("internal/auth/sasllogin"); pk == nil {
		c.Fail("R3e", "package", token.NoPos, "anchor unresolved")
	} else {
		msg := ""
		n := 0
		p.AllFuncs([]*packagesPkg{pk}, func(fi *FuncInfo) {
			n++
			c.SawFunc(fi.Name())
			for _, call := range callsIn(fi.Decl.Body) {
				if fn := callee(fi.Info(), call); fn != nil && fn.Pkg() != nil {
					switch fn.Pkg().Path() {
					case "strings", "bytes", "unicode", "golang.org/x/text/unicode/norm", "golang.org/x/text/secure/precis":
						msg = "line " + itoa(p.Fset.Position(call.Pos()).Line) + ": " + fi.Name() + " transforms a client response with " + fn.Pkg().Name() + "." + fn.Name() + ": LOGIN then accepts (or refuses) other passwords than PLAIN does for the same account"
					}
				}
			}
		})
		c.Hold("R3e", "sasllogin:responses-verbatim", token.NoPos, msg == "" && n > 0, msg)
	}
	c.Rule("R1b", "authz.NormalizeAuto (the default auth_map_normalize) applies a PRECIS profile on both of its branches, as the credential table's key function does", 1)
	if fi := p.Func("internal/authz", "", "NormalizeAuto"); fi == nil {
		c.Fail("R1b", "NormalizeAuto", token.NoPos, "anchor unresolved")
	} else {
		c.SawFunc(fi.Name())
		info := fi.Info()
		isPrecis := func(info *types.Info, call *ast.CallExpr) bool {
			fn := callee(info, call)
			return fn != nil && fn.Pkg() != nil && fn.Pkg().Path() == "golang.org/x/text/secure/precis"
		}
		msg := ""
		nret := 0
		inspectNoLit(fi.Decl.Body, func(x ast.Node) bool {
			ret, ok := x.(*ast.ReturnStmt)
			if !ok || len(ret.Results) == 0 {
				return true
			}
			nret++
			call, isCall := ast.Unparen(ret.Results[0]).(*ast.CallExpr)
			okRet := false
			if isCall {
				if isPrecis(info, call) {
					okRet = true
				} else if fn := callee(info, call); fn != nil {
					if d := p.DeclOf(fn); d != nil && p.reachesCall(d, isPrecis, 2) {
						okRet = true
					}
				}
			}
			if !okRet {
				msg = "line " + itoa(p.Fset.Position(ret.Pos()).Line) + ": a branch of NormalizeAuto returns " + exprStr(ret.Results[0]) + ", which applies no PRECIS profile: full-width / compatibility spellings of a user name that the credential table maps to the account (precis.UsernameCaseMapped) miss a keyed auth_map – the correct password is refused"
			}
			return true
		})
		c.Hold("R1b", "NormalizeAuto:precis", fi.Decl.Pos(), msg == "" && nret > 0, msg)
	}
}


// R3f: a hash scheme is a pair of functions registered under one tag – compute (at enrolment) and verify (at login).
// The byte string each of them hands to the key-derivation function must be produced from the password in the same
// way. A preparation step (a PRECIS profile, a trim, a case fold) added to one sibling and not the other makes the
// password just set unverifiable for every input the step changes, while the tests – ASCII passwords – see nothing.
// Decided per tag: the set of functions applied to an expression that depends on the password parameter (conversions,
// append and the crypto packages themselves excluded) is the same in compute and verify.
func c14SchemeSiblings(c *Check) {
	c.Rule("R3f", "pass_table: for every hash tag, compute and verify apply the same functions to the password on its way to the key-derivation function (siblings registered under one tag agree)", 3)
	p := c.P
	pk := p.Pkg(passTableRel)
	if pk == nil {
		c.Fail("R3f", "package", token.NoPos, "anchor unresolved")
		return
	}
	info := pk.TypesInfo
	// registrations: map literal elements and index assignments of HashCompute / HashVerify
	reg := map[string]map[string]*types.Func{"HashCompute": {}, "HashVerify": {}}
	record := func(table string, key ast.Expr, val ast.Expr) {
		if reg[table] == nil {
			return
		}
		k, ok := constString(info, key)
		if !ok {
			return
		}
		if fn, ok := objOf(info, val).(*types.Func); ok {
			reg[table][k] = fn
		}
	}
	for _, file := range pk.Syntax {
		ast.Inspect(file, func(x ast.Node) bool {
			switch n := x.(type) {
			case *ast.ValueSpec:
				for i, nm := range n.Names {
					if i < len(n.Values) {
						if cl, ok := ast.Unparen(n.Values[i]).(*ast.CompositeLit); ok {
							for _, el := range cl.Elts {
								if kv, ok := el.(*ast.KeyValueExpr); ok {
									record(nm.Name, kv.Key, kv.Value)
								}
							}
						}
					}
				}
			case *ast.AssignStmt:
				for i, l := range n.Lhs {
					if ix, ok := ast.Unparen(l).(*ast.IndexExpr); ok && i < len(n.Rhs) {
						if o := objOf(info, ix.X); o != nil {
							record(o.Name(), ix.Index, n.Rhs[i])
						}
					}
				}
			}
			return true
		})
	}
	transformers := func(fn *types.Func) (map[string]bool, bool) {
		fi := p.DeclOf(fn)
		if fi == nil || fi.Decl.Body == nil {
			return nil, false
		}
		c.SawFunc(fi.Name())
		sig := fn.Type().(*types.Signature)
		// the password parameter: the string parameter that is not the stored hash (compute: the only string; verify: the first)
		var pass types.Object
		for i := 0; i < sig.Params().Len(); i++ {
			if isStringType(sig.Params().At(i).Type()) {
				pass = sig.Params().At(i)
				break
			}
		}
		if pass == nil {
			return nil, false
		}
		dep := copyClosure(info, fi.Decl.Body, pass)
		dep[pass] = true
		isSink := func(call *ast.CallExpr) bool {
			fnc := callee(info, call)
			if fnc == nil || fnc.Pkg() == nil {
				return false
			}
			pp := fnc.Pkg().Path()
			return strings.HasPrefix(pp, "golang.org/x/crypto/") || strings.HasPrefix(pp, "crypto/")
		}
		// e mentions o other than inside the arguments of a digest / KDF call (what comes out of those is the hash,
		// not the password any more)
		mentionsPw := func(e ast.Node, o types.Object) bool {
			found := false
			ast.Inspect(e, func(x ast.Node) bool {
				if found {
					return false
				}
				if call, ok := x.(*ast.CallExpr); ok && isSink(call) {
					return false
				}
				if id, ok := x.(*ast.Ident); ok && info.Uses[id] == o {
					found = true
				}
				return true
			})
			return found
		}
		// locals computed from the password carry it on
		for changed := true; changed; {
			changed = false
			ast.Inspect(fi.Decl.Body, func(x ast.Node) bool {
				as, ok := x.(*ast.AssignStmt)
				if !ok {
					return true
				}
				for i, l := range as.Lhs {
					lo := objOf(info, l)
					if lo == nil || dep[lo] {
						continue
					}
					var rhs ast.Expr
					if len(as.Rhs) == len(as.Lhs) {
						rhs = as.Rhs[i]
					} else if len(as.Rhs) == 1 {
						rhs = as.Rhs[0]
					}
					if rhs == nil {
						continue
					}
					for o := range dep {
						if mentionsPw(rhs, o) {
							if v, isVar := lo.(*types.Var); isVar && !isErrorType(v.Type()) {
								dep[lo] = true
								changed = true
							}
							break
						}
					}
				}
				return true
			})
		}
		out := map[string]bool{}
		ast.Inspect(fi.Decl.Body, func(x ast.Node) bool {
			call, ok := x.(*ast.CallExpr)
			if !ok {
				return true
			}
			if tv, has := info.Types[call.Fun]; has && tv.IsType() {
				return true // conversion
			}
			uses := false
			for _, a := range call.Args {
				for o := range dep {
					if mentionsPw(a, o) {
						uses = true
					}
				}
			}
			if !uses {
				return true
			}
			if id, isID := call.Fun.(*ast.Ident); isID {
				if _, isBuiltin := info.Uses[id].(*types.Builtin); isBuiltin {
					return true
				}
			}
			fnc := callee(info, call)
			if fnc == nil {
				out["(dynamic call "+exprStr(call.Fun)+")"] = true
				return true
			}
			if fnc.Pkg() != nil {
				pp := fnc.Pkg().Path()
				// where the password ends up (KDF / digest / comparison / encoding of the result) is the scheme itself
				if strings.HasPrefix(pp, "golang.org/x/crypto/") || strings.HasPrefix(pp, "crypto/") || strings.HasPrefix(pp, "encoding/") || pp == "fmt" || pp == "strconv" {
					return true
				}
			}
			out[qname(fnc)] = true
			return true
		})
		return out, true
	}
	n := 0
	var tags []string
	for k := range reg["HashCompute"] {
		tags = append(tags, k)
	}
	sort.Strings(tags)
	for _, tag := range tags {
		cf, vf := reg["HashCompute"][tag], reg["HashVerify"][tag]
		if vf == nil {
			c.Hold("R3f", "scheme:"+tag, cf.Pos(), false, "hash tag "+tag+" can be computed but not verified")
			continue
		}
		ct, ok1 := transformers(cf)
		vt, ok2 := transformers(vf)
		if !ok1 || !ok2 {
			c.Fail("R3f", "scheme:"+tag, cf.Pos(), "undecided: compute / verify of the scheme not resolved to functions with a password parameter")
			continue
		}
		n++
		var only []string
		for f := range ct {
			if !vt[f] {
				only = append(only, f+" (compute only)")
			}
		}
		for f := range vt {
			if !ct[f] {
				only = append(only, f+" (verify only)")
			}
		}
		sort.Strings(only)
		c.Hold("R3f", "scheme:"+tag, cf.Pos(), len(only) == 0, "compute and verify of hash tag "+tag+" prepare the password differently: "+strings.Join(only, ", ")+" – for every password the step changes (non-NFC input, non-ASCII spaces, …) the hash stored at enrolment is not the one computed at login: the account cannot be opened with its own password")
	}
	if n < 3 {
		c.Fail("R3f", "schemes", token.NoPos, "undecided: fewer than three hash schemes with both siblings found")
	}
}
