package main

import (
	"sort"
	"go/ast"
	"go/token"
	"go/types"
	"strings"
)

func init() { register("C04", checkC04) }

func checkC04(c *Check) {
	p := c.P
	c.explain = "C04 (routing precedence), structural part: rule keys are normalised with the lookup-key functions before they are tested for duplicates and inserted (first declaration wins on the normalised key); the run-time selectors normalise the envelope address with the same function and use that value for table, full-address and domain lookups; " +
		"in both selectors the stages are ordered table rules (an ordered slice) ≺ full address ≺ domain ≺ default, each later stage reachable only over the miss edge of the earlier one, and the two siblings have the same stage sequence; a recipient reaches only the targets of the block selected for it, after that block's reject reply was honoured."
	c.notCover = "the semantic comparison with the documented rules over generated configurations, load-time totality checks, rewrite chains (need an executable oracle); what ForLookup computes is C17."

	baseNormalisers := calling("~/framework/address.ForLookup", "~/framework/dns.ForLookup")
	// a function of the pipeline package every return of which is a normaliser applied to its (single) string
	// parameter counts as a normaliser too (`normalizeMatchRule`)
	var normalisers CallPred
	normalisers = func(info *types.Info, call *ast.CallExpr) bool {
		if baseNormalisers(info, call) {
			return true
		}
		fn := callee(info, call)
		if fn == nil || fn.Pkg() == nil || !strings.HasSuffix(fn.Pkg().Path(), "/"+pipelineRel) {
			return false
		}
		d := p.DeclOf(fn)
		if d == nil || d.Decl.Body == nil || d.Decl.Type.Params == nil || len(d.Decl.Type.Params.List) != 1 || len(d.Decl.Type.Params.List[0].Names) != 1 {
			return false
		}
		di := d.Info()
		prm := di.Defs[d.Decl.Type.Params.List[0].Names[0]]
		all, n := true, 0
		inspectNoLit(d.Decl.Body, func(x ast.Node) bool {
			if ret, ok := x.(*ast.ReturnStmt); ok {
				n++
				okRet := false
				if len(ret.Results) == 1 {
					if c2, ok := ast.Unparen(ret.Results[0]).(*ast.CallExpr); ok && baseNormalisers(di, c2) && len(c2.Args) == 1 && objOf(di, c2.Args[0]) == prm {
						okRet = true
					}
				}
				if !okRet {
					all = false
				}
			}
			return true
		})
		return all && n > 0
	}

	// ---- R1w / R3: writers in config.go
	c.Rule("R1w", "configuration: every key inserted into the per-source / per-recipient rule maps has passed a lookup-key normaliser on all paths", 2)
	c.Rule("R3", "configuration: the insert is guarded by a presence test on the same, already normalised key (first declaration wins for every spelling)", 2)
	pk := p.Pkg(pipelineRel)
	if pk == nil {
		c.Fail("R1w", "package", token.NoPos, "anchor unresolved")
		return
	}
	nIns := 0
	p.AllFuncs([]*packagesPkg{pk}, func(fi *FuncInfo) {
		info := fi.Info()
		r := &RuleCtx{C: c, FI: fi, F: p.FlowOfFunc(fi), Info: info}
		for _, pt := range r.F.Points() {
			as, ok := pt.Node().(*ast.AssignStmt)
			if !ok || len(as.Lhs) != 1 {
				continue
			}
			ix, ok := ast.Unparen(as.Lhs[0]).(*ast.IndexExpr)
			if !ok {
				continue
			}
			fv := fieldOf(info, ix.X)
			if fv == nil || (objName(fv) != "perSource" && objName(fv) != "perRcpt") {
				continue
			}
			nIns++
			c.SawFunc(fi.Name())
			key := refName(fi.Obj) + ":" + objName(fv)
			k := objOf(info, ix.Index)
			if k == nil {
				c.Fail("R1w", key, as.Pos(), "undecided: inserted key is not a variable")
				continue
			}
			// iteration start: the body of the loop whose element variable is k
			var bodyStart []Pt
			var loop *ElemLoop
			for _, l := range elemLoops(info, fi.Decl.Body, func(ast.Expr) bool { return true }) {
				if within(l.Body, as) && l.ElemObj() == k {
					loop = l
				}
			}
			if loop == nil {
				c.Fail("R1w", key, as.Pos(), "undecided: the inserted key is not a loop variable over the rule arguments")
				continue
			}
			bodyStart = r.F.LoopBodyStart(loop)
			norm := func(q Pt) bool {
				return nodeAssigns(q.Node(), func(l, rhs ast.Expr) bool {
					if objOf(info, l) != k || rhs == nil {
						return false
					}
					call, ok := ast.Unparen(rhs).(*ast.CallExpr)
					return ok && normalisers(info, call) && len(call.Args) == 1 && objOf(info, call.Args[0]) == k
				})
			}
			okN, w := r.MustPass(bodyStart, true, isPt([]Pt{pt}), norm)
			c.Hold("R1w", key, as.Pos(), okN, "a rule key can be inserted without having been normalised (matching would depend on the spelling used in the configuration): "+w)
			// presence test: `_, ok := m[k]` on the same map and key, whose hit edge skips the insert
			var tests []Pt
			var okObjs []types.Object
			for _, q := range r.F.Points() {
				as2, ok := q.Node().(*ast.AssignStmt)
				if !ok || len(as2.Lhs) != 2 || len(as2.Rhs) != 1 {
					continue
				}
				ix2, ok := ast.Unparen(as2.Rhs[0]).(*ast.IndexExpr)
				if !ok || fieldOf(info, ix2.X) != fv || objOf(info, ix2.Index) != k {
					continue
				}
				tests = append(tests, q)
				okObjs = append(okObjs, objOf(info, as2.Lhs[1]))
			}
			msg := ""
			if len(tests) == 0 {
				msg = "a later declaration overwrites an earlier one (no presence test on the rule key before the insert)"
			} else {
				// the test dominates the insert, comes after normalisation, key not reassigned in between, hit edge skips
				if ok, w := r.MustPass(bodyStart, true, isPt([]Pt{pt}), isPt(tests)); !ok {
					msg = "the insert is reachable without the duplicate test: " + w
				}
				for i, tq := range tests {
					if ok, w := r.MustPass(bodyStart, true, isPt([]Pt{tq}), norm); !ok {
						msg = "the duplicate test looks up the raw configuration spelling, before normalisation: an equivalent spelling of an already declared rule (other case, NFC/NFD, punycode) is not recognised and replaces the first declaration: " + w
					}
					if _, f := r.F.Reach(Query{From: []Pt{tq}, Target: isPt([]Pt{pt}), Avoid: func(x Pt) bool { return false }}); f {
						// reassignment between test and insert
						reassign := r.F.Find(func(n ast.Node) bool {
							return nodeAssigns(n, func(l, _ ast.Expr) bool { return objOf(info, l) == k })
						})
						for _, ra := range reassign {
							_, f1 := r.F.Reach(Query{From: []Pt{tq}, Target: isPt([]Pt{ra}), Avoid: isPt(bodyStart)})
							_, f2 := r.F.Reach(Query{From: []Pt{ra}, Target: isPt([]Pt{pt}), Avoid: isPt(bodyStart)})
							if f1 && f2 {
								msg = "the key is changed between the duplicate test and the insert"
							}
						}
					}
					if okObjs[i] != nil {
						if path, f := r.F.ReachRefined(tq, okObjs[i], false, true, isPt([]Pt{pt}), isPt(bodyStart)); f {
							msg = "the insert is reachable although the key is already present (the later declaration wins): " + r.F.Describe(path)
						}
					}
				}
			}
			c.Hold("R3", key, as.Pos(), msg == "", msg)
		}
	})
	if nIns < 2 {
		c.Fail("R1w", "inserts", token.NoPos, "undecided: expected inserts into perSource and perRcpt")
	}

	c04Selectors(c)
	c04EveryTargetKept(c, "R10")
	c04RecordedMeansHandedOver(c, "R11")
	c04RejectReplyAsConfigured(c, "R12")
	c04RewriteKeepsEveryResult(c, "R13")
	c04FieldsWinOverDefaults(c, "R15")

	// ---- R5 rewrite results are not overwritten while they are still being read
	c.Rule("R5", "recipient rewriting: the list a rewriting loop appends to never shares storage with the list it is still iterating (a 1→N rewrite would overwrite addresses not yet routed)", 2)
	for _, a := range [][3]string{{"internal/modify", "groupState", "RewriteRcpt"}, {pipelineRel, "msgpipelineDelivery", "AddRcpt"}} {
		r := c.need("R5", a[0], a[1], a[2])
		if r == nil {
			continue
		}
		info := r.Info
		msg := ""
		ast.Inspect(r.FI.Decl.Body, func(n ast.Node) bool {
			rs, ok := n.(*ast.RangeStmt)
			if !ok {
				return true
			}
			ranged := objOf(info, rs.X)
			if ranged == nil {
				return true
			}
			ast.Inspect(rs.Body, func(x ast.Node) bool {
				as, ok := x.(*ast.AssignStmt)
				if !ok || len(as.Lhs) != 1 || len(as.Rhs) != 1 {
					return true
				}
				tgt, _ := appendTarget(info, as.Lhs[0], as.Rhs[0])
				if tgt == nil {
					return true
				}
				if tgt == ranged {
					msg = "the loop appends to the list it ranges over"
				}
				// every definition of the target: must not be a reslice / alias of the ranged list
				ast.Inspect(r.FI.Decl.Body, func(y ast.Node) bool {
					check := func(l ast.Expr, rhs ast.Expr) {
						if objOf(info, l) != tgt || rhs == nil {
							return
						}
						e := ast.Unparen(rhs)
						if se, ok := e.(*ast.SliceExpr); ok && objOf(info, se.X) == ranged {
							msg = "the list the loop appends to is a reslice of the list it is iterating (" + exprStr(rhs) + "): a stage that expands one address to several overwrites the addresses that were not read yet – they are never routed and others are routed twice"
						}
						if objOf(info, e) == ranged {
							// plain alias assigned before the loop body runs
							if as2pos := l.Pos(); as2pos < rs.Body.Pos() || as2pos > rs.Body.End() {
								msg = "the list the loop appends to is the same slice as the one it is iterating"
							}
						}
					}
					switch d := y.(type) {
					case *ast.AssignStmt:
						for i, l := range d.Lhs {
							if i < len(d.Rhs) {
								check(l, d.Rhs[i])
							}
						}
					case *ast.ValueSpec:
						for i, nm := range d.Names {
							if i < len(d.Values) {
								check(nm, d.Values[i])
							}
						}
					}
					return true
				})
				return true
			})
			return true
		})
		c.Hold("R5", a[1]+"."+a[2], r.FI.Decl.Pos(), msg == "", msg)
	}

	c04GroupsCopied(c)

	// ---- R4 exclusivity
	c.Rule("R4", "AddRcpt: a recipient is handed only to the targets of the block selected for that very address, after the block's reject reply was honoured", 2)
	if r := c.need("R4", pipelineRel, "msgpipelineDelivery", "AddRcpt"); r != nil {
		info := r.Info
		// target AddRcpt calls
		var adds []*ast.CallExpr
		ast.Inspect(r.FI.Decl.Body, func(n ast.Node) bool {
			if call, ok := n.(*ast.CallExpr); ok && methodName(call) == "AddRcpt" && len(call.Args) == 3 {
				adds = append(adds, call)
			}
			return true
		})
		msg := ""
		if len(adds) != 1 {
			msg = "expected exactly one hand-over to a target delivery"
		} else {
			call := adds[0]
			addrObj := objOf(info, call.Args[1])
			// enclosing loop over <block>.targets
			var tloop *ast.RangeStmt
			for _, rs := range rangesIn(r.FI.Decl.Body, func(rs *ast.RangeStmt) bool {
				fv := fieldOf(info, rs.X)
				return fv != nil && objName(fv) == "targets" && within(rs.Body, call)
			}) {
				tloop = rs
			}
			if tloop == nil {
				msg = "the hand-over is not inside the loop over the selected block's targets"
			} else {
				blk := objOf(info, ast.Unparen(tloop.X).(*ast.SelectorExpr).X)
				// blk := rcptBlockForAddr(ctx, X) with X the address later handed over... the handed address may be a
				// per-recipient rewrite of X: then X must be the range variable of an enclosing loop over that rewrite result
				var selArg types.Object
				ast.Inspect(r.FI.Decl.Body, func(n ast.Node) bool {
					if as, ok := n.(*ast.AssignStmt); ok && len(as.Rhs) == 1 && objOf(info, as.Lhs[0]) == blk {
						if sc, ok := ast.Unparen(as.Rhs[0]).(*ast.CallExpr); ok && isCall(info, sc, "~/"+pipelineRel+".msgpipelineDelivery.rcptBlockForAddr") && len(sc.Args) == 2 {
							selArg = objOf(info, sc.Args[1])
						}
					}
					return true
				})
				if blk == nil || selArg == nil {
					msg = "the targets loop does not range over the block returned by rcptBlockForAddr"
				} else if selArg != addrObj {
					msg = "the address handed to the targets is not the variable the block was selected for"
				}
				// the target delivery object comes from getDelivery(tgt) with tgt the loop variable
				okTgt := false
				ast.Inspect(tloop.Body, func(n ast.Node) bool {
					if gc, ok := n.(*ast.CallExpr); ok && isCall(info, gc, "~/"+pipelineRel+".msgpipelineDelivery.getDelivery") && len(gc.Args) == 2 && objOf(info, gc.Args[1]) == objOf(info, tloop.Value) {
						okTgt = true
					}
					return true
				})
				if !okTgt && msg == "" {
					msg = "the delivery handed the recipient is not the one of the loop's target"
				}
				// reject honoured: the loop is unreachable when rejectErr != nil
				if msg == "" {
					lp, _ := r.F.PtOf(tloop.X.Pos())
					avoid := r.F.AvoidImplying(func(atom ast.Expr) (bool, bool) {
						if be, ok := ast.Unparen(atom).(*ast.BinaryExpr); ok && (be.Op == token.EQL || be.Op == token.NEQ) && isNilIdent(info, be.Y) {
							if fv := fieldOf(info, be.X); fv != nil && objName(fv) == "rejectErr" {
								return be.Op == token.EQL, true // remove "no reject configured" edges
							}
						}
						return false, false
					})
					// start from the block selection
					var selPts []Pt
					for _, q := range r.F.Points() {
						if nodeAssigns(q.Node(), func(l, _ ast.Expr) bool { return objOf(info, l) == blk }) {
							selPts = append(selPts, q)
						}
					}
					if path, f := r.F.Reach(Query{From: selPts, Target: isPt([]Pt{lp}), AvoidEdge: avoid}); f {
						msg = "targets of a block with a configured reject reply can still receive the recipient: " + r.F.Describe(path)
					}
				}
			}
		}
		c.Hold("R4", "AddRcpt:exclusive", r.FI.Decl.Pos(), msg == "", msg)
	}
	if r := c.need("R4", pipelineRel, "msgpipelineDelivery", "start"); r != nil {
		// the sender block's reject is honoured before the block is stored
		info := r.Info
		store := r.Assigns(func(l, _ ast.Expr) bool { fv := fieldOf(info, l); return fv != nil && objName(fv) == "sourceBlock" })
		avoid := r.F.AvoidImplying(func(atom ast.Expr) (bool, bool) {
			if be, ok := ast.Unparen(atom).(*ast.BinaryExpr); ok && (be.Op == token.EQL || be.Op == token.NEQ) && isNilIdent(info, be.Y) {
				if fv := fieldOf(info, be.X); fv != nil && objName(fv) == "rejectErr" {
					return be.Op == token.EQL, true
				}
			}
			return false, false
		})
		path, f := r.F.Reach(Query{From: r.Entry(), Inclusive: true, Target: orPt(isPt(store), r.IsSuccessReturn), AvoidEdge: avoid})
		c.Hold("R4", "start:sender-reject", r.FI.Decl.Pos(), !f && len(store) == 1, "a sender block with a configured reject reply is accepted: "+r.F.Describe(path))
	}

	c04Decides(c)
	c04TablesReadOnly(c)

	// ---- R7: the block that answers is the block selected for THIS transaction's sender
	c.Rule("R7", "SMTP endpoint, deferred sender rejection: the session state Rcpt consults before it starts the delivery (the remembered reply of a failed start, the sender, the options) is assigned by every accepted MAIL – a recipient is never refused with the reply of a block selected for an earlier transaction's sender", 1)
	sessionStaleState(c, "R7")

	// ---- R6: what the rule keys and the envelope addresses are compared by. "Insensitive to letter case and to the
	// A-label / U-label spelling" is a statement about the two lookup-key functions: every value they return on success
	// has been IDNA-decoded, NFC-normalised and lower-cased. That is C17's rule R4 (and R3, purity), evaluated here for
	// the functions the selectors use.
	c.Rule("R6", "the lookup-key functions the rule tables and the selectors share (address.ForLookup, dns.ForLookup) return only values that passed IDNA decoding, NFC and lower-casing on every path, and read no mutable state; the IDNA decoder is given an ASCII-lowered name (C17.R3/R4/R4c)", 4)
	sub := newCheck("C17", c.P, c.Tier)
	checkC17(sub)
	for _, o := range sub.obs {
		if (o.Rule != "R3" && o.Rule != "R4" && o.Rule != "R4c") || !strings.Contains(o.Key, "ForLookup") {
			continue
		}
		c.Hold("R6", o.Rule+":"+o.Key, o.posRaw, o.OK, o.Msg)
	}
	for f := range sub.funcs {
		if strings.Contains(f, "ForLookup") {
			c.SawFunc(f)
		}
	}
}

// R5b: a `modify` / `check` directive may name a group declared once at the top level (`modify &shared`): the parser
// then returns the registered instance's own slice. A block that merges such a group takes its ELEMENTS; a block that
// keeps the slice itself shares storage with every other block that names the group – its next directive appends in
// place and overwrites the other block's rule: recipients are rewritten and routed by a rule of a different scope.
func c04GroupsCopied(c *Check) {
	p := c.P
	c.Rule("R5b", "configuration: a check / modifier group obtained from a directive is merged into a block element by element (append(dst, group...)); the slice itself is never stored in the block, assigned or handed on (a named group is shared by all blocks that reference it)", 4)
	pk := p.Pkg(pipelineRel)
	if pk == nil {
		c.Fail("R5b", "package", token.NoPos, "anchor unresolved")
		return
	}
	parse := calling("~/"+pipelineRel+".parseChecksGroup", "~/"+pipelineRel+".parseModifiersGroup")
	n := 0
	p.AllFuncs([]*packagesPkg{pk}, func(fi *FuncInfo) {
		info := fi.Info()
		body := fi.Decl.Body
		ast.Inspect(body, func(x ast.Node) bool {
			as, ok := x.(*ast.AssignStmt)
			if !ok || len(as.Rhs) != 1 || len(as.Lhs) != 2 {
				return true
			}
			call, ok := ast.Unparen(as.Rhs[0]).(*ast.CallExpr)
			if !ok || !parse(info, call) {
				return true
			}
			g := objOf(info, as.Lhs[0])
			if g == nil {
				return true
			}
			n++
			c.SawFunc(fi.Name())
			msg := ""
			var stack []ast.Node
			ast.Inspect(body, func(y ast.Node) bool {
				if y == nil {
					stack = stack[:len(stack)-1]
					return true
				}
				stack = append(stack, y)
				id, isID := y.(*ast.Ident)
				if !isID || info.Uses[id] != g {
					return true
				}
				// the use as an expression: g, or g.<slice field>
				var use ast.Expr = id
				k := len(stack) - 2
				if k >= 0 {
					if sel, isSel := stack[k].(*ast.SelectorExpr); isSel && sel.X == ast.Expr(id) {
						use = sel
						k--
					}
				}
				okUse := false
				if k >= 0 {
					switch pn := stack[k].(type) {
					case *ast.CallExpr:
						if fid, isF := pn.Fun.(*ast.Ident); isF {
							switch fid.Name {
							case "len", "cap":
								okUse = true
							case "append":
								// spread as the last argument, not the destination
								if pn.Ellipsis.IsValid() && len(pn.Args) >= 2 && pn.Args[len(pn.Args)-1] == use && pn.Args[0] != use {
									okUse = true
								}
							}
						}
					case *ast.RangeStmt:
						okUse = pn.X == use
					case *ast.IndexExpr:
						okUse = pn.X == use
					case *ast.SelectorExpr:
						// a scalar field or a method of the group other than its element slice
						if tv, has := info.Types[pn]; has {
							if _, isSlice := tv.Type.Underlying().(*types.Slice); !isSlice {
								okUse = true
							}
						}
					}
				}
				if !okUse {
					msg = "line " + itoa(p.Fset.Position(id.Pos()).Line) + ": the group returned by " + methodNameOrFun(call) + " is kept as it is (" + exprStr(use) + " is assigned, stored or handed on instead of being spread into append): for `&name` references that is the registered group's own slice, and a later directive of this block appends into storage every other block referencing the group also uses – another scope's rewrite / check rule ends up in this block or is overwritten"
				}
				return true
			})
			c.Hold("R5b", refName(fi.Obj)+":group"+itoa(n), call.Pos(), msg == "", msg)
			return true
		})
	})
}

func methodNameOrFun(call *ast.CallExpr) string {
	if m := methodName(call); m != "" {
		return m
	}
	return exprStr(call.Fun)
}

// R8, R9: every selectable block decides, and every table that can be named in a rule can say "yes".
//
// R8 – "configurations that leave some combination without an explicit decision are refused at load time": a
// recipient block is what parseMsgPipelineRcptCfg returns; on a path on which neither a target was added nor a reject
// reply stored, the function must not succeed (a block without either accepts its recipients and hands them to nobody).
// Decided in the world where the target list is empty and the reject reply nil.
//
// R9 – "table match" is the first precedence level, and `destination_in regexp "<expr>" { … }` (documented: without a
// replacement the table acts as a match check and returns the key) is one of its forms: on the path where the
// expression matched, table.regexp returns a non-empty result also in the world "no replacement configured".
func c04Decides(c *Check) {
	c.Rule("R8", "configuration: parseMsgPipelineRcptCfg succeeds only for a block with at least one target or a reject reply (decided in the world 'no deliver_to / reroute / reject directive was seen')", 1)
	if r := c.need("R8", pipelineRel, "", "parseMsgPipelineRcptCfg"); r != nil {
		info := r.Info
		decides := r.Assigns(func(l, _ ast.Expr) bool {
			fv := fieldOf(info, l)
			return fv != nil && (objName(fv) == "targets" || objName(fv) == "rejectErr")
		})
		w := r.F.World(func(atom ast.Expr) (bool, bool) {
			be, ok := ast.Unparen(atom).(*ast.BinaryExpr)
			if !ok {
				return false, false
			}
			// len(x.targets) ⋈ 0 with an empty list; x.rejectErr ⋈ nil with a nil reply
			if call, isCall := ast.Unparen(be.X).(*ast.CallExpr); isCall && len(call.Args) == 1 {
				if id, isID := call.Fun.(*ast.Ident); isID && id.Name == "len" {
					if fv := fieldOf(info, call.Args[0]); fv != nil && objName(fv) == "targets" {
						if tv, has := info.Types[be.Y]; has && tv.Value != nil && tv.Value.String() == "0" {
							switch be.Op {
							case token.EQL, token.LEQ:
								return true, true
							case token.NEQ, token.GTR:
								return false, true
							}
						}
					}
				}
			}
			if fv := fieldOf(info, be.X); fv != nil && objName(fv) == "rejectErr" && isNilIdent(info, be.Y) {
				switch be.Op {
				case token.EQL:
					return true, true
				case token.NEQ:
					return false, true
				}
			}
			return false, false
		})
		path, found := r.F.Reach(Query{From: r.Entry(), Inclusive: true, Target: r.IsSuccessReturn, Avoid: isPt(decides), AvoidEdge: w})
		c.Hold("R8", "parseMsgPipelineRcptCfg:decides", r.FI.Decl.Pos(), !found && len(decides) >= 2, "a recipient block without any deliver_to, reroute or reject directive is accepted (`destination example.org { }`): its recipients get 250 and are handed to no target – the configuration leaves them without a decision and must be refused when it is loaded: "+r.F.Describe(path))
	}
	c.Rule("R9", "table.regexp: where the expression matched, the lookup returns a non-empty result – also without a configured replacement (the documented match-check form used in source_in / destination_in)", 1)
	if r := c.need("R9", "internal/table", "Regexp", "LookupMulti"); r != nil {
		info := r.Info
		w := r.F.World(func(atom ast.Expr) (bool, bool) {
			be, ok := ast.Unparen(atom).(*ast.BinaryExpr)
			if !ok {
				return false, false
			}
			// the expression matched: the submatch index list is not nil
			if isNilIdent(info, be.Y) {
				if o := objOf(info, be.X); o != nil {
					if def, n := localDef(info, r.FI.Decl.Body, o); n >= 1 && def != nil {
						if call, isCall := ast.Unparen(def).(*ast.CallExpr); isCall && strings.HasPrefix(methodName(call), "Find") {
							return be.Op == token.NEQ, true
						}
					}
				}
			}
			// no replacement configured
			if call, isCall := ast.Unparen(be.X).(*ast.CallExpr); isCall && len(call.Args) == 1 {
				if id, isID := call.Fun.(*ast.Ident); isID && id.Name == "len" {
					if fv := fieldOf(info, call.Args[0]); fv != nil && objName(fv) == "replacements" {
						if tv, has := info.Types[be.Y]; has && tv.Value != nil && tv.Value.String() == "0" {
							switch be.Op {
							case token.EQL, token.LEQ:
								return true, true
							case token.NEQ, token.GTR:
								return false, true
							}
						}
					}
				}
			}
			return false, false
		})
		avoidEdge := func(b *cfgBlock, i int) bool {
			if w(b, i) {
				return true
			}
			// a loop over the (empty) replacement list is not entered
			if rs, ok := b.Stmt.(*ast.RangeStmt); ok && b.Kind == kindRangeLoop && i == 0 {
				if fv := fieldOf(info, rs.X); fv != nil && objName(fv) == "replacements" {
					return true
				}
			}
			return false
		}
		empty := func(e ast.Expr) bool {
			if e == nil {
				return true
			}
			e = ast.Unparen(e)
			if isNilIdent(info, e) {
				return true
			}
			if cl, ok := e.(*ast.CompositeLit); ok {
				return len(cl.Elts) == 0
			}
			if call, ok := e.(*ast.CallExpr); ok {
				if id, isID := call.Fun.(*ast.Ident); isID && id.Name == "make" {
					return true
				}
			}
			return false
		}
		path, found := r.ReachBadReturn(r.Entry(), 0, empty, nil, avoidEdge)
		c.Hold("R9", "Regexp.LookupMulti:match-is-found", r.FI.Decl.Pos(), !found, "with no replacement configured a key that matches the expression gets an empty result, which Lookup reports as 'not found': `destination_in regexp \"…\" { … }` – documented as a match check – never selects its block and the recipient falls through to a rule of lower precedence: "+r.F.Describe(path))
	}
}

// R5c, R9b: tables.
//
// R5c – what a table lookup returns belongs to the table: table.static, table.file and others hand out their own
// storage. A caller that completes the values in place (`replacements[i] = replacement + "@" + domain`) rewrites the
// table for every later lookup: the first recipient's domain sticks to the alias, and the next recipient with another
// domain is routed into the first one's block. Results of LookupMulti are never stored into.
//
// R9b – a key listed in a table is a member whatever its value: `source_in file banned { reject }` uses files with
// bare keys (empty values). In the table modules' Lookup methods the found / not-found answer never depends on a stored
// value being the empty string.
func c04TablesReadOnly(c *Check) {
	p := c.P
	c.Rule("R5c", "the slice returned by a table's LookupMulti is never written through by its caller (it may be the table's own storage)", 2)
	n := 0
	p.AllFuncs(p.ServerPkgs(), func(fi *FuncInfo) {
		info := fi.Info()
		res := map[types.Object]*ast.CallExpr{}
		ast.Inspect(fi.Decl.Body, func(x ast.Node) bool {
			as, ok := x.(*ast.AssignStmt)
			if !ok || len(as.Rhs) != 1 {
				return true
			}
			call, ok := ast.Unparen(as.Rhs[0]).(*ast.CallExpr)
			if !ok || methodName(call) != "LookupMulti" {
				return true
			}
			if o := objOf(info, as.Lhs[0]); o != nil {
				if _, isSlice := o.Type().Underlying().(*types.Slice); isSlice {
					res[o] = call
				}
			}
			return true
		})
		if len(res) == 0 {
			return
		}
		var objs []types.Object
		for o := range res {
			objs = append(objs, o)
		}
		sort.Slice(objs, func(i, j int) bool { return objs[i].Pos() < objs[j].Pos() })
		for _, o := range objs {
			n++
			c.SawFunc(fi.Name())
			msg := ""
			ast.Inspect(fi.Decl.Body, func(x ast.Node) bool {
				switch s := x.(type) {
				case *ast.AssignStmt:
					for _, l := range s.Lhs {
						if ix, ok := ast.Unparen(l).(*ast.IndexExpr); ok && objOf(info, ix.X) == o {
							msg = "line " + itoa(p.Fset.Position(s.Pos()).Line) + ": an element of the slice returned by LookupMulti is overwritten (" + exprStr(l) + " = …): table.static / table.file return their own storage, so the table itself is rewritten – the value computed for the first recipient (its domain appended) is what every later lookup of that key returns, and a recipient of another domain is routed by the first one's"
						}
					}
				case *ast.CallExpr:
					if id, ok := s.Fun.(*ast.Ident); ok && id.Name == "append" && len(s.Args) >= 1 {
						// append(v[:k], …) writes into v's backing array
						if se, isSlice := ast.Unparen(s.Args[0]).(*ast.SliceExpr); isSlice && objOf(info, se.X) == o {
							msg = "line " + itoa(p.Fset.Position(s.Pos()).Line) + ": append to a re-slice of the slice returned by LookupMulti writes into the table's own storage"
						}
					}
				}
				return true
			})
			c.Hold("R5c", refName(fi.Obj)+":"+o.Name(), res[o].Pos(), msg == "", msg)
		}
	})
	if n == 0 {
		c.Fail("R5c", "sites", token.NoPos, "undecided: no LookupMulti result found")
	}
	c.Rule("R9b", "table modules: whether Lookup reports a key as found never depends on the stored value being empty (a key listed without a value is a member: `source_in file …`, `destination_in file …`)", 3)
	tpk := p.Pkg("internal/table")
	if tpk == nil {
		c.Fail("R9b", "package", token.NoPos, "anchor unresolved")
		return
	}
	m := 0
	p.AllFuncs([]*packagesPkg{tpk}, func(fi *FuncInfo) {
		if refName(fi.Obj) != "Lookup" || fi.Decl.Recv == nil || strings.HasSuffix(p.Fset.Position(fi.Decl.Pos()).Filename, "_test.go") {
			return
		}
		m++
		c.SawFunc(fi.Name())
		info := fi.Info()
		sig := fi.Obj.Type().(*types.Signature)
		isParam := func(o types.Object) bool {
			for i := 0; i < sig.Params().Len(); i++ {
				if sig.Params().At(i) == o {
					return true
				}
			}
			return false
		}
		msg := ""
		ast.Inspect(fi.Decl.Body, func(x ast.Node) bool {
			be, ok := x.(*ast.BinaryExpr)
			if !ok || (be.Op != token.EQL && be.Op != token.NEQ) {
				return true
			}
			for _, pair := range [][2]ast.Expr{{be.X, be.Y}, {be.Y, be.X}} {
				if sv, isConst := constString(info, pair[1]); isConst && sv == "" {
					t := info.TypeOf(pair[0])
					if t == nil || !isStringType(t) {
						continue
					}
					if o := objOf(info, pair[0]); o != nil && isParam(o) {
						continue // the key itself
					}
					msg = "line " + itoa(p.Fset.Position(be.Pos()).Line) + ": the answer depends on a stored value being empty (" + exprStr(be) + "): a key listed without a value – the membership form used with source_in / destination_in – is reported as not found, the table rule never selects its block"
				}
			}
			return true
		})
		c.Hold("R9b", recvTypeName(fi.Decl)+".Lookup:membership", fi.Decl.Pos(), msg == "", msg)
	})
	if m == 0 {
		c.Fail("R9b", "tables", token.NoPos, "undecided: no table Lookup found")
	}
}


// c04Selectors: R1r / R2 (also evaluated by C15: the sender's source block decides which checks see the message)
func c04Selectors(c *Check) {
	p := c.P
	_ = p
	// ---- selectors
	c.Rule("R1r", "run time: the selectors normalise the envelope address with address.ForLookup and use that value for table, full-address and (its domain part) domain lookups", 2)
	c.Rule("R2", "selector stage order: table rules (ordered) ≺ full address ≺ domain ≺ default, later stages only over the miss edge of earlier ones; both selectors have the same stage sequence", 3)
	type sel struct {
		fn, tables, m string
	}
	var seqs [][]string
	for _, s := range []sel{{"srcBlockForAddr", "sourceIn", "perSource"}, {"rcptBlockForAddr", "rcptIn", "perRcpt"}} {
		r := c.need("R2", pipelineRel, "msgpipelineDelivery", s.fn)
		if r == nil {
			continue
		}
		info := r.Info
		// normalised variable
		var clean types.Object
		for _, q := range r.F.Points() {
			if as, ok := q.Node().(*ast.AssignStmt); ok && len(as.Rhs) == 1 {
				if call, ok := ast.Unparen(as.Rhs[0]).(*ast.CallExpr); ok && isCall(info, call, "~/framework/address.ForLookup") {
					clean = objOf(info, as.Lhs[0])
					// argument is the address parameter
					prm := false
					for _, po := range paramObjs(r.FI) {
						if objOf(info, call.Args[0]) == po {
							prm = true
						}
					}
					if !prm {
						clean = nil
					}
				}
			}
		}
		// table loop
		loops := rangesIn(r.FI.Decl.Body, func(rs *ast.RangeStmt) bool {
			fv := fieldOf(info, rs.X)
			return fv != nil && objName(fv) == s.tables
		})
		// map lookups
		type lk struct {
			pt  Pt
			key types.Object
			ok  types.Object
			as  *ast.AssignStmt
		}
		var lks []lk
		for _, q := range r.F.Points() {
			as, ok := q.Node().(*ast.AssignStmt)
			if !ok || len(as.Rhs) != 1 || len(as.Lhs) != 2 {
				continue
			}
			ix, ok := ast.Unparen(as.Rhs[0]).(*ast.IndexExpr)
			if !ok {
				continue
			}
			fv := fieldOf(info, ix.X)
			if fv == nil || objName(fv) != s.m {
				continue
			}
			lks = append(lks, lk{q, objOf(info, ix.Index), objOf(info, as.Lhs[1]), as})
		}
		// the normalised value may be copied into the variable that is then used (`n, err := ForLookup(a); key = n`)
		cleanSet := map[types.Object]bool{}
		if clean != nil {
			cleanSet[clean] = true
			for changed := true; changed; {
				changed = false
				ast.Inspect(r.FI.Decl.Body, func(n ast.Node) bool {
					if as, ok := n.(*ast.AssignStmt); ok && len(as.Lhs) == len(as.Rhs) {
						for i, l := range as.Lhs {
							if y := objOf(info, as.Rhs[i]); y != nil && cleanSet[y] {
								if x, isVar := objOf(info, l).(*types.Var); isVar && !x.IsField() && !cleanSet[x] {
									cleanSet[x] = true
									changed = true
								}
							}
						}
					}
					return true
				})
			}
		}
		isClean := func(o types.Object) bool { return o != nil && cleanSet[o] }
		msgK := ""
		if clean == nil {
			msgK = "the envelope address is not normalised with address.ForLookup before rule matching"
		}
		var full, dom *lk
		for i := range lks {
			if isClean(lks[i].key) {
				full = &lks[i]
			} else {
				dom = &lks[i]
			}
		}
		if full == nil || dom == nil || len(lks) != 2 {
			msgK = "expected exactly one full-address and one domain lookup in the rule map"
		} else {
			// domain key = second result of Split(clean)
			okDom := false
			ast.Inspect(r.FI.Decl.Body, func(n ast.Node) bool {
				if as, ok := n.(*ast.AssignStmt); ok && len(as.Rhs) == 1 && len(as.Lhs) == 3 {
					if call, ok := ast.Unparen(as.Rhs[0]).(*ast.CallExpr); ok && isCall(info, call, "~/framework/address.Split") && isClean(objOf(info, call.Args[0])) && objOf(info, as.Lhs[1]) == dom.key {
						okDom = true
					}
				}
				return true
			})
			if !okDom {
				msgK = "the domain used for the domain-rule lookup is not the domain part of the normalised address"
			}
		}
		// table lookups receive the normalised value
		tblOK := len(loops) == 1
		if tblOK {
			tblOK = false
			ast.Inspect(loops[0].Body, func(n ast.Node) bool {
				if call, ok := n.(*ast.CallExpr); ok && methodName(call) == "Lookup" && len(call.Args) == 2 && isClean(objOf(info, call.Args[1])) {
					tblOK = true
				}
				return true
			})
			if _, isSlice := info.TypeOf(loops[0].X).Underlying().(*types.Slice); !isSlice {
				tblOK = false
			}
		}
		if !tblOK && msgK == "" {
			msgK = "table rules are not an ordered slice looked up with the normalised address"
		}
		c.Hold("R1r", s.fn, r.FI.Decl.Pos(), msgK == "", msgK)
		if full == nil || dom == nil || len(loops) != 1 {
			c.Hold("R2", s.fn, r.FI.Decl.Pos(), false, "undecided: stages not found")
			continue
		}
		// order
		var tdone []Pt
		for _, b := range r.F.G.Blocks {
			if b.Kind == kindRangeDone && b.Stmt == ast.Stmt(loops[0]) {
				tdone = append(tdone, Pt{b, 0})
			}
		}
		msg := ""
		if ok, w := r.MustPass(r.Entry(), true, isPt([]Pt{full.pt}), isPt(tdone)); !ok {
			msg = "the full-address rule is consulted before all table rules were tried (a recipient matched by both goes to the address rule instead of the table rule): " + w
		}
		if ok, w := r.MustPass(r.Entry(), true, isPt([]Pt{dom.pt}), isPt([]Pt{full.pt})); !ok {
			msg = "the domain rule is consulted without the full-address rule having been tried: " + w
		}
		if full.ok != nil {
			if path, f := r.F.ReachRefined(full.pt, full.ok, false, true, isPt([]Pt{dom.pt}), nil); f {
				msg = "the domain rule is consulted although the full-address rule matched: " + r.F.Describe(path)
			}
		}
		// default only on miss of the domain lookup: assignment from the default* field
		// (the default block is selected where it is read: assigned to the result variable or returned directly)
		defAssign := r.F.Find(func(n ast.Node) bool {
			switch n.(type) {
			case *ast.AssignStmt, *ast.ReturnStmt, *ast.ValueSpec:
				return mentionsField(info, n, "defaultSource") || mentionsField(info, n, "defaultRcpt")
			}
			return false
		})
		if len(defAssign) != 1 {
			msg = "expected exactly one fallback to the default block"
		} else if dom.ok != nil {
			if path, f := r.F.ReachRefined(dom.pt, dom.ok, false, true, isPt(defAssign), nil); f {
				msg = "the default block is selected although the domain rule matched: " + r.F.Describe(path)
			}
			if ok, w := r.MustPass(r.Entry(), true, isPt(defAssign), isPt([]Pt{dom.pt})); !ok {
				msg = "the default block is selected without the domain rule having been tried: " + w
			}
		}
		// inside the table loop a hit returns that rule's block
		hitRet := false
		ast.Inspect(loops[0].Body, func(n ast.Node) bool {
			if ret, ok := n.(*ast.ReturnStmt); ok && len(ret.Results) == 2 && isNilIdent(info, ret.Results[1]) {
				if sx, ok := ast.Unparen(ret.Results[0]).(*ast.SelectorExpr); ok && objOf(info, sx.X) == objOf(info, loops[0].Value) {
					hitRet = true
				}
			}
			return true
		})
		if !hitRet {
			msg = "a table hit does not select that table rule's block"
		}
		c.Hold("R2", s.fn, r.FI.Decl.Pos(), msg == "", msg)
		// stage sequence for the sibling comparison
		var seq []string
		type ev struct {
			pos token.Pos
			s   string
		}
		var evs []ev
		evs = append(evs, ev{loops[0].Pos(), "tables"}, ev{full.as.Pos(), "full"}, ev{dom.as.Pos(), "domain"})
		if len(defAssign) == 1 {
			evs = append(evs, ev{r.Pos(defAssign[0]), "default"})
		}
		for i := 0; i < len(evs); i++ {
			for j := i + 1; j < len(evs); j++ {
				if evs[j].pos < evs[i].pos {
					evs[i], evs[j] = evs[j], evs[i]
				}
			}
		}
		for _, e := range evs {
			seq = append(seq, e.s)
		}
		seqs = append(seqs, seq)
	}
	if len(seqs) == 2 {
		same := len(seqs[0]) == len(seqs[1])
		for i := range seqs[0] {
			if same && seqs[0][i] != seqs[1][i] {
				same = false
			}
		}
		c.Hold("R2", "siblings", token.NoPos, same, "the sender selector and the recipient selector evaluate their stages in different orders")
	}

}
