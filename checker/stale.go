package main

import (
	"go/ast"
	"go/token"
	"go/types"
	"sort"
)

// sessionStaleState: what one transaction leaves in the session must not answer for the next.
//
// With deferred sender rejection the endpoint accepts MAIL, and the first RCPT starts the delivery; when that fails,
// Rcpt remembers the reply and repeats it for every further RCPT of the transaction – without asking the pipeline
// again. Everything Rcpt consults on that short cut (the fields of the session it reads before it starts the
// delivery) belongs to the transaction MAIL opened: every path on which Mail accepts without starting the delivery
// itself assigns those fields. A field that is only cleared together with an open delivery (cleanSession) survives
// RSET and a new MAIL when the delivery never started: the next transaction – another sender, another block – is
// refused with the previous sender's reply and no check ever sees its sender.
func sessionStaleState(c *Check, rule string) {
	rcpt := c.need(rule, smtpEndpRel, "Session", "Rcpt")
	mail := c.need(rule, smtpEndpRel, "Session", "Mail")
	if rcpt == nil || mail == nil {
		return
	}
	info := rcpt.Info
	start := calling("~/"+smtpEndpRel+".Session.startDelivery", "~/"+smtpEndpRel+".Session.rcpt")
	startPts := rcpt.Calls(start)
	if len(startPts) == 0 {
		c.Fail(rule, "Rcpt:deferred-start", rcpt.FI.Decl.Pos(), "undecided: Rcpt does not start the delivery")
		return
	}
	var recv types.Object
	if rl := rcpt.FI.Decl.Recv; rl != nil && len(rl.List) == 1 && len(rl.List[0].Names) == 1 {
		recv = info.Defs[rl.List[0].Names[0]]
	}
	// fields of the session read before the delivery is started
	isStart := isPt(startPts)
	// in the situation "no delivery is open" (with one open, the state is that delivery's)
	noDelivery := rcpt.F.AvoidImplying(func(atom ast.Expr) (bool, bool) {
		if be, ok := ast.Unparen(atom).(*ast.BinaryExpr); ok && (be.Op == token.EQL || be.Op == token.NEQ) && isNilIdent(info, be.Y) {
			if fv := fieldOf(info, be.X); fv != nil && objName(fv) == "delivery" {
				return be.Op == token.NEQ, true // remove the edges on which a delivery is known to be open
			}
		}
		return false, false
	})
	consulted := map[*types.Var]bool{}
	for _, pt := range rcpt.F.Points() {
		n := pt.Node()
		if n == nil || isStart(pt) {
			continue
		}
		if _, reach := rcpt.F.Reach(Query{From: rcpt.Entry(), Inclusive: true, Target: func(q Pt) bool { return q == pt }, Avoid: isStart, AvoidEdge: noDelivery}); !reach {
			continue
		}
		// … and from which Rcpt can answer without starting it (a read that is always followed by the start is the
		// started delivery's business)
		if _, answers := rcpt.F.Reach(Query{From: []Pt{pt}, Inclusive: true, Target: rcpt.F.IsExitPt, Avoid: isStart, AvoidEdge: noDelivery}); !answers {
			continue
		}
		written := map[*ast.SelectorExpr]bool{}
		inspectNoLit(n, func(x ast.Node) bool {
			switch s := x.(type) {
			case *ast.AssignStmt:
				for _, l := range s.Lhs {
					if sel, ok := ast.Unparen(l).(*ast.SelectorExpr); ok {
						written[sel] = true
					}
				}
			case *ast.IncDecStmt:
				if sel, ok := ast.Unparen(s.X).(*ast.SelectorExpr); ok {
					written[sel] = true
				}
			case *ast.CallExpr:
				// receiver of a method call on a field (s.msgLock.Lock()) is not a read of transaction state
				if fs, ok := ast.Unparen(s.Fun).(*ast.SelectorExpr); ok {
					if sel, ok := ast.Unparen(fs.X).(*ast.SelectorExpr); ok {
						written[sel] = true
					}
				}
			case *ast.SelectorExpr:
				if written[s] {
					return true
				}
				if fv := fieldOf(info, s); fv != nil && recv != nil && objOf(info, s.X) == recv {
					consulted[fv] = true
				}
			}
			return true
		})
	}
	var fields []*types.Var
	for fv := range consulted {
		switch objName(fv) {
		case "delivery": // the typestate itself (R1)
			continue
		}
		// only state that Rcpt (or what it calls) writes per transaction can go stale: fields some method assigns
		assigned := false
		c.P.AllFuncs([]*packagesPkg{rcpt.FI.Pkg}, func(fi *FuncInfo) {
			if recvTypeName(fi.Decl) != recvTypeName(rcpt.FI.Decl) {
				return
			}
			ast.Inspect(fi.Decl.Body, func(x ast.Node) bool {
				if as, ok := x.(*ast.AssignStmt); ok {
					for _, l := range as.Lhs {
						if fieldOf(fi.Info(), l) == fv {
							assigned = true
						}
					}
				}
				return true
			})
		})
		if assigned {
			fields = append(fields, fv)
		}
	}
	sort.Slice(fields, func(i, j int) bool { return fields[i].Pos() < fields[j].Pos() })
	if len(fields) == 0 {
		c.Fail(rule, "Rcpt:consulted-state", rcpt.FI.Decl.Pos(), "undecided: Rcpt consults no session state before it starts the delivery")
		return
	}
	minfo := mail.Info
	mstart := mail.Calls(calling("~/" + smtpEndpRel + ".Session.startDelivery"))
	for _, fv := range fields {
		stores := mail.Assigns(func(l, _ ast.Expr) bool { return fieldOf(minfo, l) == fv })
		via := orPt(isPt(stores), isPt(mstart))
		ok, w := mail.MustPass(mail.Entry(), true, mail.IsSuccessReturn, via)
		c.Hold(rule, "Session.Mail:resets:"+objName(fv), mail.FI.Decl.Pos(), ok, "Rcpt answers from the session field "+objName(fv)+" without starting the delivery, but an accepted MAIL does not assign it on every path (it is only cleared together with an open delivery): after a deferred sender rejection, RSET and a new MAIL – or just a new MAIL – the next transaction is answered with the previous transaction's state (refused with the other sender's reply; no check sees the new sender): "+w)
	}
	_ = token.NoPos
}
