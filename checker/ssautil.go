package main

import (
	"go/token"
	"go/types"
	"strings"

	"golang.org/x/tools/go/callgraph"
	"golang.org/x/tools/go/callgraph/cha"
	"golang.org/x/tools/go/callgraph/vta"
	"golang.org/x/tools/go/packages"
	"golang.org/x/tools/go/ssa"
	"golang.org/x/tools/go/ssa/ssautil"
)

type ssaState struct {
	prog *ssa.Program
	pkgs map[string]*ssa.Package
	cg   *callgraph.Graph
	// all stores to struct fields, program-wide (maddy packages only), keyed by field object
	fieldStores map[*types.Var][]*ssa.Store
	allFuncs    map[*ssa.Function]bool
}

// SSA builds the SSA form of the whole program once.
func (p *Prog) SSA() *ssaState {
	if p.ssa != nil {
		return p.ssa
	}
	var roots []*packages.Package
	for _, pk := range p.Pkgs {
		roots = append(roots, pk)
	}
	prog, pkgs := ssautil.AllPackages(roots, ssa.InstantiateGenerics)
	prog.Build()
	st := &ssaState{prog: prog, pkgs: map[string]*ssa.Package{}}
	for i, pk := range pkgs {
		if pk != nil {
			st.pkgs[roots[i].PkgPath] = pk
		}
	}
	p.ssa = st
	return st
}

// SSAFunc returns the SSA function of a maddy function object.
func (p *Prog) SSAFunc(fn *types.Func) *ssa.Function {
	st := p.SSA()
	return st.prog.FuncValue(fn)
}

// CallGraph builds the VTA-over-CHA call graph once.
func (p *Prog) CallGraph() *callgraph.Graph {
	st := p.SSA()
	if st.cg != nil {
		return st.cg
	}
	st.allFuncs = ssautil.AllFunctions(st.prog)
	st.cg = vta.CallGraph(st.allFuncs, cha.CallGraph(st.prog))
	return st.cg
}

// MaddyFuncs enumerates SSA functions (incl. anonymous ones) that belong to maddy server packages.
func (p *Prog) MaddyFuncs() []*ssa.Function {
	st := p.SSA()
	var out []*ssa.Function
	var addAnon func(f *ssa.Function)
	addAnon = func(f *ssa.Function) {
		out = append(out, f)
		for _, a := range f.AnonFuncs {
			addAnon(a)
		}
	}
	for _, pk := range p.Pkgs {
		if !isServerPkg(pk.PkgPath) {
			continue
		}
		sp := st.pkgs[pk.PkgPath]
		if sp == nil {
			continue
		}
		for _, m := range sp.Members {
			switch x := m.(type) {
			case *ssa.Function:
				addAnon(x)
			case *ssa.Type:
				for _, t := range []types.Type{x.Type(), types.NewPointer(x.Type())} {
					ms := st.prog.MethodSets.MethodSet(t)
					for i := 0; i < ms.Len(); i++ {
						f := st.prog.MethodValue(ms.At(i))
						if f != nil && f.Pkg == sp && f.Synthetic == "" {
							dup := false
							for _, o := range out {
								if o == f {
									dup = true
								}
							}
							if !dup {
								addAnon(f)
							}
						}
					}
				}
			}
		}
	}
	return out
}

// FieldStores returns all Store instructions (in maddy server code) whose address is the given field.
func (p *Prog) FieldStores(field *types.Var) []*ssa.Store {
	st := p.SSA()
	if st.fieldStores == nil {
		st.fieldStores = map[*types.Var][]*ssa.Store{}
		for _, f := range p.MaddyFuncs() {
			for _, b := range f.Blocks {
				for _, ins := range b.Instrs {
					s, ok := ins.(*ssa.Store)
					if !ok {
						continue
					}
					if fa, ok := s.Addr.(*ssa.FieldAddr); ok {
						fv := fieldVarOf(fa)
						if fv != nil {
							st.fieldStores[fv] = append(st.fieldStores[fv], s)
						}
					}
				}
			}
		}
	}
	return st.fieldStores[field]
}

func fieldVarOf(fa *ssa.FieldAddr) *types.Var {
	t := fa.X.Type()
	if pt, ok := t.Underlying().(*types.Pointer); ok {
		t = pt.Elem()
	}
	st, ok := t.Underlying().(*types.Struct)
	if !ok || fa.Field >= st.NumFields() {
		return nil
	}
	return st.Field(fa.Field)
}

func fieldVarOfField(f *ssa.Field) *types.Var {
	st, ok := f.X.Type().Underlying().(*types.Struct)
	if !ok || f.Field >= st.NumFields() {
		return nil
	}
	return st.Field(f.Field)
}

// staticCalleeName returns the qname of the static callee of a call instruction (or the interface method for invokes).
func ssaCalleeName(c *ssa.CallCommon) string {
	if c.IsInvoke() {
		return qname(c.Method)
	}
	if f := c.StaticCallee(); f != nil {
		if fn, ok := f.Object().(*types.Func); ok {
			return qname(fn)
		}
		if f.Origin() != nil {
			if fn, ok := f.Origin().Object().(*types.Func); ok {
				return qname(fn)
			}
		}
		return f.String()
	}
	if b, ok := c.Value.(*ssa.Builtin); ok {
		return "builtin." + b.Name()
	}
	return ""
}

func rel(name string) string {
	if strings.HasPrefix(name, "~/") {
		return modPath + "/" + name[2:]
	}
	return name
}

func ssaPos(p *Prog, v interface{ Pos() token.Pos }) string { return p.Pos(v.Pos()) }

// ---------------------------------------------------------------------------
// string provenance chains

// chainStep is one transformation a string value passed through.
type chainStep struct {
	Callee string // qname
	Pos    token.Pos
}

// stringChains walks backwards from v through unary string transformations (calls whose first string argument
// is the value, Extract #0 of such calls, ChangeType/Convert, Phi) and returns, for every terminal origin, the
// list of callees applied (outermost first) and the origin value.
type chainResult struct {
	Steps  []chainStep
	Origin ssa.Value
}

func stringChains(v ssa.Value, maxLen int) []chainResult {
	var out []chainResult
	var walk func(v ssa.Value, steps []chainStep, seen map[ssa.Value]bool)
	walk = func(v ssa.Value, steps []chainStep, seen map[ssa.Value]bool) {
		if seen[v] || len(steps) > maxLen {
			out = append(out, chainResult{append([]chainStep{}, steps...), v})
			return
		}
		seen[v] = true
		defer delete(seen, v)
		// a function the reference tree did not have (an extracted helper) is read through: its successful returns are
		// the value, its parameters are the arguments of the call we came through
		if call, idx := newHelperResult(v); call != nil {
			if rets := helperSuccessResults(call, idx); len(rets) > 0 {
				for _, rv := range rets {
					walk(rv, steps, seen)
				}
				return
			}
		}
		if prm, ok := v.(*ssa.Parameter); ok {
			if args := helperBind[prm]; len(args) > 0 {
				for _, a := range args {
					walk(a, steps, seen)
				}
				return
			}
		}
		switch x := v.(type) {
		case *ssa.Extract:
			// only (string, error) results are unary string transformations
			if tt, ok := x.Tuple.Type().(*types.Tuple); ok && x.Index == 0 && tt.Len() == 2 && isErrorType(tt.At(1).Type()) {
				walk(x.Tuple, steps, seen)
				return
			}
		case *ssa.Call:
			name := ssaCalleeName(&x.Call)
			var arg ssa.Value
			args := x.Call.Args
			// method values: receiver is Args[0] for static method calls
			for _, a := range args {
				if isStringType(a.Type()) {
					arg = a
					break
				}
			}
			if arg != nil && name != "" {
				// a method of a transformer object: which constructor made the object (cases.Fold() vs cases.Lower())
				if len(args) > 0 && !isStringType(args[0].Type()) {
					if mk, ok := args[0].(*ssa.Call); ok {
						if mn := ssaCalleeName(&mk.Call); mn != "" {
							name = name + "<" + mn[strings.LastIndex(mn, "/")+1:] + ">"
						}
					}
				}
				walk(arg, append(steps, chainStep{name, x.Pos()}), seen)
				return
			}
		case *ssa.Phi:
			for i, e := range x.Edges {
				if phiEdgeKnownEmpty(x, i) {
					continue // the edge is only taken when the string is "" (trivially normalised)
				}
				if phiEdgeFailed(x, i) {
					continue // the edge is only taken when an error is pending that the function tests afterwards
				}
				walk(e, steps, seen)
			}
			return
		case *ssa.ChangeType:
			walk(x.X, steps, seen)
			return
		case *ssa.Convert:
			if isStringType(x.X.Type()) {
				walk(x.X, steps, seen)
				return
			}
		case *ssa.UnOp:
			// a load from a variable that lives in a cell (captured by a closure): every value stored into the cell,
			// in the function that owns it and in its closures (flow-insensitive)
			if x.Op == token.MUL && isStringType(x.Type()) {
				if al := cellOf(x.X); al != nil {
					n := 0
					for _, sv := range storesInto(al) {
						n++
						walk(sv, steps, seen)
					}
					if n > 0 {
						return
					}
				}
			}
		}
		out = append(out, chainResult{append([]chainStep{}, steps...), v})
	}
	walk(v, nil, map[ssa.Value]bool{})
	return out
}

func isStringType(t types.Type) bool {
	b, ok := t.Underlying().(*types.Basic)
	return ok && b.Info()&types.IsString != 0
}

// cellOf: the Alloc behind an address – directly, or through the free variable of a closure.
func cellOf(addr ssa.Value) *ssa.Alloc {
	switch a := addr.(type) {
	case *ssa.Alloc:
		return a
	case *ssa.FreeVar:
		fn := a.Parent()
		if fn == nil || fn.Parent() == nil {
			return nil
		}
		idx := -1
		for i, fv := range fn.FreeVars {
			if fv == a {
				idx = i
			}
		}
		if idx < 0 {
			return nil
		}
		for _, b := range fn.Parent().Blocks {
			for _, ins := range b.Instrs {
				if mc, ok := ins.(*ssa.MakeClosure); ok && mc.Fn == ssa.Value(fn) && idx < len(mc.Bindings) {
					return cellOf(mc.Bindings[idx])
				}
			}
		}
	}
	return nil
}

// storesInto: the values stored into the cell by its function and that function's closures.
func storesInto(al *ssa.Alloc) []ssa.Value {
	var out []ssa.Value
	var fns []*ssa.Function
	var add func(f *ssa.Function)
	add = func(f *ssa.Function) {
		fns = append(fns, f)
		for _, a := range f.AnonFuncs {
			add(a)
		}
	}
	if al.Parent() == nil {
		return nil
	}
	add(al.Parent())
	for _, f := range fns {
		for _, b := range f.Blocks {
			for _, ins := range b.Instrs {
				if st, ok := ins.(*ssa.Store); ok {
					if cellOf(st.Addr) == al {
						out = append(out, st.Val)
					}
				}
			}
		}
	}
	return out
}

// helperBind: parameters of new helpers → the arguments of the calls that were read through (filled by
// helperSuccessResults; over-approximate when one helper is called from several places).
var helperBind = map[*ssa.Parameter][]ssa.Value{}

// newHelperResult: v is (result idx of) a static call of a function the reference tree did not have.
func newHelperResult(v ssa.Value) (*ssa.Call, int) {
	idx := 0
	if ex, ok := v.(*ssa.Extract); ok {
		v, idx = ex.Tuple, ex.Index
	}
	call, ok := v.(*ssa.Call)
	if !ok || theProg == nil {
		return nil, 0
	}
	f := call.Call.StaticCallee()
	if f == nil || len(f.Blocks) == 0 {
		return nil, 0
	}
	if obj, isFn := f.Object().(*types.Func); isFn && theProg.newHelpers[obj] {
		return call, idx
	}
	return nil, 0
}

// helperSuccessResults: result idx of every return of the helper that is not a failure return (a failure return hands
// back a non-nil-constant error / a false constant as its last result together with a zero value); binds the
// helper's parameters to the call's arguments.
func helperSuccessResults(call *ssa.Call, idx int) []ssa.Value {
	f := call.Call.StaticCallee()
	args := call.Call.Args
	for i, prm := range f.Params {
		if i < len(args) {
			dup := false
			for _, a := range helperBind[prm] {
				if a == args[i] {
					dup = true
				}
			}
			if !dup {
				helperBind[prm] = append(helperBind[prm], args[i])
			}
		}
	}
	var out []ssa.Value
	for _, r := range returnsOf(f) {
		if idx >= len(r.Results) {
			continue
		}
		if n := len(r.Results); n >= 2 && idx != n-1 {
			last := r.Results[n-1]
			failed := false
			if isErrorType(last.Type()) && !isNilConst(last) {
				failed = true
			}
			if c, ok := last.(*ssa.Const); ok && c.Value != nil && c.Value.ExactString() == "false" {
				failed = true
			}
			if c, ok := r.Results[idx].(*ssa.Const); failed && ok && (c.Value == nil || c.Value.ExactString() == `""` || c.Value.ExactString() == "0") {
				continue
			}
		}
		out = append(out, r.Results[idx])
	}
	return out
}

// concatPartsAlts: concatParts for every way the value can be produced when it is the result of a new helper
// (`return join(mbox, domain), nil` with a helper that has one return per shape).
func concatPartsAlts(v ssa.Value) [][]ssa.Value {
	if call, idx := newHelperResult(v); call != nil && isStringType(v.Type()) {
		var out [][]ssa.Value
		for _, rv := range helperSuccessResults(call, idx) {
			out = append(out, concatPartsAlts(rv)...)
		}
		if len(out) > 0 {
			return out
		}
	}
	if b, ok := v.(*ssa.BinOp); ok && b.Op == token.ADD && isStringType(b.Type()) {
		var out [][]ssa.Value
		for _, l := range concatPartsAlts(b.X) {
			for _, r := range concatPartsAlts(b.Y) {
				out = append(out, append(append([]ssa.Value{}, l...), r...))
			}
		}
		return out
	}
	return [][]ssa.Value{{v}}
}

// concatParts flattens a chain of string + operations into its operands.
func concatParts(v ssa.Value) []ssa.Value {
	if b, ok := v.(*ssa.BinOp); ok && b.Op == token.ADD && isStringType(b.Type()) {
		return append(concatParts(b.X), concatParts(b.Y)...)
	}
	return []ssa.Value{v}
}

// returnsOf lists the Return instructions of f.
func returnsOf(f *ssa.Function) []*ssa.Return {
	var out []*ssa.Return
	for _, b := range f.Blocks {
		for _, ins := range b.Instrs {
			if r, ok := ins.(*ssa.Return); ok {
				out = append(out, r)
			}
		}
	}
	return out
}

func isNilConst(v ssa.Value) bool {
	c, ok := v.(*ssa.Const)
	return ok && c.IsNil()
}

// phiEdgeKnownEmpty: edge i of phi comes from a block that branches on `e == ""` / `e != ""` for the very
// edge value e, taking the equal side.
func phiEdgeKnownEmpty(phi *ssa.Phi, i int) bool {
	pred := phi.Block().Preds[i]
	if len(pred.Instrs) == 0 {
		return false
	}
	ifi, ok := pred.Instrs[len(pred.Instrs)-1].(*ssa.If)
	if !ok {
		return false
	}
	b, ok := ifi.Cond.(*ssa.BinOp)
	if !ok || (b.Op != token.EQL && b.Op != token.NEQ) {
		return false
	}
	e := phi.Edges[i]
	isEmpty := func(v ssa.Value) bool {
		c, ok := v.(*ssa.Const)
		return ok && c.Value != nil && c.Value.ExactString() == `""`
	}
	if !((b.X == e && isEmpty(b.Y)) || (b.Y == e && isEmpty(b.X))) {
		return false
	}
	eqSucc := 0
	if b.Op == token.NEQ {
		eqSucc = 1
	}
	return pred.Succs[eqSucc] == phi.Block()
}

// phiEdgeFailed: edge i of phi is only taken when an error value e is non-nil (the branch that leads to the edge
// – through blocks with a single predecessor – tested e against nil and took the non-nil side), that same e is
// edge i of a sibling error phi E of the block, and E is tested against nil later in the function. Success returns
// (`return v, nil` after `if E != nil { return …, E }`) never see the value of such an edge.
func phiEdgeFailed(phi *ssa.Phi, i int) bool {
	blk := phi.Block()
	// non-nil error values known on the edge
	known := map[ssa.Value]bool{}
	cur := blk.Preds[i]
	next := blk
	for depth := 0; depth < 6 && cur != nil; depth++ {
		if len(cur.Instrs) > 0 {
			if ifi, ok := cur.Instrs[len(cur.Instrs)-1].(*ssa.If); ok {
				if b, isB := ifi.Cond.(*ssa.BinOp); isB && (b.Op == token.EQL || b.Op == token.NEQ) {
					var e ssa.Value
					if isNilConst(b.Y) {
						e = b.X
					} else if isNilConst(b.X) {
						e = b.Y
					}
					if e != nil && isErrorType(e.Type()) {
						nonNilSucc := 0
						if b.Op == token.EQL {
							nonNilSucc = 1
						}
						if len(cur.Succs) == 2 && cur.Succs[nonNilSucc] == next && cur.Succs[1-nonNilSucc] != next {
							known[e] = true
						}
					}
				}
			}
		}
		if len(cur.Preds) != 1 {
			break
		}
		next, cur = cur, cur.Preds[0]
	}
	if len(known) == 0 {
		return false
	}
	for _, ins := range blk.Instrs {
		sib, ok := ins.(*ssa.Phi)
		if !ok {
			break
		}
		if sib == phi || !isErrorType(sib.Type()) || !known[sib.Edges[i]] {
			continue
		}
		// E is tested against nil somewhere
		for _, ref := range *sib.Referrers() {
			if b, isB := ref.(*ssa.BinOp); isB && (b.Op == token.EQL || b.Op == token.NEQ) && (isNilConst(b.X) || isNilConst(b.Y)) {
				return true
			}
		}
	}
	return false
}

// ssaCone: fn, its function literals, and – transitively – the functions the reference tree did not have that they
// call statically (a new helper is read as part of its callers; the SSA form is built from the trees as written, so
// the rules that work on it follow such helpers explicitly).
func (p *Prog) ssaCone(fn *ssa.Function) []*ssa.Function {
	var out []*ssa.Function
	seen := map[*ssa.Function]bool{}
	var add func(f *ssa.Function)
	add = func(f *ssa.Function) {
		if f == nil || seen[f] || f.Blocks == nil {
			return
		}
		seen[f] = true
		out = append(out, f)
		for _, a := range f.AnonFuncs {
			add(a)
		}
		for _, b := range f.Blocks {
			for _, ins := range b.Instrs {
				ci, ok := ins.(ssa.CallInstruction)
				if !ok {
					continue
				}
				callee := ci.Common().StaticCallee()
				if callee == nil {
					continue
				}
				if obj, isFn := callee.Object().(*types.Func); isFn && p.newHelpers[obj] {
					add(callee)
				}
			}
		}
	}
	add(fn)
	return out
}
